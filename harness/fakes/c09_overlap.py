"""C09 extension — "the result of a call is a function of its arguments", also for calls that overlap in time.

Two (or more) complete pipeline calls (match -> estimate -> solve) for DIFFERENT rooms run in threads under a baton:
exactly one thread runs at any time and the baton can change hands only at gate points, which are the places where the
library iterates the containers it was GIVEN: the measurement list (matcher), the list of matched samples (estimator:
once in _find_solutions, once in _angles_to_poses) and every sample's angles_calibrated dict (estimator and solver).
No library internals are patched: the library only sees list / dict subclasses.  The execution is therefore
deterministic for a given pattern, and on stateless code every call must return bit-identical results to the same call
made alone.  cflib is imported lazily from the tree under test."""
import random
import threading


class Baton:
    def __init__(self, n, pattern, wait_s=60.0):
        self.cv = threading.Condition()
        self.n = n
        self.turn = 0
        self.done = [False] * n
        self.count = 0
        self.pattern = pattern
        self.wait_s = wait_s
        self.broken = False
        self.trace = []
        kind = pattern[0]
        self._rng = random.Random(pattern[1]) if kind == 'seed' else None

    def _yield_here(self, kind):
        p = self.pattern
        k = self.count
        self.count += 1
        if p[0] == 'every':
            return k % p[1] == 0
        if p[0] == 'lists':            # only where a list is iterated (measurements, matched samples)
            return kind == 'list'
        if p[0] == 'seed':
            return self._rng.random() < 0.35
        return False

    def _next(self, i):
        for d in range(1, self.n):
            j = (i + d) % self.n
            if not self.done[j]:
                return j
        return None

    def begin(self, i):
        with self.cv:
            if not self.cv.wait_for(lambda: self.turn == i or self.broken, timeout=self.wait_s):
                self.broken = True
                self.cv.notify_all()

    def gate(self, i, kind):
        with self.cv:
            if self.broken or not self._yield_here(kind):
                return
            j = self._next(i)
            if j is None:
                return
            if len(self.trace) < 200:
                self.trace.append((i, kind))
            self.turn = j
            self.cv.notify_all()
            if not self.cv.wait_for(lambda: self.turn == i or self.broken, timeout=self.wait_s):
                self.broken = True
                self.cv.notify_all()

    def end(self, i):
        with self.cv:
            self.done[i] = True
            j = self._next(i)
            if j is not None:
                self.turn = j
            self.cv.notify_all()


class GateList(list):
    def __init__(self, items, baton, who):
        list.__init__(self, items)
        self._baton, self._who = baton, who

    def __iter__(self):
        self._baton.gate(self._who, 'list')
        return list.__iter__(self)


class GateDict(dict):
    def __init__(self, items, baton, who):
        dict.__init__(self, items)
        self._baton, self._who = baton, who

    def items(self):
        self._baton.gate(self._who, 'dict')
        return dict.items(self)

    def keys(self):
        self._baton.gate(self._who, 'dict')
        return dict.keys(self)

    def values(self):
        self._baton.gate(self._who, 'dict')
        return dict.values(self)

    def __iter__(self):
        self._baton.gate(self._who, 'dict')
        return dict.__iter__(self)


def _snapshot(guess, cleaned, sol):
    import numpy as np

    def pose(p):
        return [np.array(p.rot_matrix, dtype=float).ravel().tolist(), np.array(p.translation, dtype=float).ravel().tolist()]
    return {'outcome': 'ok', 'kept': [float(s.timestamp) for s in cleaned],
            'guess_bs': {int(k): pose(v) for k, v in guess.bs_poses.items()},
            'guess_cf': [pose(v) for v in guess.cf_poses],
            'bs': {int(k): pose(v) for k, v in sol.bs_poses.items()},
            'cf': [pose(v) for v in sol.cf_poses], 'success': bool(sol.success)}


def pipeline(room, baton=None, who=0, ms=None):
    """The whole pipeline for one room; containers are gated when a baton is given; `ms` = measurements built by the
    caller (reuse histories) instead of fresh ones."""
    import warnings
    from fakes import c09_rooms as R
    from cflib.localization.lighthouse_geometry_solver import LighthouseGeometrySolver
    from cflib.localization.lighthouse_initial_estimator import LighthouseInitialEstimator
    from cflib.localization.lighthouse_sample_matcher import LighthouseSampleMatcher
    from cflib.localization.lighthouse_types import LhDeck4SensorPositions
    with warnings.catch_warnings():
        warnings.simplefilter('ignore')
        try:
            if ms is None:
                ms = R.measurements(room)
            if baton is not None:
                ms = GateList(ms, baton, who)
            matched = LighthouseSampleMatcher.match(ms, max_time_diff=room.get('max_time_diff', 0.02),
                                                    min_nr_of_bs_in_match=room.get('min_bs', 2))
            if baton is not None:
                for s in matched:
                    s.angles_calibrated = GateDict(s.angles_calibrated, baton, who)
                matched = GateList(matched, baton, who)
            guess, cleaned = LighthouseInitialEstimator.estimate(matched, LhDeck4SensorPositions.positions)
            sol = LighthouseGeometrySolver.solve(guess, cleaned, LhDeck4SensorPositions.positions)
            return _snapshot(guess, cleaned, sol)
        except Exception as e:  # noqa
            return {'outcome': 'raised', 'exc': type(e).__name__, 'msg': str(e)[:160]}


def run_overlapped(rooms, pattern):
    baton = Baton(len(rooms), pattern)
    results = [None] * len(rooms)

    def work(i):
        baton.begin(i)
        try:
            results[i] = pipeline(rooms[i], baton, i)
        finally:
            baton.end(i)
    ths = [threading.Thread(target=work, args=(i,), daemon=True) for i in range(len(rooms))]
    for t in ths:
        t.start()
    for t in ths:
        t.join(timeout=180)
    return results, {'gates': baton.count, 'hand_overs': len(baton.trace), 'broken': baton.broken}


def differences(a, b, tol=1e-12):
    """Human-readable differences between two pipeline snapshots (empty list = same result)."""
    import numpy as np
    if a is None or b is None:
        return ['no result (thread did not finish)']
    if a['outcome'] != b['outcome']:
        return ['alone: %s, overlapped: %s' % (_short(a), _short(b))]
    if a['outcome'] == 'raised':
        return [] if (a['exc'], a['msg']) == (b['exc'], b['msg']) else ['alone raises %s(%s), overlapped %s(%s)' % (
            a['exc'], a['msg'], b['exc'], b['msg'])]
    out = []
    if a['kept'] != b['kept']:
        out.append('samples kept: alone %d, overlapped %d' % (len(a['kept']), len(b['kept'])))
    if a['success'] != b['success']:
        out.append('solver success: alone %s, overlapped %s' % (a['success'], b['success']))
    for key in ('guess_bs', 'bs'):
        if sorted(a[key]) != sorted(b[key]):
            out.append('%s stations: alone %s, overlapped %s' % (key, sorted(a[key]), sorted(b[key])))
        else:
            d = max([float(np.max(np.abs(np.array(a[key][k][j]) - np.array(b[key][k][j])))) for k in a[key] for j in (0, 1)]
                    or [0.0])
            if not d <= tol:
                out.append('%s poses differ by up to %.3g' % (key, d))
    for key in ('guess_cf', 'cf'):
        if len(a[key]) != len(b[key]):
            out.append('%s: alone %d poses, overlapped %d' % (key, len(a[key]), len(b[key])))
        else:
            d = max([float(np.max(np.abs(np.array(x[j]) - np.array(y[j])))) for x, y in zip(a[key], b[key]) for j in (0, 1)]
                    or [0.0])
            if not d <= tol:
                out.append('%s poses differ by up to %.3g' % (key, d))
    return out


def _short(r):
    if r['outcome'] == 'raised':
        return 'raises %s(%s)' % (r['exc'], r['msg'])
    return 'answers %d stations, %d samples kept' % (len(r['bs']), len(r['kept']))


def relabel(room, new_ids):
    """The same room with its stations renamed (in sorted order) to new_ids."""
    old = sorted(int(k) for k in room['bs'])
    mp = dict(zip(old, new_ids))
    out = dict(room)
    out['bs'] = {str(mp[int(k)]): v for k, v in room['bs'].items()}
    out['vis'] = [[mp[int(b)] for b in s] for s in room['vis']]
    return out


def check(case):
    """case: {'rooms': [roomA, roomB, ...], 'pattern': [...]}.  Returns None or (class, expected, observed, detail)."""
    rooms = case['rooms']
    pattern = tuple(case['pattern'])
    alone = [pipeline(r) for r in rooms]
    # sequential history: the first call again, after the others
    again = pipeline(rooms[0])
    d = differences(alone[0], again)
    if d:
        return ('result_depends_on_call_history', 'the same result for the same arguments',
                {'first_call_then_again_after_%d_other_calls' % (len(rooms) - 1): d}, 'sequential calls, no threads')
    over, info = run_overlapped(rooms, pattern)
    obs = {}
    for i, (a, b) in enumerate(zip(alone, over)):
        d = differences(a, b)
        if d:
            obs['call_%d' % i] = d
    if obs:
        obs['schedule'] = info
        return ('overlapping_calls_interfere', 'every call returns exactly what it returns when made alone', obs,
                '%d pipeline calls for different rooms in %d threads, one running at a time, baton handed over %d times '
                'at points where the library iterates the containers it was given (pattern %s)' % (
                    len(rooms), len(rooms), info['hand_overs'], list(pattern)))
    if info['broken']:
        return ('overlap_harness_timeout', 'threads finish', info, 'a thread waited more than 60 s for the baton')
    return None


# ------------------------------------------------------------------ reuse history: the same LighthouseBsVectors refilled
REFILL_OPS = ('item', 'slice', 'clear_extend')


def same_shape_room(room_a, room_b):
    """room_b's geometry (stations renamed to room_a's ids) measured with room_a's visibility / timing pattern, so that
    both rooms produce the same number of measurements, station by station."""
    b = relabel(room_b, sorted(int(x) for x in room_a['bs']))
    n = min(len(room_a['cf']), len(b['cf']))
    out = dict(b)
    out['cf'] = b['cf'][:n]
    for k in ('vis', 'dt', 't0'):
        out[k] = [list(x) if isinstance(x, list) else x for x in room_a[k][:n]]
    return out


def refill(container, new_vectors, op):
    """Replace the contents of a LighthouseBsVectors IN PLACE (same object, same length)."""
    new_vectors = list(new_vectors)
    if op == 'item':
        for i, v in enumerate(new_vectors):
            container[i] = v
    elif op == 'slice':
        container[:] = new_vectors
    else:
        container.clear()
        container.extend(new_vectors)


def _truth_errors(snap, room):
    """Worst (position, rotation) error of the station poses of a snapshot against the truth of `room`
    (frame of its first pose)."""
    import numpy as np
    from fakes import c09_rooms as R
    from cflib.localization.lighthouse_types import Pose
    if snap is None or snap.get('outcome') != 'ok':
        return None
    bs_t, _cf = R.ground_truth(room, 0)
    worst = [0.0, 0.0]
    for k, (rm, t) in snap['bs'].items():
        if int(k) in bs_t:
            e = R.pose_error(bs_t[int(k)], Pose(np.array(rm).reshape(3, 3), np.array(t)))
            worst = [max(worst[0], e[0]), max(worst[1], e[1])]
    return worst


def check_reuse(case):
    """case: {'rooms': [A, B], 'op': refill operation}.  Pipeline on A; the SAME LighthouseBsVectors objects refilled in
    place with B's vectors; pipeline on B with those containers must return exactly what it returns with fresh ones."""
    from fakes import c09_rooms as R
    from cflib.localization.lighthouse_types import LhMeasurement
    a = case['rooms'][0]
    b = same_shape_room(a, case['rooms'][1])
    ms_a = R.measurements(a)
    first = pipeline(a, ms=ms_a)
    fresh_b = R.measurements(b)
    if len(fresh_b) != len(ms_a) or any(len(x.angles) != len(y.angles) for x, y in zip(ms_a, fresh_b)):
        return None
    reused = []
    for old, new in zip(ms_a, fresh_b):
        refill(old.angles, new.angles, case['op'])
        reused.append(LhMeasurement(timestamp=new.timestamp, base_station_id=new.base_station_id, angles=old.angles))
    second = pipeline(b, ms=reused)
    alone = pipeline(b)
    d = differences(alone, second)
    if d:
        return ('reused_measurement_containers_give_other_answer',
                'the answer for the measurements the containers hold NOW (identical to fresh containers)',
                {'differences_to_fresh_containers': d,
                 'station_error_vs_truth_of_current_room': _truth_errors(second, b),
                 'station_error_vs_truth_of_EARLIER_room': _truth_errors(second, dict(a, cf=a['cf'])),
                 'first_run': _short(first), 'second_run': _short(second) if second else None},
                'pipeline run on room A, then the same LighthouseBsVectors objects refilled in place (%s) with the '
                'measurements of room B (same count) and the pipeline run again' % case['op'])
    return None


def check_container(case):
    """LighthouseBsVectors.projection_pair_list() / angle_list() are functions of the CURRENT contents.
    case: {'a': [[h, v]...], 'steps': [['read'] | ['item', i, [h, v]] | ['slice', [[h, v]...]] | ['clear_extend', [...]] |
    ['append', [h, v]] | ['pop'] | ['reverse']]}; after every step both functions are compared with the formulas."""
    import math
    import numpy as np
    from cflib.localization.lighthouse_bs_vector import LighthouseBsVector, LighthouseBsVectors

    def vec(p):
        return LighthouseBsVector(p[0], p[1])
    c = LighthouseBsVectors([vec(p) for p in case['a']])
    cur = [list(p) for p in case['a']]
    for k, st in enumerate(case['steps']):
        if st[0] == 'item':
            c[st[1]] = vec(st[2])
            cur[st[1]] = list(st[2])
        elif st[0] == 'slice':
            c[:] = [vec(p) for p in st[1]]
            cur = [list(p) for p in st[1]]
        elif st[0] == 'clear_extend':
            c.clear()
            c.extend([vec(p) for p in st[1]])
            cur = [list(p) for p in st[1]]
        elif st[0] == 'append':
            c.append(vec(st[1]))
            cur.append(list(st[1]))
        elif st[0] == 'pop':
            c.pop()
            cur.pop()
        elif st[0] == 'reverse':
            c.reverse()
            cur.reverse()
        try:
            proj = np.asarray(c.projection_pair_list(), dtype=float)
            ang = np.asarray(c.angle_list(), dtype=float)
        except Exception as e:  # noqa
            return ('container_function_raises', 'arrays', '%s: %s' % (type(e).__name__, str(e)[:100]), 'step %d %s' % (k, st[0]))
        want_p = np.array([[float(np.float32(math.tan(h))), float(np.float32(math.tan(v)))] for h, v in cur]).reshape(-1, 2)
        want_a = np.array([x for p in cur for x in p], dtype=float)
        if proj.shape != want_p.shape or ang.shape != want_a.shape or (
                proj.size and float(np.max(np.abs(proj - want_p))) > 1e-6) or (
                ang.size and float(np.max(np.abs(ang - want_a))) > 1e-12):
            return ('container_functions_not_function_of_contents',
                    {'projection_pair_list': want_p.tolist(), 'angle_list': want_a.tolist()},
                    {'projection_pair_list': proj.tolist(), 'angle_list': ang.tolist()},
                    'after step %d (%s) of %s; contents now %s' % (k, st[0], [s[0] for s in case['steps']], cur))
    return None
