"""C09 extension — "the result of a call is a function of its arguments", also for calls that overlap in time.

Two (or more) complete pipeline calls (match -> estimate -> solve) for DIFFERENT rooms run in threads under a baton:
exactly one thread runs at any time and the baton can change hands only at gate points, which are the places where the
library iterates the containers it was GIVEN: the measurement list (matcher), the list of matched samples (estimator:
once in _find_solutions, once in _angles_to_poses) and every sample's angles_calibrated dict (estimator and solver).
No library internals are patched: the library only sees list / dict subclasses.  The execution is therefore
deterministic for a given pattern, and on stateless code every call must return bit-identical results to the same call
made alone.  cflib is imported lazily from the tree under test."""
import random
import threading


class Baton:
    def __init__(self, n, pattern, wait_s=60.0):
        self.cv = threading.Condition()
        self.n = n
        self.turn = 0
        self.done = [False] * n
        self.count = 0
        self.pattern = pattern
        self.wait_s = wait_s
        self.broken = False
        self.trace = []
        kind = pattern[0]
        self._rng = random.Random(pattern[1]) if kind == 'seed' else None

    def _yield_here(self, kind):
        p = self.pattern
        k = self.count
        self.count += 1
        if p[0] == 'every':
            return k % p[1] == 0
        if p[0] == 'lists':            # only where a list is iterated (measurements, matched samples)
            return kind == 'list'
        if p[0] == 'seed':
            return self._rng.random() < 0.35
        return False

    def _next(self, i):
        for d in range(1, self.n):
            j = (i + d) % self.n
            if not self.done[j]:
                return j
        return None

    def begin(self, i):
        with self.cv:
            if not self.cv.wait_for(lambda: self.turn == i or self.broken, timeout=self.wait_s):
                self.broken = True
                self.cv.notify_all()

    def gate(self, i, kind):
        with self.cv:
            if self.broken or not self._yield_here(kind):
                return
            j = self._next(i)
            if j is None:
                return
            if len(self.trace) < 200:
                self.trace.append((i, kind))
            self.turn = j
            self.cv.notify_all()
            if not self.cv.wait_for(lambda: self.turn == i or self.broken, timeout=self.wait_s):
                self.broken = True
                self.cv.notify_all()

    def end(self, i):
        with self.cv:
            self.done[i] = True
            j = self._next(i)
            if j is not None:
                self.turn = j
            self.cv.notify_all()


class GateList(list):
    def __init__(self, items, baton, who):
        list.__init__(self, items)
        self._baton, self._who = baton, who

    def __iter__(self):
        self._baton.gate(self._who, 'list')
        return list.__iter__(self)


class GateDict(dict):
    def __init__(self, items, baton, who):
        dict.__init__(self, items)
        self._baton, self._who = baton, who

    def items(self):
        self._baton.gate(self._who, 'dict')
        return dict.items(self)

    def keys(self):
        self._baton.gate(self._who, 'dict')
        return dict.keys(self)

    def values(self):
        self._baton.gate(self._who, 'dict')
        return dict.values(self)

    def __iter__(self):
        self._baton.gate(self._who, 'dict')
        return dict.__iter__(self)


def _snapshot(guess, cleaned, sol):
    import numpy as np

    def pose(p):
        return [np.array(p.rot_matrix, dtype=float).ravel().tolist(), np.array(p.translation, dtype=float).ravel().tolist()]
    return {'outcome': 'ok', 'kept': [float(s.timestamp) for s in cleaned],
            'guess_bs': {int(k): pose(v) for k, v in guess.bs_poses.items()},
            'guess_cf': [pose(v) for v in guess.cf_poses],
            'bs': {int(k): pose(v) for k, v in sol.bs_poses.items()},
            'cf': [pose(v) for v in sol.cf_poses], 'success': bool(sol.success)}


def pipeline(room, baton=None, who=0):
    """The whole pipeline for one room; containers are gated when a baton is given."""
    import warnings
    from fakes import c09_rooms as R
    from cflib.localization.lighthouse_geometry_solver import LighthouseGeometrySolver
    from cflib.localization.lighthouse_initial_estimator import LighthouseInitialEstimator
    from cflib.localization.lighthouse_sample_matcher import LighthouseSampleMatcher
    from cflib.localization.lighthouse_types import LhDeck4SensorPositions
    with warnings.catch_warnings():
        warnings.simplefilter('ignore')
        try:
            ms = R.measurements(room)
            if baton is not None:
                ms = GateList(ms, baton, who)
            matched = LighthouseSampleMatcher.match(ms, max_time_diff=room.get('max_time_diff', 0.02),
                                                    min_nr_of_bs_in_match=room.get('min_bs', 2))
            if baton is not None:
                for s in matched:
                    s.angles_calibrated = GateDict(s.angles_calibrated, baton, who)
                matched = GateList(matched, baton, who)
            guess, cleaned = LighthouseInitialEstimator.estimate(matched, LhDeck4SensorPositions.positions)
            sol = LighthouseGeometrySolver.solve(guess, cleaned, LhDeck4SensorPositions.positions)
            return _snapshot(guess, cleaned, sol)
        except Exception as e:  # noqa
            return {'outcome': 'raised', 'exc': type(e).__name__, 'msg': str(e)[:160]}


def run_overlapped(rooms, pattern):
    baton = Baton(len(rooms), pattern)
    results = [None] * len(rooms)

    def work(i):
        baton.begin(i)
        try:
            results[i] = pipeline(rooms[i], baton, i)
        finally:
            baton.end(i)
    ths = [threading.Thread(target=work, args=(i,), daemon=True) for i in range(len(rooms))]
    for t in ths:
        t.start()
    for t in ths:
        t.join(timeout=180)
    return results, {'gates': baton.count, 'hand_overs': len(baton.trace), 'broken': baton.broken}


def differences(a, b, tol=1e-12):
    """Human-readable differences between two pipeline snapshots (empty list = same result)."""
    import numpy as np
    if a is None or b is None:
        return ['no result (thread did not finish)']
    if a['outcome'] != b['outcome']:
        return ['alone: %s, overlapped: %s' % (_short(a), _short(b))]
    if a['outcome'] == 'raised':
        return [] if (a['exc'], a['msg']) == (b['exc'], b['msg']) else ['alone raises %s(%s), overlapped %s(%s)' % (
            a['exc'], a['msg'], b['exc'], b['msg'])]
    out = []
    if a['kept'] != b['kept']:
        out.append('samples kept: alone %d, overlapped %d' % (len(a['kept']), len(b['kept'])))
    if a['success'] != b['success']:
        out.append('solver success: alone %s, overlapped %s' % (a['success'], b['success']))
    for key in ('guess_bs', 'bs'):
        if sorted(a[key]) != sorted(b[key]):
            out.append('%s stations: alone %s, overlapped %s' % (key, sorted(a[key]), sorted(b[key])))
        else:
            d = max([float(np.max(np.abs(np.array(a[key][k][j]) - np.array(b[key][k][j])))) for k in a[key] for j in (0, 1)]
                    or [0.0])
            if not d <= tol:
                out.append('%s poses differ by up to %.3g' % (key, d))
    for key in ('guess_cf', 'cf'):
        if len(a[key]) != len(b[key]):
            out.append('%s: alone %d poses, overlapped %d' % (key, len(a[key]), len(b[key])))
        else:
            d = max([float(np.max(np.abs(np.array(x[j]) - np.array(y[j])))) for x, y in zip(a[key], b[key]) for j in (0, 1)]
                    or [0.0])
            if not d <= tol:
                out.append('%s poses differ by up to %.3g' % (key, d))
    return out


def _short(r):
    if r['outcome'] == 'raised':
        return 'raises %s(%s)' % (r['exc'], r['msg'])
    return 'answers %d stations, %d samples kept' % (len(r['bs']), len(r['kept']))


def relabel(room, new_ids):
    """The same room with its stations renamed (in sorted order) to new_ids."""
    old = sorted(int(k) for k in room['bs'])
    mp = dict(zip(old, new_ids))
    out = dict(room)
    out['bs'] = {str(mp[int(k)]): v for k, v in room['bs'].items()}
    out['vis'] = [[mp[int(b)] for b in s] for s in room['vis']]
    return out


def check(case):
    """case: {'rooms': [roomA, roomB, ...], 'pattern': [...]}.  Returns None or (class, expected, observed, detail)."""
    rooms = case['rooms']
    pattern = tuple(case['pattern'])
    alone = [pipeline(r) for r in rooms]
    # sequential history: the first call again, after the others
    again = pipeline(rooms[0])
    d = differences(alone[0], again)
    if d:
        return ('result_depends_on_call_history', 'the same result for the same arguments',
                {'first_call_then_again_after_%d_other_calls' % (len(rooms) - 1): d}, 'sequential calls, no threads')
    over, info = run_overlapped(rooms, pattern)
    obs = {}
    for i, (a, b) in enumerate(zip(alone, over)):
        d = differences(a, b)
        if d:
            obs['call_%d' % i] = d
    if obs:
        obs['schedule'] = info
        return ('overlapping_calls_interfere', 'every call returns exactly what it returns when made alone', obs,
                '%d pipeline calls for different rooms in %d threads, one running at a time, baton handed over %d times '
                'at points where the library iterates the containers it was given (pattern %s)' % (
                    len(rooms), len(rooms), info['hand_overs'], list(pattern)))
    if info['broken']:
        return ('overlap_harness_timeout', 'threads finish', info, 'a thread waited more than 60 s for the baton')
    return None
