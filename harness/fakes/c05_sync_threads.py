"""C05 — the real SyncLogger under threads, behind a deterministic gate.

Threads: the scheduler (main thread) plays the dispatcher (data packets into Log._new_packet_cb, the
cf.disconnected callback) and the user thread (connect / disconnect); every SyncLogger has a real consumer
thread that executes `sl.__next__()` on command.  Hand-over points:
  * `Queue.get()` called by a consumer: the thread reports 'inget' (it has passed the `_is_connected` test)
    and waits; the scheduler lets it take the head with the event ('op', i, 'get') — only when the queue
    is not empty (an empty queue = the consumer stays blocked, model observation ONoop);
  * the `put(DISCONNECT_EVENT)` at the end of `SyncLogger._disconnected`: deferred, executed by the event
    ('op', i, 'lost2') (so connect/next/get/samples can be scheduled between disconnect() and the put);
  * every packet.
The gate is installed on the queue object of every SyncLogger after construction (instance attributes `get`
/ `put` wrapping the original bound methods; no source change, works for any queue class).

Events (same vocabulary as coq/C05/SyncThreads.v `sev`):
  ('op', i, 'connect'|'disconnect'|'next'|'get'|'lost2')   ('sample', cfg, k)   ('lostall',)   ('linkup',)
  ('op', i, 'cbegin'|'ccfg'|'cend')   connect() of logger i step by step, executed by a real thread that is
      paused before its first add_config and after every config.start();  ('cfglose', i)  = one configuration
      step during whose CREATE send the driver reports the link loss (disconnected fires inside send_packet)
`Run.apply(ev)` returns [observation code] + state of every logger, as coq/C05/TieEnc.v `enc_sys_run`."""
import logging
import queue as _q
import struct
import threading

from fakes import c05_driver as drv

SENTINEL = 'DISCONNECT_EVENT'
TIMEOUT = 4


class _Abort(BaseException):
    pass


def install_gate(run, q, idx):
    """instrument the queue object of a SyncLogger (whatever class it is): instance attributes shadow the
    methods, the original bound methods do the work"""
    orig_get, orig_put = q.get, q.put

    def get(block=True, timeout=None):
        if threading.current_thread() is run.consumers[idx].thread:
            run.report.put(('inget', idx))
            cmd = run.consumers[idx].go.get()
            if cmd == 'abort':
                raise _Abort()
            return orig_get(False)
        return orig_get(block, timeout)

    def put(item, block=True, timeout=None):
        if run.defer and isinstance(item, str) and item == SENTINEL:
            run.pending[idx] += 1
            return
        orig_put(item, block, timeout)
    q.get = get
    q.put = put
    q.orig_put = orig_put


class _Consumer:
    def __init__(self, run, idx, sl):
        self.run, self.idx, self.sl = run, idx, sl
        self.cmd = _q.Queue()
        self.go = _q.Queue()
        self.inget = False
        self.thread = threading.Thread(target=self.loop, daemon=True, name='c05-consumer-%d' % idx)
        self.thread.start()

    def loop(self):
        while True:
            c = self.cmd.get()
            if c == 'quit':
                return
            try:
                item = self.sl.__next__()
                self.run.report.put(('yield', self.idx, item))
            except StopIteration:
                self.run.report.put(('stop', self.idx))
            except _Abort:
                self.run.report.put(('aborted', self.idx))
                return
            except BaseException as e:  # noqa
                self.run.report.put(('error', self.idx, repr(e)))


class _Connector:
    """the user thread inside SyncLogger.connect(), paused at the gates"""

    def __init__(self, run, idx, sl):
        self.run, self.idx, self.sl = run, idx, sl
        self.go = _q.Queue()
        self.active = False
        self.first = False
        self.pos = 0
        self.thread = None

    def start(self):
        self.active, self.first, self.pos = True, True, 0
        self.thread = threading.Thread(target=self.loop, daemon=True, name='c05-connect-%d' % self.idx)
        self.thread.start()

    def gate(self, tag):
        self.run.report.put(('cgate', self.idx, tag))
        if self.go.get() == 'abort':
            raise _Abort()

    def loop(self):
        try:
            self.sl.connect()
            self.run.report.put(('cdone', self.idx, 0))
        except _Abort:
            self.run.report.put(('aborted', self.idx))
        except Exception as e:  # noqa
            self.run.report.put(('cdone', self.idx, 3 if str(e) == 'Already connected' else
                                 (5 if isinstance(e, AttributeError) else 98)))


class Run:
    """loggers: list of lists of config numbers, e.g. [[0], [1, 2]]; `foreign`: config numbers added to Log
    and started without any SyncLogger; every config has one uint32 variable named name_str(config)."""

    def __init__(self, loggers, foreign=(3,), nconfigs=5):
        from cflib.crazyflie.log import LogConfig
        import cflib.crazyflie.syncLogger as slmod
        self.im = drv.Impl()
        self.nconfigs = nconfigs
        self.toc = [[c, 100 + c, 3] for c in range(nconfigs)]
        self._session()
        self.cfgs = []
        for c in range(nconfigs):
            cfg = LogConfig('c%d' % c, 100)
            cfg.add_variable(drv.name_str(c), 'uint32_t')
            self.cfgs.append(cfg)
        self.foreign = list(foreign)
        for c in self.foreign:
            self.im.log.add_config(self.cfgs[c])
            self.cfgs[c].start()
        self._acks()
        self.report = _q.Queue()
        self.defer = False
        self.pending = [0] * len(loggers)
        self.own = [list(l) for l in loggers]
        self.sls = []
        self.consumers = []
        for i, l in enumerate(loggers):
            confs = [self.cfgs[c] for c in l]
            sl = slmod.SyncLogger(self.im.cf, confs if len(confs) != 1 else confs[0])
            install_gate(self, sl._queue, i)
            self.sls.append(sl)
        for i, sl in enumerate(self.sls):
            self.consumers.append(_Consumer(self, i, sl))
        self.connectors = [_Connector(self, i, sl) for i, sl in enumerate(self.sls)]
        self.lose_in_send = None
        self.lost_triggered = False
        log = self.im.log
        orig_add = log.add_config

        def hooked_add(cfg):
            for cn in self.connectors:
                if cn.thread is threading.current_thread() and cn.first:
                    cn.first = False
                    cn.gate('begun')
            return orig_add(cfg)
        log.add_config = hooked_add
        for l in self.own:
            for c in l:
                self._hook_start(self.cfgs[c])
        cf = self.im.cf
        orig_send = cf.send_packet

        def hooked_send(pk, expected_reply=(), resend=False, timeout=0.2):
            orig_send(pk, expected_reply, resend, timeout)
            i = self.lose_in_send
            if i is not None and self.connectors[i].thread is threading.current_thread() \
                    and pk.port == 5 and pk.channel == 1 and len(pk.data) and pk.data[0] in (0, 6):
                self.lose_in_send = None
                self.lost_triggered = True
                self._lostall()              # the driver reports the link error from the sending thread
        cf.send_packet = hooked_send

    def _hook_start(self, cfg):
        orig = cfg.start

        def hooked():
            orig()
            for cn in self.connectors:
                if cn.thread is threading.current_thread():
                    cn.gate('cfgdone')
        cfg.start = hooked

    def _lostall(self):
        self.im.cf.link = None
        self.defer = True
        try:
            self.im.cf.disconnected.call('uri')
        finally:
            self.defer = False

    def _session(self):
        im = self.im
        im.do(['refresh', True])
        im.do(['pkt', 1, [5, 0, 0]])
        im.do(['settoc', self.toc])

    def _resession(self):
        self._session()
        for f in self.foreign:
            self.im.log.add_config(self.cfgs[f])
            self.cfgs[f].start()
        self._acks()

    def _acks(self):
        """the device acknowledges everything that was sent to the log settings channel"""
        im = self.im
        done = 0
        while done < len(im.cf.sent) and done < 400:
            port, chan, data, exp = im.cf.sent[done]
            done += 1
            if port == 5 and chan == 1 and len(data) >= 2 and data[0] in (0, 6, 3, 4, 2):
                im.do(['pkt', 1, [data[0], data[1], 0]])
        del im.cf.sent[:]

    def close(self):
        for cn in getattr(self, 'connectors', []):
            if cn.active:
                cn.go.put('abort')
                cn.thread.join(0.5)
        for c in self.consumers:
            if c.inget:
                c.go.put('abort')
            else:
                c.cmd.put('quit')
        for c in self.consumers:
            c.thread.join(0.5 if getattr(self, 'dead', False) else TIMEOUT)

    # ---- events
    def _wait(self):
        if getattr(self, 'dead', False):
            return ('timeout',)
        try:
            return self.report.get(timeout=TIMEOUT)
        except _q.Empty:
            self.dead = True          # a consumer is blocked outside the gate: stop scheduling, report 98
            return ('timeout',)

    def _result(self, i, r):
        c = self.consumers[i]
        if r[0] == 'inget':
            c.inget = True
            return 2
        c.inget = False
        if r[0] == 'stop':
            return 1
        if r[0] == 'yield':
            ts, data, blk = r[2]
            names = [drv.name_str(k) for k in self.own[i]]
            if len(data) != 1 or list(data.keys())[0] not in names or ts != 0x030201:
                return 97
            nm = list(data.keys())[0]
            if blk is not self.cfgs[self.own[i][names.index(nm)]]:
                return 96
            return 10 + data[nm]
        return 98

    def do(self, ev):
        im = self.im
        k = ev[0]
        if k == 'sample':
            cfg = self.cfgs[ev[1]]
            if not any(b is cfg for b in im.log.log_blocks):
                return 0                      # not in log_blocks: the device does not know such a block
            im.do(['pkt', 2, [cfg.id, 1, 2, 3] + list(struct.pack('<I', ev[2]))])
            return 0
        if k == 'lostall':
            self._lostall()
            return 0
        if k == 'linkup':
            if im.cf.link is None:
                self._resession()
            return 0
        if k == 'cfglose':
            i = ev[1]
            cn = self.connectors[i]
            if not cn.active or cn.pos >= len(self.own[i]):
                self._lostall()
                return 4
            self.lost_triggered = False
            self.lose_in_send = i if im.cf.link is not None else None
            cn.go.put('go')
            r = self._wait()
            self.lose_in_send = None
            if r[0] == 'cdone':
                cn.active = False
                if not self.lost_triggered:
                    self._lostall()
                del im.cf.sent[:]
                return r[2]
            if r[0] != 'cgate':
                return 98
            cn.pos += 1
            if not self.lost_triggered:
                self._lostall()              # nothing was sent (link already down): the loss follows the step
            del im.cf.sent[:]
            return 0
        i, op = ev[1], ev[2]
        sl = self.sls[i]
        c = self.consumers[i]
        cn = self.connectors[i]
        if op in ('connect', 'disconnect', 'cbegin') and cn.active:
            return 4                          # the user thread of this logger is inside connect()
        if op == 'cbegin':
            cn.start()
            r = self._wait()
            if r[0] == 'cgate':
                return 0
            cn.active = False
            return r[2] if r[0] == 'cdone' else 98
        if op == 'ccfg':
            if not cn.active or cn.pos >= len(self.own[i]):
                return 4
            cn.go.put('go')
            r = self._wait()
            if r[0] == 'cdone':
                cn.active = False             # connect() raised in this turn of its loop
                del im.cf.sent[:]
                return r[2]
            if r[0] != 'cgate':
                return 98
            cn.pos += 1
            if im.cf.link is not None:
                self._acks()
            else:
                del im.cf.sent[:]
            return 0
        if op == 'cend':
            if not cn.active or cn.pos < len(self.own[i]):
                return 4
            cn.go.put('go')
            r = self._wait()
            cn.active = False
            return 0 if r[0] == 'cdone' and r[2] == 0 else 98
        if op == 'connect':
            try:
                sl.connect()
            except Exception as e:  # noqa
                del im.cf.sent[:]
                return 3 if str(e) == 'Already connected' else (5 if isinstance(e, AttributeError) else 98)
            if im.cf.link is not None:
                self._acks()
            else:
                del im.cf.sent[:]
            return 0
        if op == 'disconnect':
            sl.disconnect()
            self._acks()
            return 0
        if op in ('next', 'get') and getattr(self, 'dead', False):
            return 98
        if op == 'next':
            if c.inget:
                return 4
            c.cmd.put('next')
            return self._result(i, self._wait())
        if op == 'get':
            if not c.inget or sl._queue.qsize() == 0:
                return 4
            c.go.put('go')
            return self._result(i, self._wait())
        if op == 'lost2':
            if self.pending[i] == 0:
                return 4
            self.pending[i] -= 1
            sl._queue.orig_put(SENTINEL)
            return 0
        raise ValueError(ev)

    def snapshot(self):
        out = []
        for i, sl in enumerate(self.sls):
            q = []
            for item in list(sl._queue.queue):
                if isinstance(item, str):
                    q.append(1)
                else:
                    q.append(10 + list(item[1].values())[0])
            cn = self.connectors[i]
            reg = int(sl._disconnected in self.im.cf.disconnected.callbacks)
            dreg = [int(sl._log_callback in self.cfgs[c].data_received_cb.callbacks) for c in self.own[i]]
            out += [int(sl._is_connected), int(self.consumers[i].inget), self.pending[i], reg,
                    cn.pos if cn.active else -1] + dreg + [0 if self.im.cf.link is None else 1] + \
                [int(self.cfgs[c].cf is not None) for c in self.own[i]] + \
                [int(any(b is self.cfgs[c] for b in self.im.log.log_blocks)) for c in self.own[i]] + [len(q)] + q
        return out

    def apply(self, ev):
        prev = logging.root.manager.disable
        logging.disable(logging.CRITICAL)
        try:
            code = self.do(ev)
        finally:
            logging.disable(prev)
        return [code] + self.snapshot()


def run_script(loggers, evs):
    r = Run(loggers)
    try:
        return [r.apply(e) for e in evs]
    finally:
        r.close()


# ---------------------------------------------------------------- Coq syntax
def coq_sev(ev):
    k = ev[0]
    if k == 'sample':
        return 'SSampleAll %d %d' % (ev[1], ev[2])
    if k == 'lostall':
        return 'SLostAll'
    if k == 'linkup':
        return 'SLinkUpAll'
    if k == 'cfglose':
        return 'SCfgLose %d' % ev[1]
    op = {'cbegin': 'TConnBegin', 'ccfg': 'TConnCfg', 'cend': 'TConnEnd', 'connect': 'TConnect', 'disconnect': 'TDisconnect', 'next': 'TNext', 'get': 'TGet', 'lost2': 'TLost2'}[ev[2]]
    return 'SOp %d %s' % (ev[1], op)


def coq_term(loggers, evs):
    init = '[' + '; '.join('tsl_init [' + '; '.join(str(c) for c in l) + ']' for l in loggers) + ']'
    return 'enc_sys_run %s [%s]' % (init, '; '.join(coq_sev(e) for e in evs))
