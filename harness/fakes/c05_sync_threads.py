"""C05 — the real SyncLogger under threads, behind a deterministic gate.

Threads: the scheduler (main thread) plays the dispatcher (data packets into Log._new_packet_cb, the
cf.disconnected callback) and the user thread (connect / disconnect); every SyncLogger has a real consumer
thread that executes `sl.__next__()` on command.  Hand-over points:
  * `Queue.get()` called by a consumer: the thread reports 'inget' (it has passed the `_is_connected` test)
    and waits; the scheduler lets it take the head with the event ('op', i, 'get') — only when the queue
    is not empty (an empty queue = the consumer stays blocked, model observation ONoop);
  * the `put(DISCONNECT_EVENT)` at the end of `SyncLogger._disconnected`: deferred, executed by the event
    ('op', i, 'lost2') (so connect/next/get/samples can be scheduled between disconnect() and the put);
  * every packet.
The gate is installed on the queue object of every SyncLogger after construction (instance attributes `get`
/ `put` wrapping the original bound methods; no source change, works for any queue class).

Events (same vocabulary as coq/C05/SyncThreads.v `sev`):
  ('op', i, 'connect'|'disconnect'|'next'|'get'|'lost2')   ('sample', cfg, k)   ('lostall',)
`Run.apply(ev)` returns [observation code] + state of every logger, as coq/C05/TieEnc.v `enc_sys_run`."""
import logging
import queue as _q
import struct
import threading

from fakes import c05_driver as drv

SENTINEL = 'DISCONNECT_EVENT'
TIMEOUT = 4


class _Abort(BaseException):
    pass


def install_gate(run, q, idx):
    """instrument the queue object of a SyncLogger (whatever class it is): instance attributes shadow the
    methods, the original bound methods do the work"""
    orig_get, orig_put = q.get, q.put

    def get(block=True, timeout=None):
        if threading.current_thread() is run.consumers[idx].thread:
            run.report.put(('inget', idx))
            cmd = run.consumers[idx].go.get()
            if cmd == 'abort':
                raise _Abort()
            return orig_get(False)
        return orig_get(block, timeout)

    def put(item, block=True, timeout=None):
        if run.defer and isinstance(item, str) and item == SENTINEL:
            run.pending[idx] += 1
            return
        orig_put(item, block, timeout)
    q.get = get
    q.put = put
    q.orig_put = orig_put


class _Consumer:
    def __init__(self, run, idx, sl):
        self.run, self.idx, self.sl = run, idx, sl
        self.cmd = _q.Queue()
        self.go = _q.Queue()
        self.inget = False
        self.thread = threading.Thread(target=self.loop, daemon=True, name='c05-consumer-%d' % idx)
        self.thread.start()

    def loop(self):
        while True:
            c = self.cmd.get()
            if c == 'quit':
                return
            try:
                item = self.sl.__next__()
                self.run.report.put(('yield', self.idx, item))
            except StopIteration:
                self.run.report.put(('stop', self.idx))
            except _Abort:
                self.run.report.put(('aborted', self.idx))
                return
            except BaseException as e:  # noqa
                self.run.report.put(('error', self.idx, repr(e)))


class Run:
    """loggers: list of lists of config numbers, e.g. [[0], [1, 2]]; `foreign`: config numbers added to Log
    and started without any SyncLogger; every config has one uint32 variable named name_str(config)."""

    def __init__(self, loggers, foreign=(3,), nconfigs=5):
        from cflib.crazyflie.log import LogConfig
        import cflib.crazyflie.syncLogger as slmod
        self.im = drv.Impl()
        self.nconfigs = nconfigs
        self.toc = [[c, 100 + c, 3] for c in range(nconfigs)]
        self._session()
        self.cfgs = []
        for c in range(nconfigs):
            cfg = LogConfig('c%d' % c, 100)
            cfg.add_variable(drv.name_str(c), 'uint32_t')
            self.cfgs.append(cfg)
        self.foreign = list(foreign)
        for c in self.foreign:
            self.im.log.add_config(self.cfgs[c])
            self.cfgs[c].start()
        self._acks()
        self.report = _q.Queue()
        self.defer = False
        self.pending = [0] * len(loggers)
        self.own = [list(l) for l in loggers]
        self.sls = []
        self.consumers = []
        for i, l in enumerate(loggers):
            confs = [self.cfgs[c] for c in l]
            sl = slmod.SyncLogger(self.im.cf, confs if len(confs) != 1 else confs[0])
            install_gate(self, sl._queue, i)
            self.sls.append(sl)
        for i, sl in enumerate(self.sls):
            self.consumers.append(_Consumer(self, i, sl))

    def _session(self):
        im = self.im
        im.do(['refresh', True])
        im.do(['pkt', 1, [5, 0, 0]])
        im.do(['settoc', self.toc])

    def _acks(self):
        """the device acknowledges everything that was sent to the log settings channel"""
        im = self.im
        done = 0
        while done < len(im.cf.sent) and done < 400:
            port, chan, data, exp = im.cf.sent[done]
            done += 1
            if port == 5 and chan == 1 and len(data) >= 2 and data[0] in (0, 6, 3, 4, 2):
                im.do(['pkt', 1, [data[0], data[1], 0]])
        del im.cf.sent[:]

    def close(self):
        for c in self.consumers:
            if c.inget:
                c.go.put('abort')
            else:
                c.cmd.put('quit')
        for c in self.consumers:
            c.thread.join(0.5 if getattr(self, 'dead', False) else TIMEOUT)

    # ---- events
    def _wait(self):
        if getattr(self, 'dead', False):
            return ('timeout',)
        try:
            return self.report.get(timeout=TIMEOUT)
        except _q.Empty:
            self.dead = True          # a consumer is blocked outside the gate: stop scheduling, report 98
            return ('timeout',)

    def _result(self, i, r):
        c = self.consumers[i]
        if r[0] == 'inget':
            c.inget = True
            return 2
        c.inget = False
        if r[0] == 'stop':
            return 1
        if r[0] == 'yield':
            ts, data, blk = r[2]
            names = [drv.name_str(k) for k in self.own[i]]
            if len(data) != 1 or list(data.keys())[0] not in names or ts != 0x030201:
                return 97
            nm = list(data.keys())[0]
            if blk is not self.cfgs[self.own[i][names.index(nm)]]:
                return 96
            return 10 + data[nm]
        return 98

    def do(self, ev):
        im = self.im
        k = ev[0]
        if k == 'sample':
            cfg = self.cfgs[ev[1]]
            if cfg.cf is None:
                return 0                      # never added: the device does not know such a block
            im.do(['pkt', 2, [cfg.id, 1, 2, 3] + list(struct.pack('<I', ev[2]))])
            return 0
        if k == 'lostall':
            im.cf.link = None
            self.defer = True
            try:
                im.cf.disconnected.call('uri')
            finally:
                self.defer = False
            return 0
        i, op = ev[1], ev[2]
        sl = self.sls[i]
        c = self.consumers[i]
        if op == 'connect':
            try:
                if im.cf.link is None:
                    self._session()
                    for f in self.foreign:
                        im.log.add_config(self.cfgs[f])
                        self.cfgs[f].start()
                sl.connect()
            except Exception as e:  # noqa
                return 3 if str(e) == 'Already connected' else 98
            self._acks()
            return 0
        if op == 'disconnect':
            sl.disconnect()
            self._acks()
            return 0
        if op in ('next', 'get') and getattr(self, 'dead', False):
            return 98
        if op == 'next':
            if c.inget:
                return 4
            c.cmd.put('next')
            return self._result(i, self._wait())
        if op == 'get':
            if not c.inget or sl._queue.qsize() == 0:
                return 4
            c.go.put('go')
            return self._result(i, self._wait())
        if op == 'lost2':
            if self.pending[i] == 0:
                return 4
            self.pending[i] -= 1
            sl._queue.orig_put(SENTINEL)
            return 0
        raise ValueError(ev)

    def snapshot(self):
        out = []
        for i, sl in enumerate(self.sls):
            q = []
            for item in list(sl._queue.queue):
                if isinstance(item, str):
                    q.append(1)
                else:
                    q.append(10 + list(item[1].values())[0])
            out += [int(sl._is_connected), int(self.consumers[i].inget), self.pending[i], len(q)] + q
        return out

    def apply(self, ev):
        prev = logging.root.manager.disable
        logging.disable(logging.CRITICAL)
        try:
            code = self.do(ev)
        finally:
            logging.disable(prev)
        return [code] + self.snapshot()


def run_script(loggers, evs):
    r = Run(loggers)
    try:
        return [r.apply(e) for e in evs]
    finally:
        r.close()


# ---------------------------------------------------------------- Coq syntax
def coq_sev(ev):
    k = ev[0]
    if k == 'sample':
        return 'SSampleAll %d %d' % (ev[1], ev[2])
    if k == 'lostall':
        return 'SLostAll'
    op = {'connect': 'TConnect', 'disconnect': 'TDisconnect', 'next': 'TNext', 'get': 'TGet', 'lost2': 'TLost2'}[ev[2]]
    return 'SOp %d %s' % (ev[1], op)


def coq_term(loggers, evs):
    init = '[' + '; '.join('tsl_init [' + '; '.join(str(c) for c in l) + ']' for l in loggers) + ']'
    return 'enc_sys_run %s [%s]' % (init, '; '.join(coq_sev(e) for e in evs))
