"""C12 — simulated bootloader link: two targets (STM32 0xFF, nRF51 0xFE) behind one fake link,
a FIFO downlink queue and a scripted fate for every flash-write command.

This is the Python twin of the environment in coq/C12/Model.v (tgt_recv, the queue handling of
wf_loop).  Nothing from cflib is imported at module level; the caller passes the CRTPPacket class.

Script: list of attempts, one consumed per flash-write command (0x18) that is sent:
  {'deliv': bool,            # the target receives (and executes) the command
   'intime': [[hdr, data]],  # packets that reach the downlink queue before the 2.5 s receive returns
   'late':   [[hdr, data]]}  # packets that arrive after that receive returned
When the script is exhausted: delivered, one positive acknowledgement in time.
"""
import struct


class HarnessAbort(BaseException):
    """Raised by the fake when the implementation does not stop (unbounded retry)."""


class LinkError(Exception):
    """Raised by the fake link inside send_packet when asked to (a USB / radio driver error)."""


class Tgt:
    def __init__(self, tid, ps, bp, fp, buf=None, flash=None):
        self.tid, self.ps, self.bp, self.fp = tid, ps, bp, fp
        self.buf = bytearray(buf if buf is not None else b'\xEE' * (ps * bp))
        self.flash = bytearray(flash if flash is not None else b'\xFF' * (ps * fp))
        assert len(self.buf) == ps * bp and len(self.flash) == ps * fp
        self.oob = False
        self.writes = []        # executed (buffer page, flash page, count)
        self.loads = []         # executed (page, offset, n)

    def recv(self, hdr, d):
        if hdr != 0xFF or len(d) < 2 or d[0] != self.tid:
            return
        if d[1] == 0x14:
            if len(d) < 6:
                return
            page, off = struct.unpack('<HH', bytes(d[2:6]))
            data = bytes(d[6:])
            if page < self.bp and off + len(data) <= self.ps:
                a = page * self.ps + off
                self.buf[a:a + len(data)] = data
                self.loads.append((page, off, len(data)))
            else:
                self.oob = True
        elif d[1] == 0x18:
            if len(d) != 8:
                return
            bpage, fpage, n = struct.unpack('<HHH', bytes(d[2:8]))
            if bpage + n <= self.bp and fpage + n <= self.fp:
                self.flash[fpage * self.ps:(fpage + n) * self.ps] = self.buf[bpage * self.ps:(bpage + n) * self.ps]
                self.writes.append((bpage, fpage, n))
            else:
                self.oob = True


class Link:
    MAX_FRAMES = 200000

    def __init__(self, targets, script, queue, CRTPPacket):
        self.targets = targets
        self.script = list(script)
        self.q = [list(p) for p in queue]
        self.pending_late = []
        self.P = CRTPPacket
        self.sent = []          # (header, data bytes, delivered)
        self.recv_calls = []    # timeouts passed to receive_packet
        self.closed = False
        self.consec_writes = 0
        self.policy = None      # optional: callable(frame data) -> attempt, instead of the script
        self.raise_at = None    # optional: raise LinkError at the n-th send_packet counted from nsend = 0
        self.nsend = 0
        self.flood = None       # stray packets handed out, one per listen that finds the queue empty (cycled)
        self.flood_left = 0
        self.listens = 0        # receive_packet(wait > 0) calls since the last NEW frame was transmitted
        self.last_tx = None
        self.LISTEN_BUDGET = 200
        self.deferred = False   # reference-keeping link: see send_packet
        self.slot = None
        self.offered = []
        self.offered_is_load = []

    def send_packet(self, pk):
        """Immediate mode: the packet is serialised (header and data read) here.  Deferred mode (`deferred = True`), like
        cflib.crtp.radiodriver: the packet OBJECT goes into a one-slot out-queue; the radio takes it — reads pk.header and
        pk.data — only when the next packet is offered or when the client starts to receive (or at drain())."""
        if len(self.sent) >= self.MAX_FRAMES:
            raise HarnessAbort('too many frames')
        self.nsend += 1
        if self.raise_at is not None and self.nsend == self.raise_at:
            raise LinkError('link failed at frame %d' % self.nsend)
        self.offered.append(pk)                      # kept alive: id() values stay comparable
        try:
            dd = pk.data
            self.offered_is_load.append(len(dd) >= 2 and dd[1] == 0x14)
        except Exception:
            self.offered_is_load.append(False)
        if self.deferred:
            if self.slot is not None:
                old, self.slot = self.slot, None
                self._transmit(old)
            self.slot = pk
        else:
            self._transmit(pk)

    def drain(self):
        if self.slot is not None:
            old, self.slot = self.slot, None
            self._transmit(old)

    def distinct_load_objects(self):
        """True iff no packet object was offered twice among the buffer-load packets (aliasing-freedom of the client)"""
        ids = [id(p) for p, isl in zip(self.offered, self.offered_is_load) if isl]
        return len(ids) == len(set(ids))

    def _transmit(self, pk):
        hdr = pk.header
        d = bytes(pk.data)
        if (hdr, d) != self.last_tx:
            self.listens = 0
            self.last_tx = (hdr, d)
            self.flood, self.flood_left = None, 0      # strays belong to the command they disturb
        if hdr == 0xFF and len(d) >= 2 and d[1] == 0x18:
            self.consec_writes += 1
            if self.consec_writes > 64:
                raise HarnessAbort('flash-write retried without bound')
            if self.policy is not None:
                a = self.policy(d)
            else:
                a = self.script.pop(0) if self.script else {'deliv': True, 'intime': [[0xFF, [d[0], 0x18, 1, 0]]], 'late': []}
            deliv = bool(a['deliv'])
            self.q.extend(list(p) for p in a.get('intime', []))
            self.pending_late = [list(p) for p in a.get('late', [])]
            if a.get('flood'):
                self.flood = [list(p) for p in a['flood']['pkts']]
                self.flood_left = int(a['flood']['k'])
        else:
            deliv = True
            self.consec_writes = 0
        self.sent.append((hdr, d, deliv))
        if deliv:
            for t in self.targets:
                t.recv(hdr, d)

    def receive_packet(self, wait=0):
        self.drain()            # the radio has certainly taken the queued packet before anything can be answered
        self.recv_calls.append(wait)
        if len(self.recv_calls) > 4 * self.MAX_FRAMES:
            raise HarnessAbort('receive loop does not end')
        if wait and wait > 0:
            self.listens += 1
            if self.listens > self.LISTEN_BUDGET:
                raise HarnessAbort('listen budget exceeded: %d receive_packet calls without a new command' % self.listens)
        r = self.q.pop(0) if self.q else None
        if r is None and wait and wait > 0 and self.flood and self.flood_left > 0:
            self.flood_left -= 1
            r = self.flood[0]
            self.flood = self.flood[1:] + self.flood[:1]
        if self.pending_late:
            self.q.extend(self.pending_late)
            self.pending_late = []
        if r is None:
            return None
        return self.P(r[0], bytearray(r[1]))

    def close(self):
        self.closed = True
