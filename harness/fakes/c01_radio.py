"""C01 fakes: a scripted USB dongle handle + the reconstructed safelink peer, and a synchronous runner
for the REAL cflib radio loop.

What runs unmodified from ctx.repo:  radiodriver._RadioDriverThread.run / _send_packet_safe,
RadioDriver.send_packet / receive_packet, crazyradio.Crazyradio.__init__ / send_packet (on the fake USB
device), crtpstack.CRTPPacket, RadioLinkStatistics.update.
What is fake: the USB device (FakeDev) and, behind it, the radio channel (scripted outcome per
transmission) and the Crazyflie end of the link (Peer).  FakeDev.write is the only schedule point: the
application-side events scripted between two transmissions are executed there, i.e. between two
iterations of the radio loop (see design.d/C01.md for why that granularity loses nothing).

Case format (JSON):
  {'N': retries, 'p0': {'on','up','down','txq','last'}, 'negs': [...], 'evs': [...]}
  negs: 'O' | 'U' | 'A' | ['X', ack(0/1), [bytes]]
  evs : ['S', hdr, [data]] | ['Q', hdr, [data]] | ['R'] | ['T', 'O'|'U'|'A', [fill]]
      | ['W', None | [status, payload...]]         (raw dongle answer, host-only cases: peer bypassed)
      | ['I', dt]  idle phase: the statistics clock (virtual) advances by dt seconds; not part of the model's script
      | ['N']  radio.send_packet returns None (usb.USBError swallowed by Crazyradio)   | ['E']  it raises
      | ['ST', hdr, [data]]  send_packet that runs into its 2 s timeout if the queue is full (virtual clock)
      | ['RW', wait]         receive_packet(wait)
  'more': [{'how': 'restart'|'reconnect', 'negs': [...], 'evs': [...]}, ...]  further sessions on the SAME RadioDriver
           object: pause()+restart() or close()+connect(), then that start-up script and those events
  'close': 1  RadioDriver.close() after the last event;  'stats': 1  with a link-statistics callback and a
  statistics clock that jumps 0.25 s per reading (every rate/congestion branch runs)
      | ['D']   (last event) drain: acknowledged transmissions until nothing is pending, then receive all;
                expanded at run time into explicit T/R events (Sim.executed is the explicit script)
cflib is imported lazily from sys.path (check.py puts ctx.repo first); nothing is cached across trees.
"""
import array
import queue


class Peer:
    """The Crazyflie end of the link as reconstructed from the safelink protocol (nRF51 ESB side):
    accepts an uplink frame iff its bit 3 differs from the last accepted one, prepares a new ack payload
    iff bit 2 differs from the one the current payload was prepared for, otherwise repeats the last."""

    def __init__(self, on=False, up=True, down=True, txq=(), last=None, empty_idle=False):
        # empty_idle: a peer that answers with a ZERO-LENGTH ack payload when it has nothing queued (the driver has
        # explicit branches for len(data) == 0).  For the alternating bit to work such a peer must not count the empty
        # answer as a served payload: it keeps its downlink bit and asks its queue again on the next frame.
        self.empty_idle = bool(empty_idle)
        self.on, self.up, self.down = bool(on), bool(up), bool(down)
        self.rx = []
        self.txq = [list(q) for q in txq]
        self.last = None if last is None else list(last)

    def receive(self, frame, fill):
        frame = list(frame)
        if len(frame) == 3 and (frame[0] & 0xf3) == 0xf3 and frame[1] == 0x05:
            self.on = frame[2] != 0
            self.up = self.down = True
            self.last = None
            return list(frame)
        if not self.on:
            self.rx.append(frame)
            return self._next(True, fill)
        b3 = bool((frame[0] >> 3) & 1)
        b2 = bool((frame[0] >> 2) & 1)
        if b3 != self.up:
            self.up = b3
            self.rx.append([frame[0] & 0xf3] + frame[1:])
        if b2 != self.down:
            if self.empty_idle and not self.txq:
                return []
            self.down = b2
            return self._next(True, fill)
        return self._next(False, fill)

    def _next(self, advance, fill):
        if advance or self.last is None:
            if self.txq:
                self.last = self.txq.pop(0)
            elif self.empty_idle:
                return []
            else:
                self.last = [0xf3] + list(fill)
        out = list(self.last)
        if self.on and out:
            out[0] = (out[0] & 0xf3) | (int(self.down) << 2) | (int(self.up) << 3)
        return out


class StatsClock:
    """`time` as seen by cflib.crtp.radio_link_statistics: virtual.  Every reading advances it by `tick`
    (default 0.1 ms; 0.25 s in 'stats' mode so that every reporting branch runs), script events ['I', dt] add an
    idle phase of dt seconds.  Installed for the whole life of a Sim — also while the thread object (and with it the
    RadioLinkStatistics object, which may read the clock in __init__) is constructed."""

    def __init__(self, tick):
        self.t, self.tick = 5000.0, tick

    def time(self):
        self.t += self.tick
        return self.t

    def install(self):
        import cflib.crtp.radio_link_statistics as rls
        self._rls, self._saved = rls, rls.time
        rls.time = self
        return self

    def remove(self):
        if self._rls.time is self:
            self._rls.time = self._saved


class FakeDev:
    """Stands in for the pyusb device object given to Crazyradio(device=...)."""
    bcdDevice = 0x0099          # -> version 0.99

    def __init__(self, sim):
        self.sim = sim

    def set_configuration(self, n):
        pass

    def reset(self):
        pass

    def ctrl_transfer(self, *a, **k):
        return array.array('B', [0] * 64)

    def write(self, endpoint, data, timeout=None):
        self.sim.on_write(data)

    def read(self, endpoint, n, timeout=None):
        return self.sim.on_read()


class RadioTap:
    """The radio object handed to _RadioDriverThread: forwards to the real Crazyradio and records what the
    driver thread sees (observation point named by the property)."""

    def __init__(self, cr, sim):
        self.cr, self.sim = cr, sim
        self.version = cr.version
        self.closed = 0

    def close(self):
        self.closed += 1

    def set_channel(self, c):
        self.cr.set_channel(c)

    def set_data_rate(self, d):
        self.cr.set_data_rate(d)

    def set_address(self, a):
        self.cr.set_address(a)

    def set_arc(self, a):
        self.cr.set_arc(a)

    def send_packet(self, data):
        is_neg = isinstance(data, tuple)     # the negotiation sends a tuple, the main loop an array
        r = self.cr.send_packet(data)
        self.sim.on_resp(r, is_neg)
        return r


def _flatf(frames):
    out = []
    for f in frames:
        out.append(len(f))
        out.extend(f)
    return out


class Sim:
    def __init__(self, case):
        import usb.core
        import cflib.crtp.radiodriver as rd
        import cflib.drivers.crazyradio as crz
        from cflib.crtp.crtpstack import CRTPPacket
        self.usb_error = usb.core.USBError
        self.rd, self.CRTPPacket = rd, CRTPPacket
        self.case = case
        p0 = case.get('p0') or {}
        self.peer = Peer(p0.get('on', 0), p0.get('up', 1), p0.get('down', 1), p0.get('txq', ()), p0.get('last'),
                         p0.get('empty_idle', 0))
        self.queued = [list(q) for q in self.peer.txq]
        self.accepted, self.got = [], []
        self.negs = list(case.get('negs', []))
        self.evs = list(case.get('evs', []))
        self.obs = []                 # flattened like Model.session_obs
        self.neg_resps = []
        self.tx = []                  # per main-loop transmission: dict(frame, outcome, ack, data, errs_after)
        self.errors = []              # link_error_callback messages, with the index of the transmission
        self.pending_reply = None
        self.neg_frames = []
        self.neg_usb = []
        self.side = []
        self.st_failed = 0
        self.executed = []
        self.drain_tail = 3
        self.drain_budget = None
        self.app_busy = lambda: False
        self.last_write = [0xff]
        self.open_tx = False
        self.n_neg = 0
        self.exc = None
        # --- the real objects
        self._saved_N = rd._nr_of_retries
        rd._nr_of_retries = case['N']
        self.clock = None
        if getattr(self, 'pair', None) is None:      # (two links on one dongle: the Pair owns the clock)
            self.clock = StatsClock(0.25 if case.get('stats') else 0.0001).install()
        self._saved_qtime = None
        if p0.get('empty_idle') and not case.get('threaded'):
            # >10 empty answers in a row make the loop wait 10 ms per iteration on an empty out_queue: virtual queue clock
            self._saved_qtime = queue.time
            queue.time = Sim._Jump()
        try:
            self._make_radio(crz)
            self.drv = rd.RadioDriver()
            self.stats = []
            self.stats_cb = (lambda d: self.stats.append(dict(d))) if case.get('stats') else None
            self.sessions = []            # per finished session: start-up answers, mode, observations
            self.tx_from = 0
            # the real RadioDriver.connect(): queues, thread, callbacks (dongle look-up and Thread.start patched)
            self._patched(lambda: self.drv.connect(self.URI, self.stats_cb, self._err))
            self.thread = self.drv._thread
        except Exception:
            rd._nr_of_retries = self._saved_N
            self._restore_clocks()
            raise

    def _restore_clocks(self):
        if self.clock is not None:
            self.clock.remove()
        if self._saved_qtime is not None:
            queue.time = self._saved_qtime
            self._saved_qtime = None

    URI = 'radio://0/80/2M'

    def _make_radio(self, crz):
        """the radio object RadioDriver.connect() gets from RadioManager.open(): here a real Crazyradio on a fake
        USB device, behind a recording tap (c01_shared.SharedSim puts the real _SharedRadio layer in between)"""
        self.cr = crz.Crazyradio(device=FakeDev(self))
        self.tap = RadioTap(self.cr, self)

    def _cleanup(self):
        pass

    def _patched(self, fn):
        """run fn with RadioManager.open giving the tap (no USB look-up) and _RadioDriverThread.start doing nothing
        (the harness calls run() itself, or starts the thread explicitly in the real-thread sessions)"""
        rd = self.rd
        saved_open, saved_start = rd.RadioManager.open, rd._RadioDriverThread.start
        rd.RadioManager.open = staticmethod(lambda devid: self.tap)
        rd._RadioDriverThread.start = lambda t: None
        try:
            return fn()
        finally:
            rd.RadioManager.open = saved_open
            rd._RadioDriverThread.start = saved_start

    def _end_session(self):
        t = self.thread
        head = [len(self.neg_resps)]
        for o in self.neg_resps:
            head += o
        self.sessions.append({'neg_resps': self.neg_resps, 'neg_usb': self.neg_usb, 'neg_frames': self.neg_frames,
                              'n_neg': self.n_neg, 'safe': bool(t._has_safelink),
                              'needs': bool(self.drv.needs_resending), 'head': head, 'obs': self.obs,
                              'executed': self.executed, 'tx_from': self.tx_from, 'tx_to': len(self.tx)})

    def _reopen(self, seg):
        """pause()+restart() or close()+connect() on the SAME RadioDriver object, then the next script"""
        if seg['how'] == 'restart':
            self.drv.pause()
            self._patched(self.drv.restart)
        else:
            self.drv.close()
            self._patched(lambda: self.drv.connect(self.URI, self.stats_cb, self._err))
        self.thread = self.drv._thread
        self.negs, self.evs = list(seg.get('negs', [])), list(seg.get('evs', []))
        self.neg_resps, self.neg_usb, self.neg_frames, self.obs, self.executed = [], [], [], [], []
        self.n_neg = 0
        self.tx_from = len(self.tx)
        self.drain_tail, self.drain_budget = 3, None
        self.pending_reply = None

    # ---- callbacks from the code under test
    def _err(self, msg):
        self.errors.append((len(self.tx), str(msg)))

    def _n_lost_errors(self):
        return sum(1 for _, m in self.errors if m == 'Too many packets lost')

    def _n_exc_errors(self):
        return sum(1 for _, m in self.errors if m.startswith('Error communicating with crazy radio'))

    def _n_send_errors(self):
        return sum(1 for _, m in self.errors if m == 'RadioDriver: Could not send packet to copter')

    def _close_event(self):
        self.obs += [self._n_lost_errors(), self._n_exc_errors(), self._n_send_errors(), self.drv.in_queue.qsize()]

    class _Jump:
        """virtual clock for queue.Queue timeouts: every reading is an hour later than the previous one, so a
        put/get with a timeout on a full/empty queue gives up at once instead of sleeping"""

        def __init__(self):
            self.t = 1000.0

        def __call__(self):
            self.t += 3600.0
            return self.t

    def _with_virtual_clock(self, fn):
        import queue as _q
        saved = _q.time
        _q.time = Sim._Jump()
        try:
            return fn()
        finally:
            _q.time = saved

    def _packet(self, hdr, data):
        pk = self.CRTPPacket()
        pk.header = hdr
        pk._port, pk._channel = (hdr & 0xf0) >> 4, hdr & 3
        pk.data = bytes(data)
        return pk

    def _app_event(self, e):
        if e[0] == 'S':
            pk = self.CRTPPacket()
            pk.header = e[1]
            pk._port, pk._channel = (e[1] & 0xf0) >> 4, e[1] & 3
            pk.data = bytes(e[2])
            if self.drv.out_queue.full():
                ok = False            # the real call would block (up to 2 s): "not accepted"
            else:
                ok = bool(self.drv.send_packet(pk))
            if ok:
                self.accepted.append([e[1]] + list(e[2]))
            self.obs.append(1 if ok else 0)
        elif e[0] == 'Q':
            q = [e[1]] + list(e[2])
            self.peer.txq.append(q)
            self.queued.append(list(q))
        elif e[0] == 'R':
            pk = self.drv.receive_packet(0)
            if pk is None:
                self.obs.append(-1)
            else:
                f = [pk.header] + list(pk.data)
                self.got.append(f)
                self.obs += [len(f)] + f
        elif e[0] == 'ST':                 # send_packet whose 2 s pass (virtual clock) if the queue is full
            n0 = self._n_send_errors()
            ok = bool(self._with_virtual_clock(lambda: self.drv.send_packet(self._packet(e[1], e[2]))))
            if ok:
                self.accepted.append([e[1]] + list(e[2]))
            self.obs += [1 if ok else 0, self._n_send_errors() - n0]
            self.st_failed += 0 if ok else 1
        elif e[0] == 'RW':                 # receive_packet(wait)
            if e[1] < 0 and self.drv.in_queue.empty():
                self.obs.append(-8)        # would block for ever: not called
            else:
                pk = self._with_virtual_clock(lambda: self.drv.receive_packet(e[1]))
                if pk is None:
                    self.obs.append(-1)
                else:
                    f = [pk.header] + list(pk.data)
                    self.got.append(f)
                    self.obs += [len(f)] + f
        else:
            raise ValueError('bad event %r' % (e,))
        self._close_event()

    def _deliver(self, frame, fill):
        """the frame reaches whoever listens; base harness: the link's own peer.  None = nobody there"""
        return self.peer.receive(frame, fill)

    def _between(self):
        """the scripted events up to the next transmission (application calls, firmware queueing, drain expansion)"""
        while self.evs and self.evs[0][0] not in ('T', 'W', 'N', 'E'):
            if self.evs[0][0] == 'D':                # drain: expanded here into explicit events
                if self.drain_budget is None:        # a link that does not move (no safelink) must not loop
                    self.drain_budget = len(self.peer.txq) + 4
                busy = self.app_busy()       # real-thread sessions: the application thread is still at work
                if busy or ((self.peer.txq or not self.drv.out_queue.empty()) and self.drain_budget > 0):
                    if not busy:
                        self.drain_budget -= 1
                    self.evs.insert(0, ['T', 'O', [1, 0x20]])
                    self.drain_tail = 3
                elif self.drain_tail > 0:
                    self.drain_tail -= 1
                    self.evs.insert(0, ['T', 'O', []])
                else:
                    self.evs[0:1] = [['R'] for _ in range(self.drv.in_queue.qsize() + 1)]
                continue
            e = self.evs.pop(0)
            if e[0] == 'I':                          # idle phase: only the statistics clock moves
                clk = self.clock if self.clock is not None else self.pair.clock
                clk.t += e[1]
                self.side.append(e)
                continue
            if e[0] in ('SC', 'SS', 'BS', 'OP', 'CL', 'GS'):     # somebody else uses the shared dongle (c01_shared.py)
                self.side.append(e)
                self._side_event(e)
                continue
            self.executed.append(e)
            self._app_event(e)

    def on_write(self, data):
        if isinstance(data, tuple):                  # negotiation attempt
            frame = list(data)
            o = self.negs.pop(0) if self.negs else 'U'
            self.n_neg += 1
            if o == 'U':
                self.pending_reply = [0]
            elif o == 'A':
                self._deliver(frame, [])
                self.pending_reply = [0]
            elif o == 'O':
                r = self._deliver(frame, [])
                self.pending_reply = [0] if r is None else [1] + r
            elif o[0] == 'W':                        # raw dongle answer (host-only cases)
                self.pending_reply = o[1]
                if o[1] is None:
                    raise self.usb_error('scripted usb error')
            else:
                self._deliver(frame, [])
                if o[1]:
                    self.pending_reply = [1] + list(o[2])
                else:
                    # a non-acked answer that still carries bytes: status with retry bits only
                    self.pending_reply = [0x30] + list(o[2])
            self.neg_frames.append(frame)
            self.neg_usb.append(None if self.pending_reply is None else list(self.pending_reply))
            return
        if self.open_tx:
            self._close_event()
            self.open_tx = False
        self._between()
        if not self.evs:
            self.last_write = list(data)
            self.thread._sp = True
            self.pending_reply = None
            raise self.usb_error('end of script')
        e = self.evs.pop(0)
        self.executed.append(e)
        frame = list(data)
        self.last_write = frame
        self.obs += [len(frame)] + frame
        self.open_tx = True
        rec = {'frame': frame, 'o': e[1] if e[0] == 'T' else e[0]}
        self.tx.append(rec)
        if e[0] == 'N':                      # usb.USBError inside Crazyradio.send_packet -> it returns None
            self.pending_reply = None
            raise self.usb_error('scripted usb error')
        if e[0] == 'E':                      # any other exception propagates out of radio.send_packet
            self.pending_reply = None
            self.obs.append(-7)
            rec['ack'] = 'exc'
            raise OSError('scripted failure of the dongle')
        if e[0] == 'W':
            self.pending_reply = e[1]
            if e[1] is None:
                raise self.usb_error('scripted usb error')
            return
        o, fill = e[1], e[2]
        rnd = (len(self.tx) * 7) & 3
        if o == 'U':
            self.pending_reply = [0, 0x30, 0x10, 0x22][rnd]          # lost: several no-ack status bytes
            self.pending_reply = [self.pending_reply]
        elif o == 'A':
            self._deliver(frame, fill)
            self.pending_reply = [[0, 0x30, 0x10, 0x22][rnd]]
        else:
            r = self._deliver(frame, fill)
            if r is None:                        # nobody listens where the dongle is tuned to
                self.pending_reply = [[0, 0x30, 0x10, 0x22][rnd]]
            else:
                self.pending_reply = [0x01 | (rnd << 4) | ((len(self.tx) & 1) << 1)] + r

    def on_read(self):
        r = self.pending_reply
        if self.open_tx and self.tx and 'usb' not in self.tx[-1]:
            self.tx[-1]['usb'] = None if r is None else list(r)
        self.pending_reply = None
        if r is None:
            raise self.usb_error('no reply')
        return array.array('B', r)

    def on_resp(self, r, is_neg):
        if r is None:
            o = [-1]
        else:
            d = list(r.data)
            o = [1 if r.ack else 0, len(d)] + d
        if is_neg:
            self.neg_resps.append(o)
        elif self.open_tx and 'ack' not in self.tx[-1]:
            self.obs += o
            self.tx[-1]['ack'] = None if r is None else bool(r.ack)
            self.tx[-1]['data'] = None if r is None else list(r.data)

    def run(self):
        try:
            self._run()
        finally:
            self._restore_clocks()
            self._cleanup()
        return self._finish()

    def _run(self):
        rd = self.rd
        try:
            segs = [None] + list(self.case.get('more', []))
            for k, seg in enumerate(segs):
                if seg is not None:
                    self._reopen(seg)
                self.thread.run()
                if self.open_tx:
                    self._close_event()
                    self.open_tx = False
                self._end_session()
            self.closed = None
            if self.case.get('close'):       # RadioDriver.close() after the last event
                n0 = self.tap.closed
                self.drv.close()
                self.closed = {'radio_closed': self.tap.closed - n0, 'radio_ref': self.drv._radio is None,
                               'callbacks_cleared': self.drv.link_error_callback is None
                               and self.drv.radio_link_statistics_callback is None,
                               'out_queue_empty': self.drv.out_queue.empty()}
        finally:
            rd._nr_of_retries = self._saved_N

    def _finish(self):
        t = self.thread
        if not self.sessions:             # real-thread sessions end here without _run
            self._end_session()
        if self.case.get('more'):
            prefix = []
            for ss in self.sessions:
                prefix += [int(ss['safe']), int(ss['needs'])] + ss['head'] + ss['obs']
        else:
            prefix = self.sessions[0]['head'] + self.sessions[0]['obs']
        self.executed = self.sessions[0]['executed']
        inq = []
        while True:
            try:
                pk = self.drv.in_queue.get(False)
            except queue.Empty:
                break
            inq.append([pk.header] + list(pk.data))
        outq = []
        while not self.drv.out_queue.empty():
            pk = self.drv.out_queue.get(False)
            outq.append([pk.header] + list(pk.data))
        dout = list(self.last_write)       # dataOut is a local of run(): its final value is the last frame written
        p = self.peer
        hostw = [int(bool(t._has_safelink)), int(t._curr_up), int(t._curr_down), int(t._retry_before_disconnect),
                 self._n_lost_errors(), int(bool(self.drv.needs_resending))]
        hostw += [len(dout)] + dout
        hostw += _flatf(outq) + [-2] + _flatf(inq) + [-3]
        world = [int(p.on), int(p.up), int(p.down)] + _flatf(p.rx) + [-4] + _flatf(p.txq) + [-5]
        world += _flatf([p.last] if p.last is not None else []) + [-6] + _flatf(self.got)
        self.final = {'safe': bool(t._has_safelink), 'up': int(t._curr_up), 'down': int(t._curr_down),
                      'retry': int(t._retry_before_disconnect), 'needs_resending': bool(self.drv.needs_resending),
                      'inq': inq, 'outq': outq, 'data_out': dout, 'n_neg': self.n_neg,
                      'other_errors': [m for _, m in self.errors if m != 'Too many packets lost'
                                       and not m.startswith('Error communicating with crazy radio')
                                       and m != 'RadioDriver: Could not send packet to copter'],
                      'exc_errors': self._n_exc_errors(), 'send_errors': self._n_send_errors(),
                      'lq': (int(t._radio_link_statistics._retry_sum), len(t._radio_link_statistics._retries)),
                      'closed': getattr(self, 'closed', None)}
        self.flat = prefix + hostw + world
        self.flat_host = prefix + hostw + _flatf(self.got)
        return self



    # ---- the same session with REAL threads: the radio loop in its own thread (Thread.start), the application
    #      submitting and receiving concurrently from another one.  Not deterministic: used by the oracle only.
    def run_threaded(self, app, timeout=60):
        import random
        import threading
        import time
        rd = self.rd
        rng = random.Random(app['seed'])
        done = threading.Event()
        self.app_busy = lambda: not done.is_set()
        self.put_timeouts = 0

        def application():
            try:
                for i in range(app['n']):
                    pk = self.CRTPPacket()
                    pk.set_header((i * 7) % 15, i % 4)
                    pk.data = bytes(([i & 0xff, (i >> 8) & 0xff, rng.randrange(256)] + [(5 * j + i) & 0xff for j in range(27)])[:30 if i % 4 == 0 else 3])
                    f = [pk.header] + list(pk.data)
                    if self.drv.send_packet(pk):
                        self.accepted.append(f)
                    else:
                        self.put_timeouts += 1         # 2 s without a dequeue: outside the property (wall clock)
                        if self.put_timeouts >= 3:     # a link that does not move: give up, the session must end
                            break
                    if rng.random() < 0.5:
                        r = self.drv.receive_packet(0)
                        if r is not None:
                            self.got.append([r.header] + list(r.data))
                    if rng.random() < 0.3:
                        time.sleep(rng.random() * 0.0004)
            finally:
                done.set()
        at = threading.Thread(target=application, daemon=True)
        self.thread.daemon = True
        try:
            self.thread.start()
            at.start()
            at.join(timeout)
            self.thread.join(timeout)
            self.hung = at.is_alive() or self.thread.is_alive()
            if self.hung:
                self.thread._sp = True
        finally:
            rd._nr_of_retries = self._saved_N
            self._restore_clocks()
        if self.open_tx:
            self.open_tx = False
        return self._finish()


class Blocked(Exception):
    """a case did not finish within its time bound: some thread of the library is stuck (e.g. waiting for an answer that
    went to somebody else's queue).  .where = the innermost library frames of the stuck worker"""

    def __init__(self, msg, where=''):
        Exception.__init__(self, msg)
        self.where = where


_ORIG = {}
_blocks = {'n': 0, 'shrinking': False}
MAX_BLOCKS = 3            # after that many stuck cases in one process the remaining cases of the run are skipped


def _originals():
    if not _ORIG:
        import cflib.crtp.radiodriver as rd
        import cflib.drivers.crazyradio as crz
        import cflib.crtp.radio_link_statistics as rls
        _ORIG.update(find=crz._find_devices, open=rd.RadioManager.__dict__['open'], start=rd._RadioDriverThread.start,
                     n=rd._nr_of_retries, rls_time=rls.time, q_time=queue.time)
    return _ORIG


def reset_globals():
    """undo every patch a stuck case may have left behind (its `finally` blocks never run) and end its shared-radio thread"""
    import cflib.crtp.radiodriver as rd
    import cflib.drivers.crazyradio as crz
    import cflib.crtp.radio_link_statistics as rls
    o = _originals()

    class _Poison:
        def __getitem__(self, k):
            raise SystemExit
    for sr in list(rd.RadioManager._radios):
        if sr is not None:
            try:
                sr._cmd_queue.put(_Poison())
            except Exception:
                pass
    rd.RadioManager._radios = []
    crz._find_devices = o['find']
    rd.RadioManager.open = o['open']
    rd._RadioDriverThread.start = o['start']
    rd._nr_of_retries = o['n']
    rls.time = o['rls_time']
    queue.time = o['q_time']


def bounded(fn, timeout):
    """run fn in a daemon thread; if it is not done after `timeout` seconds: clean up the globals and raise Blocked"""
    import sys
    import threading
    import traceback
    _originals()
    if _blocks['n'] >= MAX_BLOCKS and not _blocks['shrinking']:
        raise Blocked('SKIPPED: %d cases already got stuck in this run' % _blocks['n'])
    box = {}

    def work():
        try:
            box['r'] = fn()
        except BaseException as e:
            box['e'] = e
    t = threading.Thread(target=work, daemon=True)
    t.start()
    t.join(timeout)
    if t.is_alive():
        frames = sys._current_frames()
        where = []
        for th in threading.enumerate():
            fr = frames.get(th.ident)
            if fr is None or th is threading.current_thread():
                continue
            st = [x for x in traceback.extract_stack(fr) if '/cflib/' in x.filename]
            if st:
                where.append('%s: %s' % (th.name, ' <- '.join('%s:%d %s' % (x.filename.split('/cflib/')[-1], x.lineno, x.name)
                                                              for x in reversed(st[-3:]))))
        if not _blocks['shrinking']:
            _blocks['n'] += 1
        reset_globals()
        raise Blocked('BLOCKED: no end after %.0f s' % timeout, where='; '.join(where)[:900])
    if 'e' in box:
        raise box['e']
    return box['r']


def run_case(case, timeout=None):
    if case.get('threaded'):
        return bounded(lambda: Sim(case).run_threaded(case['threaded'], timeout=15), timeout or 45)
    if case.get('pair'):
        from fakes import c01_shared
        return bounded(lambda: c01_shared.Pair(case).run(), timeout or 30)
    if case.get('shared'):
        from fakes import c01_shared
        return bounded(lambda: c01_shared.SharedSim(case).run(), timeout or 10)
    return bounded(lambda: Sim(case).run(), timeout or 10)


def parse_all_status(arc, payload_of):
    """Crazyradio.send_packet on every status byte: returns the flattened _radio_ack fields per status byte
    (same layout as Model.ack_obs), for a dongle configured with set_arc(arc)."""
    import cflib.drivers.crazyradio as crz

    class Dev(FakeDev):
        def __init__(self):
            self.reply = None

        def write(self, endpoint, data, timeout=None):
            pass

        def read(self, endpoint, n, timeout=None):
            return array.array('B', self.reply)
    dev = Dev()
    cr = crz.Crazyradio(device=dev)
    cr.set_arc(arc)
    out = []
    for s in range(256):
        dev.reply = [s] + payload_of(s)
        a = cr.send_packet((0xff,))
        if a is None:
            out += [-1]
        else:
            d = list(a.data)
            out += [int(bool(a.ack)), int(bool(a.powerDet)), int(a.retry), len(d)] + d
    return out


def link_quality_run(retries):
    """RadioLinkStatistics._update_link_quality on a sequence of ack.retry values: (sum, len, last value)"""
    from cflib.crtp.radio_link_statistics import RadioLinkStatistics

    class A:
        pass
    st = RadioLinkStatistics(None)
    st.radio_link_statistics = {}
    for r in retries:
        a = A()
        a.retry = r
        st._update_link_quality(a)
    return int(st._retry_sum), len(st._retries), st.radio_link_statistics.get('link_quality')


def stats_counters_run(calls):
    """RadioLinkStatistics._update_rate_and_congestion on a sequence of (has_out, ack payload, dt): the clock (virtual)
    advances by dt before each call.  Returns (per call: did the code see the period as elapsed, per the shadow of its
    `_previous_time_stamp`), final counters [up, null_up, down, null_down] or [-1] if a call raised."""
    from cflib.crtp.radio_link_statistics import RadioLinkStatistics
    clock = StatsClock(0.0).install()
    try:
        class A:
            pass
        st = RadioLinkStatistics(None)
        prev = None
        flags = []
        for has_out, data, dt in calls:
            clock.t += dt
            if prev is None:
                prev = clock.t if not hasattr(st, '_previous_time_stamp') else st._previous_time_stamp
            el = clock.t - prev > 0.1
            flags.append(el)
            a = A()
            a.ack, a.data, a.retry = True, tuple(data), 0
            st.radio_link_statistics = {}
            try:
                st._update_rate_and_congestion(a, object() if has_out else None)
            except ZeroDivisionError:
                return flags, [-1]
            prev = st._previous_time_stamp
        return flags, [st._amount_packets_up, st._amount_null_packets_up, st._amount_packets_down, st._amount_null_packets_down]
    finally:
        clock.remove()
