"""C06 — memory enumeration / refresh: the real `Memory.refresh`, info-channel handlers and `OWElement` against a
byte-exact device (extends fakes/c06_mem.Rig).

Device: `dev` = [[type, size, [8 address bytes]], ...] = memories 0 .. n-1; `blocks` = [[id, addr, [bytes]], ...] overlaid
on `test_mem` (1-wire contents with good / bad CRCs).  It answers CMD_INFO_NBR with n, CMD_INFO_DETAILS id with the
description of memory id (with just the id when there is none), reads and writes like the base rig; every reply goes to
the log and is delivered only by ['D', k].

Additional events:
  ['F', with_failed_cb]                Memory.refresh(done_cb, failed_cb or None)
  ['P', 0, [bytes]]                    forged packet on the info channel
Additional observations: 20 refresh done, 21 refresh failed, 22 mem_added (id, type, size, is 1-wire, address bytes).
State after the run (`enc_info`, as `enc_info` of coq/C06/InfoModel.v): elements with their 1-wire fields, _fetch_id,
nbr_of_mems, _getting_count, refresh callbacks set, _ow_mems_left_to_update.
"""
from fakes.c06_mem import Rig


class InfoRig(Rig):
    def __init__(self, plan=(), dev=(), blocks=()):
        Rig.__init__(self, plan)
        self.dev = [list(d) for d in dev]
        for (i, a, d) in blocks:
            for k, b in enumerate(d):
                self.image[(i, a + k)] = b
        self.mem.mem_added_cb.add_callback(self._added)

    # ---- listeners
    def _added(self, m):
        isow = type(m).__name__ == 'OWElement'
        addr = [int(m.addr[2 * k:2 * k + 2], 16) for k in range(8)] if isow else []
        self.stream.append(('added', m.id, m.type, m.size, isow, addr))
        self.cur += [22, m.id, m.type, m.size, 1 if isow else 0] + addr

    def _done(self):
        self.stream.append(('rf', 'done'))
        self.cur += [20]

    def _failed(self):
        self.stream.append(('rf', 'failed'))
        self.cur += [21]

    def _after_disc(self):
        self.mem.mem_added_cb.add_callback(self._added)

    # ---- events
    def _do_other(self, ev):
        if ev[0] == 'F':
            self.flat.append(list(ev))
            self.stream.append(('refresh', bool(ev[1])))
            self.in_call += 1
            try:
                self.mem.refresh(self._done, self._failed if ev[1] else None)
            finally:
                self.in_call -= 1
        else:
            raise ValueError(ev)

    def fresh(self, ev):
        if ev[0] == 'D' and 0 <= ev[1] < len(self.log) and self.log[ev[1]][0] == 0:
            return True
        return Rig.fresh(self, ev)

    # ---- the device
    def on_send(self, pk, expected_reply, resend, timeout):
        if pk.channel != 0:
            return Rig.on_send(self, pk, expected_reply, resend, timeout)
        data = list(pk.data)
        if pk.port != 4 or tuple(expected_reply) != tuple(data) or resend or len(data) not in (1, 2):
            self.anomalies.append({'port': pk.port, 'channel': 0, 'data': data, 'expected_reply': list(expected_reply),
                                   'resend': resend, 'timeout': timeout})
        self.cur += [1, 0, len(data)] + data
        self.sent.append((0, data))
        self.stream.append(('s', 0, data, None))
        self.served += 1
        if data == [1]:
            rep = [1, len(self.dev)]
        elif len(data) == 2 and data[0] == 2:
            i = data[1]
            if 0 <= i < len(self.dev):
                ty, size, addr = self.dev[i]
                rep = [2, i, ty] + [(size >> (8 * k)) & 255 for k in range(4)] + list(addr)
            else:
                rep = [2, i]
        else:
            return
        self.log.append([0, rep, (0, None), None])
        self._maybe_early(len(self.log) - 1)

    # ---- state
    def enc_info(self):
        m = self.mem
        out = [len(m.mems)]
        for e in m.mems:
            out += [e.id, e.type, e.size]
            if type(e).__name__ == 'OWElement':
                out += [1, 1 if e.valid else 0, 1 if e._update_finished_cb else 0]
                out += [e.pins, e.vid, e.pid] if e.pins is not None else [-1, -1, -1]
                out.append(len(e.elements))
                for name, val in e.elements.items():
                    b = list(val.encode('ISO-8859-1'))
                    out += [e._rev_element_mapping[name], len(b)] + b
            else:
                out.append(0)
        left = list(m._ow_mems_left_to_update)
        out += [m._fetch_id, m.nbr_of_mems, 1 if m._getting_count else 0, 1 if m._refresh_callback else 0,
                1 if m._refresh_failed_callback else 0, len(left)] + left
        return out
