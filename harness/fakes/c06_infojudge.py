"""C06 — memory enumeration / refresh: case generation, model terms and the oracle (used by props/c06.py).

Case (JSON-able): {'kind': 'info', 'plan': [...], 'dev': [[type, size, [8 bytes]], ...], 'blocks': [[id, addr, [bytes]], ...],
'events': [...]} with the events of fakes/c06_mem.py and fakes/c06_info.py.
"""
import binascii

from core import coqrun
from fakes import c06_info

TYPES = [0, 1, 1, 1, 0x10, 0x11, 0x12, 0x13, 0x14, 0x15, 0x17, 0x18, 0x19, 0x1A, 0x1B, 0x77]
CHN = {1: 'ChRead', 2: 'ChWrite', 3: 'ChOther'}


def crc8(b):
    return binascii.crc32(bytes(b)) & 0xFF


def ow_image(pins, vid, pid, elems, start=0xEB, bad_h=False, bad_e=False):
    """header (8 bytes, CRC over 7) + elements (version, length, id/len/bytes ..., CRC) as OWElement.write_data lays them out"""
    h = [start] + [(pins >> (8 * k)) & 255 for k in range(4)] + [vid, pid]
    h.append(crc8(h) ^ (0x5A if bad_h else 0))
    e = []
    for k, v in elems:
        e += [k, len(v)] + list(v)
    ed = [0, len(e)] + e
    ed.append(crc8(ed) ^ (0xA5 if bad_e else 0))
    return h + ed


def gen_device(rng):
    n = rng.choice([0, 1, 1, 2, 3, 3, 4, 5, 6])
    dev, blocks = [], []
    for i in range(n):
        ty = rng.choice(TYPES)
        dev.append([ty, rng.choice([112, 0x1000, 0x10000, 24, 0xFFFFFFFF, 0]), [rng.randrange(256) for _ in range(8)]])
        if ty == 1:
            c = rng.randrange(10)
            if c == 0:
                continue                                   # whatever test_mem holds: no 0xEB, CRCs wrong
            names = [b'bcLedRing', b'bcQi', b'B', b'', b'a-much-longer-board-name-than-usual', b'\xe9t\xe9']
            k = rng.choice([0, 1, 2, 2, 3])
            ids = rng.sample([1, 2, 3], k) if rng.random() < 0.85 else [rng.choice([1, 2, 3]) for _ in range(k)]
            elems = [(e, rng.choice(names)) for e in ids]
            blocks.append([i, 0, ow_image(rng.randrange(2 ** 32), rng.randrange(256), rng.randrange(256), elems,
                                          start=0xEB if c != 1 else 0xEA, bad_h=(c == 2), bad_e=(c in (3, 4)))])
    return dev, blocks


def gen_info_case(rng, style, early=False):
    dev, blocks = gen_device(rng)
    plan = []
    if style == 'faulty' and rng.random() < 0.3:
        plan = [rng.randrange(1, 256) if rng.random() < 0.08 else 0 for _ in range(60)]
    rig = c06_info.InfoRig(plan, dev, blocks)
    rig.early = early
    events, delivered = [], set()

    def do(ev):
        events.append(ev)
        rig.do(ev)
        delivered.update(rig.early_done)

    do(['F', rng.random() < 0.85])
    ows = [i for i, d in enumerate(dev) if d[0] == 1]
    for _ in range(rng.randrange(3, 34)):
        undel = [k for k in range(len(rig.log)) if k not in delivered]
        c = rng.random()
        if c < 0.62 and undel:
            k = undel[0] if rng.random() < 0.8 or style == 'clean' else rng.choice(undel)
            delivered.add(k)
            do(['D', k])
        elif c < 0.74 and rig.log:
            k = rng.randrange(len(rig.log) + 1)            # duplicates, late ones
            if style == 'clean' and k < len(rig.log) and rig.log[k][0] == 0:
                continue                                   # clean histories: info replies once, read replies any number of times
            if k < len(rig.log):
                delivered.add(k)
            do(['D', k])
        elif c < 0.82:
            if style == 'clean' and rig.mem._refresh_callback is not None:
                continue                                   # clean histories: never while a refresh is in progress
            do(['F', rng.random() < 0.85])                 # refresh() again, wherever the enumeration is
        elif c < 0.87:
            do(['X'])
            if rng.random() < 0.8:
                do(['F', rng.random() < 0.85])
        elif c < 0.92 and style == 'faulty':
            do(_forged_info(rng, len(dev)))
        elif c < 0.96:
            i = rng.choice(ows) if ows and rng.random() < 0.6 else rng.choice([100, 101])
            do(['R', i, rng.choice([0, 8, 3]), rng.choice([11, 5, 20, 30])])
        else:
            do(['W', rng.choice([100, 101]), rng.choice([0, 30]), [rng.randrange(256) for _ in range(rng.choice([1, 30]))], False])
    for _ in range(120):
        undel = [k for k in range(len(rig.log)) if k not in delivered]
        if not undel:
            break
        delivered.add(undel[0])
        do(['D', undel[0]])
    return {'kind': 'info', 'plan': plan, 'dev': dev, 'blocks': blocks, 'events': events, 'early': early}


def _forged_info(rng, n):
    c = rng.randrange(9)
    if c == 0:
        return ['P', 0, []]
    if c == 1:
        return ['P', 0, [1]]
    if c == 2:
        return ['P', 0, [1, rng.choice([0, 1, n, n + 1, 200])]]
    if c == 3:
        return ['P', 0, [2]]
    if c == 4:
        return ['P', 0, [2, rng.randrange(0, 8)]]
    if c == 5:
        return ['P', 0, [2, rng.randrange(0, 8), 1] + [rng.randrange(256) for _ in range(rng.randrange(0, 11))]]
    if c == 6:
        return ['P', 0, [2, rng.randrange(0, 8), rng.choice([0x77, 1, 0x18]), 112, 0, 0, 0] + [rng.randrange(256) for _ in range(8)]]
    if c == 7:
        return ['P', 0, [rng.choice([0, 3, 77])] + [rng.randrange(256) for _ in range(rng.randrange(0, 4))]]
    return ['P', 0, [2, rng.randrange(0, 8), 1, 112, 0, 0, 0] + [rng.randrange(256) for _ in range(8)] + [1, 2]]


def systematic_info_cases():
    out = []
    ow_ok = ow_image(12, 0xBC, 7, [(1, b'bcLedRing'), (2, b'C')])
    ow_long = ow_image(0xFFFFFFFF, 0xBC, 9, [(1, b'x' * 40), (3, b'y' * 30), (2, b'D')])
    ow_bad_e = ow_image(3, 0xBC, 1, [(1, b'bcQi')], bad_e=True)
    ow_bad_h = ow_image(3, 0xBC, 1, [(1, b'bcQi')], bad_h=True)
    a8 = [1, 2, 3, 4, 5, 6, 7, 8]
    devs = [
        ([], []),
        ([[0, 0x1000, [0] * 8]], []),
        ([[0, 0x1000, [0] * 8], [1, 112, a8], [0x19, 0x10000, [0] * 8]], [[1, 0, ow_ok]]),
        ([[1, 112, a8], [1, 112, [9] * 8], [1, 112, [7] * 8], [1, 112, [6] * 8]],
         [[0, 0, ow_ok], [1, 0, ow_bad_e], [2, 0, ow_bad_h], [3, 0, ow_long]]),
        ([[0x14, 0x1000, [0] * 8], [1, 112, a8], [0x15, 0x1000, [0] * 8], [1, 112, [9] * 8], [0x12, 0x800, [0] * 8],
          [0x77, 5, [0] * 8]], [[1, 0, ow_long], [3, 0, ow_ok]]),
    ]
    for dev, blocks in devs:
        base = {'kind': 'info', 'plan': [], 'dev': dev, 'blocks': blocks}
        inorder = [['D', k] for k in range(40)]
        out.append(dict(base, events=[['F', True]] + inorder))
        out.append(dict(base, events=[['F', True]] + [x for k in range(40) for x in (['D', k], ['D', k])]))
        # refresh() again after every k-th reply; link drop after every k-th reply, then a new session
        for k in range(0, 12):
            out.append(dict(base, events=[['F', True]] + inorder[:k] + [['F', True]] + inorder))
            out.append(dict(base, events=[['F', True]] + inorder[:k] + [['X'], ['F', True]] + inorder))
            out.append(dict(base, events=[['F', True]] + inorder[:k] + [['F', True]] + inorder[k:] + inorder[:k]))
    for dev, blocks in devs:
        out.append({'kind': 'info', 'plan': [], 'dev': dev, 'blocks': blocks, 'early': True,
                    'events': [['F', True]] + [['D', k] for k in range(40)]})
    # a read registered after the disconnect clean-up (F02i), then the next session's refresh
    dev, blocks = devs[2]
    out.append({'kind': 'info', 'plan': [], 'dev': dev, 'blocks': blocks,
                'events': [['F', True], ['D', 0], ['X'], ['R', 1, 0, 11], ['F', True]] + [['D', k] for k in range(2, 20)]})
    # the server refuses a 1-wire read (known F06f)
    out.append({'kind': 'info', 'plan': [0, 0, 0, 0, 9], 'dev': dev, 'blocks': blocks,
                'events': [['F', True]] + [['D', k] for k in range(12)]})
    return out


# ------------------------------------------------------------------ model terms
def zblocks(blocks):
    return '[' + '; '.join('(%d, %d, %s)' % (i, a, coqrun.zlist(d)) for (i, a, d) in blocks) + ']'


def zdev(dev):
    return '[' + '; '.join('(%d, %d, %s)' % (t, s, coqrun.zlist(a)) for (t, s, a) in dev) + ']'


def iev_term(ev):
    k = ev[0]
    if k == 'F':
        return 'ISOp (IRefresh %s)' % coqrun.coq_bool(ev[1])
    if k == 'D':
        return 'ISDeliver %d%%nat' % ev[1]
    if k == 'X':
        return 'ISOp (IEv EDisc)'
    if k == 'P' and ev[1] == 0:
        return 'ISOp (IInfo %s)' % coqrun.zlist(ev[2])
    if k == 'P':
        return 'ISOp (IEv (EPkt %s %s))' % (CHN[ev[1]], coqrun.zlist(ev[2]))
    if k == 'R':
        return 'ISOp (IEv (ERead %d %d %d))' % (ev[1], ev[2], ev[3])
    if k == 'W':
        return 'ISOp (IEv (EWrite %d %d %s %s))' % (ev[1], ev[2], coqrun.zlist(ev[3]), coqrun.coq_bool(ev[4]))
    raise ValueError(ev)


def info_case_term(case, events=None):
    evs = case['events'] if events is None else events
    return 'irun_case true false false %s %s %s [%s]' % (coqrun.zlist(case['plan']), zdev(case['dev']), zblocks(case['blocks']),
                                                      '; '.join(iev_term(e) for e in evs))


def run_info_impl(case):
    rig = c06_info.InfoRig(case['plan'], case['dev'], case['blocks'])
    rig.early = bool(case.get('early'))
    out = []
    for ev in case['events']:
        out += rig.do(ev)
    out += [10] + rig.enc_client() + [11, rig.served, len(rig.log)] + [12] + rig.enc_info()
    return out, rig


# ------------------------------------------------------------------ oracle
def expected_elements(rig, case):
    """what the property says the enumeration must end with: one element per device memory, in order; a 1-wire element
    is valid iff start byte and both CRCs are right, and then its fields are the device's"""
    out = []
    for i, (ty, size, addr) in enumerate(case['dev']):
        e = {'id': i, 'type': ty, 'size': size}
        if ty == 1:
            h = [rig.byte(i, a) for a in range(8)]
            e['addr'] = ''.join('%02X' % b for b in addr)
            e['pins'] = h[1] | h[2] << 8 | h[3] << 16 | h[4] << 24
            e['vid'], e['pid'] = h[5], h[6]
            hok = h[0] == 0xEB and crc8(h[:7]) == h[7]
            e['valid'] = False
            if hok:
                n = rig.byte(i, 9)
                ed = [rig.byte(i, 8 + a) for a in range(n + 3)]
                if crc8(ed[:-1]) == ed[-1]:
                    e['valid'] = True
                    el, rest = {}, ed[2:-1]
                    while rest:
                        el[rest[0]] = rest[2:2 + rest[1]]
                        rest = rest[2 + rest[1]:]
                    e['elements'] = el
        out.append(e)
    return out


def observed_elements(rig):
    out = []
    for m in rig.mem.mems:
        e = {'id': m.id, 'type': m.type, 'size': m.size}
        if type(m).__name__ == 'OWElement':
            e['addr'] = m.addr
            e['pins'], e['vid'], e['pid'] = m.pins, m.vid, m.pid
            e['valid'] = bool(m.valid)
            if m.valid:
                e['elements'] = {m._rev_element_mapping[k]: list(v.encode('ISO-8859-1')) for k, v in m.elements.items()}
        out.append(e)
    return out


def judge_info(case, finish=True):
    """In every history: a refresh notification only while a refresh() waits for one, exactly `failed` when the link drops
    with a failure callback waiting, no exception on well-formed input, lock free, and (property text) no read / write
    request record left behind once every reply was delivered.
    The enumeration clauses — the list handed over with `done` is the device's list (1-wire elements valid iff their CRCs
    are right, with the device's fields), the refresh is answered when the device answers everything, a further refresh
    is served — are judged only on histories in which refresh() is never called while another refresh is in progress and
    no 1-wire read is refused: the property text speaks of read / write requests and the library calls refresh() once per
    connection (the two behaviours are described in design.d/C06.md as observations)."""
    case = {k: (list(v) if isinstance(v, list) else v) for k, v in case.items()}
    case['events'] = [list(e) for e in case['events']]
    rig = c06_info.InfoRig(case['plan'], case['dev'], case['blocks'])
    rig.early = bool(case.get('early'))
    state = {'armed': False, 'fcb': False, 'forged': False, 'refused_ow': False, 'overlap': False, 'seen': 0, 'fail': None,
             'epoch': 0, 'info_seen': set()}          # log length at the latest refresh() / link drop: older info replies belong to an earlier enumeration
    delivered = set()

    def flag(cls, detail, k=None, expected=None, observed=None):
        if state['fail'] is None:
            evs = case['events'] if k is None else case['events'][:k + 1]
            state['fail'] = {'class': cls, 'case': dict(case, events=evs), 'expected': expected, 'observed': observed,
                             'detail': detail}

    def step(k, ev):
        if ev[0] == 'D' and 0 <= ev[1] < len(rig.log):
            delivered.add(ev[1])
            e = rig.log[ev[1]]
            if e[0] == 0 and (ev[1] < state['epoch'] or ev[1] in state['info_seen']):
                state['overlap'] = True             # a late or duplicated info reply (details replies are processed
                #                                     whatever the state: see design.d/C06.md, observations)
            if e[0] == 0:
                state['info_seen'].add(ev[1])
            if e[0] == 1 and len(e[1]) >= 6 and e[1][5] != 0 and e[1][0] < len(case['dev']) and case['dev'][e[1][0]][0] == 1:
                state['refused_ow'] = True
        if ev[0] == 'P':
            state['forged'] = True
        if ev[0] == 'R' and ev[1] < len(case['dev']):
            state['forged'] = True              # a caller reading a 1-wire memory itself: its element sees that data too
        armed_before, fcb_before = state['armed'], state['fcb']
        log_before = len(rig.log)
        rig.do(ev)
        delivered.update(rig.early_done)
        state['info_seen'].update(k for k in rig.early_done if rig.log[k][0] == 0)
        notes = []
        for item in rig.stream[state['seen']:]:
            if item[0] == 'refresh':
                if state['armed']:
                    state['overlap'] = True         # refresh() while another one is in progress
                state['epoch'] = log_before
                state['armed'], state['fcb'] = True, item[1]
            elif item[0] == 'rf':
                notes.append(item[1])
                if not state['armed']:
                    flag('refresh_notified_twice', 'refresh notification %r without a refresh() waiting for one' % item[1], k)
                state['armed'] = False
                if item[1] == 'done' and not state['forged'] and not state['refused_ow'] and not state['overlap']:
                    want, got = expected_elements(rig, case), observed_elements(rig)
                    if want != got:
                        flag('enumeration_wrong', 'refresh reported done with a list of memories that is not the device\'s',
                             k, want, got)
        state['seen'] = len(rig.stream)
        if rig.last_raised and 'read_failed()' in rig.last_exc:
            flag('read_failed_listener_wrong_arity', 'a failed read is reported to a listener that does not take the '
                 'arguments of mem_read_failed_cb, the handler is left half way: %s' % rig.last_exc, k)
        if ev[0] == 'X':
            if armed_before and fcb_before and notes != ['failed']:
                flag('refresh_not_failed_on_disconnect', 'the link dropped during a refresh, notifications: %r' % notes, k,
                     ['failed'], notes)
            state['armed'] = False
            state['overlap'] = state['refused_ow'] = False      # a link drop resets everything
            state['epoch'] = len(rig.log)
        if rig.locked():
            flag('lock_left_held', 'the write lock is held after the event', k)
        if rig.last_raised and 'read_failed()' in rig.last_exc:
            flag('read_failed_listener_wrong_arity', 'a failed read is reported to a listener that does not take the '
                 'arguments of mem_read_failed_cb, the handler is left half way: %s' % rig.last_exc, k)
        if rig.last_raised and ev[0] != 'P' and not state['forged']:
            flag('handler_raises', 'an exception left %r: %s' % (ev[:2], rig.last_exc), k)

    for k, ev in enumerate(list(case['events'])):
        step(k, ev)
        if state['fail']:
            return state['fail']
    if not finish:
        return None
    # every reply not yet delivered, oldest first
    for _ in range(400):
        und = [j for j in range(len(rig.log)) if j not in delivered]
        if not und:
            break
        case['events'].append(['D', und[0]])
        step(len(case['events']) - 1, case['events'][-1])
        if state['fail']:
            return state['fail']
    wellformed = all(_wellformed_ow(rig, i) for i, d in enumerate(case['dev']) if d[0] == 1)
    reads, writes = rig.pending()
    if (reads or any(writes.values())) and not state['forged']:
        flag('request_record_left_behind', 'every reply was delivered, request records are still there: reads %r writes %r'
             % (sorted(reads), {i: q for i, q in writes.items() if q}))
        return state['fail']
    judged = wellformed and not state['forged'] and not state['overlap'] and not state['refused_ow']
    JUDGED[0] += 1 if judged else 0
    if state['armed'] and judged:
        flag('refresh_never_completes', 'every reply was delivered, the refresh() is answered neither with done nor with failed')
        return state['fail']
    # afterwards a further refresh is served (in order, no refusals) with the exact list
    if judged:
        rig.plan = []
        base = len(rig.log)
        case['events'].append(['F', True])
        step(len(case['events']) - 1, case['events'][-1])
        for j in range(base, base + 200):
            if j >= len(rig.log) or state['fail']:
                break
            case['events'].append(['D', j])
            step(len(case['events']) - 1, case['events'][-1])
        if not state['fail'] and state['armed']:
            flag('refresh_not_served_after_history', 'after the history a refresh() whose requests are all answered in order '
                 'does not complete')
    return state['fail']


JUDGED = [0]      # histories on which the enumeration clauses were judged to the end (evidence)


def _wellformed_ow(rig, i):
    """1-wire content the parser is specified for: element ids 1..3, lengths inside the element area (parsing other
    content is C14's subject)"""
    h = [rig.byte(i, a) for a in range(8)]
    if not (h[0] == 0xEB and crc8(h[:7]) == h[7]):
        return True
    n = rig.byte(i, 9)
    ed = [rig.byte(i, 8 + a) for a in range(n + 3)]
    if crc8(ed[:-1]) != ed[-1]:
        return True
    rest = ed[2:-1]
    while rest:
        if len(rest) < 2 or rest[0] not in (1, 2, 3) or rest[1] > len(rest) - 2:
            return False
        rest = rest[2 + rest[1]:]
    return True
