"""C07 — driving the real `_IncomingPacketHandler.run` of a real `Crazyflie` object synchronously.

No thread is started: `cf.incoming.run()` is called in the calling thread with a scripted link whose
`receive_packet` hands out the case's packets and then raises `_Stop` (a BaseException, so that no
`except Exception` in the code under test can swallow it).  Callbacks are instrumented callables
identified by an integer; the k-th invocation of callback c executes the k-th script of `beh[c]`
(registry operations issued through the public `Crazyflie` wrappers, or `raise`).

Case (JSON-able):
  regs : [[port, pmask, chan, cmask, cb], ...]   initial port/header registrations, in order
  alls : [cb, ...]                               initial `packet_received` callbacks, in order
  pkts : [header byte, ...]
  reads: optional outcome of every receive_packet call: 'p' next packet, 'n' None (timeout), 'e' raises OSError,
         'x' raises Exception (default: one 'p' per packet)
  plens: optional [payload length, ...] parallel to pkts (default 2 bytes each)
  ext  : optional {point: [op, ...]} operations performed by ANOTHER THREAD while the dispatcher waits at a hand-over point:
         'S:n' before packet n is fetched, 'A0:n' after Caller.call copied its list, 'A:n:k' after the k-th packet_received
         callback, 'P0:n' after the list of matching registrations was built, 'P:n:k' after the k-th port callback
  answers: optional {'pending': [[hdr, data, exp], ...], 'inloop': {'n:k': [op, ...]}}: the real Crazyflie._check_for_answers
         listens with these requests pending; at the k-th line executed inside it for packet n another thread performs
         ['sendexp', hdr, data, exp] (send_packet with an expected reply) / ['retry', i] (retry timer i fires)
  beh  : {str(cb): [[op, ...], ...]}             op = ['addh'|'remh', port, pmask, chan, cmask, cb, via]
                                                    | ['addall'|'remall', cb] | ['raise']
         via = 'hdr' (all five arguments given), 'def' (masks left to their 0xFF defaults),
               'port' (add_port_callback / remove_port_callback)
"""
import logging

MAX_CALLS = 400


class _Stop(BaseException):
    pass


class CbRaise(Exception):
    """what a scripted callback raises"""


class ReadFault(OSError):
    """what a failing driver read raises ('e'); 'x' raises a plain Exception subclass"""


class ReadFaultX(Exception):
    pass


class ScriptedLink:
    needs_resending = False

    def __init__(self, pkts, on_next=None, reads=None):
        self.pkts = list(pkts)
        self.i = 0
        self.on_next = on_next
        # outcome of every call of receive_packet: 'p' next packet, 'n' None (timeout), 'e'/'x' the read raises
        self.reads = list(reads) if reads is not None else ['p'] * len(self.pkts)
        self.r = 0
        self.last_raised = False

    def receive_packet(self, wait=0):
        self.last_raised = False
        while self.r < len(self.reads):
            what = self.reads[self.r]
            self.r += 1
            if what == 'n':
                return None
            if what in ('e', 'x'):
                self.last_raised = True
                raise (ReadFault('scripted read failure') if what == 'e' else ReadFaultX('scripted read failure'))
            if self.i < len(self.pkts):
                if self.on_next:
                    self.on_next(self.i)
                pk = self.pkts[self.i]
                self.i += 1
                return pk
        if self.on_next:
            self.on_next(len(self.pkts))
        raise _Stop()

    def send_packet(self, pk):
        pass

    def close(self):
        pass


_CF = []
_WORKER = []


class _Worker:
    """The 'other thread': a real user thread that performs table operations while the dispatcher (the harness thread
    inside the real run()) waits at a hand-over point.  Hand-over is explicit, so every run is deterministic."""

    def __init__(self):
        import queue
        import threading
        self.q = queue.Queue()
        self.done = threading.Event()
        self.errors = []
        t = threading.Thread(target=self._loop, name='c07-user-thread', daemon=True)
        t.start()
        self.ident = t.ident

    def _loop(self):
        while True:
            run, ops = self.q.get()
            for op in ops:
                try:
                    run._do(op)
                except Exception as e:      # stays in the user thread (e.g. ValueError of Caller.remove_callback)
                    self.errors.append(type(e).__name__)
            self.done.set()

    def perform(self, run, ops):
        self.done.clear()
        self.q.put((run, ops))
        return self.done.wait(10)


def _the_worker():
    if not _WORKER:
        _WORKER.append(_Worker())
    return _WORKER[0]



def _the_cf():
    """One real Crazyflie per process (its constructor starts a parameter-updater thread); the dispatcher's
    state consists of the two lists that every Run empties before use."""
    if not _CF:
        from cflib.crazyflie import Crazyflie
        logging.getLogger('cflib').setLevel(logging.CRITICAL)
        _CF.append(Crazyflie())
    return _CF[0]


class Run:
    """One execution of a case on the implementation."""

    def __init__(self, case, observer=None):
        from cflib.crtp.crtpstack import CRTPPacket
        self.case = case
        self.obs = observer
        self.cf = _the_cf()
        # the property is about the dispatcher: start from empty tables (the subsystems' own
        # registrations would react to the generated packets)
        del self.cf.incoming.cb[:]
        del self.cf.packet_received.callbacks[:]
        self.log = []          # (cb, packet no) in invocation order
        self.calls = {}
        self.fn = {}
        self.fn_all = {}
        self.ext = case.get('ext') or {}
        self.fired = []          # hand-over points at which the other thread acted, in order
        self.ext_blocked = False
        self.ka = self.kp = 0
        self.answers = case.get('answers')
        self.vtimers = []
        self.kline = 0
        self.ncalls = 0
        self.pk_index = {}
        self.pkts = []
        plens = case.get('plens')
        for n, h in enumerate(case['pkts']):
            # a real CRTPPacket built from the raw header byte, as the link drivers do; payload length 2 unless the case
            # says otherwise (0 = empty payload ... 30 = full); packets are told apart by object identity
            k = 2 if plens is None else plens[n]
            pk = CRTPPacket(h, ([n & 0xFF, (n >> 8) & 0xFF] + [0xA5] * 30)[:k])
            self.pkts.append(pk)
            self.pk_index[id(pk)] = n
        self.cur = -1
        self.died = None
        self.diverged = False
        for r in case['regs']:
            self._do(['addh'] + list(r) + ['hdr'], setup=True)
        for c in case['alls']:
            self._do(['addall', c], setup=True)

    def cb(self, c):
        if c not in self.fn:
            def f(pk, _c=c):
                self._invoked(_c, pk, 'port')
            f.cbid = c
            self.fn[c] = f
        return self.fn[c]

    def cb_all(self, c):
        if c not in self.fn_all:
            def f(pk, _c=c):
                self._invoked(_c, pk, 'all')
            f.cbid = c
            self.fn_all[c] = f
        return self.fn_all[c]

    def _hand_over(self, key):
        """Hand-over point `key`: the other thread performs the operations the case lists for it."""
        ops = self.ext.get(key)
        if ops:
            self.fired.append(key)
            if not _the_worker().perform(self, ops):
                self.ext_blocked = True
                raise _Stop()

    def _do(self, op, setup=False):
        cf = self.cf
        if self.obs is not None and not setup:
            if not self.obs.before_op(op):
                return
        k = op[0]
        if k == 'raise':
            raise CbRaise()
        if k == 'sendexp':
            # another thread sends a request with an expected reply: a new answer pattern is registered
            from cflib.crtp.crtpstack import CRTPPacket
            cf.send_packet(CRTPPacket(op[1], list(op[2])), expected_reply=tuple(op[3]))
            return
        if k == 'retry':
            # another thread: the retry timer of a pending request fires
            if 0 <= op[1] < len(self.vtimers) and not self.vtimers[op[1]].cancelled:
                self.vtimers[op[1]].function()
            return
        if k == 'addall':
            cf.packet_received.add_callback(self.cb_all(op[1]))
        elif k == 'remall':
            cf.packet_received.remove_callback(self.cb_all(op[1]))
        else:
            port, pmask, chan, cmask, c, via = op[1:7]
            f = self.cb(c)
            if via == 'port':
                assert (pmask, chan, cmask) == (255, 0, 0)
                (cf.add_port_callback if k == 'addh' else cf.remove_port_callback)(port, f)
            elif via == 'def':
                assert (pmask, cmask) == (255, 255)
                (cf.add_header_callback if k == 'addh' else cf.remove_header_callback)(f, port, chan)
            else:
                (cf.add_header_callback if k == 'addh' else cf.remove_header_callback)(f, port, chan, pmask, cmask)

    def _invoked(self, c, pk, kind='port'):
        n = self.pk_index.get(id(pk), -1)
        if kind == 'all' and self.ka == 0:
            self._hand_over('A0:%d' % n)        # Caller.call has taken its copy, no callback called yet
        if kind == 'port' and self.kp == 0:
            self._hand_over('P0:%d' % n)        # the list of matching registrations is built, no port callback called yet
        self.log.append((c, n))
        self.ncalls += 1
        if self.ncalls > MAX_CALLS + 40 * len(self.pkts):
            self.diverged = True
            raise _Stop()
        k = self.calls.get(c, 0)
        self.calls[c] = k + 1
        scripts = self.case['beh'].get(str(c), [])
        script = scripts[k] if k < len(scripts) else []
        if self.obs is not None:
            self.obs.invoked(c, n)
        if kind == 'all':
            for op in script:
                self._do(op)                    # an exception leaves run(): no hand-over any more
            self.ka += 1
            self._hand_over('A:%d:%d' % (n, self.ka))
        else:
            try:
                for op in script:
                    self._do(op)
            finally:
                self.kp += 1
                self._hand_over('P:%d:%d' % (n, self.kp))

    def _next(self, i):
        self.cur = i
        self.ka = self.kp = 0
        if self.obs is not None and hasattr(self.obs, 'dispatch_over'):
            self.obs.dispatch_over()
        if i < len(self.pkts):
            self._hand_over('S:%d' % i)         # between two dispatches
        if self.obs is not None:
            self.obs.packet_boundary(i)

    def go(self):
        link = ScriptedLink(self.pkts, on_next=self._next, reads=self.case.get('reads'))
        self.cf.link = link
        restore = None
        if self.answers:
            restore = self._arm_answer_check(link)
        try:
            self.cf.incoming.run()
        except _Stop:
            pass
        except BaseException as e:  # the dispatcher "thread" died
            self.died = type(e).__name__
        finally:
            if restore:
                restore()
        self.cf.link = None
        self.consumed = link.i
        # the loop was ended by an exception of the link's receive_packet (not by a callback)
        self.read_fault_death = self.died is not None and link.last_raised
        self.reads_done = link.r
        return self

    def _arm_answer_check(self, link):
        """The library's own packet_received listener `Crazyflie._check_for_answers` with pending answer patterns, and
        ANOTHER THREAD acting at line-level preemption points inside it: a trace function on the dispatcher thread hands
        over at every new source line executed in _check_for_answers ('n:k' = k-th line event while packet n is checked).
        A switch inside `list(d.keys())` or any other single C call is impossible, exactly as under the GIL."""
        import sys
        import cflib.crazyflie as cfmod
        run = self
        cf = self.cf

        class VT:
            def __init__(self, interval, function):
                self.function, self.cancelled = function, False
                run.vtimers.append(self)

            def start(self): pass

            def cancel(self):
                self.cancelled = True
        saved_timer = cfmod.Timer
        cfmod.Timer = VT
        link.needs_resending = True
        from cflib.crtp.crtpstack import CRTPPacket
        for hdr, data, exp in self.answers.get('pending', []):
            cf.send_packet(CRTPPacket(hdr, list(data)), expected_reply=tuple(exp))
        cf.packet_received.add_callback(cf._check_for_answers)
        code = type(cf)._check_for_answers.__code__
        inloop = self.answers.get('inloop') or {}

        def local(frame, event, arg):
            if event == 'line':
                run.kline += 1
                ops = inloop.get('%d:%d' % (run.cur, run.kline))
                if ops:
                    run.fired.append('L:%d:%d' % (run.cur, run.kline))
                    if not _the_worker().perform(run, ops):
                        run.ext_blocked = True
            return local

        def tracer(frame, event, arg):
            if event == 'call' and frame.f_code is code:
                run.kline = 0
                return local
            return None
        sys.settrace(tracer)

        def restore():
            sys.settrace(None)
            cfmod.Timer = saved_timer
            try:
                cf.packet_received.remove_callback(cf._check_for_answers)
            except ValueError:
                pass
            cancel = getattr(cf, '_cancel_answer_timers', None)
            if cancel:
                cancel()
            else:
                cf._answer_patterns = {}
        return restore


def run_case(case, observer=None):
    r = Run(case, observer).go()
    return {'log': [list(x) for x in r.log], 'alive': r.died is None and not r.diverged and not r.ext_blocked,
            'died': r.died, 'diverged': r.diverged, 'consumed': r.consumed, 'fired': list(r.fired),
            'ext_blocked': r.ext_blocked, 'read_fault_death': r.read_fault_death, 'reads_done': r.reads_done}
