"""C12 — fakes for the code around _internal_flash: a virtual clock for cflib.bootloader.cloader, a link that
plays back a list of receive events (for Cloader._update_info), and a bootloader link that, in addition to the
flashing behaviour of c12_target.Link, answers getInfo / reset / mapping requests (for whole Bootloader.flash
sessions).  No cflib import at module level."""
import struct

from fakes import c12_target as ft


class VClock:
    """Stands in for the `time` module inside cflib.bootloader.cloader: tenths of a second, advanced only by
    the fake link (2 s for an empty receive, 0.1 s for a delivered packet) and by sleep()."""

    def __init__(self):
        self.t = 0

    def time(self):
        return self.t / 10.0

    def sleep(self, s):
        self.t += int(round(s * 10))


class EventLink:
    """receive_packet returns the scripted events in order (None = nothing within the timeout)."""

    def __init__(self, events, clock, CRTPPacket):
        self.events = [None if e is None else [e[0], list(e[1])] for e in events]
        self.clock = clock
        self.P = CRTPPacket
        self.sent = []
        self.uri = 'radio://0/0/2M/E7E7E7E7E7'

    def send_packet(self, pk):
        if len(self.sent) > 1000:
            raise ft.HarnessAbort('too many frames')
        self.sent.append([pk.header] + list(bytes(pk.data)))

    def receive_packet(self, wait=0):
        e = self.events.pop(0) if self.events else None
        if e is None:
            self.clock.t += int(round(wait * 10))
            return None
        self.clock.t += 1
        return self.P(e[0], bytearray(e[1]))

    def close(self):
        pass


def info_packet(tid, ps, bp, fp, sp, cpuid=None, rest=()):
    cpuid = list(cpuid) if cpuid is not None else [(tid + 3 * k) % 256 for k in range(12)]
    return [0xFF, [tid, 0x10] + list(struct.pack('<HHHH', ps, bp, fp, sp)) + cpuid + list(rest)]


class SessionLink(ft.Link):
    """The flashing link of c12_target plus the rest of the bootloader protocol.
    reports[tid] = list of (ps, bp, fp, sp, rest) given in turn to successive getInfo requests (last repeats)."""

    def __init__(self, targets, script, CRTPPacket, reports, clock):
        ft.Link.__init__(self, targets, script, [], CRTPPacket)
        self.reports = {k: list(v) for k, v in reports.items()}
        self.clock = clock
        self.uri = 'radio://0/0/2M/B1E7E7E7E7'
        self.info_given = []      # (tid, report) in the order handed out
        self.resets = 0
        self.reset_phase = 0      # number of completed resets into the (new) bootloader: selects the report

    def send_packet(self, pk):
        ft.Link.send_packet(self, pk)
        d = bytes(pk.data)
        if pk.header != 0xFF or len(d) < 2:
            return
        tid, cmd = d[0], d[1]
        if cmd == 0x10 and tid in self.reports:
            reps = self.reports[tid]
            r = reps[min(self.reset_phase, len(reps) - 1)]
            self.info_given.append((tid, r))
            self.q.append(info_packet(tid, r[0], r[1], r[2], r[3], rest=r[4]))
        elif cmd == 0xFF and len(d) == 2:
            self.q.append([0xFF, [tid, 0xFF, 0xE7, 0xE7, 0xE7, 0xE7, 0xB1]])
        elif cmd == 0xF0:
            self.resets += 1
            self.reset_phase += 1
            self.q = []
        # 0x12 (mapping): no answer

    def receive_packet(self, wait=0):
        r = ft.Link.receive_packet(self, wait)
        if r is None:
            self.clock.t += int(round(wait * 10))
        else:
            self.clock.t += 1
        return r


class ReadLink:
    """Device side of Cloader.read_flash: every read request [tid, 0x1C, page, offset] consumes one fate:
    'lost' (no reply), ['wrong', [hdr, data]] (that packet arrives instead), 'good' (25 bytes of flash from
    page*ps+offset, fewer at the end of the flash).  Script exhausted: good."""

    def __init__(self, target, fates, CRTPPacket):
        self.t, self.fates, self.P = target, list(fates), CRTPPacket
        self.q, self.sent = [], []

    def device_read(self, page, off):
        a = page * self.t.ps + off
        return [0xFF, [self.t.tid, 0x1C] + list(struct.pack('<HH', page, off)) + list(self.t.flash[a:a + 25])]

    def send_packet(self, pk):
        d = bytes(pk.data)
        if len(self.sent) > 5000:
            raise ft.HarnessAbort('read request repeated without bound')
        self.sent.append([pk.header] + list(d))
        if pk.header == 0xFF and len(d) == 6 and d[1] == 0x1C:
            f = self.fates.pop(0) if self.fates else 'good'
            if f == 'lost':
                return
            if f == 'good':
                if d[0] == self.t.tid:
                    page, off = struct.unpack('<HH', d[2:6])
                    self.q.append(self.device_read(page, off))
                return
            self.q.append([f[1][0], list(f[1][1])])

    def receive_packet(self, wait=0):
        if not self.q:
            return None
        h, d = self.q.pop(0)
        return self.P(h, bytearray(d))

    def close(self):
        pass


class StreamLink:
    """For Cloader.write_flash alone: the k-th receive_packet(wait > 0) returns rx[k]; after the list: `tail` —
    None (silence) or a packet returned for ever.  receive_packet(0) (the flush) finds nothing.  Listen budget as in
    c12_target.Link."""

    def __init__(self, rx, tail, CRTPPacket, budget=200):
        self.rx, self.tail, self.P, self.budget = [None if e is None else [e[0], list(e[1])] for e in rx], tail, CRTPPacket, budget
        self.k = 0
        self.sent = []

    def send_packet(self, pk):
        self.sent.append([pk.header] + list(bytes(pk.data)))
        if len(self.sent) > 100:
            raise ft.HarnessAbort('flash-write retried without bound')

    def receive_packet(self, wait=0):
        if not wait:
            return None
        k, self.k = self.k, self.k + 1
        if self.k > self.budget:
            raise ft.HarnessAbort('listen budget exceeded: %d receive_packet calls' % self.k)
        e = self.rx[k] if k < len(self.rx) else self.tail
        return None if e is None else self.P(e[0], bytearray(e[1]))

    def close(self):
        pass
