"""C12 — fakes for the code around _internal_flash: a virtual clock for cflib.bootloader.cloader, a link that
plays back a list of receive events (for Cloader._update_info), and a bootloader link that, in addition to the
flashing behaviour of c12_target.Link, answers getInfo / reset / mapping requests (for whole Bootloader.flash
sessions).  No cflib import at module level."""
import struct

from fakes import c12_target as ft


class VClock:
    """Stands in for the `time` module inside cflib.bootloader.cloader: tenths of a second, advanced only by
    the fake link (2 s for an empty receive, 0.1 s for a delivered packet) and by sleep()."""

    def __init__(self):
        self.t = 0

    def time(self):
        return self.t / 10.0

    def sleep(self, s):
        self.t += int(round(s * 10))


class EventLink:
    """receive_packet returns the scripted events in order (None = nothing within the timeout)."""

    def __init__(self, events, clock, CRTPPacket):
        self.events = [None if e is None else [e[0], list(e[1])] for e in events]
        self.clock = clock
        self.P = CRTPPacket
        self.sent = []
        self.uri = 'radio://0/0/2M/E7E7E7E7E7'

    def send_packet(self, pk):
        if len(self.sent) > 1000:
            raise ft.HarnessAbort('too many frames')
        self.sent.append([pk.header] + list(bytes(pk.data)))

    def receive_packet(self, wait=0):
        e = self.events.pop(0) if self.events else None
        if e is None:
            self.clock.t += int(round(wait * 10))
            return None
        self.clock.t += 1
        return self.P(e[0], bytearray(e[1]))

    def close(self):
        pass


def info_packet(tid, ps, bp, fp, sp, cpuid=None, rest=()):
    cpuid = list(cpuid) if cpuid is not None else [(tid + 3 * k) % 256 for k in range(12)]
    return [0xFF, [tid, 0x10] + list(struct.pack('<HHHH', ps, bp, fp, sp)) + cpuid + list(rest)]


class SessionLink(ft.Link):
    """The flashing link of c12_target plus the rest of the bootloader protocol.
    reports[tid] = list of (ps, bp, fp, sp, rest) given in turn to successive getInfo requests (last repeats)."""

    def __init__(self, targets, script, CRTPPacket, reports, clock):
        ft.Link.__init__(self, targets, script, [], CRTPPacket)
        self.reports = {k: list(v) for k, v in reports.items()}
        self.clock = clock
        self.uri = 'radio://0/0/2M/B1E7E7E7E7'
        self.info_given = []      # (tid, report) in the order handed out
        self.resets = 0
        self.reset_phase = 0      # number of completed resets into the (new) bootloader: selects the report

    def send_packet(self, pk):
        ft.Link.send_packet(self, pk)
        d = bytes(pk.data)
        if pk.header != 0xFF or len(d) < 2:
            return
        tid, cmd = d[0], d[1]
        if cmd == 0x10 and tid in self.reports:
            reps = self.reports[tid]
            r = reps[min(self.reset_phase, len(reps) - 1)]
            self.info_given.append((tid, r))
            self.q.append(info_packet(tid, r[0], r[1], r[2], r[3], rest=r[4]))
        elif cmd == 0xFF and len(d) == 2:
            self.q.append([0xFF, [tid, 0xFF, 0xE7, 0xE7, 0xE7, 0xE7, 0xB1]])
        elif cmd == 0xF0:
            self.resets += 1
            self.reset_phase += 1
            self.q = []
        # 0x12 (mapping): no answer

    def receive_packet(self, wait=0):
        r = ft.Link.receive_packet(self, wait)
        if r is None:
            self.clock.t += int(round(wait * 10))
        else:
            self.clock.t += 1
        return r
