"""C17 — deterministic virtual-time driver for cflib.positioning.{motion_commander,position_hl_commander}.

Nothing in /repo is modified.  For the duration of one run the module-level names `time`, `Queue` (and, in
exact mode, `math`) of the two cflib modules are rebound to the fakes below and `_SetPointThread.start/join`
are overridden on the class; everything is restored afterwards.

* virtual clock: `time.time()` returns `sim.now`; `time.sleep(d)` raises ValueError for d < 0 (as CPython does)
  and otherwise lets the setpoint thread(s) run until `now + d`.
* the real `_SetPointThread.run` executes in a real Python thread, but exactly one thread runs at a time
  (baton = per-thread semaphore).  The setpoint thread only gives the baton back inside `Queue.get` (its only
  blocking operation).  Virtual time advances only while the commanding thread is blocked (sleep / join).
* schedule: a list of bits, one consumed at every *choice point*:
    (a) right after the commanding thread did `queue.put` while a setpoint thread is runnable: bit 1 = the setpoint thread runs now until it blocks again,
        bit 0 = it is deferred (it runs at the latest when the commanding thread blocks);
    (b) when a sleep ends exactly at the setpoint thread's `get` deadline: bit 1 = the timeout fires before the
        commanding thread continues, bit 0 = the commanding thread continues first.
  Exhausted schedule = bit 1.
* numbers: `exact=False` uses Python floats and the real `math` (this is what the oracle looks at);
  `exact=True` runs the very same cflib code on `Ex` values = exact rationals that absorb float constants of
  the source with their decimal-literal value (0.2 -> 1/5), with `math.sqrt` exact on rational squares and
  `math.pi` = the decimal value of the float.  That is the real-number semantics of the code, comparable with
  the Coq model over Q without tolerances.
"""
import inspect
import math as _real_math
import queue as _real_queue
import threading
from fractions import Fraction

START_TIME = 5          # virtual clock value when a run starts (non-zero on purpose)
MAX_STEPS = 200000


class SimHang(Exception):
    pass


class NotExact(Exception):
    pass


class UserError(Exception):
    """raised by the 'raise' primitive inside the with-body"""


# ------------------------------------------------------------------------------------------ exact numbers

def to_frac(v):
    if isinstance(v, Ex):
        return v.f
    if isinstance(v, Fraction):
        return v
    if isinstance(v, bool):
        raise TypeError('bool used as a number')
    if isinstance(v, int):
        return Fraction(v)
    if isinstance(v, float):
        return Fraction(repr(v))
    if isinstance(v, str):
        return Fraction(v)
    raise TypeError('not a number: %r' % (v,))


class Ex(object):
    __slots__ = ('f',)

    def __init__(self, v):
        self.f = to_frac(v)

    def __add__(self, o): return Ex(self.f + to_frac(o))
    def __radd__(self, o): return Ex(to_frac(o) + self.f)
    def __sub__(self, o): return Ex(self.f - to_frac(o))
    def __rsub__(self, o): return Ex(to_frac(o) - self.f)
    def __mul__(self, o): return Ex(self.f * to_frac(o))
    def __rmul__(self, o): return Ex(to_frac(o) * self.f)

    def __truediv__(self, o):
        d = to_frac(o)
        if d == 0:
            raise ZeroDivisionError('float division by zero')
        return Ex(self.f / d)

    def __rtruediv__(self, o):
        if self.f == 0:
            raise ZeroDivisionError('float division by zero')
        return Ex(to_frac(o) / self.f)

    def __pow__(self, o):
        e = to_frac(o)
        if e.denominator != 1:
            raise NotExact('non-integer power')
        if e < 0 and self.f == 0:
            raise ZeroDivisionError('0.0 cannot be raised to a negative power')
        return Ex(self.f ** int(e))

    def __neg__(self): return Ex(-self.f)
    def __pos__(self): return self
    def __abs__(self): return Ex(abs(self.f))
    def __eq__(self, o):
        try:
            return self.f == to_frac(o)
        except TypeError:
            return False

    def __ne__(self, o): return not self.__eq__(o)
    def __lt__(self, o): return self.f < to_frac(o)
    def __le__(self, o): return self.f <= to_frac(o)
    def __gt__(self, o): return self.f > to_frac(o)
    def __ge__(self, o): return self.f >= to_frac(o)
    def __hash__(self): return hash(self.f)
    def __bool__(self): return self.f != 0
    def __float__(self): return float(self.f)
    def __repr__(self): return 'Ex(%s)' % self.f


class ExactMath(object):
    """stands in for the `math` module inside the cflib positioning modules (exact mode only)"""
    pi = Ex(Fraction(repr(_real_math.pi)))

    def __init__(self):
        self.failed = False

    def sqrt(self, x):
        f = to_frac(x)
        if f < 0:
            raise ValueError('math domain error')
        n, d = f.numerator, f.denominator
        rn, rd = _real_math.isqrt(n), _real_math.isqrt(d)
        if rn * rn != n or rd * rd != d:
            self.failed = True
            raise NotExact('sqrt of %s is irrational' % f)
        return Ex(Fraction(rn, rd))

    def __getattr__(self, name):
        return getattr(_real_math, name)


# ------------------------------------------------------------------------------------------ scheduler

class _Rec(object):
    def __init__(self, obj):
        self.obj = obj
        self.sem = threading.Semaphore(0)
        self.waiting = None       # (queue, deadline) while blocked in get
        self.done = False
        self.error = None
        self.thread = None
        self.started_at = None


class Sim(object):
    def __init__(self, exact, sched):
        self.exact = exact
        self.now = Ex(START_TIME) if exact else float(START_TIME)
        self.sched = list(sched)
        self.sched_used = 0
        self.main_sem = threading.Semaphore(0)
        self.recs = []
        self.by_thread = {}
        self.events = []
        self.puts = []
        self.steps = 0
        self.cleanup = False
        self.stalls = None        # wave 12: {'at': [[k, d], ...]} and/or {'every': n, 'd': d}: the k-th send made by a setpoint
        self.sp_sends = 0         #          thread blocks for d virtual seconds (a stalled link) before it reaches the recorder

    def set_stalls(self, spec):
        self.stalls = spec or None

    def next_stall(self):
        """duration for which the send now being made by a setpoint thread blocks (0 = not at all)"""
        k = self.sp_sends
        self.sp_sends += 1
        sp = self.stalls
        if not sp or self.cleanup:
            return 0
        for kk, d in sp.get('at', []):
            if kk == k:
                return self.num(d)
        n = sp.get('every')
        if n and k >= sp.get('from', 0) and (k - sp.get('from', 0)) % n == 0:
            return self.num(sp['d'])
        return 0

    def stall(self, d):
        """called in a setpoint thread: it is stuck inside a send for d virtual seconds; the other threads go on"""
        rec = self.by_thread.get(threading.current_thread())
        if rec is None or not d or d <= 0:
            return
        wake = self.now + d
        rec.waiting = (None, wake)
        while True:
            self.main_sem.release()
            rec.sem.acquire()
            if self.now >= wake:
                rec.waiting = None
                return

    def num(self, v):
        if v is None:
            return None
        f = to_frac(v)
        return Ex(f) if self.exact else float(f)

    # ---- schedule
    def choose(self):
        k = self.sched_used
        self.sched_used += 1
        if k < len(self.sched):
            return bool(self.sched[k])
        return True

    # ---- thread plumbing
    def _runnable(self, rec):
        if rec.done or rec.waiting is None:
            return False
        q, dl = rec.waiting
        return (q is not None and bool(q.items)) or (dl is not None and self.now >= dl)

    def _step(self, rec):
        self.steps += 1
        if self.steps > MAX_STEPS:
            raise SimHang('too many scheduling steps')
        rec.sem.release()
        self.main_sem.acquire()

    def alive(self):
        return [r for r in self.recs if not r.done]

    def flush(self):
        progress = True
        while progress:
            progress = False
            for rec in self.recs:
                while self._runnable(rec):
                    self._step(rec)
                    progress = True

    def choice_point(self):
        if self.cleanup:
            return
        if any(self._runnable(r) for r in self.recs):
            if self.choose():
                self.flush()

    def start_thread(self, obj):
        rec = _Rec(obj)
        rec.started_at = self.now
        self.recs.append(rec)

        def body():
            rec.sem.acquire()
            try:
                obj.run()
            except BaseException as e:  # noqa  (thread death is an observation)
                rec.error = e
            rec.done = True
            rec.waiting = None
            self.main_sem.release()
        t = threading.Thread(target=body, daemon=True)
        rec.thread = t
        self.by_thread[t] = rec
        obj._c17_rec = rec
        t.start()
        self._step(rec)     # runs until its first blocking get

    def join_thread(self, obj, timeout=None):
        """Thread.join([timeout]) of the commanding thread: blocks in virtual time until the thread has ended or, with a
        timeout, until that much time has passed (then the thread may still be alive)"""
        rec = obj._c17_rec
        target = None if timeout is None else self.now + timeout
        while not rec.done:
            self.flush()
            if rec.done:
                break
            dls = [r.waiting[1] for r in self.alive() if r.waiting and r.waiting[1] is not None]
            nxt = min(dls) if dls else None
            if target is not None and (nxt is None or nxt > target):
                self.now = target
                return
            if nxt is None:
                raise SimHang('join on a thread that waits forever')
            self.now = nxt
            self.steps += 1
            if self.steps > MAX_STEPS:
                raise SimHang('join never returns')

    # ---- time
    def time(self):
        return self.now

    def sleep(self, d):
        if d < 0:
            raise ValueError('sleep length must be non-negative')
        if threading.current_thread() in self.by_thread:
            raise SimHang('setpoint thread sleeps')
        target = self.now + d
        while True:
            self.flush()
            dls = [r.waiting[1] for r in self.alive() if r.waiting and r.waiting[1] is not None]
            dl = min(dls) if dls else None
            if dl is None or dl > target:
                self.now = target
                return
            if dl < target:
                self.now = dl
                continue
            self.now = target
            if self.choose():
                self.flush()
            return

    # ---- queue
    def make_queue_class(sim):
        class FQueue(object):
            def __init__(self, maxsize=0):
                self.items = []

            def put(self, item, block=True, timeout=None):
                self.items.append(item)
                sim.puts.append((sim.now, item))
                sim.choice_point()

            def get(self, block=True, timeout=None):
                rec = sim.by_thread.get(threading.current_thread())
                if rec is None:
                    raise SimHang('Queue.get from the commanding thread')
                if self.items:
                    return self.items.pop(0)
                if not block:
                    raise _real_queue.Empty
                if timeout is None:
                    dl = None
                else:
                    if timeout < 0:
                        raise ValueError("'timeout' must be a non-negative number")
                    dl = sim.now + timeout
                rec.waiting = (self, dl)
                while True:
                    sim.main_sem.release()
                    rec.sem.acquire()
                    if self.items:
                        rec.waiting = None
                        return self.items.pop(0)
                    if dl is not None and sim.now >= dl:
                        rec.waiting = None
                        raise _real_queue.Empty

            def qsize(self):
                return len(self.items)

            def empty(self):
                return not self.items
        return FQueue

    def terminate_all(self):
        """harness clean-up (not part of the observed run): let every surviving thread end"""
        self.cleanup = True
        for rec in self.alive():
            try:
                for _ in range(200):
                    if rec.done:
                        break
                    if rec.waiting and rec.waiting[0] is not None:
                        rec.waiting[0].items[:] = [rec.obj.TERMINATE_EVENT]
                    if self._runnable(rec):
                        self._step(rec)
                    elif rec.waiting and rec.waiting[1] is not None:
                        self.now = rec.waiting[1]
                    else:
                        break
            except Exception:
                pass


class FakeTime(object):
    def __init__(self, sim):
        self._sim = sim

    def time(self):
        return self._sim.time()

    def sleep(self, d):
        return self._sim.sleep(d)


class Recorder(object):
    """records every method call as [prefix+name, time, args...]"""

    def __init__(self, sim, prefix):
        self._sim = sim
        self._prefix = prefix

    def __getattr__(self, name):
        if name.startswith('_'):
            raise AttributeError(name)

        def call(*a, **kw):
            if name == 'send_hover_setpoint' and threading.current_thread() in self._sim.by_thread:
                self._sim.stall(self._sim.next_stall())       # a stalled link: the send blocks, then goes through
            ev = [self._prefix + name, self._sim.now] + list(a)
            if kw:
                ev.append(sorted(kw.items()))
            if name == 'send_hover_setpoint':
                # ghost observation: the vertical velocity the sending thread integrates at this moment
                rec = self._sim.by_thread.get(threading.current_thread())
                ev.append(('vz', getattr(rec.obj, '_z_velocity', None) if rec is not None else None))
            self._sim.events.append(ev)
        return call


class FakeCF(object):
    def __init__(self, sim):
        self.commander = Recorder(sim, 'c.')
        self.high_level_commander = Recorder(sim, 'h.')
        self.param = Recorder(sim, 'p.')

    connected = True          # what is_connected() reports; the 'link_state' program element changes it during a body

    def is_connected(self):
        return self.connected


class _Patch(object):
    def __init__(self):
        self.undo = []

    def set(self, obj, name, value):
        missing = object()
        old = obj.__dict__.get(name, missing) if isinstance(obj, type) else getattr(obj, name, missing)
        self.undo.append((obj, name, old, missing))
        setattr(obj, name, value)

    def restore(self):
        for obj, name, old, missing in reversed(self.undo):
            if old is missing:
                try:
                    delattr(obj, name)
                except AttributeError:
                    pass
            else:
                setattr(obj, name, old)
        self.undo = []


def classify_exc(e):
    if e is None:
        return 'none'
    if isinstance(e, UserError):
        return 'UserError'
    if isinstance(e, ZeroDivisionError):
        return 'ZeroDivisionError'
    if isinstance(e, ValueError):
        return 'ValueError'
    if type(e) is Exception:
        msg = str(e)
        if 'Already flying' in msg:
            return 'AlreadyFlying'
        if 'Can not move on the ground' in msg:
            return 'NotFlying'
        if 'is not connected' in msg:
            return 'NotConnected'
        return 'Exception:' + msg[:60]
    return 'Other:' + type(e).__name__


def _call(obj, name, args, sim):
    m = getattr(obj, name)
    params = list(inspect.signature(m).parameters)
    if len(args) > len(params):
        raise TypeError('too many arguments for %s' % name)
    kw = {params[i]: sim.num(a) for i, a in enumerate(args) if a is not None}
    return m(**kw)


_run_lock = threading.Lock()


def run_mc(case, exact):
    """Run one MotionCommander case on the real code.  Returns the observation dict."""
    import cflib.positioning.motion_commander as M
    with _run_lock:
        sim = Sim(exact, case.get('sched', []))
        sim.set_stalls(case.get('stalls'))
        P = _Patch()
        P.set(M, 'time', FakeTime(sim))
        P.set(M, 'Queue', sim.make_queue_class())
        xm = ExactMath()
        if exact:
            P.set(M, 'math', xm)
        P.set(M._SetPointThread, 'start', lambda self: sim.start_thread(self))
        P.set(M._SetPointThread, 'join', lambda self, timeout=None: sim.join_thread(self, timeout))
        entered = False
        exc = None
        mc = None
        marks = []
        try:
            cf = FakeCF(sim)
            if case.get('default_height') is None:
                mc = M.MotionCommander(cf)
            else:
                mc = M.MotionCommander(cf, sim.num(case['default_height']))
            try:
                with mc:
                    entered = True
                    marks.append((len(sim.events), len(sim.puts), sim.now, bool(mc._is_flying)))
                    for op in case['ops']:
                        if op[0] == 'raise':
                            raise UserError()
                        if op[0] == 'wait':             # the user's own time.sleep(d) between commands
                            sim.sleep(sim.num(op[1]))
                        elif op[0] == 'link_state':     # the link goes down / comes back while the body runs
                            cf.connected = bool(op[1])
                        else:
                            _call(mc, op[0], op[1:], sim)
                        marks.append((len(sim.events), len(sim.puts), sim.now, bool(mc._is_flying)))
            except SimHang:
                raise
            except NotExact:
                raise
            except BaseException as e:  # noqa
                exc = e
            if xm.failed:
                raise NotExact('irrational square root in this run')
            n_exit = len(sim.events)
            t_exit = sim.now
            flying_after = bool(mc._is_flying)
            thread_ref_after = mc._thread is not None
            alive_after = len(sim.alive())
            # epilogue: let virtual time pass; a surviving setpoint thread shows itself here
            sim.sleep(sim.num(case.get('epilogue', '1')))
            res = {
                'entered': entered, 'exc': classify_exc(exc), 'events': sim.events[:], 'n_exit': n_exit,
                't_exit': t_exit, 'flying_after': flying_after, 'thread_ref_after': thread_ref_after,
                'alive_after': alive_after, 'sched_used': sim.sched_used, 'marks': marks,
                'thread_errors': [repr(r.error) for r in sim.recs if r.error is not None], 'puts': sim.puts[:],
                'period': M._SetPointThread.UPDATE_PERIOD,
            }
            return res
        finally:
            try:
                sim.terminate_all()
            finally:
                P.restore()


def run_hl(case, exact):
    """Run one PositionHlCommander case on the real code."""
    import cflib.positioning.position_hl_commander as H
    with _run_lock:
        sim = Sim(exact, [])
        P = _Patch()
        P.set(H, 'time', FakeTime(sim))
        xm = ExactMath()
        if exact:
            P.set(H, 'math', xm)
        try:
            cf = FakeCF(sim)
            kw = {}
            for k in ('x', 'y', 'z', 'default_velocity', 'default_height', 'default_landing_height'):
                if case.get(k) is not None:
                    kw[k] = sim.num(case[k])
            if case.get('controller') is not None:
                kw['controller'] = case['controller']
            pc = H.PositionHlCommander(cf, **kw)
            if case.get('wait') is not None:
                sim.sleep(sim.num(case['wait']))
            entered = False
            exc = None
            positions = []
            marks = []
            try:
                with pc:
                    entered = True
                    positions.append(list(pc.get_position()))
                    marks.append((len(sim.events), bool(pc._is_flying), pc._default_velocity))
                    for op in case['ops']:
                        if op[0] == 'raise':
                            raise UserError()
                        if op[0] == 'link_state':
                            cf.connected = bool(op[1])
                        else:
                            _call(pc, op[0], op[1:], sim)
                        positions.append(list(pc.get_position()))
                        marks.append((len(sim.events), bool(pc._is_flying), pc._default_velocity))
            except NotExact:
                raise
            except BaseException as e:  # noqa
                exc = e
            if xm.failed:
                raise NotExact('irrational square root in this run')
            n_exit = len(sim.events)
            res = {
                'entered': entered, 'exc': classify_exc(exc), 'events': sim.events[:], 'n_exit': n_exit,
                't_exit': sim.now, 'flying_after': bool(pc._is_flying), 'positions': positions, 'marks': marks,
                'final_position': list(pc.get_position()),
            }
            return res
        finally:
            P.restore()


# ------------------------------------------------------------------------------------------ packet level (round 4)
class _Platform(object):
    def __init__(self, version):
        self._v = version

    def get_protocol_version(self):
        return self._v


class CallTap(object):
    """passes every call on to the REAL commander object and records (name, time, args, wire index before/after)"""

    def __init__(self, real, sim, calls, wire, prefix):
        self._real, self._sim, self._calls, self._wire, self._prefix = real, sim, calls, wire, prefix

    def __getattr__(self, name):
        if name.startswith('_'):
            raise AttributeError(name)
        m = getattr(self._real, name)
        if not callable(m):
            return m

        def call(*a, **kw):
            before = len(self._wire)
            rec = [self._prefix + name, self._sim.now, list(a) + ([sorted(kw.items())] if kw else []), before, None]
            self._calls.append(rec)
            try:
                return m(*a, **kw)
            finally:
                rec[4] = len(self._wire)
        return call


class WireCF(object):
    """Crazyflie-like object carrying the REAL Commander and HighLevelCommander over a link that behaves like the real
    drivers (RadioDriver/UsbDriver.send_packet put the packet OBJECT into an out queue; their thread reads header and data
    later): send_packet keeps the REFERENCE, the simulated radio serialises port/channel/data only when it transmits.
    `radio` = hold schedule: after the i-th send the radio may stay radio[i % len] packets behind (0 = transmit at once).
      wire[i] = snapshot taken at send time  (what was commanded),   air[i] = what was serialised at transmit time."""

    def __init__(self, sim, version, radio=()):
        from cflib.crazyflie.commander import Commander
        from cflib.crazyflie.high_level_commander import HighLevelCommander
        self._sim = sim
        self.wire = []
        self.air = []
        self.pending = []
        self.radio = [int(x) for x in (radio or [])]
        self.nsend = 0
        self.calls = []
        self.platform = _Platform(version)
        self.commander = CallTap(Commander(self), sim, self.calls, self.wire, 'c.')
        self.high_level_commander = CallTap(HighLevelCommander(self), sim, self.calls, self.wire, 'h.')
        self.param = Recorder(sim, 'p.')

    connected = True          # what is_connected() reports; the 'link_state' program element changes it during a body

    def is_connected(self):
        return self.connected

    def send_packet(self, pk, *a, **kw):
        if threading.current_thread() in self._sim.by_thread:
            self._sim.stall(self._sim.next_stall())           # e.g. RadioDriver.send_packet blocking on a full out queue
        # last field: the protocol version of the firmware connected in this session (who will have to decode the packet)
        self.wire.append((self._sim.now, int(pk.port), int(pk.channel), bytes(pk.data), self.platform._v))
        self.pending.append(pk)
        hold = self.radio[self.nsend % len(self.radio)] if self.radio else 0
        self.nsend += 1
        self.transmit(hold)

    def transmit(self, keep=0):
        while len(self.pending) > keep:
            pk = self.pending.pop(0)
            self.air.append((self._sim.now, int(pk.port), int(pk.channel), bytes(pk.data)))


def run_wire(case):
    """Several flights, one after the other, on ONE Crazyflie-like object (one real Commander / HighLevelCommander),
    float mode.  case = {'version': n, 'sched': bits, 'flights': [{'kind': 'mc'|'hl', ...as for run_mc/run_hl...}]}"""
    import warnings
    import cflib.positioning.motion_commander as M
    import cflib.positioning.position_hl_commander as H
    with _run_lock:
        sim = Sim(False, case.get('sched', []))
        sim.set_stalls(case.get('stalls'))
        P = _Patch()
        P.set(M, 'time', FakeTime(sim))
        P.set(M, 'Queue', sim.make_queue_class())
        P.set(H, 'time', FakeTime(sim))
        P.set(M._SetPointThread, 'start', lambda self: sim.start_thread(self))
        P.set(M._SetPointThread, 'join', lambda self, timeout=None: sim.join_thread(self, timeout))
        try:
            with warnings.catch_warnings():
                warnings.simplefilter('ignore')
                cf = WireCF(sim, case.get('version', 10), case.get('radio'))
                flights = []
                helpers = {}
                for fl in case['flights']:
                    # a new session on the same Crazyflie object: the platform service reports the version of the firmware
                    # connected now (the commanders read it through cf.platform.get_protocol_version() when they send)
                    cf.platform._v = fl.get('version', case.get('version', 10))
                    cf.connected = True
                    w0, c0 = len(cf.wire), len(cf.calls)
                    entered, exc, marks = False, None, []
                    key = fl.get('reuse')
                    if fl['kind'] == 'mc':
                        if key is not None and key in helpers:
                            obj = helpers[key]
                        elif fl.get('default_height') is None:
                            obj = M.MotionCommander(cf)
                        else:
                            obj = M.MotionCommander(cf, sim.num(fl['default_height']))
                    else:
                        if key is not None and key in helpers:
                            obj = helpers[key]
                        else:
                            kw = {k: sim.num(fl[k]) for k in ('x', 'y', 'z', 'default_velocity', 'default_height',
                                                              'default_landing_height') if fl.get(k) is not None}
                            obj = H.PositionHlCommander(cf, **kw)
                    if key is not None:
                        helpers[key] = obj
                    try:
                        with obj:
                            entered = True
                            marks.append((len(cf.wire), bool(obj._is_flying), sim.now))
                            for op in fl['ops']:
                                if op[0] == 'raise':
                                    raise UserError()
                                if op[0] == 'wait':
                                    sim.sleep(sim.num(op[1]))
                                elif op[0] == 'link_state':
                                    cf.connected = bool(op[1])
                                else:
                                    _call(obj, op[0], op[1:], sim)
                                marks.append((len(cf.wire), bool(obj._is_flying), sim.now))
                    except SimHang:
                        raise
                    except BaseException as e:  # noqa
                        exc = e
                    w_exit = len(cf.wire)
                    flying_after = bool(obj._is_flying)
                    alive_after = len(sim.alive())
                    sim.sleep(sim.num(fl.get('epilogue', '0.5')))      # time passes between flights
                    cf.transmit(0)                                    # ... and the radio catches up
                    flights.append({'kind': fl['kind'], 'entered': entered, 'exc': classify_exc(exc), 'w0': w0, 'w_exit': w_exit,
                                    'w1': len(cf.wire), 'c0': c0, 'c1': len(cf.calls), 'marks': marks,
                                    'flying_after': flying_after, 'alive_after': alive_after})
                    if not entered or alive_after:
                        break       # a surviving thread would be attributed to the next flight
                cf.transmit(0)
                return {'flights': flights, 'wire': cf.wire[:], 'air': cf.air[:], 'calls': [list(c) for c in cf.calls],
                        'period': M._SetPointThread.UPDATE_PERIOD, 'version': case.get('version', 10)}
        finally:
            try:
                with warnings.catch_warnings():
                    warnings.simplefilter('ignore')
                    sim.terminate_all()
            finally:
                P.restore()
