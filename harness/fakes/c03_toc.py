"""Fakes for C03/C11: a `cf` object for TocFetcher/Log/Param (real port-callback registry, recorded sends,
single-threaded delivery), a Python TOC server (twin of C03/Model.v `dev_reply`), and a monitor that makes
the one worker thread of the parameter subsystem (_ExtendedTypeFetcher) deterministic.

cflib is imported lazily (inside functions) so that the tree selected by VERIF_REPO is the one used."""
import struct
import threading


# ------------------------------------------------------------------ device (TOC server)

class PyDev:
    """items: list of (group: bytes, name: bytes, type_byte: int)."""

    def __init__(self, items, crc, extra=b''):
        self.items = list(items)
        self.crc = crc
        self.extra = bytes(extra)
        self.ext = {}            # ident -> extended type byte (parameter persistence)

    def reply(self, v2, rq):
        rq = bytes(rq)
        n = len(self.items)
        if v2:
            if rq == b'\x03':
                return b'\x03' + struct.pack('<HI', n, self.crc) + self.extra
            if len(rq) == 3 and rq[0] == 2:
                i = rq[1] + 256 * rq[2]
                if i < n:
                    g, nm, tb = self.items[i]
                    return rq + bytes([tb]) + g + b'\0' + nm + b'\0'
            return None
        if rq == b'\x01':
            return b'\x01' + struct.pack('<BI', n, self.crc) + self.extra
        if len(rq) == 2 and rq[0] == 0:
            i = rq[1]
            if i < n:
                g, nm, tb = self.items[i]
                return rq + bytes([tb]) + g + b'\0' + nm + b'\0'
        return None

    def reply_fw(self, dev_ver, rq):
        """what a firmware of protocol version dev_ver answers: the legacy (8-bit) table commands are answered by every
        firmware, with the count capped at 255; the V2 commands only by versions >= 4"""
        rq = bytes(rq)
        if rq[:1] in (b'\x00', b'\x01'):
            capped = PyDev(self.items[:255], self.crc, self.extra)
            return capped.reply(False, rq)
        if dev_ver >= 4:
            return self.reply(True, rq)
        return None

    def ext_reply(self, rq):
        """MISC channel: GET_EXTENDED_TYPE (cmd 2, id16) -> cmd, id16, extended type byte."""
        rq = bytes(rq)
        if len(rq) == 3 and rq[0] == 2:
            i = rq[1] + 256 * rq[2]
            if i in self.ext:
                return rq + bytes([self.ext[i]])
        return None


# ------------------------------------------------------------------ cf

class _Platform:
    def __init__(self, ver):
        self.ver = ver

    def get_protocol_version(self):
        return self.ver


class FakeCF:
    """What TocFetcher / Log / Param need from a Crazyflie.  Port callbacks are kept by the real
    _IncomingPacketHandler registry (never started as a thread); dispatch follows its `run` loop
    (match on port with mask, call, exceptions of a callback are recorded instead of logged)."""

    def __init__(self, ver, trace=None):
        from cflib.crazyflie import _IncomingPacketHandler
        from cflib.utils.callbacks import Caller
        self.platform = _Platform(ver)
        self.link = self                      # truthy; never used as a link
        self.needs_resending = False
        self.incoming = _IncomingPacketHandler(self)
        self.trace = trace if trace is not None else []
        self.disconnected = Caller()
        self.connection_requested = Caller()
        self.connected = Caller()
        self._tl = threading.Lock()

    def add_port_callback(self, port, cb):
        self.incoming.add_port_callback(port, cb)

    def remove_port_callback(self, port, cb):
        self.incoming.remove_port_callback(port, cb)

    def registered(self, cb):
        return any(c.callback == cb for c in self.incoming.cb)

    def send_packet(self, pk, expected_reply=(), resend=False, timeout=0.2):
        with self._tl:
            self.trace.append(('send', pk.port, pk.channel, bytes(pk.data), tuple(expected_reply)))

    def sent(self, port=None, chan=None):
        return [t for t in self.trace if t[0] == 'send' and (port is None or t[1] == port)
                and (chan is None or t[2] == chan)]

    def deliver(self, port, chan, data):
        from cflib.crtp.crtpstack import CRTPPacket
        pk = CRTPPacket()
        pk.set_header(port, chan)
        pk.data = bytes(data)
        self.trace.append(('got', port, chan, bytes(data)))
        for cb in [c for c in list(self.incoming.cb)
                   if c.port == (pk.port & c.port_mask) and c.channel == (pk.channel & c.channel_mask)]:
            try:
                cb.callback(pk)
            except Exception as e:  # the real dispatcher logs and goes on
                self.trace.append(('raised', type(e).__name__, repr(e)[:200]))


# ------------------------------------------------------------------ deterministic worker thread

class Monitor:
    """Replacement for `Lock` and `Queue` as seen by cflib.crazyflie.param, sharing one condition
    variable so that the harness can wait until the worker thread is blocked (on the lock while it is
    held, or on the queue while it is empty) — then nothing can happen until the harness acts."""

    def __init__(self):
        self.cv = threading.Condition()
        self.waiting = {}          # thread ident -> ('lock', obj) | ('queue', obj)
        self.kill = False

    def Lock(self):
        return _MLock(self)

    def Queue(self):
        return _MQueue(self)

    def quiescent(self, thread, timeout=10.0):
        """Block until `thread` is dead or blocked with its wake-up condition false."""
        import time
        end = time.time() + timeout
        with self.cv:
            while True:
                if not thread.is_alive():
                    return 'dead'
                w = self.waiting.get(thread.ident)
                if w is not None:
                    kind, obj = w
                    if kind == 'lock' and obj.held:
                        return 'lock'
                    if kind == 'queue' and not obj.items:
                        return 'queue'
                left = end - time.time()
                if left <= 0:
                    return 'timeout'
                self.cv.wait(min(left, 0.05))

    def shutdown(self, thread):
        with self.cv:
            self.kill = True
            self.cv.notify_all()
        thread.join(5)
        with self.cv:
            self.kill = False


class _MLock:
    def __init__(self, mon):
        self.mon = mon
        self.held = False

    def acquire(self, blocking=True, timeout=-1):
        m = self.mon
        me = threading.get_ident()
        with m.cv:
            if not blocking:
                if self.held:
                    return False
                self.held = True
                return True
            while self.held:
                if m.kill:
                    raise SystemExit
                m.waiting[me] = ('lock', self)
                m.cv.notify_all()
                m.cv.wait(0.5)
            m.waiting.pop(me, None)
            self.held = True
            return True

    def release(self):
        m = self.mon
        with m.cv:
            if not self.held:
                raise RuntimeError('release unlocked lock')
            self.held = False
            m.cv.notify_all()

    def locked(self):
        return self.held

    def __enter__(self):
        self.acquire()

    def __exit__(self, *a):
        self.release()


class _MQueue:
    def __init__(self, mon):
        self.mon = mon
        self.items = []

    def put(self, x, block=True, timeout=None):
        with self.mon.cv:
            self.items.append(x)
            self.mon.cv.notify_all()

    def get(self, block=True, timeout=None):
        from queue import Empty
        m = self.mon
        me = threading.get_ident()
        with m.cv:
            if not block:
                if not self.items:
                    raise Empty
                return self.items.pop(0)
            while not self.items:
                if m.kill:
                    raise SystemExit
                m.waiting[me] = ('queue', self)
                m.cv.notify_all()
                m.cv.wait(0.5)
            m.waiting.pop(me, None)
            return self.items.pop(0)

    def empty(self):
        return not self.items

    def qsize(self):
        return len(self.items)
