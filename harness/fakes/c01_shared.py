"""C01, one layer down: the REAL radiodriver._SharedRadio thread + _SharedRadioInstance + RadioManager on a
real crazyradio.Crazyradio whose fake USB device HAS channel / datarate / address state, and an air with several
Crazyflies: the link's own one and foreign ones on other settings.

  DongleDev        pyusb-like device: vendor requests 0x01/0x02/0x03 tune it, bulk writes go to whoever listens on
                   the tuned (channel, datarate, address)
  SharedSim        c01_radio.Sim with that stack under RadioDriver.connect(); extra script events between two
                   transmissions of the link: ['SC', address|None] RadioDriver.scan_interface from another driver
                   object, ['SS', [uris]] scan_selected from another instance, ['BS', frame] a second link B
                   (other channel/datarate/address) sends a frame through its own _SharedRadioInstance
  run_commands     command histories straight at the _SharedRadioInstance API (tie of Model.rexec)
The _SharedRadio thread is a real thread (its loop cannot be stepped); every client call waits for its answer, so
the histories are deterministic.  The thread is ended with a poison command at the end of a case.
"""
import array
import time
import types

from fakes import c01_radio as base

E7 = (0xe7,) * 5
ADDR_A = (0xe7, 0xe7, 0xe7, 0xe7, 0x01)
ADDR_B = (0xe7, 0xe7, 0xe7, 0xe7, 0x02)
SET_A = (80, 2, ADDR_A)
SET_B = (40, 1, ADDR_B)
FOREIGN = [(125, 2, E7), (33, 0, E7), (7, 1, E7), (125, 0, E7)]
DR_NAME = {0: '250K', 1: '1M', 2: '2M'}


class DongleDev:
    bcdDevice = 0x0099
    serial_number = 'FAKE000001'

    def __init__(self, owner):
        self.owner = owner
        self.ch = self.dr = self.addr = None
        self.log = []
        self._ctx = types.SimpleNamespace(dispose=lambda *a, **k: None)

    def hw(self):
        return (self.ch, self.dr, self.addr)

    def set_configuration(self, n):
        pass

    def reset(self):
        pass

    def ctrl_transfer(self, bmRequestType, bRequest, wValue=0, wIndex=0, timeout=None, data_or_wLength=None):
        if bRequest == 0x01:
            self.ch = wValue
        elif bRequest == 0x02:
            self.addr = tuple(data_or_wLength)
        elif bRequest == 0x03:
            self.dr = wValue
        return array.array('B', [0] * 64)

    def write(self, endpoint, data, timeout=None):
        self.log.append((self.hw(), list(data)))
        self.owner.on_air(data)

    def read(self, endpoint, n, timeout=None):
        return self.owner.on_read()


def close_and_wait(inst, limit=2.0):
    """_SharedRadioInstance.close() only QUEUES the STOP command; wait (bounded) until the shared-radio thread has taken the
    instance out of its table, so that "closed, then somebody opens" really is that order"""
    import cflib.crtp.radiodriver as rd
    iid = inst._instance_id
    inst.close()
    t0 = time.time()
    while time.time() - t0 < limit:
        srs = [sr for sr in rd.RadioManager._radios if sr is not None]
        if not srs or iid not in srs[0]._rsp_queues or srs[0]._rsp_queues.get(iid) is not inst._rsp_queue:
            return
        time.sleep(0.0003)


class _Poison:
    def __getitem__(self, k):
        raise SystemExit


def _install(dev):
    """make RadioManager.open(0) build a fresh _SharedRadio over a Crazyradio on `dev`; returns the undo function"""
    import cflib.crtp.radiodriver as rd
    import cflib.drivers.crazyradio as crz
    saved = (crz._find_devices, rd.RadioManager._radios)
    crz._find_devices = lambda serial=None: [dev]
    rd.RadioManager._radios = []

    def undo():
        for sr in rd.RadioManager._radios:
            if sr is not None:
                sr._cmd_queue.put(_Poison())         # ends the daemon thread (SystemExit is silent)
        crz._find_devices, rd.RadioManager._radios = saved
    return undo


class InstTap:
    """what RadioDriver.connect() gets from RadioManager.open(): the real _SharedRadioInstance behind a tap.  Its
    send_packet is the schedule point in the LINK's thread (scans and link B issue commands to the shared thread
    themselves, so they cannot be run from inside it)."""

    def __init__(self, inst, sim):
        self.inst, self.sim = inst, sim
        self.version = inst.version
        self.closed = 0

    def set_channel(self, c):
        self.inst.set_channel(c)

    def set_data_rate(self, d):
        self.inst.set_data_rate(d)

    def set_address(self, a):
        self.inst.set_address(a)

    def set_arc(self, a):
        self.inst.set_arc(a)

    def close(self):
        self.closed += 1
        self.inst.close()

    def send_packet(self, data):
        is_neg = isinstance(data, tuple)
        if not is_neg:
            if self.sim.open_tx:
                self.sim._close_event()
                self.sim.open_tx = False
            self.sim._between()
        pair = getattr(self.sim, 'pair', None)
        if pair is not None:
            pair.gate(self.sim)                  # 'pre': somebody else may use the dongle first
            pair.current = self.sim
        self.sim.from_A = True
        try:
            r = self.inst.send_packet(data)
        finally:
            self.sim.from_A = False
        self.sim.on_resp(r, is_neg)              # what the dongle answered to THIS transfer, at hand-over
        if pair is not None:
            pair.gate(self.sim)                  # 'post': holds its answer, has not looked at it yet
        return r


class SharedSim(base.Sim):
    URI = 'radio://0/80/2M/E7E7E7E701'
    pair = None

    def _make_radio(self, crz):
        rd = self.rd
        self.dev = DongleDev(self)
        self.from_A = False
        self.air = {SET_A: self.peer, SET_B: base.Peer()}
        for f in FOREIGN:
            self.air[f] = base.Peer()
        self.scans, self.b_sent, self.instB = [], [], None
        self.others = {}
        self.status = []
        self._undo = _install(self.dev)
        for k in self.case.get('pre', []):           # instances that were opened on the dongle BEFORE this link
            self.others[k] = rd.RadioManager.open(0)
        self.tap = InstTap(rd.RadioManager.open(0), self)

    def _cleanup(self):
        try:
            if self.instB is not None:
                self.instB.close()
            for inst in self.others.values():
                inst.close()
        finally:
            self._undo()

    # ---- the air
    def _deliver(self, frame, fill):
        target = self.air.get(self.dev.hw())
        return None if target is None else target.receive(frame, fill)

    def on_air(self, data):
        if self.from_A:
            return self.on_write(data)
        target = self.air.get(self.dev.hw())          # a scan packet or link B's frame: no losses scripted
        self.pending_reply = [0] if target is None else [1] + target.receive(list(data), [])

    # ---- the others on the dongle
    def _side_event(self, e):
        rd = self.rd
        if e[0] == 'SC':
            found = rd.RadioDriver().scan_interface(e[1])
            self.scans.append((e, [f[0] for f in found]))
        elif e[0] == 'SS':
            d = rd.RadioDriver()
            d._radio = rd.RadioManager.open(0)
            d.uri = 'radio://0'          # a driver object on the default address (scan_selected reports the address it
            #                              probes with, taken from its uri, since fix F20c)
            try:
                self.scans.append((e, list(d.scan_selected(e[1]))))
            finally:
                d._radio.close()
        elif e[0] == 'BS':
            if self.instB is None:
                self.instB = rd.RadioManager.open(0)
                self.instB.set_channel(SET_B[0])
                self.instB.set_data_rate(SET_B[1])
                self.instB.set_address(SET_B[2])
            a = self.instB.send_packet(tuple(e[1]))
            self.b_sent.append((list(e[1]), bool(a is not None and a.ack)))
        elif e[0] == 'OP':                       # somebody opens another instance on the dongle (and keeps it)
            if e[1] not in self.others:
                self.others[e[1]] = rd.RadioManager.open(0)
        elif e[0] == 'CL':                       # ... closes it, in any order relative to the opening
            inst = self.others.pop(e[1], None)
            if inst is not None:
                close_and_wait(inst)
            elif e[1] == 'b' and self.instB is not None:
                close_and_wait(self.instB)
                self.instB = None
        elif e[0] == 'GS':                       # RadioDriver.get_status(): opens an instance, reads the version, closes it
            self.status.append(rd.RadioDriver().get_status())
        else:
            raise ValueError(e)

    def expected_scan(self, e):
        if e[0] == 'SC':
            addr = E7 if e[1] is None else tuple((e[1] >> (8 * (4 - i))) & 0xff for i in range(5))
            out = []
            for dr in (0, 1, 2):
                for c in range(126):
                    if (c, dr, addr) in self.air:
                        out.append('radio://0/%d/%s' % (c, DR_NAME[dr]) + ('' if e[1] is None or addr == E7 else '/%X' % e[1]))
            return out
        out = []
        for uri in e[1]:
            parts = uri[len('radio://'):].split('/')
            c, dr = int(parts[1]), {'250K': 0, '1M': 1, '2M': 2}[parts[2]]
            if (c, dr, E7) in self.air:
                out.append('radio://0/%d/%s' % (c, parts[2]))
        return out


# ------------------------------------------------------------------ command histories (tie of Model.rexec)

class _CmdOwner:
    def __init__(self, air):
        self.air = air
        self.pending = None
        self.dev = None

    def on_air(self, data):
        self.pending = [1] if self.dev.hw() in self.air else [0]

    def on_read(self):
        return array.array('B', self.pending)


def run_commands(cmds, air=()):
    """cmds: ['open', k] | ['send', k, (ch, dr, addr), [bytes]] | ['scanc', k, dr, addr, start, stop] |
             ['scans', k, dr, addr, [(ch, dr), ...]] | ['arc', k, n] | ['close', k]
    through RadioManager.open / _SharedRadioInstance.  Returns the air log [((ch, dr, addr), bytes)], the
    explicit command list as the model sees it (with 'reset' where the dongle was re-opened), the scan results
    and per send (requested setting, setting the dongle was tuned to when the bytes left, index in the explicit list)."""
    import cflib.crtp.radiodriver as rd
    owner = _CmdOwner(set(air))
    dev = DongleDev(owner)
    owner.dev = dev
    undo = _install(dev)
    insts = {}
    seen, results, sends, ievs = [], [], [], []
    try:
        for c in cmds:
            k = c[1]
            if c[0] == 'open':
                if k in insts:
                    continue
                sr = rd.RadioManager._radios[0] if rd.RadioManager._radios else None
                if sr is not None and not insts:
                    t0 = time.time()                  # the last STOP is asynchronous: wait until the dongle is closed
                    while sr._radio is not None and time.time() - t0 < 5:
                        time.sleep(0.0005)
                    seen.append(['reset'])
                n0 = len(dev.log)
                insts[k] = rd.RadioManager.open(0)
                ievs.append(['open'])
                del dev.log[n0:]
            elif k not in insts:
                continue
            elif c[0] == 'send':
                ch, dr, addr = c[2]
                insts[k].set_channel(ch)
                insts[k].set_data_rate(dr)
                insts[k].set_address(tuple(addr))
                n0 = len(dev.log)
                insts[k].send_packet(tuple(c[3]))
                sends.append(((ch, dr, tuple(addr)), dev.log[n0][0] if len(dev.log) > n0 else None, len(seen)))
                seen.append(c)
            elif c[0] == 'scanc':
                insts[k].set_data_rate(c[2])
                insts[k].set_address(tuple(c[3]))
                results.append(list(insts[k].scan_channels(c[4], c[5], (0xff,))))
                seen.append(c)
            elif c[0] == 'scans':
                insts[k].set_data_rate(c[2])
                insts[k].set_address(tuple(c[3]))
                sel = tuple({'channel': a, 'datarate': b} for a, b in c[4])
                results.append([(s['channel'], s['datarate']) for s in insts[k].scan_selected(sel, (0xff, 0xff, 0xff))])
                seen.append(c)
            elif c[0] == 'arc':
                insts[k].set_arc(c[2])
                seen.append(c)
            elif c[0] == 'close':
                ievs.append(['close', insts[k]._instance_id])
                close_and_wait(insts.pop(k))
                seen.append(c)
        results.append({'ievs': ievs, 'open_ids': [i._instance_id for i in insts.values()]})
        # make sure everything queued has been processed before reading the log
        for k in list(insts):
            insts[k].scan_channels(0, -1, (0xff,))
    finally:
        undo()
    return list(dev.log), seen, results, sends


# ------------------------------------------------------------------ two full links on one dongle, gated

URI_A = 'radio://0/80/2M/E7E7E7E701'
URI_B = 'radio://0/40/1M/E7E7E7E702'


class LinkSim(SharedSim):
    """one of two complete RadioDriver links (own script, own Crazyflie) sharing the dongle of a Pair"""

    def __init__(self, case, pair, name):
        self.pair, self.name = pair, name
        self.URI = URI_A if name == 'A' else URI_B
        super().__init__(case)

    def _make_radio(self, crz):
        self.dev = self.pair.dev
        self.air = self.pair.air
        self.from_A = False
        self.scans, self.b_sent, self.instB = [], [], None
        self.others, self.status = {}, []
        self._undo = lambda: None
        self.tap = InstTap(self.rd.RadioManager.open(0), self)

    def _cleanup(self):
        pass


class Pair:
    """Both links run their real radio loops in their own threads; a baton lets exactly one of them move, from one
    gate to the next.  Gates (in InstTap.send_packet): 'pre' = about to hand a transfer to the shared-radio thread,
    'post' = holds the answer it got from its result queue but has not looked at it yet.  schedule: string over
    'a'/'b' = who moves next (then alternating until both scripts are done).  Deterministic."""

    def __init__(self, case):
        import threading
        import cflib.crtp.radiodriver as rd
        self.rd, self.case = rd, case
        self.current = None
        self.air = {f: base.Peer() for f in FOREIGN}
        self.dev = DongleDev(self)
        self.arrived = threading.Semaphore(0)
        self.hung = False
        self._orig_N = rd._nr_of_retries
        self.clock = base.StatsClock(0.0001).install()
        self._undo = _install(self.dev)
        self.sims = {}
        try:
            for name, setting in (('A', SET_A), ('B', SET_B)):
                sim = LinkSim(dict(case[name], N=case['N']), self, name)
                sim._saved_N = case['N']               # the retry budget is a module global shared by both links
                sim.go = threading.Semaphore(0)
                sim.done = False
                sim.crashed = None
                self.sims[name] = sim
                self.air[setting] = sim.peer
        except Exception:
            self._end()
            raise

    # the dongle's owner: whoever's transfer the shared thread is serving
    def on_air(self, data):
        return self.current.on_write(data)

    def on_read(self):
        return self.current.on_read()

    def gate(self, sim):
        self.arrived.release()
        sim.go.acquire()

    def _link_main(self, sim):
        try:
            sim.go.acquire()
            sim.run()
        except BaseException:
            import traceback
            sim.crashed = traceback.format_exc()[-800:]
        finally:
            sim.done = True
            self.arrived.release()

    def _end(self):
        self.clock.remove()
        self._undo()
        self.rd._nr_of_retries = self._orig_N

    def run(self):
        import threading
        try:
            ths = {n: threading.Thread(target=self._link_main, args=(s,), daemon=True) for n, s in self.sims.items()}
            for t in ths.values():
                t.start()
            sched = [c.upper() for c in self.case.get('schedule', '')]
            k = 0
            steps = 0
            while not all(s.done for s in self.sims.values()):
                if sched:
                    n = sched.pop(0)
                else:
                    n = 'AB'[k % 2]
                    k += 1
                sim = self.sims[n]
                if sim.done:
                    continue
                sim.go.release()
                steps += 1
                if not self.arrived.acquire(timeout=8) or steps > 200000:
                    self.hung = True
                    for s in self.sims.values():
                        s.thread._sp = True
                        s.go.release()
                    break
        finally:
            self._end()
        return self
