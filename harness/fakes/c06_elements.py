"""C06 — the element layer: the memory classes that wrap Memory.read / Memory.write with completion bookkeeping of their
own (one callback slot per kind of request), driven through their own APIs against the byte-exact device.

The elements are created by the real enumeration (fakes/c06_info.InfoRig: refresh + in-order replies), so the listeners
are wired as Memory._handle_cmd_info_details wires them.

Scenario (JSON-able): {'kind': 'elem', 'op': <name>, 'arg': <int>, 'corrupt': [pos, xor] | None,
                       'refuse': k | None, 'drop': k | None}
  op       one of OPS (element API + what the device holds for it)
  arg      size / variant of the request (meaning depends on the op)
  corrupt  the byte at position pos of the (first) transfer of the request is xor-ed on the device
  refuse   the device answers the k-th request packet of the operation with an error status
  drop     the link drops after the k-th reply of the operation; the memories are enumerated again and the
           operation is asked of the new element
Clauses (property text at the element's own callbacks): a request whose transfers succeed is answered by exactly one
completion callback whatever the data; a request whose transfer fails is answered by exactly one failure callback where
the API has one; afterwards a further request on the same element is served; what the callback / the element holds is
what the device returned.
"""
import math
import struct

from fakes import c06_info
from fakes.c06_infojudge import ow_image, crc8

MEM = 0          # the element under test is memory 0 of the device


def f32(x):
    return struct.unpack('<f', struct.pack('<f', x))[0]


def same(a, b):
    """equality of decoded values, NaN equal to NaN"""
    if isinstance(a, float) and isinstance(b, float):
        return (math.isnan(a) and math.isnan(b)) or a == b
    if isinstance(a, (list, tuple)) and isinstance(b, (list, tuple)):
        return len(a) == len(b) and all(same(x, y) for x, y in zip(a, b))
    return a == b


class Seg:
    def __init__(self, n):
        self.n = n

    def pack(self):
        return bytes((7 * k + 1) % 256 for k in range(self.n))


# ---------------------------------------------------------------- operations
# each: type code, kind, content(arg) -> {addr: byte}, first transfer (addr, len), start(elem, arg, ok, fail), has_fail,
# check(elem, arg, okargs, dev) -> message or None      (dev(addr) = byte the device holds)
def _pattern(start, n):
    return {start + k: (start + k) & 0xFF for k in range(n)}


def _i2c_image(arg):
    ver = arg % 3 if arg < 6 else 7           # 0, 1, 2 (unknown), 7 (unknown)
    body = struct.pack('<BBBff', ver if ver < 2 else ver, 80, 2, 1.5, -0.25)
    img = b'0xBC' + body
    if ver == 1:
        img += struct.pack('<BI', 0xE7, 0xE7E7E7E7)
    img += bytes([sum(img) % 256])
    img += bytes(32 - len(img))
    return {k: b for k, b in enumerate(img)}


def _i2c_check(e, arg, okargs, dev):
    b = [dev(a) for a in range(21)]
    want_valid, want = False, {}
    if bytes(b[0:4]) == b'0xBC':
        v, ch, sp, p, r = struct.unpack('<BBBff', bytes(b[4:15]))
        want = {'version': v, 'radio_channel': ch, 'radio_speed': sp, 'pitch_trim': p, 'roll_trim': r}
        if v == 0:
            want_valid = sum(b[:15]) % 256 == b[15]
        elif v == 1:
            want['radio_address'] = b[15] << 32 | struct.unpack('<I', bytes(b[16:20]))[0]
            want_valid = sum(b[:20]) % 256 == b[20]
    if bool(e.valid) != want_valid:
        return 'valid is %r, the checksum of the image the device returned says %r' % (e.valid, want_valid)
    for k, v in want.items():
        if not same(e.elements.get(k), v):
            return 'element %s is %r, the device holds %r' % (k, e.elements.get(k), v)
    return None


def _i2c_write_start(e, arg, ok, fail):
    e.elements = {'version': arg % 2, 'radio_channel': 40, 'radio_speed': 1, 'pitch_trim': 0.5, 'roll_trim': -1.0,
                  'radio_address': 0xE7E7E7E701}
    e.write_data(lambda el, addr: ok(addr))


def _loco_content(arg):
    n = arg % 4
    c = {0: n}
    for p in range(n):
        for k, b in enumerate(struct.pack('<fff?', 1.0 + p, -2.5 * p, 0.125, p % 2 == 0)):
            c[0x1000 + 0x100 * p + k] = b
    return c


def _loco_check(e, arg, okargs, dev):
    n = dev(0)
    if e.nr_of_anchors != n or len(e.anchor_data) != n:
        return 'nr_of_anchors %r / %d anchors, the device holds %d' % (e.nr_of_anchors, len(e.anchor_data), n)
    for p in range(n):
        x, y, z, v = struct.unpack('<fff?', bytes(dev(0x1000 + 0x100 * p + k) for k in range(13)))
        a = e.anchor_data[p]
        if not same(list(a.position), [x, y, z]) or bool(a.is_valid) != v:
            return 'anchor %d is %r %r, the device holds %r %r' % (p, a.position, a.is_valid, (x, y, z), v)
    return None if e.valid else 'valid is False after a completed update'


def _loco2_ids(arg):
    ids = [3, 9, 1, 200][:arg % 5]
    return {k: b for k, b in enumerate([len(ids)] + ids + [0] * (16 - len(ids)))}


def _loco2_ids_check(attr, base):
    def chk(e, arg, okargs, dev):
        n = min(dev(base), 16)                    # the list that is read holds 16 ids
        want = [dev(base + 1 + k) for k in range(n)]
        got = getattr(e, attr)
        return None if got == want else '%s is %r, the device holds %r' % (attr, got, want)
    return chk


def _loco2_data_content(arg):
    c = _loco2_ids(arg if arg % 5 else 2)
    n = c[0]
    for j in range(n):
        i = c[1 + j]
        for k, b in enumerate(struct.pack('<fff?', 0.5 * i, 2.0, -1.0 * j, j % 2 == 1)):
            c[0x2000 + 0x100 * i + k] = b
    return c


def _loco2_data_start(e, arg, ok, fail):
    # the id list first (its own request), then the anchor data
    e.update_data(lambda el: ok())


def _loco2_data_check(e, arg, okargs, dev):
    for i in e.anchor_ids:
        x, y, z, v = struct.unpack('<fff?', bytes(dev(0x2000 + 0x100 * i + k) for k in range(13)))
        a = e.anchor_data.get(i)
        if a is None or not same(list(a.position), [x, y, z]) or bool(a.is_valid) != v:
            return 'anchor %d is %r, the device holds %r %r' % (i, a and (a.position, a.is_valid), (x, y, z), v)
    return None


def _rand_content(n, seed):
    return {k: (k * 37 + seed * 11 + (k >> 3)) % 256 for k in range(n)}


def _multiranger_check(e, arg, okargs, dev):
    words = struct.unpack('<64H', bytes(dev(k) for k in range(128)))
    want = [tuple(words[i * 8:i * 8 + 8]) for i in range(8)]
    return None if [tuple(r) for r in okargs[1]] == want and okargs[0] == 0 else 'zone matrix is not what the device returned'


def _paa_check(e, arg, okargs, dev):
    data = bytes(dev(k) for k in range(1225))
    want = [data[i * 35:i * 35 + 35] for i in range(35)]
    return None if [bytes(r) for r in okargs[1]] == want and okargs[0] == 0 else 'image is not what the device returned'


def _lh_geo_content(arg):
    bs = arg % 2
    img = struct.pack('<fff', 1.0, 2.0, 3.0) + b''.join(struct.pack('<fff', *r) for r in
                                                       ((1.0, 0.0, 0.0), (0.0, 1.0, 0.0), (0.0, 0.0, 1.0))) + b'\x01'
    return {0x100 * bs + k: b for k, b in enumerate(img)}


def _lh_geo_check(e, arg, okargs, dev):
    bs = arg % 2
    d = bytes(dev(0x100 * bs + k) for k in range(49))
    g = okargs[0]
    want = [list(struct.unpack('<fff', d[12 * j:12 * j + 12])) for j in range(4)]
    ok = same(list(g.origin), want[0]) and same([list(r) for r in g.rotation_matrix], want[1:]) and bool(g.valid) == (d[48] != 0)
    return None if ok else 'geometry handed over is not what the device returned'


def _lh_calib_check(e, arg, okargs, dev):
    bs = arg % 2
    d = bytes(dev(0x1000 + 0x100 * bs + k) for k in range(61))
    c = okargs[0]
    uid, valid = struct.unpack('<L?', d[56:61])
    return None if c.uid == uid and bool(c.valid) == valid else 'calibration handed over is not what the device returned'


def _lh_write_start(e, arg, ok, fail):
    from cflib.crazyflie.mem import LighthouseBsGeometry
    g = LighthouseBsGeometry()
    g.origin = [0.5, 1.5, 2.5]
    g.valid = True
    e.write_geo_data(arg % 2, g, lambda el, addr: ok(addr), write_failed_cb=lambda el, addr: fail(addr))


def _ow_write_start(e, arg, ok, fail):
    e.pins, e.vid, e.pid = 12, 0xBC, 7
    e.elements = {'Board name': 'bcTest', 'Board revision': 'B'}
    e.write_data(lambda el, addr: ok(addr))


def _ow_check(e, arg, okargs, dev):
    h = [dev(a) for a in range(8)]
    want = False
    if h[0] == 0xEB and crc8(h[:7]) == h[7]:
        n = dev(9)
        ed = [dev(8 + a) for a in range(n + 3)]
        want = crc8(ed[:-1]) == ed[-1]
    return None if bool(e.valid) == want else 'valid is %r, the CRCs of what the device returned say %r' % (e.valid, want)


def _led_write_start(e, arg, ok, fail):
    for k, led in enumerate(e.leds):
        led.set(10 * k, 255 - k, k, 50 + arg)
    e.write_data(lambda el, addr: ok(addr))


def _timings_write_start(e, arg, ok, fail):
    for k in range(arg % 5):
        e.add(time=k + 1, rgb={'r': 200, 'g': k, 'b': 9}, leds=k, fade=bool(k % 2), rotate=k)
    e.write_data(lambda el, addr: ok(addr))


def _traj_write_start(e, arg, ok, fail):
    e.trajectory = [Seg(33)] * (arg % 4)
    e.write_data(lambda el, addr: ok(addr), write_failed_cb=lambda el, addr: fail(addr))


OPS = {
    # name: (type, kind, content, first transfer, start, has failure callback, check)
    'tester_read': (0x15, 'r', lambda a: _pattern(7, a), lambda a: (7, a),
                    lambda e, a, ok, fail: e.read_data(7, a, lambda el: ok(el.readValidationSucess)), False,
                    lambda e, a, okargs, dev: None if okargs[0] == all(dev(7 + k) == (7 + k) & 0xFF for k in range(a))
                    else 'readValidationSucess is %r when the completion callback is called' % okargs[0]),
    'tester_write': (0x15, 'w', lambda a: {}, lambda a: (3, a),
                     lambda e, a, ok, fail: e.write_data(3, a, lambda el, addr: ok(addr)), False, None),
    'i2c_update': (0x00, 'r', _i2c_image, lambda a: (0, 16),
                   lambda e, a, ok, fail: e.update(lambda el: ok()), False, _i2c_check),
    'i2c_write': (0x00, 'w', lambda a: {}, lambda a: (0, 16), _i2c_write_start, False, None),
    'ow_update': (0x01, 'r', lambda a: {k: b for k, b in enumerate(ow_image(12, 0xBC, 7, [(1, b'bcLedRing'), (2, b'C')][:a % 3]))},
                  lambda a: (0, 11), lambda e, a, ok, fail: e.update(lambda el: ok()), False, _ow_check),
    'ow_write': (0x01, 'w', lambda a: {k: b for k, b in enumerate(ow_image(1, 2, 3, []))}, lambda a: (0, 20),
                 _ow_write_start, False, None),
    'loco_update': (0x11, 'r', _loco_content, lambda a: (0, 1),
                    lambda e, a, ok, fail: e.update(lambda el: ok()), False, _loco_check),
    'loco2_ids': (0x13, 'r', _loco2_ids, lambda a: (0, 17),
                  lambda e, a, ok, fail: e.update_id_list(lambda el: ok()), False, _loco2_ids_check('anchor_ids', 0)),
    'loco2_active_ids': (0x13, 'r', lambda a: {0x1000 + k: b for k, b in _loco2_ids(a).items()}, lambda a: (0x1000, 17),
                         lambda e, a, ok, fail: e.update_active_id_list(lambda el: ok()), False,
                         _loco2_ids_check('active_anchor_ids', 0x1000)),
    'loco2_data': (0x13, 'r', _loco2_data_content, lambda a: (0x2000 + 0x100 * 3, 13), _loco2_data_start, False,
                   _loco2_data_check),
    'multiranger_read': (0x1A, 'r', lambda a: _rand_content(128, a), lambda a: (0, 128),
                         lambda e, a, ok, fail: e.read_data(lambda addr, m: ok(addr, m)), False, _multiranger_check),
    'paa3905_read': (0x1B, 'r', lambda a: _rand_content(1225, a), lambda a: (0, 1225),
                     lambda e, a, ok, fail: e.read_data(lambda addr, m: ok(addr, m)), False, _paa_check),
    'led_write': (0x10, 'w', lambda a: {}, lambda a: (0, 24), _led_write_start, False, None),
    'ledtimings_write': (0x17, 'w', lambda a: {}, lambda a: (0, 4), _timings_write_start, False, None),
    'traj_write': (0x12, 'w', lambda a: {}, lambda a: (0, 33), _traj_write_start, True, None),
    'lh_read_geo': (0x14, 'r', _lh_geo_content, lambda a: (0x100 * (a % 2), 49),
                    lambda e, a, ok, fail: e.read_geo_data(a % 2, lambda el, g: ok(g), update_failed_cb=lambda el: fail()),
                    True, _lh_geo_check),
    'lh_read_calib': (0x14, 'r', lambda a: {0x1000 + k: b for k, b in _rand_content(0x200, a).items()},
                      lambda a: (0x1000 + 0x100 * (a % 2), 61),
                      lambda e, a, ok, fail: e.read_calib_data(a % 2, lambda el, c: ok(c), update_failed_cb=lambda el: fail()),
                      True, _lh_calib_check),
    'lh_write_geo': (0x14, 'w', lambda a: {}, lambda a: (0x100 * (a % 2), 49), _lh_write_start, True, None),
}
ARGS = {'tester_read': [0, 1, 20, 21, 45], 'tester_write': [0, 1, 25, 26, 60], 'i2c_update': [0, 1, 2, 6],
        'i2c_write': [0, 1], 'ow_update': [0, 1, 2], 'ow_write': [0], 'loco_update': [0, 1, 3],
        'loco2_ids': [0, 2, 4], 'loco2_active_ids': [0, 3], 'loco2_data': [2, 4], 'multiranger_read': [1],
        'paa3905_read': [2], 'led_write': [0], 'ledtimings_write': [0, 3], 'traj_write': [0, 1, 3],
        'lh_read_geo': [0, 1], 'lh_read_calib': [0, 1], 'lh_write_geo': [0, 1]}


def all_scenarios(deep=False):
    out = []
    for op, (ty, kind, content, first, start, has_fail, check) in OPS.items():
        for arg in ARGS[op]:
            base = {'kind': 'elem', 'op': op, 'arg': arg, 'corrupt': None, 'refuse': None, 'drop': None}
            out.append(dict(base))
            out.append(dict(base, early=True))
            a0, n = first(arg)
            if kind == 'r' and n > 0:
                for pos in sorted({0, n // 2, n - 1}):
                    for x in ((0xFF, 0x01) if deep else (0xFF,)):
                        out.append(dict(base, corrupt=[pos, x]))
            if op in ('loco2_ids', 'loco2_active_ids', 'loco_update'):
                out.append(dict(base, corrupt=[0, 0x40]))            # the count byte far beyond what was read
            for k in ((0, 1, 2) if deep else (0, 1)):
                out.append(dict(base, refuse=k))
            for k in ((0, 1, 2) if deep else (0, 1)):
                out.append(dict(base, drop=k))
    return out


# ---------------------------------------------------------------- running one scenario
def _enumerate(rig):
    rig.do(['F', True])
    k0 = len(rig.log) - 1
    k = k0
    while k < len(rig.log) and k < k0 + 300:
        rig.do(['D', k])
        k += 1
    return k


def _drain(rig, k, limit=None):
    n = 0
    while k < len(rig.log) and (limit is None or n < limit):
        rig.do(['D', k])
        k += 1
        n += 1
    return k


def judge_element(sc):
    """Returns a failure dict or None."""
    import contextlib
    import io
    with contextlib.redirect_stdout(io.StringIO()):      # PAA3905Memory.new_data prints
        return _judge_element(sc)


def _judge_element(sc):
    op, arg = sc['op'], sc['arg']
    ty, kind, content, first, start, has_fail, check = OPS[op]
    from fakes.c06_mem import test_mem
    img = dict(content(arg))
    if sc.get('corrupt'):
        pos, x = sc['corrupt']
        a0, n = first(arg)
        img[a0 + pos] = img.get(a0 + pos, test_mem(MEM, a0 + pos)) ^ x
    rig = c06_info.InfoRig([], [[ty, 0x10000, [1, 2, 3, 4, 5, 6, 7, 8]]], [])
    rig.early = bool(sc.get('early'))        # replies dispatched before the requesting call returns
    for a, b in img.items():
        rig.image[(MEM, a)] = b

    def fail(cls, detail, expected=None, observed=None):
        return {'class': cls, 'case': dict(sc), 'expected': expected, 'observed': observed,
                'detail': '%s(arg %r)%s: %s' % (op, arg, ''.join(' %s=%r' % (k, sc[k]) for k in ('corrupt', 'refuse', 'drop', 'early') if sc.get(k) is not None), detail)}

    k = _enumerate(rig)
    if len(rig.mem.mems) != 1:
        return fail('element_enumeration', 'the memory was not enumerated')
    elem = rig.mem.mems[0]
    calls = []
    ok = lambda *a: calls.append(('ok', a))
    bad = lambda *a: calls.append(('fail', a))

    def request(e):
        if op == 'loco2_data':
            e.update_id_list(lambda el: None)
            return
        start(e, arg, ok, bad)

    def run_request(e, k):
        """issue the request and deliver every reply in order; returns (k, raised)"""
        raised = None
        try:
            if op == 'loco2_data':
                e.update_id_list(lambda el: None)
                k = _drain(rig, k)
            rig.cur = []
            rig.frames = [{'fresh': True, 'obs': rig.cur, 'lock': None, 'nested': False}]
            rig.in_call += 1
            try:
                start(e, arg, ok, bad)
            finally:
                rig.in_call -= 1
        except Exception as ex:
            raised = repr(ex)
        return k, raised

    served0 = rig.served
    if sc.get('refuse') is not None:
        extra = 1 if op == 'loco2_data' else 0            # the id list read comes first and is answered
        rig.plan = [0] * (served0 + extra + sc['refuse']) + [9]
    k, raised = run_request(elem, k)
    if raised:
        return fail('element_request_raises', 'the request raised %s' % raised)
    if sc.get('drop') is not None:
        k = _drain(rig, k, sc['drop'])
        rig.do(['X'])
        rig.plan = []
        k = len(rig.log)
        calls_before = list(calls)
        kk = _enumerate(rig)
        if len(rig.mem.mems) != 1:
            return fail('element_enumeration', 'the memory was not enumerated again after the link drop')
        del calls[:]
        kk, raised = run_request(rig.mem.mems[0], kk)
        _drain(rig, kk)
        if raised or [c[0] for c in calls] != ['ok']:
            return fail('element_request_not_served_after_link_drop', 'after a link drop and a new enumeration the request '
                        'is answered by %r %s' % ([c[0] for c in calls], raised or ''), ['ok'], [c[0] for c in calls])
        if rig.locked() or any(rig.pending()[0]) or any(rig.pending()[1].values()):
            return fail('request_record_left_behind', 'records / lock left after the operation')
        return None
    k = _drain(rig, k)
    if rig.last_raised:
        return fail('element_listener_raises', 'a listener of the element raised while the replies were delivered: %s' % rig.last_exc)
    got = [c[0] for c in calls]
    refused = sc.get('refuse') is not None and rig.served > served0 + sc['refuse'] + (1 if op == 'loco2_data' else 0)
    if not refused:
        if got != ['ok']:
            a0, n0 = first(arg)
            return fail('element_completion_skipped_zero_length' if (kind == 'r' and n0 == 0) else 'element_completion_not_called_once', 'every transfer of the request succeeded, the element\'s completion '
                        'callback was called %r' % got, ['ok'], got)
        if check is not None:
            dev = lambda a: rig.byte(MEM, a)
            msg = check(elem, arg, calls[0][1], dev)
            if msg:
                return fail('element_data_wrong', msg)
    else:
        want = ['fail'] if has_fail else []
        if got != want:
            return fail('element_failure_notification_wrong', 'a transfer of the request was refused by the device, callbacks: %r' % got,
                        want, got)
    # afterwards a further request on the same element is served
    rig.plan = []
    del calls[:]
    k, raised = run_request(elem, k)
    _drain(rig, k)
    got2 = [c[0] for c in calls]
    if raised or got2 != ['ok'] or rig.last_raised:
        cls = 'element_request_not_served_after_failed_transfer' if refused else 'element_request_not_served_afterwards'
        return fail(cls, 'a further request on the same element is answered by %r %s%s' % (got2, raised or '', rig.last_exc),
                    ['ok'], got2)
    if rig.locked() or any(rig.pending()[0]) or any(rig.pending()[1].values()):
        return fail('request_record_left_behind', 'records / lock left after the operation')
    return None
