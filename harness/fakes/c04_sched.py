"""C04 — deterministic cooperative execution of the real parameter subsystem.

A real `Crazyflie` object is built (its `Param`, `_ParamUpdater` thread, `_IncomingPacketHandler` thread are
the real ones); `Lock`, `Event`, `Queue` as seen by `cflib.crazyflie.param` are rebound to cooperative
versions and `Thread.start` to `Sched.spawn`, so that the real threads run their real `run()` loops but
exactly one thread runs at a time and a thread is handed the baton only by the harness (the scheduler is
the calling thread).  A controlled thread gives the baton back at its next blocking operation
(`Queue.get`, `Lock.acquire`, `Event.wait`, `link.receive_packet`) — ALWAYS, also when the operation
could proceed at once, which is what makes every interleaving at that granularity reachable.

Nothing of /repo is modified; all rebinding is undone by `Harness.close()`.
"""
import struct
import threading
from queue import Empty

_real_start = threading.Thread.start


class Kill(BaseException):
    """raised inside a controlled thread at its blocking point to end it"""


class HarnessError(Exception):
    pass


class Sched:
    cur = None      # the scheduler of the running case (one at a time)

    def __init__(self):
        self.main_sem = threading.Semaphore(0)
        self.info = {}

    def controlled(self):
        return threading.current_thread() in self.info

    def spawn(self, t):
        inf = {'sem': threading.Semaphore(0), 'wait': ('start', None), 'done': False, 'kill': False, 'exc': None}
        self.info[t] = inf
        orig = t.run

        def run():
            inf['sem'].acquire()
            try:
                if inf['kill']:
                    raise Kill()
                inf['wait'] = None
                orig()
            except Kill:
                pass
            except BaseException as e:      # noqa — a dead thread is an observation
                inf['exc'] = repr(e)
            finally:
                inf['done'] = True
                inf['wait'] = None
                self.main_sem.release()
        t.run = run
        t.daemon = True
        _real_start(t)

    def yield_(self, kind, obj):
        inf = self.info[threading.current_thread()]
        inf['wait'] = (kind, obj)
        self.main_sem.release()
        inf['sem'].acquire()
        if inf['kill']:
            raise Kill()
        inf['wait'] = None

    def resume(self, t):
        """run thread t from its blocking point to its next one (or its end)"""
        inf = self.info[t]
        if inf['done']:
            raise HarnessError('thread already finished: %r' % inf['exc'])
        inf['sem'].release()
        if not self.main_sem.acquire(timeout=20):
            raise HarnessError('controlled thread did not come back (real blocking call?)')

    def waiting(self, t):
        return self.info[t]['wait']

    def kill_all(self):
        for t, inf in list(self.info.items()):
            if not inf['done']:
                inf['kill'] = True
                inf['sem'].release()
                self.main_sem.acquire(timeout=5)
        for t in list(self.info):
            if t.ident is not None:
                t.join(timeout=2)


def _sched():
    s = Sched.cur
    if s is None:
        raise HarnessError('cooperative primitive used outside a case')
    return s


class DLock:
    def __init__(self):
        self.l = False

    def acquire(self, blocking=True, timeout=-1):
        s = _sched()
        if not blocking:
            if self.l:
                return False
            self.l = True
            return True
        if s.controlled():
            s.yield_('acquire', self)
        if self.l:
            raise HarnessError('resumed at acquire while the lock is held')
        self.l = True
        return True

    def release(self):
        if not self.l:
            raise RuntimeError('release unlocked lock')
        self.l = False

    def locked(self):
        return self.l

    def __enter__(self):
        self.acquire()
        return self

    def __exit__(self, *a):
        self.release()


class DEvent:
    def __init__(self):
        self.f = False

    def set(self):
        self.f = True

    def clear(self):
        self.f = False

    def is_set(self):
        return self.f

    def wait(self, timeout=None):
        if self.f:
            return True
        s = _sched()
        if not s.controlled():
            raise HarnessError('uncontrolled thread would block on an Event')
        s.yield_('wait', self)
        return self.f


class DQueue:
    on_put = None       # hook(queue, item)

    def __init__(self, maxsize=0):
        self.q = []

    def put(self, x, block=True, timeout=None):
        self.q.append(x)
        if DQueue.on_put:
            DQueue.on_put(self, x)

    def get(self, block=True, timeout=None):
        if not block:
            if not self.q:
                raise Empty()
            return self.q.pop(0)
        s = _sched()
        if s.controlled():
            s.yield_('get', self)
        if not self.q:
            raise HarnessError('resumed at get on an empty queue')
        return self.q.pop(0)

    def empty(self):
        return not self.q

    def qsize(self):
        return len(self.q)

    def pending(self):
        """the queued items in the order get() would hand them out"""
        return list(self.q)

    def clear(self):
        del self.q[:]


class DPriorityQueue(DQueue):
    """cooperative queue.PriorityQueue: smallest item first"""

    def put(self, x, block=True, timeout=None):
        import bisect
        bisect.insort(self.q, x)
        if DQueue.on_put:
            DQueue.on_put(self, x)


class DLifoQueue(DQueue):
    """cooperative queue.LifoQueue"""

    def put(self, x, block=True, timeout=None):
        self.q.insert(0, x)
        if DQueue.on_put:
            DQueue.on_put(self, x)


# whatever queue class the module under test uses is replaced by its cooperative counterpart: the harness does not depend
# on the kind of queue the updater keeps its requests in, only on "put never blocks, get blocks while empty"
QUEUE_CLASSES = {'Queue': DQueue, 'SimpleQueue': DQueue, 'PriorityQueue': DPriorityQueue, 'LifoQueue': DLifoQueue}


def find_packet(item):
    """the CRTP packet inside a queue item (the item itself, or a member of a tuple/list such as (priority, nr, pk))"""
    if hasattr(item, 'channel') and hasattr(item, 'data'):
        return item
    if isinstance(item, (tuple, list)):
        for x in item:
            pk = find_packet(x)
            if pk is not None:
                return pk
    for name in ('pk', 'packet'):
        if hasattr(item, name):
            return find_packet(getattr(item, name))
    return None


# ------------------------------------------------------------------------------------------- device

ENOENT = 2
WIDTH = {0: 1, 1: 2, 2: 4, 3: 8, 8: 1, 9: 2, 10: 4, 11: 8, 6: 4, 7: 8}


class Device:
    """Parameter server written from the CRTP parameter protocol (V2, 16-bit ids).  Values are byte strings.
    Same behaviour as `dev_recv` of coq/C04/Model.v (the tie compares the two on every event)."""

    def __init__(self, init, default, enoent):
        self.store = dict(init)         # id -> bytes
        self.default = dict(default)
        self.enoent = set(enoent)
        self.ext = {}                   # id -> extended type byte (MISC_GET_EXTENDED_TYPE)
        self.table = None               # [(index, name, group, type code, ro, extended)] served on the TOC channel
        self.crc = 0
        self.stored = {}                # insertion order irrelevant: compared sorted
        self.out = []                   # [(chan, bytes)]

    def recv(self, chan, data):
        data = bytes(data)
        if chan == 0 and data[:1] == b'\x03' and self.table is not None:       # CMD_TOC_INFO_V2
            self.out.append((0, b'\x03' + struct.pack('<HI', len(self.table), self.crc)))
        elif chan == 0 and data[:1] == b'\x02' and self.table is not None:     # CMD_TOC_ITEM_V2
            k = int.from_bytes(data[1:3], 'little')
            if k < len(self.table):
                (i, n, g, ty, ro, ext) = self.table[k]
                self.out.append((0, b'\x02' + data[1:3] + bytes([ty | (0x40 if ro else 0) | (0x10 if ext else 0)]) +
                                 ('g%d' % g).encode() + b'\0' + ('n%d' % n).encode() + b'\0'))
        elif chan == 1:
            i = int.from_bytes(data[:2], 'little')
            self.out.append((1, data[:2] + b'\x00' + self.store.get(i, b'')))
        elif chan == 2:
            i = int.from_bytes(data[:2], 'little')
            self.store[i] = data[2:]
            self.out.append((2, data))
        elif chan == 3 and data:
            cmd, idb = data[0], data[1:3]
            i = int.from_bytes(idb, 'little')
            en = i in self.enoent
            if cmd == 2:
                self.out.append((3, bytes([2]) + idb + bytes([self.ext.get(i, 0)])))
            elif cmd == 6:
                self.out.append((3, bytes([6]) + idb + (bytes([ENOENT]) if en else self.default.get(i, b''))))
            elif cmd == 3:
                if en:
                    self.out.append((3, bytes([3]) + idb + bytes([ENOENT])))
                else:
                    self.stored[i] = self.store.get(i, b'')
                    self.out.append((3, bytes([3]) + idb + b'\x00'))
            elif cmd == 5:
                if en:
                    self.out.append((3, bytes([5]) + idb + bytes([ENOENT])))
                else:
                    self.stored.pop(i, None)
                    self.out.append((3, bytes([5]) + idb + b'\x00'))
            elif cmd == 4:
                if en:
                    self.out.append((3, bytes([4]) + idb + bytes([ENOENT])))
                elif i in self.stored:
                    self.out.append((3, bytes([4]) + idb + b'\x01' + self.default.get(i, b'') + self.stored[i]))
                else:
                    self.out.append((3, bytes([4]) + idb + b'\x00' + self.default.get(i, b'')))

    def notify(self, i, b):
        self.store[i] = bytes(b)
        self.out.append((3, b'\x01' + struct.pack('<H', i) + bytes(b)))


class FakeLink:
    needs_resending = False

    def __init__(self, dev, log):
        self.dev = dev
        self.log = log
        self.next = None

    def send_packet(self, pk):
        if pk.port != 2:
            self.log.append(('txother', pk.port, pk.channel, bytes(pk.data)))
            return
        self.log.append(('tx', pk.channel, bytes(pk.data)))
        self.last_tx = pk
        self.dev.recv(pk.channel, bytes(pk.data))

    def receive_packet(self, wait=0):
        s = _sched()
        s.yield_('recv', self)
        pk, self.next = self.next, None
        return pk

    def close(self):
        pass


class Issuer(threading.Thread):
    """a user thread: executes its operations one per baton"""

    def __init__(self, ops):
        threading.Thread.__init__(self)
        self.ops = list(ops)
        self.k = 0

    def run(self):
        s = _sched()
        while self.k < len(self.ops):
            s.yield_('issue', self)
            op = self.ops[self.k]
            self.k += 1
            op()
        s.yield_('idle', self)


# ------------------------------------------------------------------------------------------- harness

TYPE_FMT = {0: '<b', 1: '<h', 2: '<i', 3: '<q', 8: '<B', 9: '<H', 10: '<L', 11: '<Q', 6: '<f', 7: '<d'}


def exn_code(e):
    if isinstance(e, KeyError):
        return 1
    if isinstance(e, AttributeError):
        return 2
    if isinstance(e, struct.error):
        return 3
    if isinstance(e, OverflowError):
        return 4
    if isinstance(e, TypeError):
        return 5
    if isinstance(e, ValueError):
        return 6
    return 9


def name_code(s):
    """a literal complete-name string ('S:' + text in the cases) -> the model's abstract name: negative when the text does not
    split into exactly two parts at its dots, >= 100000 otherwise (never a name of a generated table)"""
    import zlib
    h = zlib.crc32(s.encode('utf-8', 'replace')) % 100000
    return -(1 + h) if len(s.split('.')) != 2 else 100000 + h


# The TOC cache file format of the library at HEAD, spelled out here on purpose (NOT produced with the library under test, so that
# its writer and reader cannot drift together): <dir>/<CRC as %08X>.json, json.dumps(indent=2) of {group: {name: element}}, an
# element being the dict below; "access" is 0 for read/write and 1 for read-only parameters.
CACHE_CTYPES = {0x08: ('uint8_t', '<B'), 0x09: ('uint16_t', '<H'), 0x0A: ('uint32_t', '<L'), 0x0B: ('uint64_t', '<Q'),
                0x00: ('int8_t', '<b'), 0x01: ('int16_t', '<h'), 0x02: ('int32_t', '<i'), 0x03: ('int64_t', '<q'),
                0x06: ('float', '<f'), 0x07: ('double', '<d')}
CACHE_ELEMENT = ('    "{name}": {{\n'
                 '      "__class__": "ParamTocElement",\n'
                 '      "ident": {ident},\n'
                 '      "group": "{group}",\n'
                 '      "name": "{name}",\n'
                 '      "ctype": "{ctype}",\n'
                 '      "pytype": "{pytype}",\n'
                 '      "access": {access},\n'
                 '      "extended": {extended}\n'
                 '    }}')


def cache_file_text(table):
    """table: [(index, name, group, type code, ro, extended)] -> text of the cache file HEAD would have written for it"""
    groups = []
    for (i, n, g, ty, ro, ext) in table:
        if g not in groups:
            groups.append(g)
    parts = []
    for g in groups:
        els = [CACHE_ELEMENT.format(name='n%d' % n, ident=i, group='g%d' % g2, ctype=CACHE_CTYPES[ty][0], pytype=CACHE_CTYPES[ty][1],
                                    access=1 if ro else 0, extended='true' if ext else 'false')
               for (i, n, g2, ty, ro, ext) in table if g2 == g]
        parts.append('  "g%d": {\n%s\n  }' % (g, ',\n'.join(els)))
    return '{\n' + ',\n'.join(parts) + '\n}'


class Harness:
    """cfg: dict(toc=[[id, name, group, tycode, ro, pers], ...], cb_param=[[name, cb]], cb_group=[[group, cb]],
    cb_all=[cb], dev_init={id: bytes}, dev_default={id: bytes}, dev_enoent=[id], version=7)"""

    def __init__(self, cfg, fine=False):
        """fine=True: Crazyflie._send_lock is cooperative as well, so the updater also hands over between its
        wait_lock / link check and the driver call inside Crazyflie.send_packet"""
        import cflib.crazyflie as A
        import cflib.crazyflie.param as P
        self.P = P
        self.A = A
        self.fine = fine
        self.saved_A_lock = A.Lock
        if fine:
            A.Lock = DLock
        self.saved = (P.Lock, P.Event, P.Queue, threading.Thread.start, DQueue.on_put)
        self.saved_queues = {n: getattr(P, n) for n in QUEUE_CLASSES if hasattr(P, n)}
        self.sched = Sched()
        Sched.cur = self.sched
        self.log = []           # observations, drained per event
        self.cfg = cfg
        self.dead = []
        P.Lock, P.Event, P.Queue = DLock, DEvent, DQueue
        for n in self.saved_queues:
            setattr(P, n, QUEUE_CLASSES[n])
        threading.Thread.start = lambda t: Sched.cur.spawn(t)
        try:
            self._build(cfg)
        except BaseException:
            self.close()
            raise

    def _build(self, cfg):
        from cflib.crazyflie import Crazyflie
        from cflib.crazyflie.param import ParamTocElement
        P = self.P
        self.cf = cf = Crazyflie(link=None)
        self.updater = cf.param.param_updater
        DQueue.on_put = self._on_put
        self.dev = Device(cfg['dev_init'], cfg['dev_default'], cfg['dev_enoent'])
        self.link = FakeLink(self.dev, self.log)
        cf.link = self.link
        ver = cfg.get('version', 7)
        cf.platform._protocolVersion = ver
        cf.param._useV2 = ver >= 4
        self.elems = {}
        for (i, n, g, ty, ro, pers) in cfg['toc']:
            self.elems[n] = (i, n, g, ty, ro, pers)
            if 'toc_source' in cfg:
                continue            # the table is fetched by the real Param.refresh_toc / TocFetcher below
            meta = ty | (0x40 if ro else 0) | (0x10 if pers else 0)
            e = ParamTocElement(i, bytes([meta]) + ('g%d' % g).encode() + b'\0' + ('n%d' % n).encode() + b'\0')
            if pers and 'ext' not in cfg:
                e.mark_persistent()
            cf.param.toc.add_element(e)
        self.by_cname = {self.cname(n): self.elems[n] for n in self.elems}
        for (n, cb) in cfg['cb_param']:
            g = self.elems[n][2] if n in self.elems else (n % 3 if cfg.get('fixed_groups') else 0)
            cf.param.add_update_callback(group='g%d' % g, name='n%d' % n, cb=self._upd_cb(cb))
        for (g, cb) in cfg['cb_group']:
            cf.param.add_update_callback(group='g%d' % g, cb=self._upd_cb(cb))
        for cb in cfg['cb_all']:
            cf.param.add_update_callback(cb=self._upd_cb(cb))
        cf.param.all_updated.add_callback(lambda: self.log.append(('all',)))
        self.base_cbs = len(cf.incoming.cb)
        cf.incoming.start()
        self.dispatcher = cf.incoming
        self.sched.resume(self.updater)         # -> request_queue.get()
        self.sched.resume(self.dispatcher)      # -> link.receive_packet()
        self._expect(self.updater, 'get')
        self._expect(self.dispatcher, 'recv')
        if 'toc_source' in cfg:
            self._fetch_table(cfg)
            self.base_cbs = len(cf.incoming.cb)

    def _fetch_table(self, cfg):
        """The parameter table through the real Param.refresh_toc (TocFetcher + TocCache + _ExtendedTypeFetcher):
        toc_source = {'kind': 'cache_ro' | 'cache_rw' | 'download', 'crc': n, 'dir': path}.  For the cache kinds the file
        <dir>/<crc>.json has been written by the caller with cache_file_text; 'download' starts with empty cache dirs."""
        from cflib.crazyflie.toccache import TocCache
        src = cfg['toc_source']
        ext_nonpers = set(cfg.get('ext_nonpers', []))
        self.dev.table = [(i, n, g, ty, ro, bool(pers) or i in ext_nonpers) for (i, n, g, ty, ro, pers) in cfg['toc']]
        self.dev.crc = src['crc']
        self.dev.ext = {i: (1 if pers else 0) for (i, n, g, ty, ro, pers) in cfg['toc']}
        if src['kind'] == 'cache_ro':
            cache = TocCache(ro_cache=src['dir'], rw_cache=None)
        elif src['kind'] == 'cache_rw':
            cache = TocCache(ro_cache=None, rw_cache=src['dir'])
        else:
            cache = TocCache(ro_cache=None, rw_cache=src['dir'])
        done = []
        self.cf.param.refresh_toc(lambda: done.append(1), cache)
        self.toc_requests = 0
        for _ in range(400):
            if done:
                break
            ext = [t for t in self.sched.info if type(t).__name__ == '_ExtendedTypeFetcher' and not self.sched.info[t]['done']]
            moved = False
            for t in ext:
                w = self.sched.waiting(t)
                if w and w[0] == 'start':
                    self.sched.resume(t)
                    moved = True
                elif w and w[0] == 'get' and t.request_queue.qsize():
                    self.sched.resume(t)
                    moved = True
                elif w and w[0] == 'acquire' and not t._lock.l:
                    self.sched.resume(t)
                    moved = True
            if not moved and self.dev.out:
                if self.dev.out[0][0] == 0 and self.dev.out[0][1][:1] == b'\x02':
                    self.toc_requests += 1
                self.ev_deliver()
                moved = True
            if not moved:
                break
        if not done:
            raise HarnessError('parameter table fetch did not finish')
        self.table_was_downloaded = self.toc_requests > 0
        self.log[:] = []

    def cname(self, n):
        if isinstance(n, str):              # a literal name string (derived from known names by the generator)
            return n[2:]
        if n in self.elems:
            return 'g%d.n%d' % (self.elems[n][2], n)
        if self.cfg.get('fixed_groups'):      # session cases: a name is the same string in every session
            return 'g%d.n%d' % (n % 3, n)
        return 'gx.n%d' % n

    def reconnect(self, cfg):
        """End the session and start the next one on the SAME Crazyflie/Param object, through the real callback lists:
        `disconnected` (what close_link / a lost link calls: Param._disconnected among others), then `connection_requested`
        (what open_link calls: Param._connection_requested); then the table of the device now connected is put into
        Param.toc with Toc.add_element, as TocFetcher does.  The link object is kept (the dispatcher thread is parked in
        its receive_packet); the device behind it is new."""
        from cflib.crazyflie.param import ParamTocElement
        cf = self.cf
        # close_link / _link_error_cb: the link is dropped first, then the disconnected callbacks run
        cf.link = None
        cf.disconnected.call('fake://0')
        # _ParamUpdater.close() released wait_lock: an updater that was waiting for it with a dequeued request now runs,
        # finds no link, releases the lock again and goes back to its queue (assumed to happen before the next open_link)
        w = self.sched.waiting(self.updater)
        if w and w[0] == 'acquire':
            if self.updater.wait_lock.l:
                raise HarnessError('wait_lock still held after _ParamUpdater.close()')
            self.sched.resume(self.updater)
        self._expect(self.updater, 'get')
        cf.connection_requested.call('fake://0')
        self.cfg = cfg
        self.dev = Device(cfg['dev_init'], cfg['dev_default'], cfg['dev_enoent'])
        self.link.dev = self.dev
        cf.link = self.link
        self.elems = {}
        for (i, n, g, ty, ro, pers) in cfg['toc']:
            meta = ty | (0x40 if ro else 0) | (0x10 if pers else 0)
            e = ParamTocElement(i, bytes([meta]) + ('g%d' % g).encode() + b'\0' + ('n%d' % n).encode() + b'\0')
            if pers:
                e.mark_persistent()
            cf.param.toc.add_element(e)
            self.elems[n] = (i, n, g, ty, ro, pers)
        self.by_cname = {self.cname(n): self.elems[n] for n in self.elems}
        self.log[:] = []

    def _expect(self, t, kind):
        w = self.sched.waiting(t)
        if w is None or w[0] != kind:
            raise HarnessError('thread %s is at %r, expected %s (%r)' % (type(t).__name__, w, kind, self.sched.info[t]['exc']))

    def _on_put(self, q, pk):
        if q is self.updater.request_queue:
            pk = find_packet(pk)
            if pk is None:
                raise HarnessError('no CRTP packet found in the item put on the request queue')
            self.log.append(('enq', pk.channel, bytes(pk.data)))
            self.last_put = pk

    def canon(self, ty, v):
        """value as the callbacks see it (str from update callbacks, number from misc callbacks) -> [kind, int]"""
        fmt = TYPE_FMT[ty]
        if ty in (6, 7):
            return [1, int.from_bytes(struct.pack(fmt, float(v)), 'little')]
        if isinstance(v, str):
            return [0, int(v)]
        if isinstance(v, bool) or not isinstance(v, int):
            return [8, 0]
        return [0, v]

    def _upd_cb(self, cb):
        def f(name, value_s):
            e = self.by_cname.get(name)
            if e is None or not isinstance(value_s, str):
                self.log.append(('upd', cb, -1, [9, 0]))
            else:
                self.log.append(('upd', cb, e[1], self.canon(e[3], value_s)))
        return f

    def misc_cb(self, cb):
        def f(name, res):
            e = self.by_cname.get(name)
            if e:
                n = e[1]
            else:
                try:
                    n = int(name.split('.n')[1])
                    if name != 'gx.n%d' % n and not (self.cfg.get('fixed_groups') and name == 'g%d.n%d' % (n % 3, n)):
                        raise ValueError
                except (IndexError, ValueError):
                    n = name_code(name)
            if e is None and res is not None and not isinstance(res, bool):
                # a value for a name the connected device does not have (callback of an earlier session)
                self.log.append(('misc', cb, n, [9]))
                return
            if res is None:
                r = [1]
            elif isinstance(res, bool):
                r = [0, int(res)]
            elif isinstance(res, tuple):
                r = [3, int(bool(res.is_stored))] + self.canon(e[3], res.default_value) + \
                    ([0] if res.stored_value is None else [1] + self.canon(e[3], res.stored_value))
            else:
                r = [2] + self.canon(e[3], res)
            self.log.append(('misc', cb, n, r))
        return f

    # ---- the extended-type phase, started the way Param.refresh_toc.refresh_done does
    def start_ext(self):
        P = self.P
        toc = self.cf.param.toc
        self.dev.ext = {int(k): v for k, v in self.cfg['ext'].items()}
        elements = []
        for group in toc.toc:
            for element in toc.toc[group].values():
                if element.is_extended():
                    elements.append(element)
        f = P._ExtendedTypeFetcher(self.cf, toc)
        f.start()
        f.set_callback(lambda: self.log.append(('done',)))
        f.request_extended_types(elements)
        self.fetcher = f
        self.sched.resume(f)
        self._expect(f, 'get')
        return [e.ident for e in elements]

    def ext_can_get(self):
        w = self.sched.waiting(self.fetcher)
        return bool(w and w[0] == 'get' and self.fetcher.request_queue.qsize())

    def ext_can_send(self):
        w = self.sched.waiting(self.fetcher)
        return bool(w and w[0] == 'acquire' and not self.fetcher._lock.l)

    def ext_snapshot(self):
        f = self.fetcher
        w = self.sched.waiting(f)
        toc = self.cf.param.toc
        return {
            'queue': [int.from_bytes(bytes(pk.data[1:3]), 'little') for pk in map(find_packet, f.request_queue.pending())],
            'hand': 1 if (w and w[0] == 'acquire') else 0,
            'lock': int(f._lock.l), 'req': f._req_param, 'count': f._count,
            'pers': [int(bool(toc.get_element_by_id(e[0]).is_persistent())) for e in self.cfg['toc']],
            'out': list(self.dev.out),
            'dead': [inf['exc'] for inf in self.sched.info.values() if inf['done'] and inf['exc']],
        }

    # ---- API operations, to be run inside an issuer thread (or directly: none of them blocks)
    def op(self, o):
        kind = o[0]
        prm = self.cf.param

        def call():
            try:
                if kind == 'set':
                    prm.set_value(self.cname(o[1]), o[2])
                elif kind == 'read':
                    prm.request_param_update(self.cname(o[1]))
                elif kind == 'misc':
                    cmd, n, cb = o[1], o[2], o[3]
                    f = None if cb is None else self.misc_cb(cb)
                    fn = {3: prm.persistent_store, 4: prm.persistent_get_state, 5: prm.persistent_clear,
                          6: prm.get_default_value}[cmd]
                    if f is None and cmd in (3, 5):
                        fn(self.cname(n))
                    else:
                        fn(self.cname(n), f)
                else:
                    raise HarnessError('unknown op %r' % (o,))
            except HarnessError:
                raise
            except Exception as e:      # noqa — the raised kind is the observation
                self.log.append(('raise', exn_code(e), type(e).__name__))
        return call

    # ---- scheduler-side events
    def can_uget(self):
        w = self.sched.waiting(self.updater)
        return bool(w and w[0] == 'get' and self.updater.request_queue.qsize())

    def can_usend(self):
        w = self.sched.waiting(self.updater)
        return bool(w and w[0] == 'acquire' and w[1] is self.updater.wait_lock and not self.updater.wait_lock.l)

    def updater_pos(self):
        """'G' at request_queue.get(), 'A' holding a request at wait_lock.acquire(), 'S' inside Crazyflie.send_packet at
        _send_lock.acquire() (fine mode only)"""
        w = self.sched.waiting(self.updater)
        if w and w[0] == 'get':
            return 'G'
        if w and w[0] == 'acquire':
            return 'A' if w[1] is self.updater.wait_lock else 'S'
        return '?'

    def updater_enabled(self):
        p = self.updater_pos()
        if p == 'G':
            return bool(self.updater.request_queue.qsize())
        if p == 'A':
            return not self.updater.wait_lock.l
        if p == 'S':
            return not self.cf._send_lock.l
        return False

    # ---- the two halves of a link change, through the real callback lists
    def link_down(self):
        """close_link / _link_error_cb: the link reference is dropped first, then the disconnected callbacks run"""
        self.cf.link = None
        self.cf.disconnected.call('fake://0')
        self.dev.out[:] = []

    def link_up(self, cfg):
        """open_link: connection_requested callbacks, new link (same fake object, new device), new table"""
        from cflib.crazyflie.param import ParamTocElement
        cf = self.cf
        cf.connection_requested.call('fake://0')
        self.cfg = cfg
        self.dev = Device(cfg['dev_init'], cfg['dev_default'], cfg['dev_enoent'])
        self.link.dev = self.dev
        cf.link = self.link
        self.elems = {}
        for (i, n, g, ty, ro, pers) in cfg['toc']:
            meta = ty | (0x40 if ro else 0) | (0x10 if pers else 0)
            e = ParamTocElement(i, bytes([meta]) + ('g%d' % g).encode() + b'\0' + ('n%d' % n).encode() + b'\0')
            if pers:
                e.mark_persistent()
            cf.param.toc.add_element(e)
            self.elems[n] = (i, n, g, ty, ro, pers)
        self.by_cname = {self.cname(n): self.elems[n] for n in self.elems}

    def can_deliver(self):
        return bool(self.dev.out)

    def ev_updater(self):
        self.sched.resume(self.updater)

    def ev_deliver(self):
        from cflib.crtp.crtpstack import CRTPPacket
        chan, data = self.dev.out.pop(0)
        pk = CRTPPacket()
        pk.set_header(2, chan)
        pk.data = bytes(data)
        self.log.append(('rx', chan, bytes(data)))
        self.link.next = pk
        self._expect(self.dispatcher, 'recv')
        self.sched.resume(self.dispatcher)
        self._expect(self.dispatcher, 'recv')
        # every callback of the port is handed the same packet object: on the misc and the write channel nobody may alter it
        # (on the read channel the updater strips the status byte, which no other callback of the port looks at)
        if chan in (2, 3) and bytes(pk.data) != bytes(data):
            self.log.append(('mutated', chan, bytes(data), bytes(pk.data)))

    def ev_notify(self, i, b):
        self.dev.notify(i, bytes(b))

    def ev_issue(self, thread):
        self._expect(thread, 'issue')
        self.sched.resume(thread)

    def start_issuer(self, ops):
        t = Issuer([self.op(o) for o in ops])
        t.start()               # patched: spawn
        self.sched.resume(t)    # -> first 'issue' (or 'idle')
        return t

    def drain(self):
        out, self.log[:] = list(self.log), []
        return out

    # ---- state snapshot (observable fields only)
    def snapshot(self):
        u = self.updater
        w = self.sched.waiting(u)
        vals = []
        for (i, n, g, ty, ro, pers) in self.cfg['toc']:
            try:
                if self.cf.param._initialized.is_set():
                    v = self.cf.param.get_value(self.cname(n))
                else:       # get_value would block until all values are fetched
                    v = self.cf.param.values['g%d' % g]['n%d' % n]
                vals.append(self.canon(ty, v))
            except KeyError:
                vals.append(None)
        return {
            'queue': [(pk.channel, bytes(pk.data)) for pk in map(find_packet, u.request_queue.pending())],
            'hand': 1 if (w and w[0] == 'acquire') else 0,
            'lock': int(u.wait_lock.l),
            'pat': None if u._lock_pattern is None else bytes(u._lock_pattern),
            'updated': int(bool(self.cf.param.is_updated)),
            'init_event': int(self.cf.param._initialized.is_set()),
            'values': vals,
            'nclos': len(self.cf.incoming.cb) - self.base_cbs,
            'store': sorted(self.dev.store.items()),
            'stored': sorted(self.dev.stored.items()),
            'out': list(self.dev.out),
            'dead': [inf['exc'] for inf in self.sched.info.values() if inf['done'] and inf['exc']],
        }

    def close(self):
        try:
            self.sched.kill_all()
        finally:
            P = self.P
            P.Lock, P.Event, P.Queue, threading.Thread.start, DQueue.on_put = self.saved
            for n, c in self.saved_queues.items():
                setattr(P, n, c)
            self.A.Lock = self.saved_A_lock
            Sched.cur = None
