"""C05 — driving the real Log / LogConfig / SyncLogger of cflib single-threaded on a fake Crazyflie.

The fake `cf` records `send_packet` calls (port, channel, payload, expected_reply), has a settable `link`,
a `platform.get_protocol_version()` and a `disconnected` Caller.  Packets are fed straight into
`Log._new_packet_cb`.  Every callback of every LogConfig is instrumented.

Events (JSON-able), same vocabulary as coq/C05/Model.v `ev`:
  ['new', ms] ['addvar', h, name, ty] ['addmem', h, name, fetch, stored, addr] ['addcfg', h]
  ['create', h] ['start', h] ['stop', h] ['delete', h] ['pkt', chan, [bytes]] ['linkdown'] ['refresh', v2]
  ['settoc', [[name, ident, ctype], ...]]
Names are numbers n <-> 'g<n//3>.v<n%3>'; ty 0 = no fetch type given.

`Impl.apply(ev)` returns the flattened observation list of the event in exactly the format of
coq/C05/TieEnc.v (`enc_run`): [#obs] ++ obs ++ [exception code] ++ state.
cflib is imported lazily (from the tree check.py put first on sys.path)."""
import logging
import math
import struct

EXN = {'KeyError': 1, 'AttributeError': 2, 'TypeError': 3, 'ValueError': 4, 'IndexError': 5, 'error': 6}


def name_str(n):
    return 'g%d.v%d' % (n // 3, n % 3)


def name_id(s):
    g, v = s.split('.')
    return int(g[1:]) * 3 + int(v[1:])


class _Platform:
    def __init__(self):
        self.version = 3

    def get_protocol_version(self):
        return self.version


class FakeCF:
    def __init__(self):
        from cflib.utils.callbacks import Caller
        self.sent = []
        self.link = None
        self.platform = _Platform()
        self.port_cbs = []
        self.disconnected = Caller()
        self.log = None

    def add_port_callback(self, port, cb):
        self.port_cbs.append((port, cb))

    def remove_port_callback(self, port, cb):
        if (port, cb) in self.port_cbs:
            self.port_cbs.remove((port, cb))

    # The link keeps the packet OBJECT (as RadioDriver's queue and Crazyflie._start_answer_timer do) and reads
    # header and data only when the simulated radio transmits: `lag` packets behind the sender (0 = at once,
    # the old behaviour; a large value = at the end of the call), and once more for the resend check.
    lag = 0

    def send_packet(self, pk, expected_reply=(), resend=False, timeout=0.2):
        entry = {'pk': pk, 'exp': list(expected_reply), 'slot': None, 'tx': None,
                 'cmd': (pk.port, pk.channel, list(bytes(pk.data)))}
        if getattr(self, 'on_send', None):
            self.on_send(entry)
        if not hasattr(self, 'queue'):
            self.queue, self.kept = [], []
        self.queue.append(entry)
        self.kept.append(entry)
        while len(self.queue) > self.lag:
            self._transmit(self.queue.pop(0))

    def _transmit(self, entry):
        pk = entry['pk']
        entry['tx'] = (pk.port, pk.channel, list(bytes(pk.data)))
        p, c, d = entry['tx']
        e = entry['exp']
        self.sent.append((p, c, d, e))
        if entry['slot'] is not None:
            entry['slot'][:] = [1, p, c, len(d)] + d + [len(e)] + e

    def flush(self):
        """the radio catches up; then the answer timers fire: every kept object is read once more.
        Returns the packets whose resend differs from what was commanded at send_packet time."""
        for entry in getattr(self, 'queue', []):
            self._transmit(entry)
        self.queue = []
        bad = []
        for entry in getattr(self, 'kept', []):
            pk = entry['pk']
            now = (pk.port, pk.channel, list(bytes(pk.data)))
            if now != entry['cmd'] or entry['tx'] != entry['cmd']:
                bad.append({'commanded': entry['cmd'], 'transmitted': entry['tx'], 'resent': now})
        self.kept = []
        return bad


class _TocCache:
    """stands for cflib.crazyflie.toccache.TocCache: knows one table"""

    def __init__(self):
        self.data = None

    def fetch(self, crc):
        return self.data

    def insert(self, crc, toc):
        pass


def period_value(ms):
    """the period_in_ms argument of an event: an int, or ['f', a, b] = the Python float a/b (exactly), or
    ['np', a, b] = the numpy.float64 a/b"""
    if isinstance(ms, (list, tuple)):
        v = ms[1] / ms[2]                 # exact: a/b is the as_integer_ratio of a float
        if ms[0] == 'np':
            import numpy
            return numpy.float64(v)
        return v
    return ms


def period_ratio(ms):
    """(a, b) with period_in_ms = a/b exactly"""
    if isinstance(ms, (list, tuple)):
        return int(ms[1]), int(ms[2])
    return int(ms), 1


def float_spec(x, kind='f'):
    a, b = float(x).as_integer_ratio()
    return [kind, a, b]


def _int_or_marker(v):
    """integers as they are; anything else (a float period ...) as a marker that no model value equals"""
    if isinstance(v, bool):
        return int(v)
    if isinstance(v, int):
        return v
    try:
        import numpy
        if isinstance(v, numpy.integer):
            return int(v)
    except ImportError:
        pass
    return -777777


def exn_code(e):
    if isinstance(e, struct.error):
        return 6
    return EXN.get(type(e).__name__, 99)


def float_bits(ty_fmt, v):
    """bit pattern of a Python float for '<e' / '<f'; NaN -> -1; not representable -> -2"""
    if not isinstance(v, float):
        return -3
    if math.isnan(v):
        return -1
    try:
        b = struct.pack(ty_fmt, v)
    except (OverflowError, struct.error):
        return -2
    return int.from_bytes(b, 'little')


def st_hash(l):
    """mirror of coq/C05/TieEnc.v st_hash"""
    h1, h2 = 17, 23
    for v in l:
        h1 = (h1 * 31 + v % 65521) % 65521
        h2 = (h2 * 37 + v % 65519) % 65519
    return [h1, h2]


class Impl:
    def __init__(self):
        from cflib.crazyflie.log import Log, LogTocElement
        self.LogTocElement = LogTocElement
        self.cf = FakeCF()
        self.log = Log(self.cf)
        self.cf.log = self.log
        self.cfgs = []
        self.obs = []
        self.err_by_msg = {v: k for k, v in Log._err_codes.items()}
        self.log.block_added_cb.add_callback(self._block_added)
        self.model_tocs = []     # for every settoc event: the table in get_element_by_id iteration order

    # ---- helpers
    def _h(self, cfg):
        for i, c in enumerate(self.cfgs):
            if c is cfg:
                return i
        return 9999

    def _block_added(self, *a):
        if len(a) == 1:
            self.obs.append([2, 1, self._h(a[0]), 0])
        else:
            self.obs.append([2, 97, 0, 0])

    def _mk_cbs(self, h, cfg):
        def added(*a):
            if len(a) == 2 and a[0] is cfg and isinstance(a[1], bool):
                self.obs.append([2, 2, h, 1, int(a[1])])
            elif len(a) == 1 and a[0] is False:
                self.obs.append([2, 3, h, 1, 0])
            else:
                self.obs.append([2, 98, h, 0])

        def started(*a):
            if len(a) == 2 and a[0] is cfg and isinstance(a[1], bool):
                self.obs.append([2, 4, h, 1, int(a[1])])
            elif len(a) == 2 and a[0] is self.log and a[1] is False:
                self.obs.append([2, 5, h, 1, 0])
            else:
                self.obs.append([2, 98, h, 0])

        def error(*a):
            if len(a) == 2 and a[0] is cfg and a[1] in self.err_by_msg:
                self.obs.append([2, 6, h, 1, self.err_by_msg[a[1]]])
            else:
                self.obs.append([2, 98, h, 0])

        def data(*a):
            if len(a) == 3 and a[2] is cfg and isinstance(a[1], dict):
                self.obs.append(self.enc_data(h, cfg, a[0], a[1]))
            else:
                self.obs.append([3, 98, 0, 0])
        cfg.added_cb.add_callback(added)
        cfg.started_cb.add_callback(started)
        cfg.error_cb.add_callback(error)
        cfg.data_received_cb.add_callback(data)

    def enc_data(self, h, cfg, ts, d):
        out = [3, h, ts, len(d)]
        for name, val in d.items():
            ty = None
            for v in cfg.variables:
                if v.name == name:
                    ty = v.fetch_as         # the last assignment to the key wins
            fmt = self.LogTocElement.types[ty][1] if ty in self.LogTocElement.types else '?'
            if fmt[-1] in 'ef':
                cv = float_bits(fmt, val)
            elif isinstance(val, int) and not isinstance(val, bool):
                cv = val
            else:
                cv = -4
            out += [name_id(name), ty, cv]
        return out

    def type_name(self, ty):
        t = self.LogTocElement.types.get(ty)
        return t[0] if t else 'no_such_type_%d' % ty

    def build_toc(self, entries):
        from cflib.crazyflie.toc import Toc
        t = Toc()
        for (n, ident, ct) in entries:
            g, v = name_str(n).split('.')
            data = bytes([ct]) + g.encode() + b'\0' + v.encode() + b'\0'
            t.add_element(self.LogTocElement(ident, data))
        order = []
        for g in list(t.toc.keys()):
            for v in list(t.toc[g].keys()):
                e = t.toc[g][v]
                order.append([name_id(e.group + '.' + e.name), e.ident,
                              self.LogTocElement.get_id_from_cstring(e.ctype)])
        return t, order

    # ---- one event
    def do(self, ev):
        from cflib.crazyflie.log import LogConfig
        from cflib.crtp.crtpstack import CRTPPacket
        k = ev[0]
        if k == 'new':
            cfg = LogConfig('cfg%d' % len(self.cfgs), period_value(ev[1]))
            self.cfgs.append(cfg)
            self._mk_cbs(len(self.cfgs) - 1, cfg)
            return
        if k == 'settoc':
            # ['settoc', entries] or ['settoc', entries, mode].  mode 'new' (default): Log.toc becomes a new Toc object;
            # 'cache': the table is installed the way TocFetcher's cache-hit path does it -- through the real
            # TocFetcher of this session (TOC info reply + a cache that knows the CRC) when one is waiting for the
            # info reply, otherwise by `Log.toc.toc = table` on the existing Toc object
            t, order = self.build_toc(ev[1])
            self.model_tocs.append(order)
            mode = ev[2] if len(ev) > 2 else 'new'
            if mode != 'cache':
                self.log.toc = t
                return
            from cflib.crazyflie.toc import Toc, TocFetcher
            if self.log.toc is None:
                self.log.toc = Toc()
            fetcher = None
            for port, cb in list(self.cf.port_cbs):
                owner = getattr(cb, '__self__', None)
                if isinstance(owner, TocFetcher) and owner.toc is self.log.toc and owner.state == 'GET_TOC_INFO':
                    fetcher = owner
            if fetcher is None or not t.toc:
                self.log.toc.toc = t.toc
                return
            self.cache.data = t.toc
            pk = CRTPPacket()
            pk.set_header(5, 0)
            n = len(ev[1])
            if fetcher._useV2:
                pk.data = bytearray([3]) + struct.pack('<HI', n & 0xFFFF, 0x12345678)
            else:
                pk.data = bytearray([1]) + struct.pack('<BI', n & 0xFF, 0x12345678)
            fetcher._new_packet_cb(pk)
            return
        if k == 'linkdown':
            self.cf.link = None
            self.cf.disconnected.call('uri')      # Crazyflie signals the end of the link (Log._disconnected)
            return
        if k == 'refresh':
            self.cf.link = object()
            self.cf.platform.version = 5 if ev[1] else 3
            self.cache = _TocCache()
            self.log.refresh_toc(lambda *a: None, self.cache)
            return
        if k == 'pkt':
            pk = CRTPPacket()
            pk.set_header(5, ev[1])
            pk.data = bytearray(ev[2])
            self.log._new_packet_cb(pk)
            return
        h = ev[1]
        if h >= len(self.cfgs):
            return
        cfg = self.cfgs[h]
        if k == 'addvar':
            if ev[3] == 0:
                cfg.add_variable(name_str(ev[2]))
            else:
                cfg.add_variable(name_str(ev[2]), self.type_name(ev[3]))
        elif k == 'addmem':
            cfg.add_memory(name_str(ev[2]), self.type_name(ev[3]), self.type_name(ev[4]), ev[5])
        elif k == 'addcfg':
            self.log.add_config(cfg)
        elif k == 'create':
            cfg.create()
        elif k == 'start':
            cfg.start()
        elif k == 'stop':
            cfg.stop()
        elif k == 'delete':
            cfg.delete()
        else:
            raise ValueError('unknown event %r' % (ev,))

    def apply(self, ev):
        """run one event; returns (flattened record, wires sent, exception code)"""
        self.obs = []
        self.cf.sent = []
        code = 0
        prev = logging.root.manager.disable
        logging.disable(logging.CRITICAL)
        try:
            # observations are interleaved: a wire takes its place among the callbacks when send_packet is
            # called, its content is what the radio reads when it transmits
            cf = self.cf

            def on_send(entry):
                entry['slot'] = []
                self.obs.append(entry['slot'])
            cf.on_send = on_send
            try:
                self.do(ev)
            except Exception as e:  # noqa
                code = exn_code(e)
            self.resend_diff = cf.flush()
            cf.on_send = None
            wires = list(cf.sent)
        finally:
            logging.disable(prev)
        flat = [len(self.obs)]
        for o in self.obs:
            flat += o
        flat.append(code)
        snap = self.snapshot()
        self.last_full = flat + snap
        return flat + st_hash(snap), wires, code

    def snapshot(self):
        lg = self.log
        out = [lg._config_id_counter, int(bool(lg._useV2)), 0 if lg.toc is None else 1,
               0 if self.cf.link is None else 1, int(bool(getattr(lg, '_toc_refresh_pending', False))),
               len(lg.log_blocks)]
        out += [self._h(b) for b in lg.log_blocks]
        out.append(len(self.cfgs))
        for c in self.cfgs:
            out += [_int_or_marker(c.period), c.id, 0 if c.cf is None else 1, int(bool(c.useV2)), int(c._added), int(c._started),
                    int(c.pending), int(c.valid), c.err_no, len(c.variables)]
            for v in c.variables:
                out += [1 if v.is_toc_variable() else 0, name_id(v.name), v.fetch_as, v.stored_as, v.address]
            out.append(len(c.default_fetch_as))
            out += [name_id(n) for n in c.default_fetch_as]
        return out


# ---------------------------------------------------------------- Coq syntax of events
def z(n):
    n = int(n)
    return str(n) if n >= 0 else '(%d)' % n


def zl(xs):
    return '[' + '; '.join(z(x) for x in xs) + ']'


def coq_ev(ev, toc_order=None):
    k = ev[0]
    if k == 'new':
        a, b = period_ratio(ev[1])
        return 'ENew %s %s' % (z(a), z(b))
    if k == 'addvar':
        return 'EAddVar %d %s %s' % (ev[1], z(ev[2]), z(ev[3]))
    if k == 'addmem':
        return 'EAddMem %d %s %s %s %s' % (ev[1], z(ev[2]), z(ev[3]), z(ev[4]), z(ev[5]))
    if k in ('addcfg', 'create', 'start', 'stop', 'delete'):
        return {'addcfg': 'EAddConfig', 'create': 'ECreate', 'start': 'EStart', 'stop': 'EStop',
                'delete': 'EDelete'}[k] + ' %d' % ev[1]
    if k == 'pkt':
        return 'EPacket %s %s' % (z(ev[1]), zl(ev[2]))
    if k == 'linkdown':
        return 'ELinkDown'
    if k == 'refresh':
        return 'ERefresh %s' % ('true' if ev[1] else 'false')
    if k == 'settoc':
        return 'ESetToc [' + '; '.join('mkT %s %s %s' % (z(a), z(b), z(c)) for a, b, c in toc_order) + ']'
    raise ValueError(k)


# ---------------------------------------------------------------- SyncLogger
class SyncRun:
    """The real SyncLogger on top of the real Log: one uint32 variable carries the sample number."""

    def __init__(self):
        from cflib.crazyflie.log import LogConfig
        from cflib.crazyflie.syncLogger import SyncLogger
        self.impl = Impl()
        im = self.impl
        im.do(['refresh', True])
        im.do(['pkt', 1, [5, 0, 0]])
        im.do(['settoc', [[0, 7, 3]]])
        self.cfg = LogConfig('sync', 100)
        self.cfg.add_variable(name_str(0), 'uint32_t')
        self.sl = SyncLogger(im.cf, self.cfg)
        self.acked = False

    def apply(self, ev):
        """returns the code of coq/C05/TieEnc.v enc_sl_obs"""
        im = self.impl
        k = ev[0]
        prev = logging.root.manager.disable
        logging.disable(logging.CRITICAL)
        try:
            if k == 'connect':
                try:
                    if im.cf.link is None:
                        im.do(['refresh', True])
                        im.do(['pkt', 1, [5, 0, 0]])
                        im.do(['settoc', [[0, 7, 3]]])
                    self.sl.connect()
                except Exception as e:  # noqa
                    return 3 if str(e) == 'Already connected' else 98
                return 0
            if k == 'sample':
                n = ev[1]
                im.do(['pkt', 2, [self.cfg.id, 1, 2, 3] + list(struct.pack('<I', n))])
                return 0
            if k == 'next':
                if self.sl._is_connected and self.sl._queue.empty():
                    return 2          # would block in queue.get()
                import queue as _q
                q = self.sl._queue
                q.get = lambda block=True, timeout=None: _q.Queue.get(q, False)   # never block the harness
                try:
                    ts, data, blk = self.sl.__next__()
                except StopIteration:
                    return 1
                except _q.Empty:
                    return 5              # next() went into get() on an empty queue: it would block
                finally:
                    del q.get
                if ts != 0x030201 or blk is not self.cfg or list(data.keys()) != [name_str(0)]:
                    return 97
                return 10 + data[name_str(0)]
            if k == 'linklost':
                im.cf.link = None
                im.cf.disconnected.call('uri')
                return 0
            if k == 'disconnect':
                self.sl.disconnect()
                return 0
        finally:
            logging.disable(prev)
        raise ValueError(k)


def coq_sl_ev(ev):
    k = ev[0]
    if k == 'sample':
        return 'SSample %d' % ev[1]
    return {'connect': 'SConnect', 'next': 'SNext', 'linklost': 'SLinkLost', 'disconnect': 'SDisconnect'}[k]
