"""Scripted Crazyflie device behind a fake CRTP link driver, for DetSched runs (C02).

Platform protocol v7, log TOC V2, parameter TOC V2, configurable number of memories (0 or 1 I2C-less
'tester' style entry is avoided: we use memory count 0 by default), parameter reads answered with a
uint8 value.  Fault injection: report a link error after the k-th exchanged packet, either from the
driver's own thread or from inside send_packet (the sending thread, as RadioDriver.send_packet does when
its out queue stays full for 2 s).
"""
import struct

import detsched
from cflib.crtp.crtpdriver import CRTPDriver
from cflib.crtp.crtpstack import CRTPPacket


class Config:
    def __init__(self, n_log=3, n_param=2, fault_at=None, fault_mode='driver', log_crc=0x11111111, par_crc=0x22222222,
                 needs_resending=False, hold_after=None, dup_notify=False, dup_after=None, mems=(), slow_send=None,
                 slow_reply=None, sender_fault_on=None):
        self.n_log, self.n_param = n_log, n_param
        self.fault_at, self.fault_mode = fault_at, fault_mode
        self.log_crc, self.par_crc = log_crc, par_crc
        self.needs_resending = needs_resending
        self.hold_after = hold_after     # device stops answering after this many exchanged packets (silent peer)
        # [port, channel, first data byte, k]: the reply to that request is delivered a second time once k more
        # packets have been exchanged (a re-sent request answered twice, the second answer late)
        self.dup_after = dup_after
        self.mems = tuple(mems)          # memory types the device reports (1 = 1-wire deck memory, 0 = I2C EEPROM, ...)
        # [port, seconds]: send_packet blocks that long for packets of this port (RadioDriver.send_packet blocks up to
        # 2 s when its out queue is full) — the caller holds Crazyflie's send lock meanwhile
        self.slow_send = slow_send
        # [port, channel, first data byte or None, seconds]: the device's answers to those requests arrive that much
        # later (a slow peer / congested downlink).  Every request received is answered, so a request the library
        # re-sends meanwhile is answered twice, both answers late.
        self.slow_reply = slow_reply
        # [port, n]: the n-th packet of that port handed to send_packet is the one on which the sending-thread fault
        # happens (instead of counting exchanged packets with fault_at)
        self.sender_fault_on = sender_fault_on
        self.dup_notify = dup_notify     # firmware re-announces parameter 0 (value-updated notifications) during the download


class FakeLink(CRTPDriver):
    """One instance per open_link (created by get_link_driver through CLASSES)."""
    cfg = Config()
    instances = []
    connect_raises = None
    fault_spent = False
    fault_spent_sfo = False

    def __init__(self):
        CRTPDriver.__init__(self)
        self.needs_resending = FakeLink.cfg.needs_resending
        self.q = detsched.DQueue()
        self.sent = []
        self.count = 0                # exchanged packets (host->device and device->host deliveries)
        self.closed = False
        self.sent_after_close = 0
        self.err = None
        self.fault_ev = detsched.DEvent()
        self.fault_done = False
        self.session = len(FakeLink.instances)
        FakeLink.instances.append(self)

    # ---- driver interface
    def connect(self, uri, stats_cb, err_cb):
        if not uri.startswith('fake://'):
            from cflib.crtp.exceptions import WrongUriType
            raise WrongUriType('not a fake uri')
        if FakeLink.connect_raises:
            raise Exception(FakeLink.connect_raises)
        self.err = err_cb
        c = self.cfg
        if c.fault_at is not None and c.fault_mode == 'driver':
            import threading
            if c.fault_at == 0:
                self.fault_ev.set()      # reports as soon as the driver thread gets to run
            t = threading.Thread(target=self._driver)
            t.start()
        if c.fault_at == 0 and c.fault_mode == 'connect_sync' and not FakeLink.fault_spent:
            # the driver notices during connect() that the peer does not answer and reports it at once
            FakeLink.fault_spent = True
            self.fault_done = True
            err_cb('fake link error (during connect)')
        if c.fault_at == 0 and c.fault_mode == 'connect_thread' and not FakeLink.fault_spent:
            # ... or its freshly started thread does, before connect() returns
            import threading
            FakeLink.fault_spent = True
            self.fault_done = True
            t = threading.Thread(target=lambda: err_cb('fake link error (driver thread during connect)'))
            t.start()
            t.join()

    def _driver(self):
        self.fault_ev.wait()
        if not self.closed and not self.fault_done:
            self.fault_done = True
            detsched.S.note('link error reported by driver thread')
            self.err('fake link error (driver thread)')

    def get_name(self):
        return 'fake'

    def get_status(self):
        return 'ok'

    def scan_interface(self, address=None):
        return []

    hook = None

    def receive_packet(self, wait=0):
        import queue
        if FakeLink.hook:
            FakeLink.hook('rx_wait')
        try:
            if wait == 0:
                pk = self.q.get(False)
            elif wait < 0:
                pk = self.q.get(True)
            else:
                pk = self.q.get(True, wait)
        except queue.Empty:
            return None
        if self.closed:
            return None
        self._tick()
        if FakeLink.hook:
            FakeLink.hook('rx_got')
        return pk

    def close(self):
        self.closed = True
        self.fault_ev.set()

    def _tick(self):
        self.count += 1
        c = self.cfg
        for item in list(getattr(self, '_late', [])):
            if self.count >= item[0]:
                self._late.remove(item)
                self._reply(*item[1])
        if c.fault_at is not None and self.count >= c.fault_at and not self.fault_done and c.fault_mode == 'driver':
            self.fault_ev.set()

    def _arm_immediately(self):
        if self.cfg.fault_at == 0 and self.cfg.fault_mode == 'driver':
            self.fault_ev.set()

    def _reply(self, port, chan, data, _late_ok=False):
        c = self.cfg
        sr = c.slow_reply
        if (sr and not _late_ok and (port, chan) == (sr[0], sr[1])
                and (sr[2] is None or bytes(data)[:1] == bytes([sr[2]]))):
            import threading
            import time

            def later():
                time.sleep(sr[3])
                if not self.closed:
                    self._reply(port, chan, data, True)
            threading.Thread(target=later).start()
            return
        if c.hold_after is not None and self.count >= c.hold_after:
            return
        if self.fault_done:
            return                   # a link that has reported a failure delivers nothing any more
        pk = CRTPPacket()
        pk.set_header(port, chan)
        pk.data = bytes(data)
        self.q.put(pk)
        d = c.dup_after
        if d and (port, chan) == (d[0], d[1]) and bytes(data)[:1] == bytes([d[2]]) and not getattr(self, '_dup_done', False):
            self._dup_done = True
            if not hasattr(self, '_late'):
                self._late = []
            self._late.append((self.count + d[3], (port, chan, bytes(data))))

    def send_packet(self, pk):
        d = bytes(pk.data)
        if self.closed:
            self.sent_after_close += 1
            return
        c = self.cfg
        if c.slow_send and pk.port == c.slow_send[0]:
            import time
            time.sleep(c.slow_send[1])
            if self.closed:
                self.sent_after_close += 1
                return
        self.sent.append((pk.port, pk.channel, d))
        self._tick()
        sfo = c.sender_fault_on
        if sfo and pk.port == sfo[0]:
            self._sfo_n = getattr(self, '_sfo_n', 0) + 1
        if ((c.fault_at is not None and c.fault_mode == 'sender' and self.count >= c.fault_at and not self.fault_done)
                or (sfo and pk.port == sfo[0] and self._sfo_n == sfo[1] and not self.fault_done
                    and not FakeLink.fault_spent_sfo)):
            if sfo:
                FakeLink.fault_spent_sfo = True
            # RadioDriver.send_packet: out_queue.put(pk, True, 2) times out, then reports from the sending thread
            self.fault_done = True
            import time
            time.sleep(2)
            detsched.S.note('link error reported by sending thread %s' % detsched.S.name())
            self.err('fake link error (sending thread)')
            return
        p, ch = pk.port, pk.channel
        nlog, npar = c.n_log, c.n_param
        if p == 15 and ch == 1:
            self._reply(15, 1, b'Bitcraze Crazyflie')
        elif p == 15 and ch == 0:
            self._reply(15, 0, d)                                  # echo (latency ping)
        elif p == 13 and ch == 1 and d[:1] == b'\x00':
            self._reply(13, 1, bytes([0, 7]))
        elif p == 5 and ch == 1 and d[:1] == b'\x05':
            self._reply(5, 1, bytes([5, 0, 0]))
        elif p in (5, 2) and ch == 0:
            n = nlog if p == 5 else npar
            crc = c.log_crc if p == 5 else c.par_crc
            if d[0] == 3:
                self._reply(p, 0, struct.pack('<BHI', 3, n, crc) + b'\x10\x10')
            elif d[0] == 2:
                i = struct.unpack('<H', d[1:3])[0]
                if i < n:
                    g = ('g%d' % (i // 3)).encode()
                    nm = ('v%d' % i).encode()
                    t = 0x07 if p == 5 else 0x08
                    self._reply(p, 0, struct.pack('<BHB', 2, i, t) + g + b'\0' + nm + b'\0')
        elif p == 4 and ch == 0 and d[:1] == b'\x01':
            self._reply(4, 0, bytes([1, len(c.mems)]))
        elif p == 4 and ch == 0 and d[:1] == b'\x02':
            i = d[1]
            if i < len(c.mems):
                self._reply(4, 0, struct.pack('<BBBI', 2, i, c.mems[i], 112) + bytes([i + 1] * 8))
        elif p == 4 and ch == 1 and len(d) >= 6:
            i, addr, ln = struct.unpack('<BIB', d[:6])
            img = ow_image(i)
            self._reply(4, 1, struct.pack('<BIB', i, addr, 0) + img[addr:addr + ln])
        elif p == 2 and ch == 1:
            i = struct.unpack('<H', d[0:2])[0]
            self._reply(2, 1, struct.pack('<HBB', i, 0, (i + 40) & 0xFF))
            if c.dup_notify and i == 0:
                for _ in range(3):           # MISC_VALUE_UPDATED for parameter 0, same value
                    self._reply(2, 3, struct.pack('<BHB', 1, 0, 40))
        elif p == 2 and ch == 2:
            i = struct.unpack('<H', d[0:2])[0]
            self._reply(2, 2, d[0:2] + b'\x00' + d[2:])
        elif p == 5 and ch == 1:
            self._reply(5, 1, bytes([d[0], d[1] if len(d) > 1 else 0, 0]))


def ow_image(i):
    """content of 1-wire memory i: valid header, two elements, valid CRCs (as OWElement.write_data lays it out)"""
    from zlib import crc32
    h = struct.pack('<BIBB', 0xEB, 0, 0xBC, 1 + i)
    h += bytes([crc32(h) & 0xFF])
    el = b''
    for key, txt in ((1, b'deck%d' % i), (2, b'A')):
        el += struct.pack('BB', key, len(txt)) + txt
    e = struct.pack('BB', 0, len(el)) + el
    e += bytes([crc32(e) & 0xFF])
    return (h + e).ljust(112, b'\xff')


def install(cfg):
    import cflib.crtp
    FakeLink.cfg = cfg
    FakeLink.instances = []
    FakeLink.connect_raises = None
    FakeLink.fault_spent = False
    FakeLink.fault_spent_sfo = False
    FakeLink.hook = None
    cflib.crtp.CLASSES[:] = [FakeLink]
