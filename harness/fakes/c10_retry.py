"""C10 — driving the real Crazyflie.send_packet / retry timers / _check_for_answers / open_link /
close_link / _link_error_cb in virtual time.

* `cflib.crazyflie.Timer` is rebound to `VTimer` (two phases like threading.Timer: `expire` = the timer
  thread wakes up and passes the "cancelled?" test, `run` = it executes the function; cancel() only stops a
  timer that has not expired yet).  Nothing sleeps; time is an integer number of milliseconds.
* `cflib.crtp.CLASSES` holds one fake driver class; every open_link creates a new link object = a new
  session; the link records every transmission with (session, request id, virtual time, closed?, current?).
* received packets go through the real `_IncomingPacketHandler.run()` (called synchronously for one packet).

Events (JSON-able):
  ['send', rid, hdr, data, exp, timeout_ms|None]   cf.send_packet(CRTPPacket(hdr, data), expected_reply=tuple(exp)[, timeout])
  ['recv', hdr, data[, rb]] a packet arrives on the current link (ignored when there is no link); it is built as the drivers
                           do, CRTPPacket(raw_header, payload), with reserved bits rb (0..3; default: derived from the event)
  ['recvcb', hdr, data, [[rid, hdr, data, exp, timeout_ms|None], ...]]
                           a packet arrives and the port callback handling it (inside the real dispatch) sends these requests
  ['closex', {'c0': [...], 'c1': [...], 'd': [...]}]   close_link() with another thread acting inside link.close() (before /
                           after the driver closed) and from a disconnected callback
  ['open', nr]             cf.open_link(...) with a link whose needs_resending is nr (ignored when a link is open)
  ['openfail', nr]         cf.open_link(...) fails: the driver connects, its first set-up send_packet raises
  ['close']                cf.close_link()
  ['linkerr']              the driver reports an error (cf._link_error_cb)
  ['setnr', b]             the driver changes link.needs_resending
  ['adv', dt]              virtual time passes, nothing fires
  ['expire', tid]          timer tid (creation order) wakes up, if armed and due
  ['run', tid]             timer tid executes its function, if it has expired
  ['flushall']             5 s pass, then every existing timer wakes up (if armed) and runs (if woken up) once
  ['advfire', dt]          ideal timing: time passes and every timer fires exactly at its deadline, in deadline order
                           (expanded by the harness into adv/expire/run for the model)
"""
import logging

ARMED, CANCELLED, COMMITTED, DONE, NEW = 0, 1, 2, 3, 4
REQ_PORTS = (1, 9, 10, 11)        # ports no cflib subsystem listens on


class _Stop(BaseException):
    pass


class VTimer:
    def __init__(self, run, interval, function):
        self.r = run
        self.ms = int(round(interval * 1000))
        self.function = function
        self.status = NEW
        self.deadline = None
        self.tid = len(run.timers)
        run.timers.append(self)

    def start(self):
        self.status = ARMED
        self.deadline = self.r.now + self.ms

    def cancel(self):
        if self.status in (ARMED, NEW):
            self.status = CANCELLED


_CF = []


def _the_cf():
    if not _CF:
        from cflib.crazyflie import Crazyflie
        logging.getLogger('cflib').setLevel(logging.CRITICAL)
        cf = Crazyflie()
        cf.incoming.is_alive = lambda: True       # never start the dispatcher thread; run() is called by the harness
        _CF.append(cf)
    return _CF[0]


class Run:
    def __init__(self, cf=None):
        self.fail_setup_sends = 0   # >0: the next packets the library itself sends (connection set-up) raise in the driver
        self.close_hook = None  # set while a 'closex' event runs: called inside link.close()
        self.gate = None        # optional hook called inside link.send_packet before the packet counts as transmitted
        import cflib.crazyflie as cfmod
        import cflib.crtp
        from cflib.crtp.crtpdriver import CRTPDriver
        self.cfmod, self.crtp = cfmod, cflib.crtp
        self.now = 0
        self.timers = []
        self.tx = []            # dict(sess, rid, t, closed, current)
        self.out = []           # model-comparable outputs: [sess, rid, t] ; raise = [-1, rid, t]
        self.sessions = 0
        self.next_nr = True
        self.pk_rid = {}
        self.keep = []
        self.expanded = []
        self.inbox = []
        self.ev_index = -1
        self.died = None
        run = self

        class FakeLink(CRTPDriver):
            def __init__(self):
                CRTPDriver.__init__(self)
                self.closed = False
                self.session = None

            def connect(self, uri, stats_cb, err_cb):
                self.session = run.sessions
                run.sessions += 1
                self.needs_resending = run.next_nr

            def send_packet(self, pk):
                rid = run.pk_rid.get(id(pk))
                if rid is None and run.fail_setup_sends > 0:
                    run.fail_setup_sends -= 1
                    raise OSError('scripted: the driver fails while the connection is set up')
                # what counts is the moment the packet is handed to the driver (the call may block)
                rec = {'sess': self.session, 'rid': rid, 't': run.now, 'closed': self.closed, 'current': run.cf.link is self,
                       'ev': run.ev_index,
                       # handed to the driver while close_link() is between link.close() and `self.link = None`: a
                       # closed driver drops the packet (C10_closed_driver_writes_nothing), nothing reaches the device
                       'dropped': self.closed and run.close_hook is not None}
                if run.gate is not None:
                    if run.gate(pk, rid) == 'drop':     # may block (a blocking driver), raise, or drop the packet
                        return
                run.tx.append(rec)
                if rid is not None:
                    run.out.append([self.session, rid, rec['t']])

            def receive_packet(self, wait=0):
                if run.inbox:
                    return run.inbox.pop(0)
                raise _Stop()

            def close(self):
                if run.close_hook is not None:
                    run.close_hook('c0')        # hand-over: close_link() has sent its setpoint, the driver is still open
                self.closed = True
                if run.close_hook is not None:
                    run.close_hook('c1')        # hand-over: the driver is closed, cf.link still refers to it

        self.FakeLink = FakeLink
        self.saved = (cfmod.Timer, list(cflib.crtp.CLASSES))
        cfmod.Timer = lambda interval, function: VTimer(run, interval, function)
        cflib.crtp.CLASSES[:] = [FakeLink]
        self.cf = cf if cf is not None else _the_cf()
        if self.cf.link is not None:
            self.cf.close_link()

    def finish(self):
        try:
            # leave the shared Crazyflie without a link and without pending patterns of this run
            self.cf.close_link()
        finally:
            self.cfmod.Timer, classes = self.saved
            self.crtp.CLASSES[:] = classes

    def _send(self, ev):
        from cflib.crtp.crtpstack import CRTPPacket
        cf = self.cf
        _, rid, hdr, data, exp, tmo = ev
        pk = sent_packet(hdr, data)
        self.keep.append(pk)
        self.pk_rid[id(pk)] = rid
        try:
            if tmo is None:
                cf.send_packet(pk, expected_reply=tuple(exp))
            else:
                cf.send_packet(pk, expected_reply=tuple(exp), timeout=tmo / 1000.0)
        except Exception:
            self.out.append([-1, rid, self.now])
            lock = getattr(cf, '_send_lock', None)
            if lock is not None and lock.locked():      # an exception under the lock would wedge every later send
                self.out.append([-2, rid, self.now])
                lock.release()

    # ---- events
    def step(self, ev):
        from cflib.crtp.crtpstack import CRTPPacket
        cf = self.cf
        k = ev[0]
        if k == 'advfire':
            end = self.now + ev[1]
            while True:
                due = [t for t in self.timers if t.status == ARMED and t.deadline <= end]
                if not due:
                    break
                t = min(due, key=lambda x: (x.deadline, x.tid))
                if t.deadline > self.now:
                    self.step(['adv', t.deadline - self.now])
                self.step(['expire', t.tid])
                self.step(['run', t.tid])
            if end > self.now:
                self.step(['adv', end - self.now])
            return
        if k == 'flushall':
            # let every timer that exists now fire once, long after its deadline (leftover timers included)
            self.step(['adv', 5000])
            tids = [t.tid for t in self.timers]
            for tid in tids:
                self.step(['expire', tid])
            for tid in tids:
                self.step(['run', tid])
            return
        self.expanded.append(ev)
        if k == 'send':
            self._send(ev)
        elif k == 'recv':
            if cf.link is not None:
                self.inbox.append(received_packet(ev[1], ev[2], ev[3] if len(ev) > 3 and isinstance(ev[3], int) else None))
                try:
                    cf.incoming.run()
                except _Stop:
                    pass
                except Exception as e:      # the dispatcher thread would have died here
                    del self.inbox[:]
                    self.out.append([-3, -1, self.now])
                    self.died = type(e).__name__
        elif k == 'recvcb':
            # a packet arrives and the port callback that handles it sends follow-up requests (from inside the real
            # _IncomingPacketHandler.run dispatch).  For the model: the answer check for the packet, THEN the sends.
            self.expanded.pop()
            if cf.link is not None:
                hdr, data, follow = ev[1], ev[2], ev[3]
                pk = received_packet(hdr, data, ev[4] if len(ev) > 4 else None)
                port = (hdr >> 4) & 0xF
                self.expanded.append(['recv', hdr, list(data)])

                def cb(p, _pk=pk):
                    if p is _pk:
                        for f in follow:
                            e2 = ['send'] + list(f)
                            self.expanded.append(e2)
                            self._send(e2)
                cf.add_port_callback(port, cb)
                self.inbox.append(pk)
                try:
                    cf.incoming.run()
                except _Stop:
                    pass
                except Exception as e:
                    del self.inbox[:]
                    self.out.append([-3, -1, self.now])
                    self.died = type(e).__name__
                finally:
                    cf.remove_port_callback(port, cb)
        elif k == 'closex':
            # close_link() as a multi-step transition with ANOTHER THREAD acting at its hand-over points:
            # hooks = {'c0': [...], 'c1': [...], 'd': [...]} lists of send / recv / recvcb events performed inside
            # link.close() before / after the driver closed itself, and from a `disconnected` callback (after the timers
            # were cancelled).  For the model: the events of c0 and c1, then close, then those of d.
            import threading
            self.expanded.pop()
            hooks = ev[1]

            def other_thread(key):
                evs = hooks.get(key) or []
                if evs:
                    th = threading.Thread(target=lambda: [self.step(e) for e in evs], name='c10-other-thread')
                    th.start()
                    th.join()

            def on_disconnected(uri):
                self.expanded.append(['close'])
                other_thread('d')
            self.close_hook = other_thread
            cf.disconnected.add_callback(on_disconnected)
            try:
                cf.close_link()
            finally:
                self.close_hook = None
                cf.disconnected.remove_callback(on_disconnected)
        elif k == 'open':
            if cf.link is None or getattr(cf.link, 'closed', False):    # (a closed driver object is not an open link)
                self.next_nr = bool(ev[1])
                cf.open_link('fake://%d' % self.sessions)
        elif k == 'openfail':
            # open_link whose driver connects but whose first set-up packet raises in the driver: the attempt fails
            # (connection_failed), the driver is closed.  For the model: a session that is opened and lost at once.
            self.expanded.pop()
            if cf.link is None or getattr(cf.link, 'closed', False):
                self.next_nr = bool(ev[1])
                self.fail_setup_sends = 1
                try:
                    cf.open_link('fake://%d' % self.sessions)
                finally:
                    self.fail_setup_sends = 0
                self.expanded += [['open', bool(ev[1])], ['linkerr']]
        elif k == 'close':
            cf.close_link()
        elif k == 'linkerr':
            if cf.link is not None:
                cf._link_error_cb('scripted link error')
        elif k == 'setnr':
            if cf.link is not None:
                cf.link.needs_resending = bool(ev[1])
        elif k == 'adv':
            self.now += ev[1]
        elif k == 'expire':
            if 0 <= ev[1] < len(self.timers):
                t = self.timers[ev[1]]
                if t.status == ARMED and t.deadline <= self.now:
                    t.status = COMMITTED
        elif k == 'run':
            if 0 <= ev[1] < len(self.timers):
                t = self.timers[ev[1]]
                if t.status == COMMITTED:
                    t.status = DONE
                    t.function()
        else:
            raise ValueError(ev)

    def timer_obs(self):
        out = []
        for t in self.timers:
            out += [t.status, t.deadline if t.deadline is not None else -1]
        return out


def sent_packet(hdr, data):
    """A request the way the library builds its packets: CRTPPacket() + set_header(port, channel) + data."""
    from cflib.crtp.crtpstack import CRTPPacket
    pk = CRTPPacket()
    pk.set_header((hdr >> 4) & 0xF, hdr & 0x3)
    pk.data = bytearray(data)
    return pk


def received_packet(hdr, data, reserved=None):
    """A received packet the way the link drivers build it: CRTPPacket(raw_header_byte, payload) — with any value of the
    two reserved bits (2-3) on the wire: `reserved` 0..3, by default derived from the event (all four values occur)."""
    from cflib.crtp.crtpstack import CRTPPacket
    rb = reserved if reserved is not None else (((hdr >> 4) + len(data) + sum(data)) & 3)
    return CRTPPacket((hdr & 0xF3) | (rb << 2), list(data))


def fresh_cf():
    """A NEW Crazyflie object: its first session has the packet_received callbacks in the order of __init__
    (_check_for_initial_packet_cb immediately before _check_for_answers); later sessions re-add the former at the end."""
    from cflib.crazyflie import Crazyflie
    logging.getLogger('cflib').setLevel(logging.CRITICAL)
    cf = Crazyflie()
    cf.incoming.is_alive = lambda: True
    return cf


def run_events(events, fresh=False):
    r = Run(cf=fresh_cf() if fresh else None)
    try:
        for i, ev in enumerate(events):
            r.ev_index = i
            r.step(ev)
        res = {'out': [list(x) for x in r.out], 'timers': r.timer_obs(), 'tx': list(r.tx), 'expanded': list(r.expanded),
               'ntimers': len(r.timers), 'died': r.died}
    finally:
        r.finish()
    return res
