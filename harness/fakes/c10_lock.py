"""C10 — the send lock with a BLOCKING / FAILING driver send, on the real Crazyflie with real threads.

A dedicated Crazyflie is created while `cflib.crazyflie.Lock` is rebound to `GateLock`: a real lock whose acquire()
parks the calling activity until the harness grants it (so that which waiting thread gets the lock is decided by the
scenario, not by the OS).  Every call of send_packet by a "user" or by a woken-up retry timer runs in its own real
thread (an activity).  The fake link's send_packet parks the activity inside the driver until the scenario lets it
return or raise; a packet_sent callback can be made to raise.  Exactly one thread runs at any time.

Scenario events (mirror C10/Lock.v):
  ['start', ['user', rid, hdr, data, exp, tmo_ms|None]] | ['start', ['timer', tid]]
  ['acquire', i]             activity i (index of its start) gets the lock, if it is free and i is waiting
  ['finish', i, 'ok'|'driver'|'sentcb']   the driver call of activity i returns / raises / a packet_sent callback raises
  ['base', ev]               ev = recv / adv / expire / linkerr / setnr / open / close of fakes/c10_retry (open/close only
                             when the lock is free: close_link and open_link send packets themselves)
"""
import logging
import threading

from fakes import c10_retry as drv

WAIT, HOLD, FIN = 0, 1, 2
TIMEOUT = 10


class DriverError(OSError):
    pass


class SentCbError(Exception):
    pass


class WouldBlock(BaseException):
    """the harness thread would block for ever on the send lock"""


class Scn:
    """state shared between the harness thread and the activities of one scenario"""

    def __init__(self):
        self.cv = threading.Condition()
        self.acts = []              # dicts: kind, status, thread, grant(Event), gate(Event), outcome, exc, in_driver
        self.by_thread = {}
        self.lock_holder = None     # activity index, 'main', or None

    def me(self):
        return self.by_thread.get(threading.get_ident())


_CUR = [None]


class GateLock:
    def __init__(self):
        self._l = threading.Lock()

    def acquire(self, blocking=True, timeout=-1):
        scn = _CUR[0]
        i = scn.me() if scn is not None else None
        if i is None:
            # harness thread (retry timers fired by the harness, close_link/open_link packets): never park it
            if not self._l.acquire(False):
                raise WouldBlock()
            if scn is not None:
                scn.lock_holder = 'main'
            return True
        a = scn.acts[i]
        with scn.cv:
            a['parked'] = 'lock'
            scn.cv.notify_all()
        a['grant'].wait()
        ok = self._l.acquire(False)
        assert ok, 'granted while locked'
        with scn.cv:
            a['parked'] = None
            a['status'] = HOLD
            scn.lock_holder = i
        return True

    def release(self):
        scn = _CUR[0]
        if scn is not None:
            scn.lock_holder = None
        self._l.release()

    def locked(self):
        return self._l.locked()

    def __enter__(self):
        self.acquire()
        return self

    def __exit__(self, *a):
        self.release()


_CF = []


def _lock_cf():
    if not _CF:
        import cflib.crazyflie as cfmod
        logging.getLogger('cflib').setLevel(logging.CRITICAL)
        saved = cfmod.Lock
        cfmod.Lock = GateLock
        try:
            cf = cfmod.Crazyflie()
        finally:
            cfmod.Lock = saved
        cf.incoming.is_alive = lambda: True
        _CF.append(cf)
    return _CF[0]


def send_lock_of(cf):
    lk = getattr(cf, '_send_lock', None)
    if not isinstance(lk, GateLock):
        raise RuntimeError('the Crazyflie under test has no send lock created from cflib.crazyflie.Lock')
    return lk


def run_scenario(events, flush=True):
    scn = Scn()
    cf = _lock_cf()
    lock = send_lock_of(cf)
    if lock.locked():                   # left over from a previous (failed) scenario
        lock._l.release()
    _CUR[0] = scn
    r = drv.Run(cf=cf)
    raising_pk = set()

    def sent_cb(pk):
        if id(pk) in raising_pk:
            raising_pk.discard(id(pk))
            raise SentCbError()
    cf.packet_sent.add_callback(sent_cb)

    def gate(pk, rid):
        i = scn.me()
        if i is None or rid is None:
            return
        a = scn.acts[i]
        with scn.cv:
            a['parked'] = 'driver'
            scn.cv.notify_all()
        a['gate'].wait()
        with scn.cv:
            a['parked'] = None
        if a['outcome'] == 'driver':
            raise DriverError('scripted driver failure')
        if a['outcome'] == 'linkerr':
            # what RadioDriver.send_packet does when its queue stays full: report the error from the sender's thread,
            # the packet is dropped
            cf._link_error_cb('scripted: link error reported from inside send_packet')
            return 'drop'
        if a['outcome'] == 'sentcb':
            raising_pk.add(id(pk))
    r.gate = gate
    res = {'blocked': None, 'leak': None}
    story = []

    def tell(e):
        story.append(e)
        r.ev_index = len(story) - 1

    def wait_parked_or_done(i):
        a = scn.acts[i]
        with scn.cv:
            ok = scn.cv.wait_for(lambda: a['parked'] is not None or a['status'] == FIN, TIMEOUT)
        if not ok:
            res['blocked'] = 'activity %d neither parked nor finished' % i
        return ok

    def body(i, fn):
        scn.by_thread[threading.get_ident()] = i
        a = scn.acts[i]
        try:
            fn()
        except Exception as e:
            a['exc'] = type(e).__name__
        finally:
            with scn.cv:
                a['status'] = FIN
                a['parked'] = None
                scn.cv.notify_all()

    try:
        for ei, ev in enumerate(events):
            k = ev[0]
            if k == 'start':
                act = ev[1]
                if act[0] == 'timer':
                    tid = act[1]
                    if not (0 <= tid < len(r.timers)) or r.timers[tid].status != drv.COMMITTED or \
                            any(a.get('tid') == tid and a['parked'] == 'lock' for a in scn.acts):
                        continue            # not a woken-up timer (or its call is already waiting): nothing is called
                i = len(scn.acts)
                a = {'kind': act[0], 'status': WAIT, 'grant': threading.Event(), 'gate': threading.Event(),
                     'outcome': None, 'exc': None, 'parked': None, 'tid': act[1] if act[0] == 'timer' else None, 'act': act}
                scn.acts.append(a)
                if act[0] == 'user':
                    def fn(act=act):
                        from cflib.crtp.crtpstack import CRTPPacket
                        _, rid, hdr, data, exp, tmo = act
                        pk = drv.sent_packet(hdr, data)
                        r.keep.append(pk)
                        r.pk_rid[id(pk)] = rid
                        try:
                            if tmo is None:
                                cf.send_packet(pk, expected_reply=tuple(exp))
                            else:
                                cf.send_packet(pk, expected_reply=tuple(exp), timeout=tmo / 1000.0)
                        except Exception:
                            if scn.acts[scn.me()]['outcome'] not in ('driver', 'sentcb'):
                                r.out.append([-1, rid, r.now])  # a genuine exception of send_packet (packet too large)
                            raise
                else:
                    t = r.timers[act[1]]
                    fn = t.function         # the timer is marked as run when its call gets the lock (model: RunT)
                if act[0] == 'user' and len(act[3]) > 30:
                    tell(['send'] + list(act[1:]))      # raises before the lock
                th = threading.Thread(target=body, args=(i, fn), daemon=True)
                a['thread'] = th
                th.start()
                wait_parked_or_done(i)
            elif k == 'acquire':
                i = ev[1]
                if 0 <= i < len(scn.acts) and scn.acts[i]['parked'] == 'lock' and not lock.locked():
                    a = scn.acts[i]
                    with scn.cv:
                        a['parked'] = None
                    if a['tid'] is not None:
                        r.timers[a['tid']].status = drv.DONE
                    else:
                        tell(['send'] + list(a['act'][1:]))
                    a['grant'].set()
                    wait_parked_or_done(i)
            elif k == 'finish':
                i, outcome = ev[1], ev[2]
                if 0 <= i < len(scn.acts) and scn.acts[i]['parked'] == 'driver':
                    a = scn.acts[i]
                    a['outcome'] = outcome
                    res.setdefault('effective_finish', []).append(ei)
                    if outcome == 'driver' and a['tid'] is None:
                        tell(['txfail', a['act'][1]])
                    if outcome == 'linkerr':
                        if a['tid'] is None:
                            tell(['txfail', a['act'][1]])
                        tell(['linkerr'])
                    with scn.cv:
                        a['parked'] = None
                    a['gate'].set()
                    with scn.cv:
                        if not scn.cv.wait_for(lambda: a['status'] == FIN, TIMEOUT):
                            res['blocked'] = 'activity %d did not return from send_packet' % i
            elif k == 'base':
                try:
                    tell(ev[1])
                    r.step(ev[1])
                except WouldBlock:
                    res['blocked'] = 'harness thread would block on the send lock during %r' % (ev[1],)
            if res['blocked']:
                break
        statuses = []
        for a in scn.acts:
            if a.get('skipped'):
                statuses.append(FIN)
            elif a['status'] == FIN:
                statuses.append(FIN)
            elif a['parked'] == 'driver':
                statuses.append(HOLD)
            else:
                statuses.append(WAIT)
        in_driver = [i for i, a in enumerate(scn.acts) if a['parked'] == 'driver']
        holder = in_driver[0] if in_driver else -1
        res.update({'out': [list(x) for x in r.out], 'statuses': statuses, 'holder': holder,
                    'locked': lock.locked(), 'timers': r.timer_obs(), 'excs': [a['exc'] for a in scn.acts],
                    'expanded': list(r.expanded)})
        res['story'] = story
        res['tx'] = r.tx
        res['died'] = r.died
        # the lock is held although nobody is inside send_packet any more: leaked
        if lock.locked() and not in_driver and not res['blocked']:
            res['leak'] = 'send lock locked, no call of send_packet in progress'
        if flush and not res['blocked'] and not res['leak']:
            # let everything finish, then every pending request must still be retried: fire the timers from the harness thread
            for i, a in enumerate(scn.acts):
                if a['parked'] == 'driver':
                    a['outcome'] = 'ok'
                    a['gate'].set()
                    with scn.cv:
                        scn.cv.wait_for(lambda a=a: a['status'] == FIN, TIMEOUT)
            for i, a in enumerate(scn.acts):
                if a['parked'] == 'lock':
                    if a['tid'] is not None:
                        r.timers[a['tid']].status = drv.DONE
                    else:
                        tell(['send'] + list(a['act'][1:]))
                    with scn.cv:
                        a['parked'] = None
                    a['grant'].set()
                    wait_parked_or_done(i)
                    if a['parked'] == 'driver':
                        a['outcome'] = 'ok'
                        a['gate'].set()
                        with scn.cv:
                            scn.cv.wait_for(lambda a=a: a['status'] == FIN, TIMEOUT)
            n0 = len(r.out)
            pending_before = [t.tid for t in r.timers if t.status in (drv.ARMED, drv.COMMITTED)]
            try:
                tell(['flushall'])
                r.step(['flushall'])
                res['flush'] = {'live_timers': pending_before, 'retransmissions': [list(x) for x in r.out[n0:]],
                                'locked_after': lock.locked()}
            except WouldBlock:
                res['leak'] = 'a retry timer blocks for ever on the send lock'
    finally:
        # never leave threads parked
        for a in scn.acts:
            a['outcome'] = a['outcome'] or 'ok'
            a['grant'].set()
            a['gate'].set()
        for a in scn.acts:
            th = a.get('thread')
            if th is not None:
                th.join(2)
        try:
            cf.packet_sent.remove_callback(sent_cb)
        except ValueError:
            pass
        if lock.locked():
            try:
                lock._l.release()
            except RuntimeError:
                pass
        try:
            r.finish()
        except WouldBlock:
            pass
        _CUR[0] = None
    return res
