"""C14: a byte-array memory handler standing in for cflib.crazyflie.mem.Memory.

The element under test calls `mem_handler.read(element, addr, length)` / `.write(element, addr, data, ...)`.
Requests are queued and served after the current callback returns (as the real, packet-driven handler does):
a read delivers `new_data(element, addr, bytearray)`; a read that does not fit in the memory fails (the
device answers with an error status): `new_data_failed` is called when the element has one, and
`short_reads` is incremented.  Writes are applied to the byte array and `write_done(element, addr)` follows.
No cflib import here: the caller hands in the element objects."""


class MemFake:
    def __init__(self, mem=b'', new_data='new_data', new_data_failed='new_data_failed', write_done='write_done',
                 grow=True):
        self.mem = bytearray(mem)
        self.queue = []
        self.writes = []          # (addr, bytes, flush_queue)
        self.reads = []           # (addr, length)
        self.short_reads = 0
        self._nd, self._ndf, self._wd = new_data, new_data_failed, write_done
        self.grow = grow

    # -- the interface the elements use
    def read(self, memory, addr, length):
        self.reads.append((addr, length))
        self.queue.append(('r', memory, addr, length))
        return True

    def write(self, memory, addr, data, flush_queue=False, progress_cb=None):
        data = bytes(bytearray(data))
        self.writes.append((addr, data, bool(flush_queue)))
        self.queue.append(('w', memory, addr, data))
        return True

    # -- the device side
    def run(self, limit=10000):
        n = 0
        while self.queue:
            n += 1
            if n > limit:
                raise RuntimeError('memory fake: request loop does not terminate')
            kind, memory, addr, arg = self.queue.pop(0)
            if kind == 'r':
                if addr + arg <= len(self.mem):
                    getattr(memory, self._nd)(memory, addr, bytearray(self.mem[addr:addr + arg]))
                else:
                    self.short_reads += 1
                    f = getattr(memory, self._ndf, None)
                    if f is not None:
                        f(memory, addr, bytearray())
            else:
                end = addr + len(arg)
                if end > len(self.mem):
                    if not self.grow:
                        raise RuntimeError('memory fake: write outside memory')
                    self.mem.extend(b'\xff' * (end - len(self.mem)))
                self.mem[addr:end] = arg
                f = getattr(memory, self._wd, None)
                if f is not None:
                    f(memory, addr)
