"""C08 translator (T-tie): walks the AST of every command-emitting method of cflib and writes
coq/C08/Gen_Layout.v — one `action` tree per command (conditions, raises, and for every path that
reaches send_packet the port, channel, struct format and argument expressions).

Fail-closed: any statement/expression shape outside the recognised fragment raises TranslateError
(the check then reports a broken translator and goes to failure search); a method of the scanned
classes that builds a CRTPPacket but is not in the command table also raises.

The vocabulary (expr/cond/action) is that of coq/C08/Model.v.
"""
import ast
import os
import struct

# (Coq constructor, file, class, method)
COMMANDS = [
    ('CSetpoint', 'cflib/crazyflie/commander.py', 'Commander', 'send_setpoint'),
    ('CNotifyStop', 'cflib/crazyflie/commander.py', 'Commander', 'send_notify_setpoint_stop'),
    ('CStopSetpoint', 'cflib/crazyflie/commander.py', 'Commander', 'send_stop_setpoint'),
    ('CVelocityWorld', 'cflib/crazyflie/commander.py', 'Commander', 'send_velocity_world_setpoint'),
    ('CZDistance', 'cflib/crazyflie/commander.py', 'Commander', 'send_zdistance_setpoint'),
    ('CHover', 'cflib/crazyflie/commander.py', 'Commander', 'send_hover_setpoint'),
    ('CFullState', 'cflib/crazyflie/commander.py', 'Commander', 'send_full_state_setpoint'),
    ('CPosition', 'cflib/crazyflie/commander.py', 'Commander', 'send_position_setpoint'),
    ('CHlGroupMask', 'cflib/crazyflie/high_level_commander.py', 'HighLevelCommander', 'set_group_mask'),
    ('CHlTakeoff', 'cflib/crazyflie/high_level_commander.py', 'HighLevelCommander', 'takeoff'),
    ('CHlLand', 'cflib/crazyflie/high_level_commander.py', 'HighLevelCommander', 'land'),
    ('CHlStop', 'cflib/crazyflie/high_level_commander.py', 'HighLevelCommander', 'stop'),
    ('CHlGoTo', 'cflib/crazyflie/high_level_commander.py', 'HighLevelCommander', 'go_to'),
    ('CHlSpiral', 'cflib/crazyflie/high_level_commander.py', 'HighLevelCommander', 'spiral'),
    ('CHlStartTraj', 'cflib/crazyflie/high_level_commander.py', 'HighLevelCommander', 'start_trajectory'),
    ('CHlDefineTraj', 'cflib/crazyflie/high_level_commander.py', 'HighLevelCommander', 'define_trajectory'),
    ('CLocExtPos', 'cflib/crazyflie/localization.py', 'Localization', 'send_extpos'),
    ('CLocExtPose', 'cflib/crazyflie/localization.py', 'Localization', 'send_extpose'),
    ('CLocShortLpp', 'cflib/crazyflie/localization.py', 'Localization', 'send_short_lpp_packet'),
    ('CLocEmergencyStop', 'cflib/crazyflie/localization.py', 'Localization', 'send_emergency_stop'),
    ('CLocEmergencyWatchdog', 'cflib/crazyflie/localization.py', 'Localization', 'send_emergency_stop_watchdog'),
    ('CLocLhPersist', 'cflib/crazyflie/localization.py', 'Localization', 'send_lh_persist_data_packet'),
    ('CExtposPos', 'cflib/crazyflie/extpos.py', 'Extpos', 'send_extpos'),
    ('CExtposPose', 'cflib/crazyflie/extpos.py', 'Extpos', 'send_extpose'),
    ('CPlatContWave', 'cflib/crazyflie/platformservice.py', 'PlatformService', 'set_continous_wave'),
    ('CPlatArming', 'cflib/crazyflie/platformservice.py', 'PlatformService', 'send_arming_request'),
    ('CPlatCrashRecovery', 'cflib/crazyflie/platformservice.py', 'PlatformService', 'send_crash_recovery_request'),
    ('CLpsSetPosition', 'lpslib/lopoanchor.py', 'LoPoAnchor', 'set_position'),
    ('CLpsReboot', 'lpslib/lopoanchor.py', 'LoPoAnchor', 'reboot'),
    ('CLpsSetMode', 'lpslib/lopoanchor.py', 'LoPoAnchor', 'set_mode'),
]

# methods that build packets but are protocol plumbing, not commands (version negotiation), or helpers
# that are inlined into their callers
NOT_COMMANDS = {
    ('PlatformService', '_request_protocol_version'), ('PlatformService', '_crt_service_callback'),
    ('HighLevelCommander', '_send_packet'),
}

FILES = sorted({c[1] for c in COMMANDS}) + ['cflib/crtp/crtpstack.py']

STRUCT_CODES = {'B': 'U8', 'b': 'I8', 'H': 'U16', 'h': 'I16', 'I': 'U32', 'L': 'U32', 'i': 'I32', 'l': 'I32',
                'Q': 'U64', 'q': 'I64', 'e': 'F16', 'f': 'F32', 'd': 'F64', '?': 'Bool8'}

EXN = {'ValueError': 'EValue', 'Exception': 'EOther', 'TypeError': 'EType', 'OverflowError': 'EOverflow'}


class TranslateError(Exception):
    pass


def fail(node, msg):
    ln = getattr(node, 'lineno', '?')
    raise TranslateError('%s (line %s): %s' % (msg, ln, ast.dump(node)[:200] if isinstance(node, ast.AST) else node))


def f64_bits(x):
    return struct.unpack('<Q', struct.pack('<d', float(x)))[0]


# ------------------------------------------------------------------ symbolic values
# expressions are nested tuples:
#  ('arg', param, index|None) ('int', z) ('bool', b) ('float', bits) ('neg', e) ('bin', op, a, b) ('intof', e)
#  ('codec', param) ('masksum', param) ('maskor', param)
# other symbolic values:
#  ('param', name) ('none',) ('tuple', [v]) ('pylist', [v]) ('bytes', [(conv, e)], tail_param|None)
#  ('pk', dict) ('localfn', FunctionDef) ('iterlist', param)

def is_expr(v):
    return isinstance(v, tuple) and v[0] in ('arg', 'int', 'bool', 'float', 'neg', 'bin', 'intof', 'codec',
                                             'masksum', 'maskor')


def can_raise(e):
    """does evaluating e possibly raise (anything beyond reading an argument or a constant)"""
    return e[0] in ('neg', 'bin', 'intof', 'codec', 'masksum', 'maskor')


class Module:
    def __init__(self, repo, rel):
        self.rel = rel
        self.path = os.path.join(repo, rel)
        self.tree = ast.parse(open(self.path).read(), self.path)
        self.consts = {}
        self.classes = {}
        for node in self.tree.body:
            if isinstance(node, ast.Assign) and len(node.targets) == 1 and isinstance(node.targets[0], ast.Name) \
                    and isinstance(node.value, ast.Constant) and isinstance(node.value.value, int):
                self.consts[node.targets[0].id] = node.value.value
            elif isinstance(node, ast.ClassDef):
                self.classes[node.name] = node

    def class_consts(self, cname):
        out = {}
        for node in self.classes[cname].body:
            if isinstance(node, ast.Assign) and len(node.targets) == 1 and isinstance(node.targets[0], ast.Name) \
                    and isinstance(node.value, ast.Constant) and type(node.value.value) in (int, float, bool):
                out[node.targets[0].id] = node.value.value
        return out

    def method(self, cname, mname):
        for node in self.classes[cname].body:
            if isinstance(node, ast.FunctionDef) and node.name == mname:
                return node
        raise TranslateError('method %s.%s not found in %s' % (cname, mname, self.rel))


class World:
    def __init__(self, repo):
        self.repo = repo
        self.mods = {rel: Module(repo, rel) for rel in FILES}
        crtp = self.mods['cflib/crtp/crtpstack.py']
        self.ports = crtp.class_consts('CRTPPort')
        pk = crtp.class_consts('CRTPPacket')
        if pk.get('MAX_DATA_SIZE') != 30:
            raise TranslateError('CRTPPacket.MAX_DATA_SIZE is %r, the model assumes 30' % (pk.get('MAX_DATA_SIZE'),))
        self._check_send_packet_size_guard()

    def _check_send_packet_size_guard(self):
        """Crazyflie.send_packet must start with the payload size check the model includes."""
        p = os.path.join(self.repo, 'cflib/crazyflie/__init__.py')
        tree = ast.parse(open(p).read(), p)
        for cls in tree.body:
            if isinstance(cls, ast.ClassDef) and cls.name == 'Crazyflie':
                for fn in cls.body:
                    if isinstance(fn, ast.FunctionDef) and fn.name == 'send_packet':
                        body = [s for s in fn.body if not (isinstance(s, ast.Expr) and isinstance(s.value, ast.Constant))]
                        s = body[0]
                        ok = (isinstance(s, ast.If) and isinstance(s.test, ast.UnaryOp) and isinstance(s.test.op, ast.Not)
                              and isinstance(s.test.operand, ast.Call)
                              and isinstance(s.test.operand.func, ast.Attribute)
                              and s.test.operand.func.attr == 'is_data_size_valid'
                              and len(s.body) == 1 and isinstance(s.body[0], ast.Raise))
                        if not ok:
                            fail(s, 'Crazyflie.send_packet does not start with the payload size guard')
                        return
        raise TranslateError('Crazyflie.send_packet not found')



# instance attributes an emitting method may read: the Crazyflie handle and the client x-mode flag.  Everything else
# a packet depends on must come from the arguments or from platform.get_protocol_version() at the time of the call.
ALLOWED_SELF_ATTRS = {'_cf', 'crazyflie', '_x_mode'}


def state_audit(world, rel, cname, mname, seen=None, via=None):
    """Fail closed unless the method (and every method of its own class it calls) is a function of
    (arguments, current protocol version, x-mode flag) only: no read or write of other instance attributes."""
    seen = set() if seen is None else seen
    if (cname, mname) in seen:
        return
    seen.add((cname, mname))
    mod = world.mods[rel]
    fn = mod.method(cname, mname)
    consts = mod.class_consts(cname)
    methods = {n.name for n in mod.classes[cname].body if isinstance(n, ast.FunctionDef)}
    where = '%s.%s' % (cname, mname) + (' (called from %s)' % via if via else '')
    for node in ast.walk(fn):
        if isinstance(node, ast.Attribute) and isinstance(node.value, ast.Name) and node.value.id == 'self':
            if isinstance(node.ctx, (ast.Store, ast.Del)):
                raise TranslateError('%s writes instance state self.%s (line %d): an emitting method must be a function of '
                                     '(arguments, current protocol version, x-mode flag) only' % (where, node.attr, node.lineno))
            if node.attr in ALLOWED_SELF_ATTRS or node.attr in consts:
                continue
            if node.attr in methods:
                state_audit(world, rel, cname, node.attr, seen, via='%s.%s' % (cname, mname))
                continue
            raise TranslateError('%s reads instance state self.%s (line %d): an emitting method must be a function of '
                                 '(arguments, current protocol version, x-mode flag) only' % (where, node.attr, node.lineno))
        if isinstance(node, (ast.Global, ast.Nonlocal)):
            raise TranslateError('%s uses global/nonlocal state (line %d)' % (where, node.lineno))


class Exec:
    """Symbolic execution of one command method (callees inlined)."""

    def __init__(self, world, rel, cname, mname):
        self.w = world
        self._rel, self._cls = rel, cname
        self.effects = []     # struct.pack conversions / raising expressions evaluated by the current statement, in order
        self.usage = {}       # top-level param -> kind ('scalar' | ('vec', n) | 'list' | 'codec' | 'tail')
        self.top = world.mods[rel].method(cname, mname)
        self.top_params = self.params_of(self.top)
        self.defaults = self.defaults_of(world.mods[rel], cname, self.top)

    @staticmethod
    def params_of(fn):
        a = fn.args
        if a.vararg or a.kwarg or a.kwonlyargs or a.posonlyargs:
            fail(fn, 'unsupported parameter kinds')
        names = [x.arg for x in a.args]
        if not names or names[0] != 'self':
            fail(fn, 'method without self')
        return names[1:]

    def defaults_of(self, mod, cname, fn):
        names = [x.arg for x in fn.args.args]
        ds = fn.args.defaults
        out = {}
        cc = mod.class_consts(cname)
        for name, d in zip(names[len(names) - len(ds):], ds):
            if isinstance(d, ast.Constant):
                out[name] = d.value
            elif isinstance(d, ast.Name) and d.id in cc:
                out[name] = cc[d.id]
            elif isinstance(d, ast.Name) and d.id in mod.consts:
                out[name] = mod.consts[d.id]
            else:
                fail(d, 'unsupported default value')
        return out

    # -------------------------------------------------------------- usage bookkeeping
    def use(self, param, kind):
        old = self.usage.get(param)
        if old is None:
            self.usage[param] = kind
        elif isinstance(old, tuple) and isinstance(kind, tuple) and old[0] == kind[0] == 'vec':
            self.usage[param] = ('vec', max(old[1], kind[1]))
        elif old != kind:
            raise TranslateError('parameter %s used both as %s and %s' % (param, old, kind))

    # -------------------------------------------------------------- expressions
    def ev(self, node, fr):
        """evaluate an expression node in frame fr -> symbolic value"""
        if isinstance(node, ast.Constant):
            v = node.value
            if v is None:
                return ('none',)
            if isinstance(v, bool):
                return ('bool', v)
            if isinstance(v, int):
                return ('int', v)
            if isinstance(v, float):
                return ('float', f64_bits(v))
            if isinstance(v, str):
                return ('str', v)
            fail(node, 'unsupported constant')
        if isinstance(node, ast.Name):
            if node.id in fr['env']:
                return self.scalar_if_param(fr['env'][node.id], whole=False)
            if node.id in fr['mod'].consts:
                return ('int', fr['mod'].consts[node.id])
            fail(node, 'unknown name')
        if isinstance(node, ast.Attribute):
            # self.CONST, Class.CONST, CRTPPort.X, math.pi
            if isinstance(node.value, ast.Name):
                base = node.value.id
                if base == 'self':
                    cc = fr['mod'].class_consts(fr['cls'])
                    if node.attr in cc:
                        return self.const(cc[node.attr], node)
                    fail(node, 'unknown attribute of self')
                if base == 'CRTPPort':
                    if node.attr in self.w.ports:
                        return ('int', self.w.ports[node.attr])
                    fail(node, 'unknown CRTP port')
                if base == 'math' and node.attr == 'pi':
                    import math
                    return ('float', f64_bits(math.pi))
                if base in fr['mod'].classes:
                    cc = fr['mod'].class_consts(base)
                    if node.attr in cc:
                        return self.const(cc[node.attr], node)
            fail(node, 'unsupported attribute')
        if isinstance(node, ast.UnaryOp) and isinstance(node.op, ast.USub):
            e = self.need_expr(self.ev(node.operand, fr), node)
            if e[0] == 'int':
                return ('int', -e[1])
            return ('neg', e)
        if isinstance(node, ast.BinOp):
            if isinstance(node.op, (ast.Add, ast.Sub, ast.Mult)):
                a = self.ev(node.left, fr)
                b = self.ev(node.right, fr)
                if isinstance(node.op, ast.Add) and a[0] == 'bytes':
                    # struct.pack(...) + data
                    if b[0] == 'bytes' and a[2] is None:
                        return ('bytes', a[1] + b[1], b[2])
                    if b[0] == 'param' and a[2] is None:
                        self.use(b[1], 'tail')
                        return ('bytes', a[1], b[1])
                    fail(node, 'unsupported bytes concatenation')
                a = self.need_expr(a, node)
                b = self.need_expr(b, node)
                op = {ast.Add: 'OAdd', ast.Sub: 'OSub', ast.Mult: 'OMul'}[type(node.op)]
                return ('bin', op, a, b)
            fail(node, 'unsupported binary operator')
        if isinstance(node, ast.Tuple):
            return ('tuple', [self.ev(e, fr) for e in node.elts])
        if isinstance(node, ast.List):
            return ('pylist', [self.ev(e, fr) for e in node.elts])
        if isinstance(node, ast.Subscript):
            base = self.ev_raw(node.value, fr)
            idx = node.slice
            if isinstance(idx, ast.UnaryOp) and isinstance(idx.op, ast.USub) and isinstance(idx.operand, ast.Constant):
                k = -idx.operand.value
            elif isinstance(idx, ast.Constant) and isinstance(idx.value, int):
                k = idx.value
            else:
                fail(node, 'subscript must be a constant')
            if base[0] == 'param':
                if k < 0:
                    fail(node, 'negative index into a vector parameter')
                self.use(base[1], ('vec', k + 1))
                return ('arg', base[1], k)
            if base[0] in ('pylist', 'tuple'):
                return self.scalar_if_param(base[1][k], whole=False)
            fail(node, 'unsupported subscript base')
        if isinstance(node, ast.Call):
            return self.call(node, fr)
        fail(node, 'unsupported expression')

    def const(self, v, node):
        if isinstance(v, bool):
            return ('bool', v)
        if isinstance(v, int):
            return ('int', v)
        if isinstance(v, float):
            return ('float', f64_bits(v))
        fail(node, 'unsupported constant value')

    def ev_raw(self, node, fr):
        """like ev but a bare parameter name stays ('param', name)"""
        if isinstance(node, ast.Name) and node.id in fr['env'] and fr['env'][node.id][0] == 'param':
            return fr['env'][node.id]
        return self.ev(node, fr)

    def scalar_if_param(self, v, whole):
        return v

    def need_expr(self, v, node):
        if v[0] == 'param':
            self.use(v[1], 'scalar')
            return ('arg', v[1], None)
        if is_expr(v):
            return v
        fail(node, 'scalar expression expected, got %s' % (v[0],))

    def call(self, node, fr):
        f = node.func
        if node.keywords:
            fail(node, 'keyword arguments in a modelled call')
        if isinstance(f, ast.Name):
            if f.id == 'CRTPPacket' and not node.args:
                return ('pk', {})
            if f.id == 'int' and len(node.args) == 1:
                return ('intof', self.need_expr(self.ev(node.args[0], fr), node))
            if f.id == 'compress_quaternion' and len(node.args) == 1:
                a = self.ev_raw(node.args[0], fr)
                if a[0] != 'param':
                    fail(node, 'codec argument must be a parameter')
                self.use(a[1], 'codec')
                return ('codec', a[1])
            if f.id in fr['env'] and fr['env'][f.id][0] == 'localfn':
                fn = fr['env'][f.id][1]
                names = [x.arg for x in fn.args.args]
                if len(names) != len(node.args) or fn.args.defaults:
                    fail(node, 'local function arity')
                env2 = dict(zip(names, [self.ev_raw(a, fr) for a in node.args]))
                body = [s for s in fn.body if not (isinstance(s, ast.Expr) and isinstance(s.value, ast.Constant))]
                if len(body) != 1 or not isinstance(body[0], ast.Return):
                    fail(fn, 'local function must be a single return')
                fr2 = dict(fr, env=env2)
                return self.ev(body[0].value, fr2)
            fail(node, 'unsupported function')
        if isinstance(f, ast.Attribute) and isinstance(f.value, ast.Name) and f.value.id == 'struct' and f.attr == 'pack':
            if not node.args or not isinstance(node.args[0], ast.Constant) or not isinstance(node.args[0].value, str):
                fail(node, 'struct.pack format must be a literal')
            flds = self.parse_fmt(node.args[0].value, node)
            args = [self.need_expr(self.ev(a, fr), node) for a in node.args[1:]]
            if len(args) != len(flds):
                fail(node, 'struct.pack arity differs from format')
            fields = [('KS ' + fl, a) for fl, a in zip(flds, args)]
            self.effects.append(('pack', fields))
            return ('bytes', fields, None)
        fail(node, 'unsupported call')

    @staticmethod
    def parse_fmt(fmt, node):
        if not fmt.startswith('<'):
            fail(node, 'format %r is not little-endian standard size' % fmt)
        out = []
        count = ''
        for ch in fmt[1:]:
            if ch.isdigit():
                count += ch
                continue
            if ch not in STRUCT_CODES:
                fail(node, 'format code %r not modelled' % ch)
            out += [STRUCT_CODES[ch]] * (int(count) if count else 1)
            count = ''
        if count:
            fail(node, 'dangling count in format')
        return out

    # -------------------------------------------------------------- conditions
    def cond(self, node, fr):
        if isinstance(node, ast.BoolOp) and isinstance(node.op, ast.Or):
            cs = [self.cond(v, fr) for v in node.values]
            out = cs[-1]
            for c in reversed(cs[:-1]):
                out = ('or', c, out)
            return out
        if isinstance(node, ast.Attribute) and isinstance(node.value, ast.Name) and node.value.id == 'self' \
                and node.attr == '_x_mode' and fr['cls'] == 'Commander':
            return ('xmode',)
        if isinstance(node, ast.Compare) and len(node.ops) == 1:
            l, op, r = node.left, node.ops[0], node.comparators[0]
            if self.is_version_call(l):
                n = self.need_expr(self.ev(r, fr), node)
                if n[0] != 'int':
                    fail(node, 'protocol version compared with a non-constant')
                if isinstance(op, ast.LtE):
                    return ('verle', n[1])
                if isinstance(op, ast.Lt):
                    return ('verlt', n[1])
                if isinstance(op, ast.Gt):
                    return ('not', ('verle', n[1]))
                if isinstance(op, ast.GtE):
                    return ('not', ('verlt', n[1]))
                fail(node, 'unsupported version comparison')
            if isinstance(op, ast.Is) and isinstance(r, ast.Constant) and r.value is None:
                return ('isnone', self.need_expr(self.ev(l, fr), node))
            if isinstance(op, (ast.Gt, ast.Lt)):
                a = self.need_expr(self.ev(l, fr), node)
                b = self.need_expr(self.ev(r, fr), node)
                return ('gt' if isinstance(op, ast.Gt) else 'lt', a, b)
        fail(node, 'unsupported condition')

    @staticmethod
    def is_version_call(node):
        # self._cf.platform.get_protocol_version()
        return (isinstance(node, ast.Call) and not node.args and isinstance(node.func, ast.Attribute)
                and node.func.attr == 'get_protocol_version'
                and isinstance(node.func.value, ast.Attribute) and node.func.value.attr == 'platform'
                and isinstance(node.func.value.value, ast.Attribute) and node.func.value.value.attr in ('_cf', 'crazyflie')
                and isinstance(node.func.value.value.value, ast.Name) and node.func.value.value.value.id == 'self')

    # -------------------------------------------------------------- statements
    def run(self):
        fr = self.frame(self.top_rel(), self.top_cls(), {p: ('param', p) for p in self.top_params})
        return self.block(self.top.body, fr, [])

    def top_rel(self):
        return self._rel

    def top_cls(self):
        return self._cls

    def frame(self, rel, cls, env):
        return {'mod': self.w.mods[rel], 'cls': cls, 'env': env, 'sorted': set(), 'sent': False}

    def block(self, stmts, fr, conts):
        """Execute stmts then the continuations (list of (stmts, frame-restorer)); returns an action tree."""
        fr = dict(fr, env={k: (('pk', dict(v[1])) if v[0] == 'pk' else v) for k, v in fr['env'].items()},
                  sorted=set(fr['sorted']))
        for i, s in enumerate(stmts):
            rest = stmts[i + 1:]
            if isinstance(s, ast.Expr) and isinstance(s.value, ast.Constant) and isinstance(s.value.value, str):
                continue
            if isinstance(s, ast.FunctionDef):
                fr['env'][s.name] = ('localfn', s)
                continue
            if isinstance(s, ast.Return):
                return self.finish(fr, conts, returned=True)
            if isinstance(s, ast.Raise):
                exc = s.exc
                if isinstance(exc, ast.Call) and isinstance(exc.func, ast.Name) and exc.func.id in EXN:
                    return ('raise', EXN[exc.func.id])
                fail(s, 'unsupported raise')
            if isinstance(s, ast.If) and isinstance(s.test, ast.Name) and not s.orelse and self.no_effect(s.body) \
                    and s.test.id in fr['env']:
                continue      # `if flag: print(...)`: truth of an argument, nothing but a message
            if isinstance(s, ast.If):
                lp = self.list_guard(s, fr)
                if lp is not None:
                    c = lp
                else:
                    c = self.cond(s.test, fr)
                if lp is not None:
                    a = self.block([n for n in s.body[0].body] + rest, fr, conts)
                    b = self.block(rest, fr, conts)
                else:
                    a = self.block(list(s.body) + rest, fr, conts)
                    b = self.block(list(s.orelse) + rest, fr, conts)
                if c[0] == 'not':
                    return ('if', c[1], b, a)
                return ('if', c, a, b)
            if isinstance(s, ast.For):
                self.mask_loop(s, fr)
                continue
            if isinstance(s, ast.Assign):
                if len(s.targets) != 1:
                    fail(s, 'multiple assignment targets')
                self.assign(s.targets[0], s.value, fr, s)
                eff = self.drain()
                if eff:
                    return self.wrap(eff, self.block(rest, fr, conts))
                continue
            if isinstance(s, ast.Expr) and isinstance(s.value, ast.Call):
                r = self.call_stmt(s.value, fr, rest, conts)
                if r is None:
                    continue
                return r
            fail(s, 'unsupported statement')
        return self.finish(fr, conts, returned=False)

    @staticmethod
    def no_effect(stmts):
        for s in stmts:
            ok = (isinstance(s, ast.Expr) and isinstance(s.value, ast.Call)
                  and ((isinstance(s.value.func, ast.Name) and s.value.func.id == 'print')
                       or (isinstance(s.value.func, ast.Attribute) and isinstance(s.value.func.value, ast.Name)
                           and s.value.func.value.id in ('warnings', 'logger')))
                  and all(isinstance(a, ast.Constant) for a in s.value.args))
            if not ok:
                return False
        return True

    def finish(self, fr, conts, returned):
        if conts:
            (stmts, fr_outer, bind_ret), conts2 = conts[0], conts[1:]
            fr2 = dict(fr_outer, sent=fr['sent'] or fr_outer['sent'])
            if fr.get('emit') is not None:
                fr2['emit'] = fr['emit']
            return self.block(stmts, fr2, conts2)
        if fr.get('emit') is not None:
            return fr['emit']
        return ('skip',)

    def list_guard(self, s, fr):
        """if len(L) > 0: if L[0] < lo or L[-1] > hi: raise Exception(...)   (L sorted before)"""
        t = s.test
        if not (isinstance(t, ast.Compare) and len(t.ops) == 1 and isinstance(t.ops[0], ast.Gt)
                and isinstance(t.left, ast.Call) and isinstance(t.left.func, ast.Name) and t.left.func.id == 'len'
                and len(t.left.args) == 1 and isinstance(t.left.args[0], ast.Name)
                and isinstance(t.comparators[0], ast.Constant) and t.comparators[0].value == 0):
            return None
        name = t.left.args[0].id
        v = fr['env'].get(name)
        if v is None or v[0] != 'param':
            fail(s, 'len() of something that is not a parameter')
        if s.orelse or len(s.body) != 1 or not isinstance(s.body[0], ast.If) or s.body[0].orelse:
            fail(s, 'unsupported list guard shape')
        inner = s.body[0].test
        if not (isinstance(inner, ast.BoolOp) and isinstance(inner.op, ast.Or) and len(inner.values) == 2):
            fail(s, 'unsupported list guard test')
        lo_c, hi_c = inner.values

        def side(c, idx, op):
            if not (isinstance(c, ast.Compare) and len(c.ops) == 1 and isinstance(c.ops[0], op)
                    and isinstance(c.left, ast.Subscript) and isinstance(c.left.value, ast.Name)
                    and c.left.value.id == name):
                fail(c, 'unsupported list guard comparison')
            sl = c.left.slice
            k = sl.value if isinstance(sl, ast.Constant) else (
                -sl.operand.value if isinstance(sl, ast.UnaryOp) and isinstance(sl.op, ast.USub) else None)
            if k != idx:
                fail(c, 'unsupported list guard index')
            b = self.need_expr(self.ev(c.comparators[0], fr), c)
            if b[0] != 'int':
                fail(c, 'list guard bound is not a constant')
            return b[1]
        lo = side(lo_c, 0, ast.Lt)
        hi = side(hi_c, -1, ast.Gt)
        if v[1] not in fr['sorted']:
            fail(s, 'list %s is range-checked by its ends without having been sorted' % name)
        self.use(v[1], 'list')
        return ('listoutside', v[1], lo, hi)

    def mask_loop(self, s, fr):
        """for b in L: m += 1 << b      or      m |= 1 << b"""
        ok = (isinstance(s.target, ast.Name) and isinstance(s.iter, ast.Name) and not s.orelse and len(s.body) == 1
              and isinstance(s.body[0], ast.AugAssign) and isinstance(s.body[0].target, ast.Name)
              and isinstance(s.body[0].op, (ast.Add, ast.BitOr))
              and isinstance(s.body[0].value, ast.BinOp) and isinstance(s.body[0].value.op, ast.LShift)
              and isinstance(s.body[0].value.left, ast.Constant) and s.body[0].value.left.value == 1
              and isinstance(s.body[0].value.right, ast.Name) and s.body[0].value.right.id == s.target.id)
        if not ok:
            fail(s, 'unsupported loop')
        lv = fr['env'].get(s.iter.id)
        m = s.body[0].target.id
        if lv is None or lv[0] != 'param' or fr['env'].get(m) != ('int', 0):
            fail(s, 'mask loop over a non-parameter or accumulator not initialised to 0')
        self.use(lv[1], 'list')
        fr['env'][m] = ('masksum' if isinstance(s.body[0].op, ast.Add) else 'maskor', lv[1])

    def assign(self, target, value, fr, node):
        """executes an assignment; what it evaluates for effect (may raise) is appended to self.effects"""
        if isinstance(target, ast.Name):
            v = self.ev(value, fr)
            fr['env'][target.id] = v
            if is_expr(v) and can_raise(v) and not isinstance(value, ast.Name):
                self.effects.append(('check', v))
            return
        if isinstance(target, ast.Tuple) and all(isinstance(t, ast.Name) for t in target.elts):
            v = self.ev(value, fr)
            if v[0] != 'tuple' or len(v[1]) != len(target.elts):
                fail(node, 'tuple assignment arity')
            vals = [self.need_expr(x, node) for x in v[1]]
            for t, x in zip(target.elts, vals):
                fr['env'][t.id] = x
            self.effects += [('check', x) for x in vals if can_raise(x)]
            return
        if isinstance(target, ast.Attribute) and isinstance(target.value, ast.Name):
            pk = fr['env'].get(target.value.id)
            if pk is None or pk[0] != 'pk':
                fail(node, 'attribute assignment on something that is not a packet')
            d = pk[1]
            if target.attr in ('port', 'channel'):
                v = self.need_expr(self.ev(value, fr), node)
                if v[0] != 'int':
                    fail(node, 'port/channel must be constants')
                d[target.attr] = v[1]
                return
            if target.attr == 'data':
                v = self.ev(value, fr)
                if v[0] == 'bytes':
                    d['data'] = v
                    return
                if v[0] == 'tuple':
                    # CRTPPacket._set_data: bytearray(tuple) converts right here
                    fields = [('KT', self.need_expr(x, node)) for x in v[1]]
                    self.effects.append(('pack', fields))
                    d['data'] = ('bytes', fields, None)
                    return
                fail(node, 'packet data must be struct.pack(...) or a tuple')
            fail(node, 'unsupported packet attribute')
        fail(node, 'unsupported assignment target')

    def drain(self):
        eff, self.effects = self.effects, []
        return eff

    @staticmethod
    def wrap(eff, k):
        for e in reversed(eff):
            k = (e[0], e[1], k)
        return k

    def call_stmt(self, call, fr, rest, conts):
        f = call.func
        # pk = CRTPPacket() is an Assign; handled in block via assign? no: constructor handled here
        if isinstance(f, ast.Attribute):
            chain = self.attr_chain(f)
            # logging / warnings / print-like: no effect on the packet
            if chain[0] in ('warnings', 'logger'):
                return None
            if chain[-1] == 'sort' and len(chain) == 2 and not call.args:
                v = fr['env'].get(chain[0])
                if v is None or v[0] != 'param':
                    fail(call, 'sort() on a non-parameter')
                self.use(v[1], 'list')
                fr['sorted'].add(v[1])
                return None
            if chain[-1] == 'set_header' and len(chain) == 2:
                pk = fr['env'].get(chain[0])
                if pk is None or pk[0] != 'pk' or len(call.args) != 2:
                    fail(call, 'set_header on a non-packet')
                p = self.need_expr(self.ev(call.args[0], fr), call)
                c = self.need_expr(self.ev(call.args[1], fr), call)
                if p[0] != 'int' or c[0] != 'int':
                    fail(call, 'set_header arguments must be constants')
                pk[1]['port'], pk[1]['channel'] = p[1], c[1]
                return None
            if chain[0] == 'self' and chain[-1] == 'send_packet' and chain[1:-1] in (['_cf'], ['crazyflie']):
                if len(call.args) != 1 or call.keywords or not isinstance(call.args[0], ast.Name):
                    fail(call, 'send_packet with extra arguments')
                pk = fr['env'].get(call.args[0].id)
                if pk is None or pk[0] != 'pk':
                    fail(call, 'send_packet of a non-packet')
                d = pk[1]
                if fr['sent'] or fr.get('emit') is not None:
                    fail(call, 'more than one packet on a path')
                if 'port' not in d or 'data' not in d:
                    fail(call, 'packet sent without port or data')
                fr['emit'] = ('emit', d['port'], d.get('channel', 0), d['data'][1], d['data'][2])
                fr['sent'] = True
                return None
            # inlined callees
            if chain[0] == 'self' and len(chain) == 2:
                return self.inline(fr['mod'].rel, fr['cls'], chain[1], call, fr, rest, conts)
            if chain[0] == 'self' and chain[1] in ('_cf', 'crazyflie') and chain[2] == 'loc' and len(chain) == 4:
                return self.inline('cflib/crazyflie/localization.py', 'Localization', chain[3], call, fr, rest, conts)
            fail(call, 'unsupported method call')
        if isinstance(f, ast.Name) and f.id == 'print':
            return None
        fail(call, 'unsupported call statement')

    @staticmethod
    def attr_chain(node):
        out = []
        while isinstance(node, ast.Attribute):
            out.append(node.attr)
            node = node.value
        if not isinstance(node, ast.Name):
            fail(node, 'unsupported callee')
        out.append(node.id)
        return list(reversed(out))

    def inline(self, rel, cls, mname, call, fr, rest, conts):
        if fr['sent'] or fr.get('emit') is not None:
            fail(call, 'call after a packet was sent')
        fn = self.w.mods[rel].method(cls, mname)
        names = self.params_of(fn)
        if len(call.args) > len(names):
            fail(call, 'too many arguments in an inlined call')
        env2 = {}
        # Python evaluates positional arguments, then keyword arguments, each in source order
        for n, a in zip(names, call.args):
            env2[n] = self.ev(a, fr)
        for kw in call.keywords:
            if kw.arg is None or kw.arg not in names or kw.arg in env2:
                fail(call, 'unsupported keyword argument in an inlined call')
            env2[kw.arg] = self.ev(kw.value, fr)
        if set(env2) != set(names):
            fail(call, 'inlined call does not bind every parameter')
        fr2 = self.frame(rel, cls, env2)
        eff = self.drain()
        return self.wrap(eff, self.block(fn.body, fr2, [(rest, fr, None)] + conts))


# ------------------------------------------------------------------ Coq output
def coq_z(n):
    return str(n) if n >= 0 else '(%d)' % n


class Slots:
    def __init__(self, params, usage):
        self.scalar = {}
        self.lists = {}
        self.codecs = {}
        self.tail = None
        self.layout = []          # per API parameter: (name, kind, first slot / index, n)
        n = 0
        for p in params:
            k = usage.get(p)
            if k is None:
                raise TranslateError('parameter %s is never used' % p)
            if k == 'scalar':
                self.scalar[(p, None)] = n
                self.layout.append((p, 'scalar', n, 1))
                n += 1
            elif isinstance(k, tuple):
                for i in range(k[1]):
                    self.scalar[(p, i)] = n + i
                self.layout.append((p, 'vec', n, k[1]))
                n += k[1]
            elif k == 'list':
                self.lists[p] = len(self.lists)
                self.layout.append((p, 'list', self.lists[p], 1))
            elif k == 'codec':
                self.codecs[p] = len(self.codecs)
                self.layout.append((p, 'codec', self.codecs[p], 1))
            elif k == 'tail':
                if self.tail is not None:
                    raise TranslateError('two tail parameters')
                self.tail = p
                self.layout.append((p, 'tail', 0, 1))
        self.n_scalar = n


def coq_expr(e, sl):
    t = e[0]
    if t == 'arg':
        return '(EArg %d)' % sl.scalar[(e[1], e[2])]
    if t == 'int':
        return '(EInt %s)' % coq_z(e[1])
    if t == 'bool':
        return '(EBoolC %s)' % ('true' if e[1] else 'false')
    if t == 'float':
        return '(EFloat %d)' % e[1]
    if t == 'neg':
        return '(ENeg %s)' % coq_expr(e[1], sl)
    if t == 'bin':
        return '(EBin %s %s %s)' % (e[1], coq_expr(e[2], sl), coq_expr(e[3], sl))
    if t == 'intof':
        return '(EIntOf %s)' % coq_expr(e[1], sl)
    if t == 'codec':
        return '(ECodec %d)' % sl.codecs[e[1]]
    if t == 'masksum':
        return '(EMaskSum %d)' % sl.lists[e[1]]
    if t == 'maskor':
        return '(EMaskOr %d)' % sl.lists[e[1]]
    raise TranslateError('cannot print expression %r' % (e,))


def coq_cond(c, sl):
    t = c[0]
    if t == 'xmode':
        return 'CXMode'
    if t == 'verle':
        return '(CVerLe %s)' % coq_z(c[1])
    if t == 'verlt':
        return '(CVerLt %s)' % coq_z(c[1])
    if t == 'isnone':
        return '(CIsNone %s)' % coq_expr(c[1], sl)
    if t == 'gt':
        return '(CGt %s %s)' % (coq_expr(c[1], sl), coq_expr(c[2], sl))
    if t == 'lt':
        return '(CLt %s %s)' % (coq_expr(c[1], sl), coq_expr(c[2], sl))
    if t == 'or':
        return '(COr %s %s)' % (coq_cond(c[1], sl), coq_cond(c[2], sl))
    if t == 'listoutside':
        return '(CListOutside %d %s %s)' % (sl.lists[c[1]], coq_z(c[2]), coq_z(c[3]))
    raise TranslateError('cannot print condition %r' % (c,))


def coq_action(a, sl, ind='    '):
    t = a[0]
    if t == 'raise':
        return 'ARaise %s' % a[1]
    if t == 'skip':
        return 'ASkip'
    if t == 'emit':
        fields = '; '.join('(%s, %s)' % (k, coq_expr(e, sl)) for k, e in a[3])
        if a[4] is not None and a[4] != sl.tail:
            raise TranslateError('tail parameter mismatch')
        return 'AEmit %s %s\n%s  [%s] %s' % (coq_z(a[1]), coq_z(a[2]), ind, fields, 'true' if a[4] is not None else 'false')
    if t == 'check':
        return 'ACheck %s\n%s(%s)' % (coq_expr(a[1], sl), ind, coq_action(a[2], sl, ind))
    if t == 'pack':
        fields = '; '.join('(%s, %s)' % (k, coq_expr(e, sl)) for k, e in a[1])
        return 'APack [%s]\n%s(%s)' % (fields, ind, coq_action(a[2], sl, ind))
    if t == 'if':
        return 'AIf %s\n%s  (%s)\n%s  (%s)' % (coq_cond(a[1], sl), ind, coq_action(a[2], sl, ind + '  '),
                                                ind, coq_action(a[3], sl, ind + '  '))
    raise TranslateError('cannot print action %r' % (a,))


def exprs_of_action(a):
    t = a[0]
    if t == 'emit':
        for _, e in a[3]:
            yield e
    elif t == 'check':
        yield a[1]
        yield from exprs_of_action(a[2])
    elif t == 'if':
        yield from conds_exprs(a[1])
        yield from exprs_of_action(a[2])
        yield from exprs_of_action(a[3])


def conds_exprs(c):
    if c[0] in ('isnone',):
        yield c[1]
    elif c[0] in ('gt', 'lt'):
        yield c[1]
        yield c[2]
    elif c[0] == 'or':
        yield from conds_exprs(c[1])
        yield from conds_exprs(c[2])


def translate(repo):
    """-> (coq text, info) ; info[cmd] = {file, cls, method, params:[(name, kind, slot, n)], defaults, n_scalar}"""
    w = World(repo)
    out = []
    info = {}
    sigs = []
    for (ctor, rel, cls, mname) in COMMANDS:
        state_audit(w, rel, cls, mname)
    state_audit(w, 'cflib/crazyflie/localization.py', 'Localization', 'send_short_lpp_packet')
    for (ctor, rel, cls, mname) in COMMANDS:
        ex = Exec(w, rel, cls, mname)
        act = ex.run()
        sl = Slots(ex.top_params, ex.usage)
        out.append('  | %s =>\n      %s' % (ctor, coq_action(act, sl, '      ')))
        sigs.append('  | %s => [%d; %d; %d; %d]' % (ctor, sl.n_scalar, len(sl.lists), len(sl.codecs),
                                                   1 if sl.tail is not None else 0))
        info[ctor] = {'file': rel, 'cls': cls, 'method': mname, 'params': sl.layout, 'defaults': ex.defaults,
                      'n_scalar': sl.n_scalar, 'n_lists': len(sl.lists), 'n_codecs': len(sl.codecs),
                      'tail': sl.tail is not None}
    # completeness: every other method of the scanned classes that touches CRTPPacket must be known
    listed = {(c[2], c[3]) for c in COMMANDS} | NOT_COMMANDS
    for rel in FILES:
        if rel.endswith('crtpstack.py'):
            continue
        mod = w.mods[rel]
        for cname, cnode in mod.classes.items():
            for fn in cnode.body:
                if isinstance(fn, ast.FunctionDef):
                    src = ast.dump(fn)
                    emits = ("id='CRTPPacket'" in src) or ("attr='send_packet'" in src) or ("attr='_send_packet'" in src) \
                        or ("attr='send_short_lpp_packet'" in src)
                    if emits and (cname, fn.name) not in listed:
                        raise TranslateError('%s: %s.%s emits packets but is not in the command table'
                                             % (rel, cname, fn.name))
    text = ('(* GENERATED by harness/trans/c08_layouts.py from the sources under %s — do not edit. *)\n'
            'From CF Require Import C08.Model.\nOpen Scope Z_scope.\n\n'
            'Definition impl_action (c : cmd) : action :=\n  match c with\n%s\n  end.\n\n'
            '(* [scalar slots; list parameters; codec parameters; raw tail] per command, in signature order *)\n'
            'Definition impl_sig (c : cmd) : list Z :=\n  match c with\n%s\n  end.\n'
            % ('the repository', '\n'.join(out), '\n'.join(sigs)))
    return text, info


def generate(repo, coq_dir):
    text, info = translate(repo)
    path = os.path.join(coq_dir, 'C08', 'Gen_Layout.v')
    old = open(path).read() if os.path.exists(path) else None
    if old != text:
        with open(path, 'w') as f:
            f.write(text)
    return info


if __name__ == '__main__':
    import sys
    t, i = translate(sys.argv[1] if len(sys.argv) > 1 else '/repo')
    print(t)
