"""C09 translator (T-tie): cflib/localization/lighthouse_sample_matcher.py  ->  coq/C09/Gen_Matcher.v

Fail-closed: LighthouseSampleMatcher.match and ._append_result must consist of the statement forms listed below
(a tiny imperative subset: two locals, one for-loop, guarded re-initialisation, window test, dict store, final
append); anything else raises Untranslatable and the check reports a broken translator.  Local and parameter names
are free (roles are inferred from the signature and the initialisations); statement ORDER and every operator are
translated as written, so a semantic change either fails here or breaks the proof C09/GenTie.v
(gen_match = match_samples of the hand model the theorems are about).

Python construct                                         Gallina emitted
  <res> = []            (before the loop)                 initial result []
  <cur> = None          (before the loop)                 initial current None
  for <m> in <samples>:                                   gen_loop (recursion over the list)
    <ts> = <m>.timestamp                                  let ts := m_ts m
    if <cur> is None: <cur> = LhCfPoseSample(timestamp=T) current := match current with None => Some (T, []) | ..
    if T > (<cur>.timestamp + <window>):                  needs current <> None (else exception = None);
        cls._append_result(<cur>, <res>, <min>)             if late (fst c) T then (result := gen_append_result ..;
        <cur> = LhCfPoseSample(timestamp=T)                                      current := Some (T, []))
    <cur>.angles_calibrated[<m>.base_station_id] = <m>.angles
                                                          current := Some (fst c, dict_set (m_bs m) (m_ang m) (snd c))
  cls._append_result(<cur>, <res>, <min>); return <res>   gen_append_result min current result
  _append_result: if <cur> is not None and len(<cur>.angles_calibrated) >= <min>: <res>.append(<cur>)
The time stamp is used ONLY in `T > (cur.timestamp + window)`, which becomes the abstract relation `late cur T`.
"""
import ast


class Untranslatable(Exception):
    pass


def _fail(node, why):
    raise Untranslatable('lighthouse_sample_matcher.py line %s: %s' % (getattr(node, 'lineno', '?'), why))


def _strip_doc(body):
    if body and isinstance(body[0], ast.Expr) and isinstance(getattr(body[0], 'value', None), ast.Constant) \
            and isinstance(body[0].value.value, str):
        return body[1:]
    return body


def _is_name(n, name):
    return isinstance(n, ast.Name) and n.id == name


def _is_attr(n, obj, attr):
    return isinstance(n, ast.Attribute) and _is_name(n.value, obj) and n.attr == attr


def _assign_target_value(st):
    """(target name, value) of `x = v` or `x: T = v`."""
    if isinstance(st, ast.Assign) and len(st.targets) == 1 and isinstance(st.targets[0], ast.Name):
        return st.targets[0].id, st.value
    if isinstance(st, ast.AnnAssign) and isinstance(st.target, ast.Name) and st.value is not None:
        return st.target.id, st.value
    return None, None


def _classmethod_args(fn, n):
    if not any(isinstance(d, ast.Name) and d.id == 'classmethod' for d in fn.decorator_list):
        _fail(fn, '%s is not a classmethod' % fn.name)
    a = fn.args
    if a.vararg or a.kwarg or a.kwonlyargs or a.posonlyargs or len(a.args) != n:
        _fail(fn, '%s: unexpected signature' % fn.name)
    return [x.arg for x in a.args]


def _translate_append(fn):
    cls, cur, res, mn = _classmethod_args(fn, 4)
    body = _strip_doc(fn.body)
    if len(body) != 1 or not isinstance(body[0], ast.If) or body[0].orelse:
        _fail(fn, '_append_result: expected a single if statement')
    iff = body[0]
    t = iff.test
    if not (isinstance(t, ast.BoolOp) and isinstance(t.op, ast.And) and len(t.values) == 2):
        _fail(t, '_append_result: expected `<cur> is not None and len(...) >= <min>`')
    g, c = t.values
    if not (isinstance(g, ast.Compare) and _is_name(g.left, cur) and len(g.ops) == 1 and isinstance(g.ops[0], ast.IsNot)
            and isinstance(g.comparators[0], ast.Constant) and g.comparators[0].value is None):
        _fail(g, '_append_result: first conjunct must be `<cur> is not None`')
    if not (isinstance(c, ast.Compare) and len(c.ops) == 1 and isinstance(c.ops[0], ast.GtE)
            and isinstance(c.left, ast.Call) and _is_name(c.left.func, 'len') and len(c.left.args) == 1
            and not c.left.keywords and _is_attr(c.left.args[0], cur, 'angles_calibrated')
            and _is_name(c.comparators[0], mn)):
        _fail(c, '_append_result: second conjunct must be `len(<cur>.angles_calibrated) >= <min>`')
    if not (len(iff.body) == 1 and isinstance(iff.body[0], ast.Expr) and isinstance(iff.body[0].value, ast.Call)):
        _fail(iff, '_append_result: body must be `<res>.append(<cur>)`')
    call = iff.body[0].value
    if not (_is_attr(call.func, res, 'append') and len(call.args) == 1 and _is_name(call.args[0], cur)
            and not call.keywords):
        _fail(call, '_append_result: body must be `<res>.append(<cur>)`')
    return ('Definition gen_append_result (min_nr : Z) (current : option sample) (result : list sample) : list sample :=\n'
            '    match current with\n'
            '    | None => result\n'
            '    | Some c => if Z.of_nat (length (snd c)) >=? min_nr then result ++ [c] else result\n'
            '    end.\n')


class _Match:
    def __init__(self, fn):
        self.fn = fn
        self.cls, self.samples, self.window, self.mn = _classmethod_args(fn, 4)
        d = fn.args.defaults
        if len(d) != 2 or not all(isinstance(x, ast.Constant) for x in d):
            _fail(fn, 'match: expected defaults for the window and the minimum')
        self.defaults = [x.value for x in d]
        self.ts_names = set()

    def ts_expr(self, n):
        """Gallina for an expression denoting the time stamp of the loop variable, or None."""
        if isinstance(n, ast.Name) and n.id in self.ts_names:
            return 'ts_%s' % n.id
        if _is_attr(n, self.m, 'timestamp'):
            return '(m_ts m)'
        return None

    def new_sample(self, n):
        """`LhCfPoseSample(timestamp=T)` -> Gallina for T."""
        if not (isinstance(n, ast.Call) and _is_name(n.func, 'LhCfPoseSample') and not n.args and len(n.keywords) == 1
                and n.keywords[0].arg == 'timestamp'):
            _fail(n, 'expected LhCfPoseSample(timestamp=<time stamp of the measurement>)')
        t = self.ts_expr(n.keywords[0].value)
        if t is None:
            _fail(n, 'LhCfPoseSample(timestamp=...) must be given the time stamp of the loop variable')
        return t

    def is_append_call(self, st):
        if not (isinstance(st, ast.Expr) and isinstance(st.value, ast.Call)):
            return False
        c = st.value
        return (_is_attr(c.func, self.cls, '_append_result') and not c.keywords and len(c.args) == 3
                and _is_name(c.args[0], self.cur) and _is_name(c.args[1], self.res) and _is_name(c.args[2], self.mn))

    def translate(self):
        body = _strip_doc(self.fn.body)
        if len(body) != 5:
            _fail(self.fn, 'match: expected 2 initialisations, the loop, the final _append_result and the return')
        inits = {}
        for st in body[:2]:
            name, val = _assign_target_value(st)
            if name is None:
                _fail(st, 'match: expected an initialisation')
            if isinstance(val, ast.List) and not val.elts:
                inits['res'] = name
            elif isinstance(val, ast.Constant) and val.value is None:
                inits['cur'] = name
            else:
                _fail(st, 'match: initial values must be [] and None')
        if set(inits) != {'res', 'cur'}:
            _fail(self.fn, 'match: need one list and one None local')
        self.res, self.cur = inits['res'], inits['cur']
        loop = body[2]
        if not (isinstance(loop, ast.For) and isinstance(loop.target, ast.Name) and _is_name(loop.iter, self.samples)
                and not loop.orelse):
            _fail(loop, 'match: expected `for <m> in <samples>:`')
        self.m = loop.target.id
        if not self.is_append_call(body[3]):
            _fail(body[3], 'match: expected the final cls._append_result(<cur>, <res>, <min>)')
        if not (isinstance(body[4], ast.Return) and _is_name(body[4].value, self.res)):
            _fail(body[4], 'match: expected `return <res>`')
        lines = []
        close = []
        for st in loop.body:
            lines += self.stmt(st, close)
        lines.append('    Some (current, result)' + ''.join(close))
        return lines

    def stmt(self, st, close):
        # <ts> = <m>.timestamp
        name, val = _assign_target_value(st)
        if name is not None and name not in (self.cur, self.res):
            if not _is_attr(val, self.m, 'timestamp'):
                _fail(st, 'only `<ts> = <m>.timestamp` may bind a new local')
            self.ts_names.add(name)
            return ['    let ts_%s := m_ts m in' % name]
        # <cur>.angles_calibrated[<m>.base_station_id] = <m>.angles
        if isinstance(st, ast.Assign) and len(st.targets) == 1 and isinstance(st.targets[0], ast.Subscript):
            sub = st.targets[0]
            key = sub.slice
            if not (_is_attr(sub.value, self.cur, 'angles_calibrated') and _is_attr(key, self.m, 'base_station_id')
                    and _is_attr(st.value, self.m, 'angles')):
                _fail(st, 'expected `<cur>.angles_calibrated[<m>.base_station_id] = <m>.angles`')
            close.append(' end')
            return ['    match current with None => None | Some c =>',
                    '    let current := Some (fst c, dict_set (m_bs m) (m_ang m) (snd c)) in']
        if isinstance(st, ast.If) and not st.orelse:
            t = st.test
            # if <cur> is None: <cur> = LhCfPoseSample(timestamp=T)
            if (isinstance(t, ast.Compare) and _is_name(t.left, self.cur) and len(t.ops) == 1
                    and isinstance(t.ops[0], ast.Is) and isinstance(t.comparators[0], ast.Constant)
                    and t.comparators[0].value is None):
                if len(st.body) != 1:
                    _fail(st, '`if <cur> is None:` must only re-initialise <cur>')
                name, val = _assign_target_value(st.body[0])
                if name != self.cur:
                    _fail(st, '`if <cur> is None:` must only re-initialise <cur>')
                T = self.new_sample(val)
                return ['    let current : option sample := match current with None => Some (%s, []) | Some _ => current end in' % T]
            # if T > (<cur>.timestamp + <window>): append; <cur> = LhCfPoseSample(timestamp=T)
            if isinstance(t, ast.Compare) and len(t.ops) == 1 and isinstance(t.ops[0], ast.Gt):
                T = self.ts_expr(t.left)
                r = t.comparators[0]
                if T is None or not (isinstance(r, ast.BinOp) and isinstance(r.op, ast.Add)
                                     and _is_attr(r.left, self.cur, 'timestamp') and _is_name(r.right, self.window)):
                    _fail(t, 'window test must be `<ts> > (<cur>.timestamp + <window>)`')
                if len(st.body) != 2 or not self.is_append_call(st.body[0]):
                    _fail(st, 'window branch must be: cls._append_result(<cur>, <res>, <min>); <cur> = LhCfPoseSample(...)')
                name, val = _assign_target_value(st.body[1])
                if name != self.cur:
                    _fail(st, 'window branch must re-initialise <cur>')
                T2 = self.new_sample(val)
                close.append(' end')
                return ['    match current with None => None | Some c =>',
                        '    let \'(current, result) :=',
                        '      if late (fst c) %s then (Some (%s, []) : option sample, gen_append_result min_nr current result)' % (T, T2),
                        '      else (current, result) in']
        _fail(st, 'statement form not in the translatable subset')


def translate(source):
    tree = ast.parse(source)
    klass = [n for n in tree.body if isinstance(n, ast.ClassDef) and n.name == 'LighthouseSampleMatcher']
    if len(klass) != 1:
        raise Untranslatable('class LighthouseSampleMatcher not found')
    fns = {n.name: n for n in klass[0].body if isinstance(n, ast.FunctionDef)}
    extra = [n for n in klass[0].body if not isinstance(n, ast.FunctionDef)
             and not (isinstance(n, ast.Expr) and isinstance(n.value, ast.Constant))]
    if extra or set(fns) != {'match', '_append_result'}:
        raise Untranslatable('LighthouseSampleMatcher: expected exactly the methods match and _append_result')
    app = _translate_append(fns['_append_result'])
    m = _Match(fns['match'])
    step = m.translate()
    text = ('(* GENERATED by harness/trans/c09_matcher.py from cflib/localization/lighthouse_sample_matcher.py -- do not edit.\n'
            '   None = the Python code would raise (attribute access on None). *)\n'
            'From CF Require Import Common.Bytes C09.Model.\n'
            'Open Scope Z_scope.\n\n'
            'Section Gen.\n'
            '  Context {T A : Type}.\n'
            '  Variable late : T -> T -> bool.      (* late cur ts := ts > (cur + max_time_diff) *)\n'
            '  Notation meas := (@meas T A).\n'
            '  Notation sample := (@sample T A).\n\n'
            '  ' + app.replace('\n', '\n  ').rstrip() + '\n\n'
            '  Definition gen_step (min_nr : Z) (current : option sample) (result : list sample) (m : meas)\n'
            '    : option (option sample * list sample) :=\n'
            + '\n'.join('  ' + ln for ln in step) + '.\n\n'
            '  Fixpoint gen_loop (min_nr : Z) (current : option sample) (result : list sample) (l : list meas)\n'
            '    : option (option sample * list sample) :=\n'
            '    match l with\n'
            '    | [] => Some (current, result)\n'
            '    | m :: l\' => match gen_step min_nr current result m with\n'
            '                 | None => None\n'
            '                 | Some (c, r) => gen_loop min_nr c r l\'\n'
            '                 end\n'
            '    end.\n\n'
            '  Definition gen_match (min_nr : Z) (l : list meas) : option (list sample) :=\n'
            '    match gen_loop min_nr None [] l with\n'
            '    | None => None\n'
            '    | Some (c, r) => Some (gen_append_result min_nr c r)\n'
            '    end.\n'
            'End Gen.\n\n'
            '(* defaults of match(): max_time_diff = %r, min_nr_of_bs_in_match = %r *)\n'
            'Definition gen_default_min_nr : Z := %d.\n' % (m.defaults[0], m.defaults[1], int(m.defaults[1])))
    info = {'source': 'cflib/localization/lighthouse_sample_matcher.py', 'functions': ['match', '_append_result'],
            'defaults': m.defaults, 'loop_statements': len(step) - 1}
    if not (isinstance(m.defaults[0], (int, float)) and m.defaults[0] >= 0):
        raise Untranslatable('default max_time_diff must be a non-negative number (theorem hypothesis: first stamp not late w.r.t. itself)')
    return text, info
