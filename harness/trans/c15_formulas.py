"""C15 translator (T-tie): straight-line numeric Python of the lighthouse conversion code -> expression trees.

A small *symbolic interpreter* over the Python `ast` of
    cflib/localization/lighthouse_bs_vector.py   (LighthouseBsVector)
    cflib/localization/lighthouse_types.py       (Pose)
    cflib/localization/lighthouse_geometry_solver.py (_rotate_translate, _calc_angle_pairs; one row of the arrays)
    cflib/localization/ippe_cf.py                (axis permutation helpers)
Vectors and matrices are expanded into components, so the result of translating a function is a list of
scalar expression trees over numbered scalar inputs.  The trees are
  * written to coq/C15/Gen_Formulas.v as terms of `CF.C15.Model.expr` (GenTie.v proves that each denotes the
    hand-written model function the theorems are about), and
  * evaluated in Python with `math` (eval_tree) by the numeric correspondence step, against the real numpy code.

Fail-closed: every AST node kind, call target, attribute, operand shape or statement that is not explicitly
recognised raises TranslateError.  Nothing is guessed.

Tree nodes (tuples): ('var', n) ('int', z) ('pi',) ('neg', a) ('add', a, b) ('sub', a, b) ('mul', a, b)
('div', a, b) ('sqr', a) ('sqrt', a) ('sin', a) ('cos', a) ('tan', a) ('asin', a) ('atan', a)
('atan2', y, x) ('nandiv', a, b) ('call', callee_name, index, [args])
"""
import ast
import math
import os
from fractions import Fraction


class TranslateError(Exception):
    pass


def _err(node, msg):
    line = getattr(node, 'lineno', '?')
    raise TranslateError('%s (line %s: %s)' % (msg, line, ast.dump(node)[:200] if isinstance(node, ast.AST) else node))


# ------------------------------------------------------------------------------------------ symbolic values
class Val:
    """shape: 's' scalar; 'v' 1-D vector; 'm' 2-D matrix; row-mode shapes for the solver's vectorised code, where
    every array has a leading sample axis and one row is modelled: 'r1' (n,), 'r2' (n,1), 'rv' (n,k)."""

    def __init__(self, shape, data):
        self.shape = shape
        self.data = data          # tree | [trees] | [[trees]]

    def __repr__(self):
        return 'Val(%s,%r)' % (self.shape, self.data)


class Obj:
    def __init__(self, cls, attrs=None):
        self.cls = cls
        self.attrs = attrs or {}


class Ref:
    """reference to a module, class, function, or marker"""

    def __init__(self, kind, name=None, extra=None):
        self.kind, self.name, self.extra = kind, name, extra

    def __repr__(self):
        return 'Ref(%s,%s)' % (self.kind, self.name)


NONE = Ref('none')
NEWAXIS = Ref('newaxis')


def S(t):
    return Val('s', t)


def num(x, node=None):
    if isinstance(x, bool):
        _err(node, 'boolean literal')
    if isinstance(x, int):
        return ('int', x)
    if isinstance(x, float):
        if x != x or x in (float('inf'), float('-inf')):
            _err(node, 'non-finite literal')
        if x == int(x) and abs(x) < 2 ** 53:
            return ('int', int(x))
        fr = Fraction(repr(x))
        return ('div', ('int', fr.numerator), ('int', fr.denominator))
    _err(node, 'unsupported literal %r' % (x,))


class ClassInfo:
    def __init__(self, name, node, module):
        self.name, self.node, self.module = name, node, module
        self.methods = {}
        self.attrs = {}      # name -> expression node (class level assignments)
        for st in node.body:
            if isinstance(st, ast.FunctionDef):
                kind = 'plain'
                for d in st.decorator_list:
                    if isinstance(d, ast.Name) and d.id in ('property', 'classmethod', 'staticmethod'):
                        kind = d.id
                    else:
                        kind = 'unsupported-decorator'
                self.methods[st.name] = (kind, st)
            elif isinstance(st, ast.Assign) and len(st.targets) == 1 and isinstance(st.targets[0], ast.Name):
                self.attrs[st.targets[0].id] = st.value


class Interp:
    def __init__(self, sources):
        """sources: {module_key: source text}"""
        self.classes = {}
        for key, src in sources.items():
            tree = ast.parse(src)
            for st in tree.body:
                if isinstance(st, ast.ClassDef):
                    self.classes[st.name] = ClassInfo(st.name, st, key)
        self.compositional = {}     # (cls, method) -> (callee gen name, n_outputs, arg flattener)
        self.float32_used = set()
        self.current = None
        self._attr_cache = {}

    # ---------------------------------------------------------------- helpers on values
    @staticmethod
    def _elems(v):
        if v.shape in ('v', 'rv'):
            return list(v.data)
        _err(None, 'vector expected, got %r' % (v,))

    def _bin(self, op, a, b, node):
        if not isinstance(a, Val) or not isinstance(b, Val):
            _err(node, 'arithmetic on non-numeric value')

        def f(x, y):
            return (op, x, y)
        sa, sb = a.shape, b.shape
        if sa == 's' and sb == 's':
            return S(f(a.data, b.data))
        if sa == 's' and sb in ('v', 'rv', 'r1', 'r2'):
            return Val(sb, [f(a.data, y) for y in b.data] if sb in ('v', 'rv') else f(a.data, b.data))
        if sb == 's' and sa in ('v', 'rv', 'r1', 'r2'):
            return Val(sa, [f(x, b.data) for x in a.data] if sa in ('v', 'rv') else f(a.data, b.data))
        if sa == sb and sa in ('v', 'rv'):
            if len(a.data) != len(b.data):
                _err(node, 'vector length mismatch')
            return Val(sa, [f(x, y) for x, y in zip(a.data, b.data)])
        if sa == sb and sa in ('r1', 'r2'):
            return Val(sa, f(a.data, b.data))
        if sa == 'rv' and sb == 'r2':
            return Val('rv', [f(x, b.data) for x in a.data])
        if sa == 'r2' and sb == 'rv':
            return Val('rv', [f(a.data, y) for y in b.data])
        if sa == 'm' and sb == 's':
            return Val('m', [[f(x, b.data) for x in r] for r in a.data])
        _err(node, 'unsupported broadcast %s %s %s' % (sa, op, sb))

    def _map(self, fn, a, node):
        if not isinstance(a, Val):
            _err(node, 'numeric value expected')
        if a.shape in ('s', 'r1', 'r2'):
            return Val(a.shape, (fn, a.data))
        if a.shape in ('v', 'rv'):
            return Val(a.shape, [(fn, x) for x in a.data])
        _err(node, 'unsupported elementwise %s on shape %s' % (fn, a.shape))

    @staticmethod
    def _sum(ts):
        acc = ts[0]
        for t in ts[1:]:
            acc = ('add', acc, t)
        return acc

    # ---------------------------------------------------------------- expression evaluation
    def ev(self, node, env):
        m = getattr(self, 'ev_' + type(node).__name__, None)
        if m is None:
            _err(node, 'unsupported expression node %s' % type(node).__name__)
        return m(node, env)

    def ev_Constant(self, node, env):
        if node.value is None:
            return NONE
        if isinstance(node.value, str):
            return Ref('str', node.value)
        if isinstance(node.value, bool):
            return Ref('opaque', 'bool')
        return S(num(node.value, node))

    def ev_Name(self, node, env):
        if node.id in env:
            return env[node.id]
        if node.id == 'math':
            return Ref('module', 'math')
        if node.id == 'np':
            return Ref('module', 'np')
        if node.id == 'Rotation':
            return Ref('scipy', 'Rotation')
        if node.id == 'range':
            return Ref('builtin', 'range')
        if node.id == 'float':
            return Ref('builtin', 'float')
        if node.id in self.classes:
            return Ref('class', node.id)
        _err(node, 'unknown name %s' % node.id)

    def ev_Dict(self, node, env):
        if node.keys:
            _err(node, 'non-empty dict literal')
        return Ref('opaque', 'dict')

    def ev_Tuple(self, node, env):
        return self._seq(node, env)

    def ev_List(self, node, env):
        return self._seq(node, env)

    def _seq(self, node, env):
        items = [self.ev(e, env) for e in node.elts]
        if not items:
            return Ref('opaque', 'empty')
        if all(isinstance(i, Val) and i.shape == 's' for i in items):
            return Val('v', [i.data for i in items])
        if all(isinstance(i, Val) and i.shape == 'v' for i in items) and len({len(i.data) for i in items}) == 1:
            return Val('m', [list(i.data) for i in items])
        if isinstance(node, ast.Tuple) and all(isinstance(i, Val) for i in items):
            return Ref('tuple', items)          # a python tuple of arrays (Pose.matrix_vec)
        _err(node, 'unsupported sequence literal')

    def ev_UnaryOp(self, node, env):
        v = self.ev(node.operand, env)
        if isinstance(node.op, ast.USub):
            if isinstance(v, Val) and v.shape == 's' and v.data[0] == 'int':
                return S(('int', -v.data[1]))
            return self._map('neg', v, node)
        if isinstance(node.op, ast.UAdd):
            return v
        _err(node, 'unsupported unary operator')

    def ev_BinOp(self, node, env):
        a = self.ev(node.left, env)
        b = self.ev(node.right, env)
        ops = {ast.Add: 'add', ast.Sub: 'sub', ast.Mult: 'mul', ast.Div: 'div'}
        for k, name in ops.items():
            if isinstance(node.op, k):
                return self._bin(name, a, b, node)
        if isinstance(node.op, ast.Pow):
            if isinstance(b, Val) and b.shape == 's' and b.data == ('int', 2):
                return self._map('sqr', a, node)
            _err(node, 'only ** 2 is supported')
        _err(node, 'unsupported binary operator')

    def ev_Compare(self, node, env):
        # only `x != 0` (the `where=` mask of np.divide)
        if len(node.ops) != 1 or not isinstance(node.ops[0], ast.NotEq):
            _err(node, 'unsupported comparison')
        a = self.ev(node.left, env)
        b = self.ev(node.comparators[0], env)
        if isinstance(a, Val) and a.shape in ('s', 'r1', 'r2') and isinstance(b, Val) and b.shape == 's' \
                and b.data == ('int', 0):
            return Ref('nonzero', a)
        _err(node, 'only `x != 0` is supported')

    def class_attr(self, cname, attr, node):
        key = (cname, attr)
        if key in self._attr_cache:
            return self._attr_cache[key]
        ci = self.classes[cname]
        if attr in ci.attrs:
            # class-level names are visible unqualified inside the class body
            v = self.ev(ci.attrs[attr], _ClassBodyEnv(self, cname))
            self._attr_cache[key] = v
            return v
        if attr in ci.methods:
            return Ref('method', attr, (cname, None))
        _err(node, 'class %s has no attribute %s' % (cname, attr))

    def ev_Attribute(self, node, env):
        base = self.ev(node.value, env)
        a = node.attr
        if isinstance(base, Ref):
            if base.kind == 'module' and base.name == 'math':
                if a == 'pi':
                    return S(('pi',))
                if a in ('sin', 'cos', 'tan', 'asin', 'atan', 'atan2', 'sqrt'):
                    return Ref('mathfn', a)
                _err(node, 'unsupported math.%s' % a)
            if base.kind == 'module' and base.name == 'np':
                if a == 'newaxis':
                    return NEWAXIS
                if a == 'linalg':
                    return Ref('module', 'np.linalg')
                return Ref('npfn', a)
            if base.kind == 'module' and base.name == 'np.linalg':
                if a == 'norm':
                    return Ref('npfn', 'linalg.norm')
                _err(node, 'unsupported np.linalg.%s' % a)
            if base.kind == 'class':
                return self._bind_class_attr(base.name, a, node)
            if base.kind == 'scipy':
                return Ref('scipy', base.name + '.' + a)
            if base.kind == 'rotation':
                return Ref('rotmethod', a, base)
            _err(node, 'attribute %s of %r' % (a, base))
        if isinstance(base, Obj):
            if a in base.attrs:
                return base.attrs[a]
            ci = self.classes[base.cls]
            if a in ci.methods:
                kind, fn = ci.methods[a]
                if kind == 'property':
                    return self.call_function(base.cls, fn, [base], {}, node)
                if kind == 'plain':
                    return Ref('method', a, (base.cls, base))
                if kind == 'classmethod':
                    return Ref('method', a, (base.cls, None))
                _err(node, 'unsupported method kind %s' % kind)
            if a in ci.attrs:
                return self.class_attr(base.cls, a, node)
            _err(node, 'object of class %s has no attribute %s' % (base.cls, a))
        if isinstance(base, Val) and a == 'shape':
            _err(node, '.shape is not modelled')
        _err(node, 'unsupported attribute access .%s' % a)

    def _bind_class_attr(self, cname, a, node):
        ci = self.classes[cname]
        if a in ci.methods:
            return Ref('method', a, (cname, None))
        return self.class_attr(cname, a, node)

    def ev_Subscript(self, node, env):
        base = self.ev(node.value, env)
        sl = node.slice
        if isinstance(base, Ref) and base.kind == 'rows':
            # X[i] inside the `for i in range(n)` loop of ippe_cf: the i-th row
            if isinstance(sl, ast.Name) and env.get(sl.id) is base.extra:
                return base.name
            _err(node, 'unsupported row indexing')
        if isinstance(base, Val) and base.shape == 'rv' and isinstance(sl, ast.Name):
            ix = env.get(sl.id)
            if isinstance(ix, Ref) and ix.kind == 'rowindex':
                return Val('rv', list(base.data))      # a copy of the selected rows (fancy indexing copies)
            _err(node, 'row-mode array indexed by something that is not an index array')
        if not isinstance(base, Val):
            _err(node, 'subscript of non-array')
        if base.shape == 'v':
            i = self._const_index(sl, env)
            if i is None:
                rng = self._const_slice(sl, env, len(base.data))
                if rng is None:
                    _err(node, 'unsupported vector subscript')
                return Val('v', base.data[rng[0]:rng[1]])
            if not 0 <= i < len(base.data):
                _err(node, 'index out of range')
            return S(base.data[i])
        if base.shape in ('rv', 'r1'):
            if not isinstance(sl, ast.Tuple) or len(sl.elts) < 2:
                _err(node, 'row-mode arrays must be indexed as [:, ...]')
            first = sl.elts[0]
            if not (isinstance(first, ast.Slice) and first.lower is None and first.upper is None and first.step is None):
                _err(node, 'first index of a row-mode array must be ":"')
            rest = sl.elts[1:]
            if base.shape == 'r1':
                if len(rest) == 1 and self.ev(rest[0], env) is NEWAXIS:
                    return Val('r2', base.data)
                _err(node, 'unsupported subscript of per-row scalar')
            k = len(base.data)
            if len(rest) == 1:
                rng = self._const_slice(rest[0], env, k)
                if rng is None:
                    _err(node, 'unsupported column subscript')
                return Val('rv', base.data[rng[0]:rng[1]])
            if len(rest) == 2 and self.ev(rest[1], env) is NEWAXIS:
                i = self._const_index(rest[0], env)
                if i is None or not 0 <= i < k:
                    _err(node, 'unsupported column index')
                return Val('r2', base.data[i])
            _err(node, 'unsupported row-mode subscript')
        _err(node, 'unsupported subscript on shape %s' % base.shape)

    def _const_int(self, node, env):
        if node is None:
            return None
        v = self.ev(node, env)
        if isinstance(v, Val) and v.shape == 's' and v.data[0] == 'int':
            return v.data[1]
        _err(node, 'integer constant expected')

    def _const_index(self, node, env):
        if isinstance(node, (ast.Slice, ast.Tuple)):
            return None
        return self._const_int(node, env)

    def _const_slice(self, node, env, n):
        if not isinstance(node, ast.Slice) or node.step is not None:
            return None
        lo = self._const_int(node.lower, env) if node.lower is not None else 0
        hi = self._const_int(node.upper, env) if node.upper is not None else n
        if not (0 <= lo <= hi <= n):
            _err(node, 'slice out of range')
        return lo, hi

    # ---------------------------------------------------------------- calls
    def ev_Call(self, node, env):
        fn = self.ev(node.func, env)
        args = [self.ev(a, env) for a in node.args]
        kw = {}
        for k in node.keywords:
            if k.arg is None:
                _err(node, '**kwargs not supported')
            kw[k.arg] = self.ev(k.value, env)
        if not isinstance(fn, Ref):
            _err(node, 'call of non-function')
        if fn.kind == 'mathfn':
            if kw or not all(isinstance(a, Val) and a.shape == 's' for a in args):
                _err(node, 'math.%s needs scalar arguments' % fn.name)
            if fn.name == 'atan2':
                if len(args) != 2:
                    _err(node, 'atan2 arity')
                return S(('atan2', args[0].data, args[1].data))
            if len(args) != 1:
                _err(node, 'math.%s arity' % fn.name)
            return S((fn.name, args[0].data))
        if fn.kind == 'npfn':
            return self.call_np(fn.name, args, kw, node)
        if fn.kind == 'scipy':
            # scipy.spatial.transform.Rotation is outside the model.  The two constructors enter as the specification
            # functions of Model.v (rodrigues; quat_mat o quat_normalize) -- the hypothesis the Coq theorems carry and
            # the tie step validates numerically against scipy on every run.
            want = {'Rotation.from_rotvec': ('rotvec', 3), 'Rotation.from_quat': ('quat', 4), 'Rotation.from_matrix': ('matrix', 0)}
            if fn.name not in want or kw or len(args) != 1:
                _err(node, 'unsupported scipy call %s' % fn.name)
            kind, n = want[fn.name]
            a = args[0]
            if kind == 'matrix':
                if not (isinstance(a, Val) and a.shape == 'm'):
                    _err(node, 'Rotation.from_matrix of a non-matrix')
            elif not (isinstance(a, Val) and a.shape == 'v' and len(a.data) == n):
                _err(node, '%s needs a %d-vector' % (fn.name, n))
            return Ref('rotation', kind, a)
        if fn.kind == 'rotmethod':
            rot = fn.extra
            if args or kw:
                _err(node, 'Rotation.%s takes no arguments here' % fn.name)
            if fn.name == 'as_matrix' and rot.name == 'rotvec':
                flat = list(rot.extra.data)
                return Val('m', [[('call', 'spec_rodrigues', 3 * i + j, flat) for j in range(3)] for i in range(3)])
            if fn.name == 'as_matrix' and rot.name == 'quat':
                q = list(rot.extra.data)
                n = ('sqrt', self._sum([('sqr', x) for x in q]))
                flat = [('div', x, n) for x in q]
                return Val('m', [[('call', 'spec_quat_mat', 3 * i + j, flat) for j in range(3)] for i in range(3)])
            _err(node, 'Rotation.from_%s(...).%s() is not algebraic in the model (matrix -> rotation vector / quaternion '
                       'is characterised by uniqueness theorems and validated numerically)' % (rot.name, fn.name))
        if fn.kind == 'class':
            return self.construct(fn.name, args, kw, node)
        if fn.kind == 'method':
            cname, selfobj = fn.extra
            kind, fdef = self.classes[cname].methods[fn.name]
            if (cname, fn.name) in self.compositional and self.current != (cname, fn.name):
                return self.call_compositional(cname, fn.name, args, kw, node)
            if kind == 'classmethod':
                return self.call_function(cname, fdef, [Ref('class', cname)] + args, kw, node)
            if kind == 'staticmethod':
                return self.call_function(cname, fdef, args, kw, node)
            if kind == 'plain':
                if selfobj is not None:
                    return self.call_function(cname, fdef, [selfobj] + args, kw, node)
                return self.call_function(cname, fdef, args, kw, node)   # called through the class
            _err(node, 'unsupported method kind')
        _err(node, 'unsupported call target %r' % fn)

    def call_np(self, name, args, kw, node):
        def vec(a):
            if isinstance(a, Val) and a.shape in ('v', 'rv'):
                return a
            _err(node, 'np.%s: vector expected' % name)
        if name == 'float32':
            if len(args) != 1 or kw:
                _err(node, 'np.float32 arity')
            self.float32_used.add(self.current)
            return vec(args[0])
        if name == 'array':
            if len(args) != 1 or kw:
                _err(node, 'np.array arity/kwargs')
            if isinstance(args[0], Val) and args[0].shape in ('v', 'm'):
                return args[0]
            _err(node, 'np.array of unsupported value')
        if name == 'identity':
            if len(args) != 1 or kw or not (isinstance(args[0], Val) and args[0].data == ('int', 3)):
                _err(node, 'only np.identity(3)')
            return Val('m', [[('int', 1 if i == j else 0) for j in range(3)] for i in range(3)])
        if name == 'transpose':
            if len(args) != 1 or kw or not (isinstance(args[0], Val) and args[0].shape == 'm'):
                _err(node, 'np.transpose of a matrix expected')
            m = args[0].data
            return Val('m', [[m[j][i] for j in range(len(m))] for i in range(len(m[0]))])
        if name == 'dot':
            if len(args) != 2 or kw:
                _err(node, 'np.dot arity')
            a, b = args
            if isinstance(a, Val) and a.shape == 'm' and isinstance(b, Val) and b.shape == 'v':
                if len(a.data[0]) != len(b.data):
                    _err(node, 'np.dot dimension mismatch')
                return Val('v', [self._sum([('mul', x, y) for x, y in zip(r, b.data)]) for r in a.data])
            if isinstance(a, Val) and a.shape == 'm' and isinstance(b, Val) and b.shape == 'm':
                if len(a.data[0]) != len(b.data):
                    _err(node, 'np.dot dimension mismatch')
                cols = list(zip(*b.data))
                return Val('m', [[self._sum([('mul', x, y) for x, y in zip(r, c)]) for c in cols] for r in a.data])
            _err(node, 'np.dot of unsupported shapes')
        if name == 'cross':
            if len(args) != 2 or kw:
                _err(node, 'np.cross arity')
            a, b = vec(args[0]), vec(args[1])
            if a.shape != b.shape or len(a.data) != 3 or len(b.data) != 3:
                _err(node, 'np.cross of two 3-vectors expected')
            (a0, a1, a2), (b0, b1, b2) = a.data, b.data
            return Val(a.shape, [('sub', ('mul', a1, b2), ('mul', a2, b1)),
                                 ('sub', ('mul', a2, b0), ('mul', a0, b2)),
                                 ('sub', ('mul', a0, b1), ('mul', a1, b0))])
        if name == 'linalg.norm':
            a = vec(args[0]) if args else _err(node, 'norm arity')
            if len(args) != 1:
                _err(node, 'norm arity')
            t = ('sqrt', self._sum([('sqr', x) for x in a.data]))
            if a.shape == 'v' and not kw:
                return S(t)
            if a.shape == 'rv' and set(kw) == {'axis'} and isinstance(kw['axis'], Val) and kw['axis'].data == ('int', 1):
                return Val('r1', t)
            _err(node, 'np.linalg.norm: unsupported shape/axis')
        if name == 'sum':
            if len(args) != 1:
                _err(node, 'np.sum arity')
            a = args[0]
            if isinstance(a, Val) and a.shape == 'rv' and set(kw) == {'axis'} and isinstance(kw['axis'], Val) \
                    and kw['axis'].data == ('int', 1):
                return Val('r1', self._sum(a.data))
            _err(node, 'np.sum: only axis=1 on row-mode arrays')
        if name in ('sin', 'cos', 'tan'):
            if len(args) != 1 or kw:
                _err(node, 'np.%s arity' % name)
            return self._map(name, args[0], node)
        if name == 'arctan2':
            if len(args) != 2 or kw:
                _err(node, 'np.arctan2 arity')
            return self._bin('atan2', args[0], args[1], node)
        if name == 'nan_to_num':
            if len(args) != 1 or kw:
                _err(node, 'np.nan_to_num arity')
            a = vec(args[0])
            out = []
            for t in a.data:
                if t[0] != 'div':
                    _err(node, 'np.nan_to_num is only modelled on a quotient')
                out.append(('nandiv', t[1], t[2]))
            return Val(a.shape, out)
        if name == 'zeros_like':
            if len(args) != 1 or not set(kw) <= {'dtype'}:
                _err(node, 'np.zeros_like arity')
            if 'dtype' in kw and not (isinstance(kw['dtype'], Ref) and kw['dtype'].kind == 'builtin' and
                                      kw['dtype'].name == 'float'):
                _err(node, 'np.zeros_like: only dtype=float')
            a = vec(args[0])
            return Val(a.shape, [('int', 0)] * len(a.data))
        if name == 'divide':
            # np.divide(a, b, out=zeros, where=(b != 0)):  a/b where b != 0, else 0  -- the meaning of ENanDiv
            if len(args) != 2 or set(kw) != {'out', 'where'}:
                _err(node, 'np.divide: only (a, b, out=zeros, where=b != 0)')
            a, b, out, wh = vec(args[0]), args[1], kw['out'], kw['where']
            if not (isinstance(b, Val) and b.shape in ('s', 'r2')):
                _err(node, 'np.divide: divisor must be a (per-row) scalar')
            if isinstance(out, Val) and out.data == a.data:
                _err(node, 'np.divide writes its result into the dividend (out= aliases an argument): in-place '
                           'modification of a caller-owned array is a side effect the pure model cannot express')
            if not (isinstance(out, Val) and out.shape == a.shape and len(out.data) == len(a.data) and
                    all(t == ('int', 0) for t in out.data)):
                _err(node, 'np.divide: out must be a zero array of the shape of the dividend')
            if not (isinstance(wh, Ref) and wh.kind == 'nonzero' and wh.name.shape == b.shape and wh.name.data == b.data):
                _err(node, 'np.divide: where must be `divisor != 0`')
            return Val(a.shape, [('nandiv', t, b.data) for t in a.data])
        if name == 'errstate':
            return NONE
        _err(node, 'unsupported numpy function np.%s' % name)

    def construct(self, cname, args, kw, node):
        ci = self.classes[cname]
        if '__init__' not in ci.methods:
            _err(node, 'class %s has no __init__' % cname)
        obj = Obj(cname)
        self.call_function(cname, ci.methods['__init__'][1], [obj] + args, kw, node)
        return obj

    def call_compositional(self, cname, mname, args, kw, node):
        gen, nout, shape = self.compositional[(cname, mname)]
        kind, fdef = self.classes[cname].methods[mname]
        params = [a.arg for a in fdef.args.args]
        if kind == 'classmethod':
            params = params[1:]
        if kw or len(args) != len(params):
            _err(node, 'call of %s.%s: positional arguments expected' % (cname, mname))
        flat = []
        for a in args:
            if not (isinstance(a, Val) and a.shape == shape and len(a.data) == 3):
                _err(node, 'call of %s.%s: argument shape' % (cname, mname))
            flat += a.data
        return Val(shape, [('call', gen, i, list(flat)) for i in range(nout)])

    def call_function(self, cname, fdef, args, kw, node):
        a = fdef.args
        if a.vararg or a.kwarg or a.kwonlyargs or a.posonlyargs:
            _err(fdef, 'unsupported parameter kinds')
        params = [p.arg for p in a.args]
        env = {}
        cenv = _ClassBodyEnv(self, cname)
        if len(args) > len(params):
            _err(node, 'too many arguments for %s' % fdef.name)
        bound = dict(zip(params, args))
        for k, v in kw.items():
            if k not in params or k in bound:
                _err(node, 'bad keyword %s' % k)
            bound[k] = v
        defaults = dict(zip(params[len(params) - len(a.defaults):], a.defaults))
        for p in params:
            if p not in bound:
                if p not in defaults:
                    _err(node, 'missing argument %s of %s' % (p, fdef.name))
                bound[p] = self.ev(defaults[p], cenv)
        env.update(bound)
        r = self.exec_block(fdef.body, env, fdef.name)
        return r if r is not None else NONE

    # ---------------------------------------------------------------- statements
    def exec_block(self, body, env, fname):
        for st in body:
            if isinstance(st, ast.Expr) and isinstance(st.value, ast.Constant) and isinstance(st.value.value, str):
                continue          # docstring
            if isinstance(st, ast.Pass):
                continue
            if isinstance(st, ast.Return):
                if st.value is None:
                    return NONE
                return self.ev(st.value, env)
            if isinstance(st, ast.Assign):
                if len(st.targets) != 1:
                    _err(st, 'chained assignment')
                if isinstance(st.targets[0], ast.Tuple):
                    self.assign(st.targets[0], None, env, st)
                else:
                    self.assign(st.targets[0], self.ev(st.value, env), env, st)
                continue
            if isinstance(st, ast.AnnAssign):
                if st.value is None:
                    _err(st, 'annotation without value')
                self.assign(st.target, self.ev(st.value, env), env, st)
                continue
            if isinstance(st, ast.With):
                if len(st.items) != 1 or st.items[0].optional_vars is not None:
                    _err(st, 'unsupported with')
                ctx = self.ev(st.items[0].context_expr, env)
                if ctx is not NONE:
                    _err(st, 'only `with np.errstate(...)` is supported')
                r = self.exec_block(st.body, env, fname)
                if r is not None:
                    return r
                continue
            if isinstance(st, ast.For):
                self.exec_for(st, env, fname)
                continue
            _err(st, 'unsupported statement %s' % type(st).__name__)
        return None

    def assign(self, target, value, env, st):
        if isinstance(target, ast.Name):
            env[target.id] = value
            return
        if isinstance(target, ast.Tuple) and isinstance(st, ast.Assign) and isinstance(st.value, ast.Tuple) \
                and len(target.elts) == len(st.value.elts):
            vals = [self.ev(e, env) for e in st.value.elts]       # a, b = x, y  (evaluated before binding)
            for tg, v in zip(target.elts, vals):
                self.assign(tg, v, env, None)
            return
        if isinstance(target, ast.Attribute) and isinstance(target.value, ast.Name):
            o = env.get(target.value.id)
            if isinstance(o, Obj):
                o.attrs[target.attr] = value
                return
        if isinstance(target, ast.Subscript):
            base = self.ev(target.value, env)
            if isinstance(base, Ref) and base.kind == 'outrows' and isinstance(target.slice, ast.Name) \
                    and env.get(target.slice.id) is base.extra:
                if base.name:
                    _err(st, 'row assigned twice')
                if not (isinstance(value, Val) and value.shape == 'v'):
                    _err(st, 'row value must be a vector')
                base.name.append(value)
                return
        _err(st, 'unsupported assignment target')

    def exec_for(self, st, env, fname):
        # for i in range(n): X_t[i] = f(X[i])   -- one generic row is modelled
        if st.orelse or not isinstance(st.target, ast.Name):
            _err(st, 'unsupported for loop')
        it = st.iter
        if not (isinstance(it, ast.Call) and isinstance(it.func, ast.Name) and it.func.id == 'range' and len(it.args) == 1
                and not it.keywords):
            _err(st, 'only `for i in range(n)` is supported')
        marker = env.get('__loopvar__')
        if marker is None:
            _err(st, 'for loop outside a row-wise function')
        env[st.target.id] = marker
        r = self.exec_block(st.body, env, fname)
        if r is not None:
            _err(st, 'return inside loop')


class _ClassBodyEnv(dict):
    """environment of class-body expressions (class attribute values, parameter defaults): bare names resolve to
    the class-level assignments.  Method bodies use a plain dict (Python scoping: they cannot see class names)."""

    def __init__(self, interp, cname):
        dict.__init__(self)
        self.interp, self.cname = interp, cname

    def __contains__(self, k):
        return dict.__contains__(self, k) or k in self.interp.classes[self.cname].attrs

    def __getitem__(self, k):
        if dict.__contains__(self, k):
            return dict.__getitem__(self, k)
        return self.interp.class_attr(self.cname, k, None)


# ------------------------------------------------------------------------------------------ the functions translated
FILES = {
    'bsv': 'cflib/localization/lighthouse_bs_vector.py',
    'types': 'cflib/localization/lighthouse_types.py',
    'solver': 'cflib/localization/lighthouse_geometry_solver.py',
    'ippe': 'cflib/localization/ippe_cf.py',
}


def var(i):
    return ('var', i)


def vvec(start, n, shape='v'):
    return Val(shape, [var(start + i) for i in range(n)])


def vmat(start):
    return Val('m', [[var(start + 3 * i + j) for j in range(3)] for i in range(3)])


def _scalars(v, n, what):
    if isinstance(v, Val) and v.shape == 's' and n == 1:
        return [v.data]
    if isinstance(v, Val) and v.shape in ('v', 'rv') and len(v.data) == n:
        return list(v.data)
    if isinstance(v, Val) and v.shape == 'm' and len(v.data) * len(v.data[0]) == n:
        return [x for r in v.data for x in r]
    raise TranslateError('%s: expected %d scalar outputs, got %r' % (what, n, v))


def _require_ast_equal(fdef, expected_src, what):
    """structural check for the two scipy wrappers that are not translated into trees"""
    want = ast.parse(expected_src).body[0]
    body = [s for s in fdef.body if not (isinstance(s, ast.Expr) and isinstance(s.value, ast.Constant))]
    wbody = [s for s in want.body if not (isinstance(s, ast.Expr) and isinstance(s.value, ast.Constant))]
    if [ast.dump(s) for s in body] != [ast.dump(s) for s in wbody]:
        raise TranslateError('%s: body is not the expected scipy wrapper: %s' % (what, [ast.dump(s)[:300] for s in body]))


def spec_trees():
    """Python transport of the Coq definitions rodrigues / quat_of_rotvec / quat_mat / quat_to_rotvec (Model.v):
    GenTie.v proves the emitted trees equal to those definitions; the tie step evaluates them against scipy."""
    v = var
    th = ('sqrt', ('add', ('add', ('sqr', v(0)), ('sqr', v(1))), ('sqr', v(2))))
    k = [('nandiv', v(i), th) for i in range(3)]
    c, s = ('cos', th), ('sin', th)
    d = ('sub', ('int', 1), c)

    def dk(i, j):
        return ('mul', ('mul', d, k[i]), k[j])

    def sk(i):
        return ('mul', s, k[i])
    rod = [('add', c, dk(0, 0)), ('sub', dk(0, 1), sk(2)), ('add', dk(0, 2), sk(1)),
           ('add', dk(1, 0), sk(2)), ('add', c, dk(1, 1)), ('sub', dk(1, 2), sk(0)),
           ('sub', dk(2, 0), sk(1)), ('add', dk(2, 1), sk(0)), ('add', c, dk(2, 2))]
    half = ('div', th, ('int', 2))
    qrv = [('mul', k[i], ('sin', half)) for i in range(3)] + [('cos', half)]
    x, y, z, w = v(0), v(1), v(2), v(3)

    def m(a, b):
        return ('mul', a, b)

    def two(a):
        return ('mul', ('int', 2), a)

    def one_minus(a):
        return ('sub', ('int', 1), two(a))
    qm = [one_minus(('add', m(y, y), m(z, z))), two(('sub', m(x, y), m(z, w))), two(('add', m(x, z), m(y, w))),
          two(('add', m(x, y), m(z, w))), one_minus(('add', m(x, x), m(z, z))), two(('sub', m(y, z), m(x, w))),
          two(('sub', m(x, z), m(y, w))), two(('add', m(y, z), m(x, w))), one_minus(('add', m(x, x), m(y, y)))]
    n3 = ('sqrt', ('add', ('add', ('sqr', x), ('sqr', y)), ('sqr', z)))
    ang = ('mul', ('int', 2), ('atan2', n3, w))
    q2r = [('mul', ('nandiv', c_, n3), ang) for c_ in (x, y, z)]
    return {'spec_rodrigues': {'inputs': 3, 'outputs': rod, 'float32': False},
            'spec_quat_of_rotvec': {'inputs': 3, 'outputs': qrv, 'float32': False},
            'spec_quat_mat': {'inputs': 4, 'outputs': qm, 'float32': False},
            'spec_quat_to_rotvec': {'inputs': 4, 'outputs': q2r, 'float32': False}}


def translate(repo):
    """returns (functions, info): functions = ordered dict name -> {'inputs': n, 'outputs': [trees], 'float32': bool}"""
    sources = {}
    for k, rel in FILES.items():
        with open(os.path.join(repo, rel)) as f:
            sources[k] = f.read()
    it = Interp(sources)
    for need in ('LighthouseBsVector', 'Pose', 'LighthouseGeometrySolution', 'LighthouseGeometrySolver', 'IppeCf'):
        if need not in it.classes:
            raise TranslateError('class %s not found' % need)
    out = dict(spec_trees())

    def add(name, n_in, trees, cur):
        out[name] = {'inputs': n_in, 'outputs': trees, 'float32': cur in it.float32_used}

    def method(cname, mname, kinds):
        ci = it.classes[cname]
        if mname not in ci.methods:
            raise TranslateError('%s.%s not found' % (cname, mname))
        kind, fdef = ci.methods[mname]
        if kind not in kinds:
            raise TranslateError('%s.%s: decorator kind %s, expected %s' % (cname, mname, kind, kinds))
        return fdef

    # ---------------- LighthouseBsVector
    B = 'LighthouseBsVector'

    def bsv_self():
        # built through the real __init__: cls(h, v)
        return it.construct(B, [S(var(0)), S(var(1))], {}, None)

    it.current = (B, 'T')
    add('T', 0, _scalars(it.class_attr(B, 'T', None), 1, 'T'), it.current)
    for nm in ('_q',):
        it.current = (B, nm)
        r = it.call_function(B, method(B, nm, ('plain',)), [bsv_self()], {}, None)
        add('q', 2, _scalars(r, 1, nm), it.current)
    for nm, n in (('lh_v1_horiz_angle', 1), ('lh_v1_vert_angle', 1), ('lh_v1_angle_pair', 2), ('lh_v2_angle_1', 1),
                  ('lh_v2_angle_2', 1), ('cart', 3), ('projection', 2)):
        it.current = (B, nm)
        r = it.call_function(B, method(B, nm, ('property',)), [bsv_self()], {}, None)
        add(nm, 2, _scalars(r, n, nm), it.current)

    def bsv_pair(o, what):
        if not (isinstance(o, Obj) and o.cls == B):
            raise TranslateError('%s does not return a LighthouseBsVector' % what)
        r = it.call_function(B, method(B, 'lh_v1_angle_pair', ('property',)), [o], {}, None)
        return _scalars(r, 2, what)
    it.current = (B, 'from_lh2')
    o = it.call_function(B, method(B, 'from_lh2', ('classmethod',)), [Ref('class', B), S(var(0)), S(var(1))], {}, None)
    add('from_lh2', 2, bsv_pair(o, 'from_lh2'), it.current)
    it.current = (B, 'from_cart')
    o = it.call_function(B, method(B, 'from_cart', ('classmethod',)), [Ref('class', B), vvec(0, 3)], {}, None)
    add('from_cart', 3, bsv_pair(o, 'from_cart'), it.current)
    it.current = (B, 'from_projection')
    o = it.call_function(B, method(B, 'from_projection', ('classmethod',)), [Ref('class', B), vvec(0, 2)], {}, None)
    add('from_projection', 2, bsv_pair(o, 'from_projection'), it.current)

    if 'LighthouseBsVectors' not in it.classes:
        raise TranslateError('class LighthouseBsVectors not found')
    it.current = ('LighthouseBsVectors', 'projection_pair_list')
    add('bsvs_projection_pair_row', 2, _translate_bsvs_list(it, 'projection_pair_list', bsv_self()), it.current)
    it.current = ('LighthouseBsVectors', 'angle_list')
    add('bsvs_angle_list_row', 2, _translate_bsvs_list(it, 'angle_list', bsv_self()), it.current)

    # ---------------- Pose
    P = 'Pose'

    def pose_obj(start):
        return it.construct(P, [vmat(start), vvec(start + 9, 3)], {}, None)

    it.current = (P, 'default')
    o = it.construct(P, [], {}, None)

    def pose_fields(o, what):
        if not (isinstance(o, Obj) and o.cls == P):
            raise TranslateError('%s does not return a Pose' % what)
        rm = it.call_function(P, method(P, 'rot_matrix', ('property',)), [o], {}, None)
        tv = it.call_function(P, method(P, 'translation', ('property',)), [o], {}, None)
        return _scalars(rm, 9, what + '.rot_matrix') + _scalars(tv, 3, what + '.translation')
    add('pose_default', 0, pose_fields(o, 'Pose()'), it.current)
    it.current = (P, 'fields')
    add('pose_fields', 12, pose_fields(pose_obj(0), 'Pose(R, t)'), it.current)
    for nm in ('rotate_translate', 'inv_rotate_translate'):
        it.current = (P, nm)
        r = it.call_function(P, method(P, nm, ('plain',)), [pose_obj(0), vvec(12, 3)], {}, None)
        add('pose_' + nm, 15, _scalars(r, 3, nm), it.current)
    for nm in ('rotate_translate_pose', 'inv_rotate_translate_pose'):
        it.current = (P, nm)
        p_self, p_arg = pose_obj(0), pose_obj(12)
        o = it.call_function(P, method(P, nm, ('plain',)), [p_self, p_arg], {}, None)
        if o is p_self or o is p_arg:
            # freshness contract (C15_compose_fresh): the result is built with the constructor, never an operand
            raise TranslateError('Pose.%s returns one of its operands instead of a new Pose' % nm)
        add('pose_' + nm, 24, pose_fields(o, nm), it.current)
    it.current = (P, 'scale')
    o = pose_obj(0)
    r = it.call_function(P, method(P, 'scale', ('plain',)), [o, S(var(12))], {}, None)
    if r is not NONE:
        raise TranslateError('Pose.scale must return None (it changes the pose in place)')
    add('pose_scale', 13, pose_fields(o, 'pose after scale()'), it.current)
    it.current = (P, 'matrix_vec')
    r = it.call_function(P, method(P, 'matrix_vec', ('property',)), [pose_obj(0)], {}, None)
    if not (isinstance(r, Ref) and r.kind == 'tuple' and len(r.name) == 2):
        raise TranslateError('Pose.matrix_vec must return the tuple (R, t)')
    add('pose_matrix_vec', 12, _scalars(r.name[0], 9, 'matrix_vec[0]') + _scalars(r.name[1], 3, 'matrix_vec[1]'), it.current)
    it.current = (P, 'from_rot_vec')
    o = it.call_function(P, method(P, 'from_rot_vec', ('classmethod',)), [Ref('class', P), vvec(0, 3), vvec(3, 3)], {}, None)
    add('pose_from_rot_vec', 6, pose_fields(o, 'from_rot_vec'), it.current)
    it.current = (P, 'from_quat')
    o = it.call_function(P, method(P, 'from_quat', ('classmethod',)), [Ref('class', P), vvec(0, 4), vvec(4, 3)], {}, None)
    add('pose_from_quat', 7, pose_fields(o, 'from_quat'), it.current)
    it.current = (P, 'from_rot_vec()')
    o = it.call_function(P, method(P, 'from_rot_vec', ('classmethod',)), [Ref('class', P)], {}, None)
    add('pose_from_rot_vec_default', 0, pose_fields(o, 'from_rot_vec()'), it.current)
    it.current = (P, 'from_quat()')
    o = it.call_function(P, method(P, 'from_quat', ('classmethod',)), [Ref('class', P)], {}, None)
    add('pose_from_quat_default', 0, pose_fields(o, 'from_quat()'), it.current)
    _require_ast_equal(method(P, 'rot_vec', ('property',)),
                       'def f():\n return Rotation.from_matrix(self._R_matrix).as_rotvec()', 'Pose.rot_vec')
    _require_ast_equal(method(P, 'rot_quat', ('property',)),
                       'def f():\n return Rotation.from_matrix(self._R_matrix).as_quat()', 'Pose.rot_quat')

    # ---------------- geometry solver (one row of the vectorised arrays)
    G = 'LighthouseGeometrySolver'
    defs = it.construct('LighthouseGeometrySolution', [], {}, None)
    it.current = (G, '_rotate_translate')
    r = it.call_function(G, method(G, '_rotate_translate', ('classmethod',)),
                         [Ref('class', G), vvec(0, 3, 'rv'), vvec(3, 3, 'rv'), vvec(6, 3, 'rv')], {}, None)
    add('solver_rotate_translate', 9, _scalars(r, 3, '_rotate_translate'), it.current)
    it.compositional[(G, '_rotate_translate')] = ('solver_rotate_translate', 3, 'rv')
    it.current = (G, '_calc_angle_pairs')
    r = it.call_function(G, method(G, '_calc_angle_pairs', ('classmethod',)),
                         [Ref('class', G), vvec(0, 6, 'rv'), vvec(6, 6, 'rv'), vvec(12, 3, 'rv'), defs], {}, None)
    add('solver_calc_angle_pairs', 15, _scalars(r, 2, '_calc_angle_pairs'), it.current)
    it.current = (G, '_params_to_pose')
    o = it.call_function(G, method(G, '_params_to_pose', ('classmethod',)), [Ref('class', G), vvec(0, 6), defs], {}, None)
    add('solver_params_to_pose', 6, pose_fields(o, '_params_to_pose'), it.current)
    it.current = (G, '_poses_to_angle_pairs')
    ix = [Ref('rowindex', k) for k in ('bs', 'cf', 'sens')]
    r = it.call_function(G, method(G, '_poses_to_angle_pairs', ('classmethod',)),
                         [Ref('class', G), vvec(0, 6, 'rv'), vvec(6, 6, 'rv'), vvec(12, 3, 'rv'), ix[0], ix[1], ix[2], defs],
                         {}, None)
    add('solver_poses_to_angle_pairs', 15, _scalars(r, 2, '_poses_to_angle_pairs'), it.current)
    _require_ast_equal(method(G, '_pose_to_params', ('classmethod',)),
                       'def f():\n return np.concatenate((pose.rot_vec, pose.translation))',
                       'LighthouseGeometrySolver._pose_to_params')
    lr = defs.attrs.get('len_rot_vec')
    lp = defs.attrs.get('len_pose')
    if not (isinstance(lr, Val) and lr.data == ('int', 3) and isinstance(lp, Val) and lp.data == ('int', 6)):
        raise TranslateError('len_rot_vec/len_pose are not 3/6')

    # ---------------- IPPE axis permutations
    I = 'IppeCf'
    it.current = (I, 'consts')
    add('ippe_R_ippe_to_cf', 0, _scalars(it.class_attr(I, '_R_ippe_to_cf', None), 9, '_R_ippe_to_cf'), it.current)
    add('ippe_R_cf_to_ippe', 0, _scalars(it.class_attr(I, '_R_cf_to_ippe', None), 9, '_R_cf_to_ippe'), it.current)
    it.current = (I, '_rotate_vector_to_ippe')
    r = it.call_function(I, method(I, '_rotate_vector_to_ippe', ('staticmethod',)), [vvec(0, 3)], {}, None)
    add('ippe_rotate_vector_to_ippe', 3, _scalars(r, 3, '_rotate_vector_to_ippe'), it.current)
    it.current = (I, '_rotate_vector_to_cf')
    r = it.call_function(I, method(I, '_rotate_vector_to_cf', ('staticmethod', 'plain')), [vvec(0, 3)], {}, None)
    add('ippe_rotate_vector_to_cf', 3, _scalars(r, 3, '_rotate_vector_to_cf'), it.current)
    it.current = (I, '_rotate_rot_mat_to_cf')
    r = it.call_function(I, method(I, '_rotate_rot_mat_to_cf', ('staticmethod',)), [vmat(0)], {}, None)
    add('ippe_rotate_rot_mat_to_cf', 9, _scalars(r, 9, '_rotate_rot_mat_to_cf'), it.current)
    # _cf_to_ippe: the loop body on one generic row (U_cf[i] = vars 0..2, Q_cf[i] = vars 3..4)
    it.current = (I, '_cf_to_ippe')
    add('ippe_cf_to_ippe_row', 5, _translate_cf_to_ippe(it, method(I, '_cf_to_ippe', ('staticmethod',))), it.current)

    info = {'functions': len(out), 'trees': sum(len(f['outputs']) for f in out.values()),
            'nodes': sum(size(t) for f in out.values() for t in f['outputs']),
            'float32_functions': sorted(n for n, f in out.items() if f['float32'])}
    return out, info


def _translate_bsvs_list(it, name, vec_obj):
    """LighthouseBsVectors.projection_pair_list / angle_list: allocation, `for i, vector in enumerate(self)` filling the
    rows, return.  The frame is checked structurally, the stored expressions are translated for a generic element."""
    ci = it.classes['LighthouseBsVectors']
    if name not in ci.methods or ci.methods[name][0] != 'plain':
        raise TranslateError('LighthouseBsVectors.%s not found' % name)
    fdef = ci.methods[name][1]
    body = [s for s in fdef.body if not (isinstance(s, ast.Expr) and isinstance(s.value, ast.Constant))]
    alloc = {'projection_pair_list': 'result = np.empty((len(self), 2), dtype=float)',
             'angle_list': 'result = np.empty((len(self) * 2), dtype=float)'}[name]
    targets = {'projection_pair_list': ['result[i]'], 'angle_list': ['result[i * 2]', 'result[i * 2 + 1]']}[name]
    if len(body) != 3 or ast.dump(body[0]) != ast.dump(ast.parse(alloc).body[0]) or \
            ast.dump(body[2]) != ast.dump(ast.parse('return result').body[0]) or not isinstance(body[1], ast.For):
        raise TranslateError('LighthouseBsVectors.%s: unexpected structure' % name)
    loop = body[1]
    ref = ast.parse('for i, vector in enumerate(self):\n pass').body[0]
    if ast.dump(loop.target) != ast.dump(ref.target) or loop.orelse or \
            ast.dump(loop.iter) != ast.dump(ref.iter) or len(loop.body) != len(targets):
        raise TranslateError('LighthouseBsVectors.%s: unexpected loop' % name)
    out = []
    for st, tg in zip(loop.body, targets):
        if not (isinstance(st, ast.Assign) and len(st.targets) == 1 and
                ast.dump(st.targets[0]) == ast.dump(ast.parse(tg + ' = 0').body[0].targets[0])):
            raise TranslateError('LighthouseBsVectors.%s: unexpected store %s' % (name, ast.dump(st)[:200]))
        v = it.ev(st.value, {'vector': vec_obj})
        out += _scalars(v, 2 if name == 'projection_pair_list' else 1, name)
    if len(out) != 2:
        raise TranslateError('LighthouseBsVectors.%s: two values per vector expected' % name)
    return out


def _translate_cf_to_ippe(it, fdef):
    """IppeCf._cf_to_ippe(U_cf, Q_cf): allocation, a loop filling U_t[i], Q_t[i] row by row, two transposes.
    The loop body is translated on a generic row; everything around it is checked structurally."""
    body = [s for s in fdef.body if not (isinstance(s, ast.Expr) and isinstance(s.value, ast.Constant))]
    want_pre = ast.parse('modelDims = U_cf.shape[0]\nU_t = np.zeros_like(U_cf, dtype=float)\n'
                         'Q_t = np.zeros_like(Q_cf, dtype=float)').body
    want_post = ast.parse('U = np.transpose(U_t)\nQ = np.transpose(Q_t)\nreturn U, Q').body
    if len(body) != 7 or [ast.dump(s) for s in body[:3]] != [ast.dump(s) for s in want_pre] or \
            [ast.dump(s) for s in body[4:]] != [ast.dump(s) for s in want_post] or not isinstance(body[3], ast.For):
        raise TranslateError('IppeCf._cf_to_ippe: unexpected structure')
    loop = body[3]
    if ast.dump(loop.iter) != ast.dump(ast.parse('range(modelDims)').body[0].value):
        raise TranslateError('IppeCf._cf_to_ippe: loop range')
    marker = Ref('loopvar')
    u_out, q_out = [], []
    env = {}
    env['__loopvar__'] = marker
    env['U_cf'] = Ref('rows', vvec(0, 3), marker)
    env['Q_cf'] = Ref('rows', vvec(3, 2), marker)
    env['U_t'] = Ref('outrows', u_out, marker)
    env['Q_t'] = Ref('outrows', q_out, marker)
    it.exec_for(loop, env, '_cf_to_ippe')
    if len(u_out) != 1 or len(q_out) != 1 or len(u_out[0].data) != 3 or len(q_out[0].data) != 2:
        raise TranslateError('IppeCf._cf_to_ippe: loop body does not assign U_t[i] (3) and Q_t[i] (2) once each')
    return list(u_out[0].data) + list(q_out[0].data)


# ------------------------------------------------------------------------------------------ tree utilities
def size(t):
    if t[0] in ('var', 'int', 'pi'):
        return 1
    if t[0] == 'call':
        return 1 + sum(size(a) for a in t[3])
    return 1 + sum(size(a) for a in t[1:])


CTOR = {'neg': 'ENeg', 'add': 'EAdd', 'sub': 'ESub', 'mul': 'EMul', 'div': 'EDiv', 'sqr': 'ESqr', 'sqrt': 'ESqrt',
        'sin': 'ESin', 'cos': 'ECos', 'tan': 'ETan', 'asin': 'EAsin', 'atan': 'EAtan', 'atan2': 'EAtan2',
        'nandiv': 'ENanDiv'}


def to_coq(t):
    k = t[0]
    if k == 'var':
        return '(EVar %d)' % t[1]
    if k == 'int':
        return '(EInt %s)' % (str(t[1]) if t[1] >= 0 else '(%d)' % t[1])
    if k == 'pi':
        return 'EPi'
    if k == 'call':
        return '(subst (argl [%s]) gen_%s_%d)' % ('; '.join(to_coq(a) for a in t[3]), t[1], t[2])
    return '(%s %s)' % (CTOR[k], ' '.join(to_coq(a) for a in t[1:]))


def emit_coq(functions, info, repo_note=''):
    lines = ['(* GENERATED by harness/trans/c15_formulas.py from the current cflib sources -- do not edit. %s *)' % repo_note,
             'From Coq Require Import Reals ZArith List.',
             'From CF Require Import C15.Model.',
             'Import ListNotations.',
             'Open Scope Z_scope.',
             '']
    for name, f in functions.items():
        lines.append('(* %s: %d scalar inputs, %d outputs%s *)' % (
            name, f['inputs'], len(f['outputs']), ', value cast to float32 in the source' if f['float32'] else ''))
        for i, t in enumerate(f['outputs']):
            lines.append('Definition gen_%s_%d : expr := %s.' % (name, i, to_coq(t)))
        lines.append('')
    return '\n'.join(lines)


def eval_tree(t, env, functions):
    """float64 evaluation with the math module (independent of numpy).  Division by zero etc. raise."""
    k = t[0]
    if k == 'var':
        return env[t[1]]
    if k == 'int':
        return float(t[1])
    if k == 'pi':
        return math.pi
    if k == 'call':
        args = [eval_tree(a, env, functions) for a in t[3]]
        return eval_tree(functions[t[1]]['outputs'][t[2]], args, functions)
    if k == 'nandiv':
        a = eval_tree(t[1], env, functions)
        b = eval_tree(t[2], env, functions)
        if b == 0.0:
            if a != 0.0:
                raise ZeroDivisionError('nan_to_num(a/0) with a != 0 is not modelled')
            return 0.0
        return a / b
    xs = [eval_tree(a, env, functions) for a in t[1:]]
    if k == 'neg':
        return -xs[0]
    if k == 'add':
        return xs[0] + xs[1]
    if k == 'sub':
        return xs[0] - xs[1]
    if k == 'mul':
        return xs[0] * xs[1]
    if k == 'div':
        return xs[0] / xs[1]
    if k == 'sqr':
        return xs[0] * xs[0]
    if k == 'sqrt':
        return math.sqrt(xs[0])
    if k == 'atan2':
        return math.atan2(xs[0], xs[1])
    return getattr(math, k)(xs[0])


def eval_function(functions, name, env):
    return [eval_tree(t, list(env), functions) for t in functions[name]['outputs']]
