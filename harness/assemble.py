#!/usr/bin/env python3
"""Assemble MANIFEST.json and known_findings.json from the per-property fragments
manifest.d/Cxx.json (one check object each) and findings/Cxx.json ({"findings": [...]}).
Run by hand after a property's files change; never at check time."""
import glob
import json
import os

V = os.path.dirname(os.path.dirname(os.path.abspath(__file__)))
base = json.load(open(os.path.join(V, 'manifest.d', '_base.json')))
checks = []
ready = json.load(open(os.path.join(V, 'manifest.d', '_ready.json')))   # maintained by the coordinator
for fp in sorted(glob.glob(os.path.join(V, 'manifest.d', 'C*.json'))):
    c = json.load(open(fp))
    pid = c['property_id']
    if pid not in ready:
        continue
    c.setdefault('quick_cmd', '/venv/bin/python harness/check.py --property %s --tier quick' % pid)
    c.setdefault('thorough_cmd', '/venv/bin/python harness/check.py --property %s --tier thorough' % pid)
    c.setdefault('evidence_file', 'evidence/%s.json' % pid)
    c.setdefault('replay_cmd_template', '/venv/bin/python harness/check.py --replay {path}')
    c.setdefault('engine', 'coq-proof+correspondence')
    checks.append(c)
claimed = {c['property_id'] for c in checks}
na = json.load(open(os.path.join(V, 'manifest.d', '_not_applicable.json')))
base['checks'] = checks
base['engines'][0]['serves_properties'] = sorted(claimed)
base['not_applicable'] = [{'property_id': 'C%02d' % i,
                           'reason': na.get('C%02d' % i, 'check not built yet (work in progress; see DESIGN.md section 6)')}
                          for i in range(1, 21) if 'C%02d' % i not in claimed]
json.dump(base, open(os.path.join(V, 'MANIFEST.json'), 'w'), indent=1)
fs = []
for fp in sorted(glob.glob(os.path.join(V, 'findings', 'C*.json'))):
    if os.path.basename(fp)[:3] not in ready and os.path.basename(fp)[:3] != 'C09':
        continue
    fs += json.load(open(fp)).get('findings', [])
hdr = ('Genuine defects of bitcraze/crazyflie-lib-python found by the checks. status=known: still present, the check '
       'prints KNOWN-FINDING and exits 0 for exactly this input class; status=fixed: repaired by the named fix: commit in '
       '/repo, suppresses nothing. Assembled from findings/*.json by harness/assemble.py; never written at run time.')
json.dump({'comment': hdr, 'findings': fs}, open(os.path.join(V, 'known_findings.json'), 'w'), indent=1)
print('checks:', sorted(claimed), 'findings:', [f['id'] for f in fs])
