#!/venv/bin/python
"""Single entry point of the verification machinery.

  check.py --property C13 [--tier quick|thorough]
  check.py --replay replays/C13/<sha>.json
  check.py --setup            (build the whole Coq project once)

Environment: VERIF_SEED (int), VERIF_TIER (overrides --tier).  The implementation under test is
imported from /repo (PYTHONPATH is forced here), with PYTHONHASHSEED=0.
"""
import argparse
import os
import sys

HERE = os.path.dirname(os.path.abspath(__file__))
REPO = os.environ.get('VERIF_REPO', '/repo')

if os.environ.get('PYTHONHASHSEED') != '0' or os.environ.get('CFLIB_VERIF') != '1':
    env = dict(os.environ, PYTHONHASHSEED='0', CFLIB_VERIF='1', PYTHONPATH=REPO + os.pathsep + HERE,
               PYTHONDONTWRITEBYTECODE='1')
    os.execve(sys.executable, [sys.executable] + sys.argv, env)

sys.path.insert(0, HERE)
sys.path.insert(0, REPO)
sys.dont_write_bytecode = True


def main():
    import logging
    logging.disable(logging.CRITICAL)
    ap = argparse.ArgumentParser()
    ap.add_argument('--property')
    ap.add_argument('--tier', default='quick')
    ap.add_argument('--replay')
    ap.add_argument('--setup', action='store_true')
    a = ap.parse_args()
    from core import runner, coqrun
    if a.setup:
        import glob
        import importlib
        for mp in sorted(glob.glob(os.path.join(HERE, 'props', 'c[0-9]*.py'))):
            name = os.path.basename(mp)[:-3]
            try:
                mod = importlib.import_module('props.' + name)
                if hasattr(mod, 'generate'):
                    mod.generate(runner.Ctx(name.upper(), 'quick', 0))
            except Exception as e:  # the check itself reports a broken translator
                print('setup: generator of %s failed: %r' % (name, e))
        files = [os.path.relpath(f, coqrun.COQ_DIR).replace('.v', '.vo') for f in coqrun.source_files()]
        try:
            coqrun.make(files, timeout=3000, keep_going=True)
        except coqrun.CoqError as e:
            # every check re-builds its own files and reports what does not compile; setup only pre-builds
            print('setup: some files did not build (first error %s:%s: %s)' % (e.file, e.line, str(e)[:300]))
            common = [f for f in files if f.startswith('Common/')]
            try:
                coqrun.make(common, timeout=600)
            except coqrun.CoqError as e2:
                print('setup: Common library does not build: %s' % e2)
                return 1
        built = sum(1 for f in files if os.path.exists(os.path.join(coqrun.COQ_DIR, f)))
        print('setup: built %d of %d Coq files' % (built, len(files)))
        return 0
    if a.replay:
        return runner.run_replay(a.replay)
    tier = os.environ.get('VERIF_TIER') or a.tier
    seed = int(os.environ.get('VERIF_SEED', '0') or 0)
    return runner.run_check(a.property, tier, seed)


if __name__ == '__main__':
    sys.exit(main())
