#!/usr/bin/env python3
"""print the prompt for an independent 'seeded change' agent: property text only, nothing from /verif"""
import json, sys
pid, tag = sys.argv[1], sys.argv[2]
hint = sys.argv[3] if len(sys.argv) > 3 else ''
p = [json.loads(l) for l in open('/verif/properties.jsonl') if json.loads(l)['id'] == pid][0]
wt = '/tmp/seed-%s-%s' % (pid.lower(), tag)
print(f"""You are testing how robust a Python library's correctness is to subtle regressions. The library is bitcraze/crazyflie-lib-python (the Crazyflie quadcopter client library). You have your own scratch git worktree of it at {wt}/repo (create it first: `mkdir -p {wt} && git -C /repo worktree add --detach {wt}/repo HEAD`). Work ONLY inside {wt}. Do not read or write anything under /verif, and do not modify /repo itself.

Here is a semantic property the library is supposed to satisfy:

TITLE: {p['title']}
STATEMENT: {p['statement']}
QUANTIFIED OVER: {p['quantifier']['text']}
RELEVANT FILES: {', '.join(p['anchors']['files'])}

Your task: write ONE realistic change to the library source (the kind of regression a refactoring, an 'optimisation' or a plausible bug-fix attempt could introduce) that BREAKS this property while (a) the code still imports and runs, and (b) the existing unit-test suite still passes: `cd {wt}/repo && /venv/bin/python -m pytest -q -p no:cacheprovider test` (187 tests pass on the unchanged tree). The change must need something specific to manifest — a particular interleaving, a fault at a particular point, a multi-step sequence of operations, an unusual or boundary input, or two cooperating sites that each look fine alone — NOT something ordinary use would expose at once. {hint}

Deliver, in {wt}/out/:
  patch.diff   — `git -C {wt}/repo diff` of your change (source files only, no tests)
  demo.py      — a small self-contained program (run as `cd {wt}/repo && /venv/bin/python {wt}/out/demo.py`) that exits 0 on the UNCHANGED library and exits non-zero (with a clear message) on the changed one, demonstrating the property violation through the library's public behaviour (fake links / mocks are fine; no hardware, no network, no real sleeping beyond a second)
  meta.json    — {{"property": "{pid}", "what_breaks": "...", "needs_to_manifest": "...", "files_changed": [...], "tests_pass": true}}
Verify yourself: tests pass with the patch; demo passes without the patch (use `git apply -R patch.diff` and `git apply patch.diff`; do NOT use `git stash`: the stash is shared by all worktrees of the repository and other testers work in parallel) and fails with it. When done, leave the patch APPLIED in the worktree? No — revert it (`git -C {wt}/repo checkout -- .`) so the worktree is pristine, keep only {wt}/out/. Reply with a 5-line summary of the change and how it manifests.""")
