#!/usr/bin/env python3
"""Regenerate the 'as built' part of DESIGN.md (everything after the marker line) from design.d/*.md,
findings/*.json, seeded/*/meta.json and evidence/*.json.  Run by hand; never at check time."""
import glob
import json
import os

V = os.path.dirname(os.path.dirname(os.path.abspath(__file__)))
MARK = '<!-- AS-BUILT: everything below is assembled by harness/mkdesign.py from design.d/, findings/, seeded/, evidence/ -->'

out = [MARK, '', '## 10. As built', '',
       'Sections 0–9 above are the design as written before any code existed; this part records what was actually built, '
       'per property, by the builders (one sub-agent per property, coordinated centrally). Where the two differ, this part '
       'is right. `harness/BUILDERS.md` is the common contract every property module follows.', '',
       '### 10.00 Pipeline as built (differences from section 2)', '',
       '* One entry point `harness/check.py` (`--setup`, `--property Cxx [--tier]`, `--replay file`); it re-executes itself with '
       '`PYTHONHASHSEED=0`, `CFLIB_VERIF=1` and `PYTHONPATH=$VERIF_REPO` (default `/repo`), so a check can be pointed at a scratch '
       'worktree (`VERIF_REPO=/tmp/wt ./harness/check.py …`) — this is how seeded changes and mutations are run without touching `/repo`.',
       '* Steps of a check (`core/runner.py`): translator `generate()` where the property has one (fail-closed) → proof step → tie → oracle '
       '→ verdict → evidence. The proof step (`core/coqrun.py`) builds the dependency closure of each of the property\'s `Property.v` files '
       'with plain `coqc` (no shared Makefile at check time; a file is rebuilt when it or a dependency is newer), runs the forbidden-construct '
       'gate over every file in that closure, recompiles the property file and parses the answer of every `Print Assumptions` against the '
       'property\'s allow-list. `--setup` pre-builds everything with `coq_makefile` + `make -k`.',
       '* Model evaluation: generated `coq/Tmp/cases_*.v` files with `Eval vm_compute`, sharded over parallel `coqc`; because Coq prints '
       '≈ 1 ms per numeral, large outputs are compared by a polynomial digest computed inside Coq (`Common/Digest.v` or a cheaper local '
       'one) and only differing blocks are re-evaluated and printed in full. No OCaml extraction is used anywhere (so there are no '
       '`Extract Constant`/`Extract Inductive` directives in the trusted base).',
       '* Verdict: oracle failures (property text on the real code, concrete input) are matched by their `class` against '
       '`known_findings.json` (`status: known` ⇒ `KNOWN-FINDING` line); any other failure ⇒ `VIOLATION … replay=…`; a broken proof, translator '
       'or model/implementation disagreement with no oracle failure ⇒ `VIOLATION … no-failing-input-found`, the replay naming the theorem or '
       'correspondence. When something is broken the oracle is run in its deeper search mode first.',
       '* No source hooks were needed: `MANIFEST.hooks.source_commits` is empty. All `/repo` commits are `fix:` commits (section 11).',
       '* Work split: the coordinator built the pipeline, Common, C02 and C13; every other property was built by a dedicated sub-agent '
       'following `harness/BUILDERS.md`, then deepened in further rounds driven by what the independently seeded changes (section 12) and the '
       'builders\' own "not covered" lists showed. Per-property fragments (`manifest.d/`, `findings/`, `design.d/`) are assembled by '
       '`harness/assemble.py` and `harness/mkdesign.py`.', '']

# ---- overview table
out += ['### 10.0 Overview', '',
        '| id | level | theorems | tie cases (quick) | oracle cases (quick) | quick wall s | known findings | fixed findings |',
        '|----|-------|----------|-------------------|----------------------|--------------|----------------|----------------|']
fnd = {}
for fp in sorted(glob.glob(os.path.join(V, 'findings', 'C*.json'))):
    for f in json.load(open(fp)).get('findings', []):
        fnd.setdefault(f['property'], []).append(f)
tot = 0
for i in range(1, 21):
    p = 'C%02d' % i
    try:
        e = json.load(open(os.path.join(V, 'evidence', p + '.json')))
    except OSError:
        continue
    c = e['coverage']
    tot += c['obligations']
    out.append('| %s | %s | %d | %s | %s | %.0f | %s | %s |' % (
        p, e['level'], c['obligations'], c.get('tie_evaluations'), c.get('oracle_evaluations'), e['wall_s'],
        ', '.join(f['id'] for f in fnd.get(p, []) if f['status'] == 'known') or '–',
        ', '.join(f['id'] for f in fnd.get(p, []) if f['status'] == 'fixed') or '–'))
out += ['', '%d theorems in total; every `Property.v` theorem is followed by `Print Assumptions`, parsed on every run.' % tot, '']

# ---- trusted base actually reported
ax = {}
for i in range(1, 21):
    p = 'C%02d' % i
    try:
        e = json.load(open(os.path.join(V, 'evidence', p + '.json')))
    except OSError:
        continue
    s = set()
    for t in e['coverage'].get('theorems', []):
        s |= set(t.get('axioms', []))
    ax[p] = sorted(s)
out += ['### 10.0a Axioms reported by `Print Assumptions` (union over each property\'s theorems)', '']
for p, a in ax.items():
    out.append('* %s: %s' % (p, ', '.join('`%s`' % x for x in a) if a else 'closed under the global context'))
out += ['',
        'All are declared by the Coq standard library: the real-number axioms (`ClassicalDedekindReals.sig_forall_dec`, '
        '`sig_not_dec`, `FunctionalExtensionality.functional_extensionality_dep`, `Classical_Prop.classic`) in the '
        'developments over `Coq.Reals`, and — only in `C13/TrajFlocqProperty.v` — the primitive binary64 float / 63-bit '
        'integer operations of the kernel with the `FloatAxioms` that specify them (Flocq 4.1 links them to IEEE-754 '
        'rounding). Nothing is declared in `/verif/coq` itself: the gate in `core/coqrun.py` rejects `Axiom`, `Parameter`, '
        '`Admitted`, `admit`, `Conjecture`, guard/positivity/universe switches and `native_compute` in every file a '
        'property depends on. `vm_compute` is used for finite enumerations and to run the models.', '']

# ---- per property
out += ['### 10.1 Per property', '']
for fp in sorted(glob.glob(os.path.join(V, 'design.d', 'C*.md'))):
    name = os.path.basename(fp)[:-3]
    txt = open(fp).read().strip()
    out += ['#### %s' % name.replace('_', ' — '), '']
    # demote headings inside the fragment
    lines = []
    for l in txt.split('\n'):
        if l.startswith('#'):
            l = '#####' + l.lstrip('#')
        lines.append(l)
    out += lines + ['']

# ---- findings
out += ['## 11. Findings (genuine defects of cflib shown by the checks)', '',
        'Each was first reproduced by the property\'s oracle on the real code (witnesses in `corpus/Cxx/`). `fixed` = one '
        'unguarded `fix:` commit in `/repo` (the 187 repository tests pass with every one of them); `known` = recorded in '
        '`known_findings.json`, the check prints `KNOWN-FINDING` for exactly that input class and still reports any other '
        'violation.', '',
        '| id | property | status | commit | what fails | why not repaired (known only) |', '|----|----------|--------|--------|-----------|---|']
for p in sorted(fnd):
    for f in fnd[p]:
        s = f.get('summary', '').replace('|', '\\|')
        out.append('| %s | %s | %s | %s | %s | %s |' % (f['id'], p, f['status'], f.get('commit', '') or '', s[:420],
                                                      (f.get('why_not_fixed', '') or '')[:200]))
out.append('')

# ---- seeded changes
out += ['## 12. Seeded changes (written by independent sub-agents that saw only the property text)', '',
        'Each change compiles, keeps the 187 repository tests green and comes with a demonstration that fails only with the '
        'change; all were re-verified in a scratch worktree (`harness/seed_eval.py`) and then run against the property\'s quick '
        'check with `VERIF_REPO` pointing at the patched worktree.', '',
        '| seed | property | what it breaks | needs to manifest | caught by | how |', '|------|----------|----------------|-------------------|-----------|-----|']
for d in sorted(glob.glob(os.path.join(V, 'seeded', '*'))):
    try:
        m = json.load(open(os.path.join(d, 'meta.json')))
    except OSError:
        continue
    v = m.get('verification', {})
    how = []
    for p, c in v.get('checks', {}).items():
        viol = [l for l in c.get('lines', []) if l.startswith('VIOLATION')]
        if viol:
            nf = all('no-failing-input-found' in l for l in viol)
            how.append('%s: %s' % (p, 'broken proof/tie (no-failing-input-found)' if nf else 'oracle, concrete replay (%s)' %
                                  (c.get('replay', {}) or {}).get('class', '')))
        else:
            how.append('%s: NOT caught' % p)
    out.append('| %s | %s | %s | %s | %s | %s |' % (
        os.path.basename(d), m.get('property'), str(m.get('what_breaks', ''))[:260].replace('|', '/').replace('\n', ' '),
        str(m.get('needs_to_manifest', ''))[:200].replace('|', '/').replace('\n', ' '),
        'yes' if m.get('detected_by_checks') else 'NO', '; '.join(how)))
out.append('')

fa = os.path.join(V, 'design.d', '_false_alarms.md')
if os.path.exists(fa):
    out += ['## 13. False alarms of the machinery that were found and corrected', '', open(fa).read().strip(), '']

st = os.path.join(V, 'design.d', '_status.md')
if os.path.exists(st):
    out += ['## 14. Status at the last full validation', '', open(st).read().strip(), '']

p = os.path.join(V, 'DESIGN.md')
s = open(p).read()
if MARK in s:
    s = s[:s.index(MARK)]
s = s.rstrip('\n') + '\n\n' + '\n'.join(out) + '\n'
open(p, 'w').write(s)
print('DESIGN.md: %d lines' % s.count('\n'))
