#!/usr/bin/env python3
import sys, os
t = open('/verif/harness/agent_prompt.txt').read()
props, key = sys.argv[1], sys.argv[2]
extra = open('/verif/harness/extras/%s.txt' % key).read()
p1 = props.split(',')[0].strip()
print(t.replace('{PROPS}', props).replace('{P1}', p1).replace('{EXTRA}', extra))
