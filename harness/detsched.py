"""DetSched — deterministic cooperative scheduling of real Python threads in virtual time.

Exactly one registered thread runs at a time; the baton is handed over only at blocking operations
(Lock.acquire, Event.wait, Queue.get/put, Thread.start/join, Timer expiry, time.sleep, explicit yields).
Virtual time advances only when no thread is runnable.  A run is identified by the list of scheduling
choices (index into the name-sorted runnable list) and replays exactly.

Only the harness process is affected: `install()` rebinds the threading/queue/time names *as seen by the
cflib modules* and patches threading.Thread.start/join and time.sleep/time.time; `uninstall()` restores.
No change to /repo.
"""
import queue as _queue
import random
import threading
import time as _time

_RealThread = threading.Thread
_RealSem = threading.Semaphore
_real_start = _RealThread.start
_real_join = _RealThread.join
_real_sleep = _time.sleep
_real_time = _time.time
_real_current = threading.current_thread


class Deadlock(Exception):
    pass


class Killed(BaseException):
    """raised inside threads still blocked when a run is torn down"""


S = None  # the active scheduler


class Sched:
    def __init__(self, seed=0, choices=None, horizon=120.0, yield_on_start=True, line_yield=()):
        self.rng = random.Random(seed)
        self.preset = list(choices) if choices is not None else None
        self.choices = []            # decisions actually taken (only where > 1 thread was runnable)
        self.now = 1000.0
        self.t0 = self.now
        self.horizon = horizon
        self.threads = {}            # thread -> info
        self.order = []
        self.dead = []               # (name, repr(exception)) of threads that died
        self.deadlock = None         # list of (name, what) when detected
        self.horizon_hit = False
        self.shutdown = False
        self.yield_on_start = yield_on_start
        # (file suffix, function name) pairs whose every source line is a yield point (byte-code-level preemption,
        # for the few races on plain attributes with no blocking operation in between)
        self.line_yield = set(tuple(x) for x in line_yield)
        self.counts = {}
        self.main = _real_current()
        self._reg(self.main, 'main')
        self.log = []                # (virtual time, thread name, text)
        self.locklog = []            # (thread, 'want'|'got'|'rel', lock creation site)

    # ---- bookkeeping
    def _reg(self, t, base):
        n = self.counts.get(base, 0)
        self.counts[base] = n + 1
        name = base if n == 0 else '%s#%d' % (base, n)
        self.threads[t] = {'name': name, 'sem': _RealSem(0), 'pred': None, 'deadline': None, 'done': False,
                           'what': None, 'started': True}
        self.order.append(t)
        return name

    def name(self, t=None):
        i = self.threads.get(t or _real_current())
        return i['name'] if i else '?'

    def note(self, text):
        self.log.append((round(self.now - self.t0, 6), self.name(), text))

    def _runnable(self):
        out = []
        for t in self.order:
            i = self.threads[t]
            if i['done']:
                continue
            if i['pred'] is None:
                continue              # currently running (only the current thread) — handled by caller
            try:
                ok = i['pred']()
            except Exception:
                ok = True
            if ok or (i['deadline'] is not None and i['deadline'] <= self.now):
                out.append(t)
        out.sort(key=lambda t: self.threads[t]['name'])
        return out

    def _pick(self):
        while True:
            run = self._runnable()
            if run:
                if len(run) == 1:
                    return run[0]
                if self.preset is not None and self.preset:
                    k = self.preset.pop(0) % len(run)
                else:
                    k = self.rng.randrange(len(run))
                self.choices.append(k)
                return run[k]
            dl = [i['deadline'] for i in self.threads.values() if not i['done'] and i['deadline'] is not None]
            if not dl:
                raise Deadlock([(i['name'], i['what']) for i in self.threads.values() if not i['done']])
            nxt = min(dl)
            if nxt - self.t0 > self.horizon:
                self.horizon_hit = True
                raise Deadlock([('horizon', 'virtual-time horizon %.1fs exceeded' % self.horizon)])
            self.now = nxt

    def _handover(self, me_info, nxt):
        if nxt is not _real_current():
            self.threads[nxt]['sem'].release()
            if me_info is not None:
                me_info['sem'].acquire()

    def block(self, pred=None, timeout=None, what='yield'):
        """Yield point.  Returns True when pred holds, False on timeout."""
        me = _real_current()
        i = self.threads.get(me)
        if i is None:           # a thread unknown to the scheduler (should not happen): do not interfere
            return True
        if self.shutdown and me is not self.main:
            raise Killed()
        i['pred'] = pred if pred is not None else (lambda: True)
        i['deadline'] = None if timeout is None else self.now + max(0.0, timeout)
        i['what'] = what
        try:
            nxt = self._pick()
        except Deadlock as e:
            if self.deadlock is None:
                self.deadlock = e.args[0]
            self.shutdown_all()
            if me is self.main:
                i['pred'] = None
                raise
            # wake main so that it can end the run, then die
            m = self.threads[self.main]
            m['pred'] = None
            m['wake_deadlock'] = True
            m['sem'].release()
            i['sem'].acquire()
            raise Killed()
        self._handover(i, nxt)
        if self.shutdown and me is not self.main:
            raise Killed()
        if me is self.main and i.pop('wake_deadlock', False):
            i['pred'] = None
            raise Deadlock(self.deadlock)
        ok = True
        try:
            ok = bool(i['pred']())
        except Exception:
            ok = True
        i['pred'] = None
        i['deadline'] = None
        i['what'] = None
        return ok

    def spawn(self, t, base=None):
        base = base or _thread_base(t)
        self._reg(t, base)
        info = self.threads[t]
        orig = t.run

        def tracer(frame, event, arg):
            co = frame.f_code
            for suffix, fn in self.line_yield:
                if co.co_name == fn and co.co_filename.endswith(suffix):
                    def local(frame, event, arg):
                        if event == 'line' and not self.shutdown:
                            self.block(what='line %d' % frame.f_lineno)
                        return local
                    return local
            return None

        def run():
            info['sem'].acquire()
            try:
                if not self.shutdown:
                    info['pred'] = None
                    if self.line_yield:
                        import sys as _sys
                        _sys.settrace(tracer)
                    orig()
            except Killed:
                pass
            except BaseException as e:  # noqa
                self.dead.append((info['name'], repr(e)))
            finally:
                info['done'] = True
                if not self.shutdown:
                    try:
                        nxt = self._pick()
                        self.threads[nxt]['sem'].release()
                    except Deadlock as e:
                        if self.deadlock is None:
                            self.deadlock = e.args[0]
                        m = self.threads[self.main]
                        if m['pred'] is not None:
                            m['pred'] = None
                            m['wake_deadlock'] = True
                            m['sem'].release()

        t.run = run
        t.daemon = True
        info['pred'] = lambda: True      # runnable, waiting for the baton
        info['what'] = 'start'
        _real_start(t)
        if self.yield_on_start:
            self.block(what='spawned ' + info['name'])

    def shutdown_all(self):
        self.shutdown = True

    def teardown(self):
        """Kill every thread that is still blocked (called by the main thread at the end of a run)."""
        self.shutdown = True
        for t in self.order:
            i = self.threads[t]
            if t is self.main or i['done']:
                continue
            i['sem'].release()
        for t in self.order:
            if t is not self.main:
                _real_join(t, 2.0)

    def blocked_report(self):
        """Threads not finished, with what they are blocked on (used for stuck-thread detection)."""
        out = []
        for t in self.order:
            i = self.threads[t]
            if i['done'] or t is _real_current():
                continue
            try:
                sat = bool(i['pred']()) if i['pred'] else True
            except Exception:
                sat = True
            out.append({'thread': i['name'], 'what': i['what'], 'deadline': i['deadline'] is not None, 'satisfied': sat})
        return out


def _thread_base(t):
    tgt = getattr(t, '_target', None)
    if isinstance(t, DTimer):
        return 'timer'
    if tgt is not None:
        return getattr(tgt, '__name__', 'thread').lstrip('_')
    return type(t).__name__.lstrip('_')


# ------------------------------------------------------------------ primitives

class DLock:
    def __init__(self):
        self.l = False
        self.owner = None
        # lock identity for lock-order analysis: the module that created it
        import sys as _sys
        f = _sys._getframe(1)
        self.site = '%s:%d' % (f.f_globals.get('__name__', '?'), f.f_lineno)
        self.held_by = None

    def _note(self, op):
        if S is not None:
            S.locklog.append((S.name(), op, self.site))

    def acquire(self, blocking=True, timeout=-1):
        if not blocking:
            if self.l:
                return False
            self.l = True
            self.owner = S.name()
            return True
        self._note('want')
        ok = S.block(lambda: not self.l, None if timeout in (-1, None) else timeout, what='Lock.acquire')
        if ok:
            self.l = True
            self.owner = S.name()
            self._note('got')
        return ok

    def release(self):
        if not self.l:
            raise RuntimeError('release unlocked lock')
        self.l = False
        self.owner = None
        self._note('rel')

    def locked(self):
        return self.l

    def __enter__(self):
        self.acquire()
        return self

    def __exit__(self, *a):
        self.release()


class DEvent:
    def __init__(self):
        self.f = False

    def set(self):
        self.f = True

    def clear(self):
        self.f = False

    def is_set(self):
        return self.f

    isSet = is_set

    def wait(self, timeout=None):
        return S.block(lambda: self.f, timeout, what='Event.wait')


class DQueue:
    def __init__(self, maxsize=0):
        self.q = []
        self.max = maxsize

    def put(self, x, block=True, timeout=None):
        if self.max > 0:
            if len(self.q) >= self.max:
                if not block:
                    raise _queue.Full
                if not S.block(lambda: len(self.q) < self.max, timeout, what='Queue.put'):
                    raise _queue.Full
        self.q.append(x)

    def put_nowait(self, x):
        return self.put(x, False)

    def get(self, block=True, timeout=None):
        if not self.q:
            if not block:
                raise _queue.Empty
            if not S.block(lambda: len(self.q) > 0, timeout, what='Queue.get'):
                raise _queue.Empty
        return self.q.pop(0)

    def get_nowait(self):
        return self.get(False)

    def empty(self):
        return not self.q

    def qsize(self):
        return len(self.q)

    def full(self):
        return self.max > 0 and len(self.q) >= self.max


class DTimer(_RealThread):
    def __init__(self, interval, function, args=None, kwargs=None):
        _RealThread.__init__(self)
        self.interval = interval
        self.function = function
        self.args = args or []
        self.kwargs = kwargs or {}
        self.cancelled = False
        self.fired = False

    def cancel(self):
        self.cancelled = True

    def run(self):
        S.block(lambda: self.cancelled, self.interval, what='Timer')
        if not self.cancelled:
            self.fired = True
            self.function(*self.args, **self.kwargs)


def d_start(t):
    if S is None:
        return _real_start(t)
    S.spawn(t)


def d_join(t, timeout=None):
    if S is None or t not in S.threads:
        return _real_join(t, timeout)
    if t is _real_current():
        raise RuntimeError('cannot join current thread')
    S.block(lambda: S.threads[t]['done'], timeout, what='join ' + S.threads[t]['name'])


def d_sleep(dt):
    if S is None:
        return _real_sleep(dt)
    S.block(lambda: False, dt, what='sleep')


def d_time():
    return S.now if S is not None else _real_time()


def d_is_alive(t):
    if S is not None and t in S.threads:
        return not S.threads[t]['done']
    return _orig_is_alive(t)


_orig_is_alive = _RealThread.is_alive
_patched_modules = []


def install(seed=0, choices=None, horizon=120.0, extra_modules=(), yield_on_start=True, line_yield=()):
    """Create the scheduler for one run and rebind the names cflib sees."""
    global S
    S = Sched(seed, choices, horizon, yield_on_start, line_yield)
    threading.Thread.start = d_start
    threading.Thread.join = d_join
    threading.Thread.is_alive = d_is_alive
    _time.sleep = d_sleep
    _time.time = d_time
    import cflib.crazyflie as A
    import cflib.crazyflie.param as P
    import cflib.crazyflie.mem as M
    import cflib.crazyflie.link_statistics as L
    import cflib.crazyflie.syncCrazyflie as Y
    import cflib.utils.callbacks as C
    import cflib.crazyflie.syncLogger as G
    binds = [(A, 'Lock', DLock), (A, 'Timer', DTimer), (P, 'Lock', DLock), (P, 'Event', DEvent), (P, 'Queue', DQueue),
             (M, 'Lock', DLock), (L, 'Event', DEvent), (Y, 'Event', DEvent), (C, 'Event', DEvent), (G, 'Queue', DQueue)]
    for mod, name, obj in list(binds) + list(extra_modules):
        _patched_modules.append((mod, name, getattr(mod, name)))
        setattr(mod, name, obj)
    return S


def uninstall():
    global S
    if S is not None:
        S.teardown()
    threading.Thread.start = _real_start
    threading.Thread.join = _real_join
    threading.Thread.is_alive = _orig_is_alive
    _time.sleep = _real_sleep
    _time.time = _real_time
    while _patched_modules:
        mod, name, old = _patched_modules.pop()
        setattr(mod, name, old)
    S = None
