import sys, json, glob, math
sys.path.insert(0,'/verif/harness')
import numpy as np
from fakes import c09_rooms as R
from cflib.localization.lighthouse_bs_vector import LighthouseBsVector
orig=LighthouseBsVector.projection
def summ(r):
    return (r['outcome'], r.get('success'), r.get('n_matched'), r.get('n_cleaned'), '%.1e'%r.get('guess_pos_err',-1), '%.1e'%r.get('max_pos_err',-1), '%.1e'%r.get('max_rot_err',-1), r.get('worst',[None])[0])
for f in sorted(glob.glob('/verif/.c09_bad_*.json')):
    case=json.load(open(f))
    LighthouseBsVector.projection=orig
    a=R.run_pipeline(case)
    LighthouseBsVector.projection=property(lambda self: np.array((math.tan(self._lh_v1_horiz_angle), math.tan(self._lh_v1_vert_angle))))
    b=R.run_pipeline(case)
    print(f.split('bad_')[1], case['mode'],len(case['bs']),len(case['cf']), summ(a), '| f64:', summ(b))
