#!/bin/bash
R="import re;p='cflib/positioning/motion_commander.py';s=open(p).read()"
RH="import re;p='cflib/positioning/position_hl_commander.py';s=open(p).read()"
W="open(p,'w').write(s)"
/verif/.c17_mut.sh no_rebase_z "$R
a='self._z_base = self._current_z()'
assert a in s
s=s.replace(a,'self._z_base = self._z_base')
$W"
/verif/.c17_mut.sh no_z_update_on_timeout "$R
a='''                self._new_setpoint(*event)
            except Empty:
                pass

            self._update_z_in_setpoint()
'''
assert a in s
s=s.replace(a,'''                self._new_setpoint(*event)
                self._update_z_in_setpoint()
            except Empty:
                pass

''')
$W"
/verif/.c17_mut.sh hl_goto_threshold "$RH
a='if distance > 0.0:'
assert a in s
s=s.replace(a,'if distance > 0.1:')
$W"
/verif/.c17_mut.sh double_timeout "$R
a='timeout=self.update_period)'
assert a in s
s=s.replace(a,'timeout=self.update_period * 2)')
$W"
/verif/.c17_mut.sh HARMLESS_rename_reorder "$R
a=s[s.index('        distance = math.sqrt(distance_x_m * distance_x_m +'):s.index('        self.start_linear_motion(velocity_x, velocity_y, velocity_z)')]
b='''        dist = math.sqrt(distance_x_m ** 2 + distance_y_m ** 2 + distance_z_m ** 2)
        duration = dist / velocity
        vx, vy, vz = (velocity * d / dist for d in (distance_x_m, distance_y_m, distance_z_m))
        velocity_x, velocity_y, velocity_z, flight_time = vx, vy, vz, duration

'''
s=s.replace(a,b)
$W"
/verif/.c17_mut.sh HARMLESS_early_return "$RH
a='''        if self._is_flying:
            try:
                landing_height = self._landing_height(landing_height)'''
assert a in s
i=s.index(a)
j=s.index('    def __enter__', i)
body=s[i:j]
lines=body.split(chr(10))
new=['        if not self._is_flying:','            return']+[l[4:] if l.startswith('    ') else l for l in lines[1:]]
s=s[:i]+chr(10).join(new)+s[j:]
$W"
