(* C01/Model.v — executable model of the Crazyradio link loop and of its environment.

   HOST side (hand-written from cflib/crtp/radiodriver.py, class _RadioDriverThread, and
   RadioDriver.send_packet / receive_packet; cflib/crtp/crtpstack.py CRTPPacket.__init__;
   cflib/drivers/crazyradio.py Crazyradio.send_packet for the decoding of the dongle's answer):
     stamp / host_frame        _send_packet_safe, first half (header bits 3 and 2, in place)
     host_recv                 _send_packet_safe, second half, then the body of run() after the
                               transmission: retry counter, link error, in_queue.put, dequeue
     neg_step / host_boot      the "try up to 10 times" loop at the top of run()
     radio_ack_of_usb          Crazyradio.send_packet: status byte + payload -> _radio_ack
   ENVIRONMENT (reconstructed from the safelink protocol; not cflib code):
     peer_recv                 the Crazyflie's radio end (nRF51 ESB): one-bit counters, ack payload queue
     outcome                   what the channel does to one transmission
   WORLD: host + peer + the logs the property talks about (accepted, queued, got).

   Definitions only; every function is total and executable (vm_compute) so that the harness can run
   it next to the real code.  Tied to the code by harness/props/c01.py on every run. *)
From CF Require Export Common.Bytes.
Open Scope Z_scope.

Definition frame := list Z.

(* ------------------------------------------------------------------ header bits *)

(* packet[0] &= 0xF3 ; packet[0] |= up << 3 | down << 2 *)
Definition stamp_hdr (up down : bool) (h : Z) : Z :=
  Z.lor (Z.land h 243) (Z.lor (Z.shiftl (Z.b2z up) 3) (Z.shiftl (Z.b2z down) 2)).

(* Python: packet[0] on an empty array raises IndexError.  dataOut is never empty (theorem
   C01_dataout_never_empty); the [] branch is there only to make the function total. *)
Definition stamp (up down : bool) (f : frame) : frame :=
  match f with
  | [] => []
  | h :: t => stamp_hdr up down h :: t
  end.

(* the packet a frame carries once the two link bits are masked out *)
Definition norm (f : frame) : frame :=
  match f with
  | [] => []
  | h :: t => Z.land h 243 :: t
  end.

(* CRTPPacket(data[0], data[1:]).header == data[0] | 0x3 << 2 *)
Definition crtp_in (d0 : Z) (rest : list Z) : frame := Z.lor d0 12 :: rest.

(* what the host must hand to the application for a packet q queued by the Crazyflie *)
Definition dnorm (q : frame) : frame :=
  match q with
  | [] => []
  | h :: t => Z.lor (Z.land h 243) 12 :: t
  end.

(* not a link-layer null/service packet: port 15 channel 3 is the link's own *)
Definition nnb (f : frame) : bool :=
  match f with
  | [] => false
  | h :: _ => negb (Z.land h 243 =? 243)
  end.

(* ------------------------------------------------------------------ host *)

Record host := mkHost {
  h_safe : bool;            (* _has_safelink *)
  h_up : bool;              (* _curr_up   (0/1) *)
  h_down : bool;            (* _curr_down (0/1) *)
  h_out : frame;            (* dataOut *)
  h_retry : Z;              (* _retry_before_disconnect *)
  h_outq : option frame;    (* out_queue, maxsize 1; a packet is header :: data *)
  h_inq : list frame;       (* in_queue; a CRTPPacket is header :: data *)
  h_errs : Z;               (* number of link_error_callback('Too many packets lost') calls *)
  h_needs : bool            (* link.needs_resending *)
}.

(* a fresh RadioDriver + _RadioDriverThread; N = _nr_of_retries *)
Definition host0 (N : Z) : host := mkHost false false true [255] N None [] 0 true.

(* what radio.send_packet returns: None, or a _radio_ack with .ack and .data *)
Inductive resp := RNone | RAck (ack : bool) (data : list Z).

(* Crazyradio.send_packet builds a _radio_ack from the dongle's answer (status byte :: payload):
     if data[0] != 0: ack = data[0] & 1 != 0; powerDet = data[0] & 2 != 0; retry = data[0] >> 4; data = data[1:]
     else:            ack = False; powerDet = False; retry = self.arc; data = ()
   usb.USBError on write/read -> None. *)
Record radio_ack := mkAck { a_ack : bool; a_pdet : bool; a_retry : Z; a_data : list Z }.

Definition parse_ack (arc : Z) (u : option (list Z)) : option radio_ack :=
  match u with
  | None => None
  | Some [] => None   (* data[0] on an empty read raises IndexError: not produced by the dongle *)
  | Some (s :: payload) =>
      if s =? 0 then Some (mkAck false false arc [])
      else Some (mkAck (negb (Z.land s 1 =? 0)) (negb (Z.land s 2 =? 0)) (Z.shiftr s 4) payload)
  end.

(* the part of it the radio loop looks at *)
Definition resp_of_ack (a : option radio_ack) : resp :=
  match a with None => RNone | Some x => RAck (a_ack x) (a_data x) end.

Definition radio_ack_of_usb (u : option (list Z)) : resp := resp_of_ack (parse_ack 3 u).

(* RadioLinkStatistics._update_link_quality: window of the last 100 values of (10 - ack.retry);
   link_quality = sum / len * 10.  Kept apart from `host`: nothing in the loop reads it. *)
Definition lq_push (w : list Z) (retry : Z) : list Z :=
  let w1 := w ++ [10 - retry] in if (100 <? Z.of_nat (length w1)) then tl w1 else w1.
Definition lq_sum (w : list Z) : Z := fold_right Z.add 0 w.

(* the bytes handed to radio.send_packet in the main loop *)
Definition host_frame (h : host) : frame :=
  if h_safe h then stamp (h_up h) (h_down h) (h_out h) else h_out h.

(* _send_packet_safe, up to the call of cr.send_packet: the header bits are written in place *)
Definition host_sent (h : host) : host :=
  mkHost (h_safe h) (h_up h) (h_down h) (host_frame h) (h_retry h) (h_outq h) (h_inq h) (h_errs h) (h_needs h).

(* _send_packet_safe, after cr.send_packet returned r: the two one-bit counters *)
Definition host_flip (r : resp) (h : host) : host :=
  match r with
  | RNone => h
  | RAck ack data =>
      let down1 :=
        if h_safe h then
          match data with
          | d0 :: _ =>
              if ack && (Z.land d0 4 =? Z.shiftl (Z.b2z (h_down h)) 2) then negb (h_down h) else h_down h
          | [] => h_down h
          end
        else h_down h in
      let up1 := if h_safe h && ack then negb (h_up h) else h_up h in
      mkHost (h_safe h) up1 down1 (h_out h) (h_retry h) (h_outq h) (h_inq h) (h_errs h) (h_needs h)
  end.

(* the body of run() below the try/except, applied to the value of the local `ackStatus`.
   Result: new host state, and whether link_error_callback('Too many packets lost') was called. *)
Definition host_loop (N : Z) (r : resp) (h : host) : host * bool :=
  match r with
  | RNone => (h, false)                               (* "if ackStatus is None: continue" *)
  | RAck ack data =>
      if negb ack then
        let r1 := h_retry h - 1 in
        let e := r1 =? 0 in
        (mkHost (h_safe h) (h_up h) (h_down h) (h_out h) r1 (h_outq h) (h_inq h)
                (if e then h_errs h + 1 else h_errs h) (h_needs h), e)
      else
        let inq1 := match data with
                    | [] => h_inq h
                    | d0 :: rest => h_inq h ++ [crtp_in d0 rest]
                    end in
        let out2 := match h_outq h with
                    | Some f => f
                    | None => [255]
                    end in
        (mkHost (h_safe h) (h_up h) (h_down h) out2 N None inq1 (h_errs h) (h_needs h), false)
  end.

(* one iteration in which radio.send_packet returned r (no exception) *)
Definition host_recv (N : Z) (r : resp) (h : host) : host * bool :=
  host_loop N r (host_flip r (host_sent h)).

(* one iteration in which radio.send_packet RAISED: link_error_callback('Error communicating with crazy
   radio ...') is called, `ackStatus` keeps the value of the previous iteration (`stale`) and the rest of
   the body runs on it AGAIN; the counters are not touched (the raise comes before them). *)
Definition host_exc (N : Z) (stale : resp) (h : host) : host * bool :=
  host_loop N stale (host_sent h).

(* safelink negotiation: one attempt of radio.send_packet((0xff, 0x05, 0x01)) *)
Definition enable_frame : frame := [255; 5; 1].

Definition confirms (r : resp) : bool :=
  match r with
  | RNone => false
  | RAck _ data => zlist_eqb data enable_frame     (* note: .ack is not looked at *)
  end.

(* host side of the negotiation given the answers to the successive attempts; an exhausted list
   stands for "no answer".  Returns the host and the number of attempts made. *)
Fixpoint host_boot_loop (n : nat) (rs : list resp) (made : nat) : bool * nat :=
  match n with
  | O => (false, made)
  | S n' =>
      match rs with
      | [] => host_boot_loop n' [] (S made)
      | r :: rs' => if confirms r then (true, S made) else host_boot_loop n' rs' (S made)
      end
  end.

Definition host_after_boot (ok : bool) (h : host) : host :=
  if ok then mkHost true false false (h_out h) (h_retry h) (h_outq h) (h_inq h) (h_errs h) false
  else mkHost false (h_up h) (h_down h) (h_out h) (h_retry h) (h_outq h) (h_inq h) (h_errs h) true.

Definition host_boot (rs : list resp) (h : host) : host * nat :=
  let '(ok, made) := host_boot_loop 10 rs 0 in (host_after_boot ok h, made).

(* RadioDriver.send_packet: out_queue.put(pk, True, 2).  A full queue blocks the caller; the model
   says "not accepted" (the caller's later retry is a later Submit). *)
Definition host_submit (p : frame) (h : host) : host * bool :=
  match h_outq h with
  | Some _ => (h, false)
  | None => (mkHost (h_safe h) (h_up h) (h_down h) (h_out h) (h_retry h) (Some p) (h_inq h)
                    (h_errs h) (h_needs h), true)
  end.

(* RadioDriver.receive_packet(0) *)
Definition host_receive (h : host) : host * option frame :=
  match h_inq h with
  | [] => (h, None)
  | x :: t => (mkHost (h_safe h) (h_up h) (h_down h) (h_out h) (h_retry h) (h_outq h) t
                      (h_errs h) (h_needs h), Some x)
  end.

(* RadioDriver.send_packet whose out_queue.put(pk, True, 2) ran into its 2 s timeout: queue.Full ->
   link_error_callback('RadioDriver: Could not send packet to copter') FROM THE SENDING THREAD, returns
   False.  Possible only while the queue is full; on a non-full queue the put succeeds at once.
   Result: host, accepted?, error reported? *)
Definition host_submit_timeout (p : frame) (h : host) : host * bool * bool :=
  match h_outq h with
  | Some _ => (h, false, true)
  | None => (fst (host_submit p h), true, false)
  end.

(* RadioDriver.receive_packet(wait): wait == 0 -> in_queue.get(False); wait < 0 -> in_queue.get(True) (blocks
   until a packet is there); wait > 0 -> in_queue.get(True, wait).  On a non-empty queue all three return
   the head.  On an empty queue: 0 and > 0 return None (the latter after `wait` seconds); < 0 does not
   return — modelled as "still blocked" (no effect), third component true. *)
Definition host_receive_wait (wait : Z) (h : host) : host * option frame * bool :=
  match h_inq h with
  | [] => (h, None, wait <? 0)
  | _ => let '(h1, x) := host_receive h in (h1, x, false)
  end.

(* RadioDriver.close(): stop the thread, close the dongle, THROW AWAY what is in out_queue, clear the
   callbacks.  in_queue is left as it is.  (dataOut is a local of the stopped thread: gone as well.) *)
Definition host_close (h : host) : host :=
  mkHost (h_safe h) (h_up h) (h_down h) (h_out h) (h_retry h) None (h_inq h) (h_errs h) (h_needs h).

(* ------------------------------------------------------------------ peer (environment) *)

Record peer := mkPeer {
  p_on : bool;              (* safelink enabled *)
  p_up : bool;              (* bit 3 of the last accepted uplink frame *)
  p_down : bool;            (* bit 2 for which the current ack payload was prepared *)
  p_rx : list frame;        (* uplink packets handed to the firmware, in order *)
  p_txq : list frame;       (* downlink packets waiting *)
  p_last : option frame     (* ack payload last prepared (unstamped) *)
}.

Definition is_enable (f : frame) : bool :=
  match f with
  | [a; b; _] => (Z.land a 243 =? 243) && (b =? 5)
  | _ => false
  end.

(* prepare the ack payload: a new one (from the queue, or a null packet 0xF3 :: fill) or the last again *)
Definition peer_next (advance : bool) (fill : list Z) (p : peer) : peer * frame :=
  let renew := advance || match p_last p with None => true | Some _ => false end in
  let p1 :=
    if renew then
      match p_txq p with
      | q :: t => mkPeer (p_on p) (p_up p) (p_down p) (p_rx p) t (Some q)
      | [] => mkPeer (p_on p) (p_up p) (p_down p) (p_rx p) [] (Some (243 :: fill))
      end
    else p in
  let l := match p_last p1 with Some l => l | None => [] end in
  (p1, if p_on p1 then stamp (p_up p1) (p_down p1) l else l).

Definition peer_recv (f : frame) (fill : list Z) (p : peer) : peer * frame :=
  if is_enable f then
    (mkPeer (negb (nth 2 f 0 =? 0)) true true (p_rx p) (p_txq p) None, f)
  else if negb (p_on p) then
    peer_next true fill (mkPeer (p_on p) (p_up p) (p_down p) (p_rx p ++ [f]) (p_txq p) (p_last p))
  else
    let b3 := Z.testbit (hd 0 f) 3 in
    let b2 := Z.testbit (hd 0 f) 2 in
    let p1 := if Bool.eqb b3 (p_up p) then p
              else mkPeer (p_on p) b3 (p_down p) (p_rx p ++ [norm f]) (p_txq p) (p_last p) in
    if Bool.eqb b2 (p_down p1) then peer_next false fill p1
    else peer_next true fill (mkPeer (p_on p1) (p_up p1) b2 (p_rx p1) (p_txq p1) (p_last p1)).

(* ------------------------------------------------------------------ channel and world *)

Inductive outcome := Ok | UpLost | AckLost.

(* one transmission of frame f through the channel to the peer; the dongle's answer as the host sees it *)
Definition transmit (o : outcome) (f : frame) (fill : list Z) (p : peer) : peer * resp :=
  match o with
  | UpLost => (p, RAck false [])
  | AckLost => (fst (peer_recv f fill p), RAck false [])
  | Ok => let '(p1, r) := peer_recv f fill p in (p1, RAck true r)
  end.

Record world := mkW {
  w_h : host;
  w_p : peer;
  w_accepted : list frame;   (* log: packets for which RadioDriver.send_packet returned True *)
  w_queued : list frame;     (* log: packets the Crazyflie queued for the host *)
  w_got : list frame;        (* log: packets returned by RadioDriver.receive_packet *)
  w_last : resp;             (* the loop's local `ackStatus`: the answer of the previous iteration *)
  w_xerrs : Z;               (* link_error_callback('Error communicating with crazy radio ...') calls *)
  w_serrs : Z                (* link_error_callback('RadioDriver: Could not send packet to copter') calls *)
}.

Inductive event :=
| Submit (hdr : Z) (data : list Z)        (* application thread: link.send_packet(pk) *)
| PeerQueue (hdr : Z) (data : list Z)     (* Crazyflie firmware queues a packet for the host *)
| Recv                                    (* application thread: link.receive_packet(0) *)
| Tx (o : outcome) (fill : list Z)        (* one iteration of the radio loop; fill = bytes after 0xF3 of
                                             the null packet the peer answers with when it has nothing *)
| TxUsb (exc : bool)                      (* one iteration in which the dongle fails: radio.send_packet returns
                                             None (exc = false: usb.USBError swallowed by Crazyradio) or raises *)
| SubmitTimeout (hdr : Z) (data : list Z) (* link.send_packet(pk) that gave up after its 2 s *)
| RecvWait (wait : Z).                    (* link.receive_packet(wait) *)

Definition step (N : Z) (e : event) (w : world) : world :=
  match e with
  | Submit hdr data =>
      let '(h1, ok) := host_submit (hdr :: data) (w_h w) in
      mkW h1 (w_p w) (if ok then w_accepted w ++ [hdr :: data] else w_accepted w) (w_queued w) (w_got w)
          (w_last w) (w_xerrs w) (w_serrs w)
  | PeerQueue hdr data =>
      let p := w_p w in
      mkW (w_h w) (mkPeer (p_on p) (p_up p) (p_down p) (p_rx p) (p_txq p ++ [hdr :: data]) (p_last p))
          (w_accepted w) (w_queued w ++ [hdr :: data]) (w_got w) (w_last w) (w_xerrs w) (w_serrs w)
  | Recv =>
      let '(h1, x) := host_receive (w_h w) in
      mkW h1 (w_p w) (w_accepted w) (w_queued w)
          (match x with Some f => w_got w ++ [f] | None => w_got w end) (w_last w) (w_xerrs w) (w_serrs w)
  | Tx o fill =>
      let '(p1, r) := transmit o (host_frame (w_h w)) fill (w_p w) in
      mkW (fst (host_recv N r (w_h w))) p1 (w_accepted w) (w_queued w) (w_got w) r (w_xerrs w) (w_serrs w)
  | TxUsb false =>
      mkW (fst (host_recv N RNone (w_h w))) (w_p w) (w_accepted w) (w_queued w) (w_got w) RNone
          (w_xerrs w) (w_serrs w)
  | TxUsb true =>
      mkW (fst (host_exc N (w_last w) (w_h w))) (w_p w) (w_accepted w) (w_queued w) (w_got w) (w_last w)
          (w_xerrs w + 1) (w_serrs w)
  | SubmitTimeout hdr data =>
      let '(h1, ok, err) := host_submit_timeout (hdr :: data) (w_h w) in
      mkW h1 (w_p w) (if ok then w_accepted w ++ [hdr :: data] else w_accepted w) (w_queued w) (w_got w)
          (w_last w) (w_xerrs w) (if err then w_serrs w + 1 else w_serrs w)
  | RecvWait wait =>
      let '(h1, x, _) := host_receive_wait wait (w_h w) in
      mkW h1 (w_p w) (w_accepted w) (w_queued w)
          (match x with Some f => w_got w ++ [f] | None => w_got w end) (w_last w) (w_xerrs w) (w_serrs w)
  end.

Definition run (N : Z) (w : world) (evs : list event) : world :=
  fold_left (fun w e => step N e w) evs w.

(* ---- link start-up against the peer ---- *)

Inductive negout :=
| NOk                       (* enable packet delivered, echo received *)
| NUpLost                   (* enable packet lost *)
| NAckLost                  (* delivered, echo lost *)
| NOther (ack : bool) (g : list Z).   (* delivered; the host sees some other answer g (a peer that does
                                          not know the request, a corrupted payload, ack flag either way) *)

Definition neg_transmit (o : negout) (p : peer) : peer * resp :=
  match o with
  | NUpLost => (p, RAck false [])
  | NAckLost => (fst (peer_recv enable_frame [] p), RAck false [])
  | NOk => let '(p1, r) := peer_recv enable_frame [] p in (p1, RAck true r)
  | NOther a g => (fst (peer_recv enable_frame [] p), RAck a g)
  end.

(* at most n more attempts; returns peer, confirmed?, the answers seen (in order) *)
Fixpoint boot_loop (n : nat) (negs : list negout) (p : peer) : peer * bool * list resp :=
  match n with
  | O => (p, false, [])
  | S n' =>
      let o := match negs with [] => NUpLost | o :: _ => o end in
      let '(p1, r) := neg_transmit o p in
      if confirms r then (p1, true, [r])
      else let '(p2, ok, rs) := boot_loop n' (tl negs) p1 in (p2, ok, r :: rs)
  end.

Definition world0 (N : Z) (p0 : peer) : world := mkW (host0 N) p0 [] (p_txq p0) [] RNone 0 0.

Definition boot (negs : list negout) (w : world) : world :=
  let '(p1, ok, _) := boot_loop 10 negs (w_p w) in
  mkW (host_after_boot ok (w_h w)) p1 (w_accepted w) (w_queued w) (w_got w) (w_last w) (w_xerrs w) (w_serrs w).

Definition close_world (w : world) : world :=
  mkW (host_close (w_h w)) (w_p w) (w_accepted w) (w_queued w) (w_got w) (w_last w) (w_xerrs w) (w_serrs w).

Definition session (N : Z) (p0 : peer) (negs : list negout) (evs : list event) : world :=
  run N (boot negs (world0 N p0)) evs.

(* ---- several sessions on ONE RadioDriver object (and one link object = the driver itself) ----
   pause() + restart():  the thread is stopped and a NEW _RadioDriverThread is made with the SAME in_queue and
                         out_queue; close() + connect(): the thread is stopped, out_queue is emptied, NEW queues
                         are made, then a new thread.  Either way the new thread starts from its __init__ values
                         (_has_safelink False, _curr_up 0, _curr_down 1, retry counter N) and from fresh locals
                         (dataOut = [0xFF], ackStatus None): the frame in flight is gone.  What survives on the
                         driver object: needs_resending (until the new start-up loop has run), the queues
                         (restart only).  The peer is whatever it is.  The logs and callback counts go on. *)
Inductive reopen := Restart | Reconnect.

Definition host_reopen (N : Z) (how : reopen) (h : host) : host :=
  mkHost false false true [255] N
         (match how with Restart => h_outq h | Reconnect => None end)
         (match how with Restart => h_inq h | Reconnect => [] end)
         (h_errs h) (h_needs h).

Definition reopen_world (N : Z) (how : reopen) (w : world) : world :=
  mkW (host_reopen N how (w_h w)) (w_p w) (w_accepted w) (w_queued w) (w_got w) RNone (w_xerrs w) (w_serrs w).

Definition next_session (N : Z) (w : world) (s : reopen * list negout * list event) : world :=
  let '(how, negs, evs) := s in run N (boot negs (reopen_world N how w)) evs.

Definition history (N : Z) (p0 : peer) (negs : list negout) (evs : list event)
           (more : list (reopen * list negout * list event)) : world :=
  fold_left (next_session N) more (session N p0 negs evs).

(* ------------------------------------------------------------------ what the theorems talk about *)

Definition olist {A} (o : option A) : list A := match o with Some x => [x] | None => [] end.

(* accepted uplink packets that have not reached the peer yet: the frame in dataOut if the peer has
   not taken it (its bit 3 still differs from the peer's), then the packet in out_queue *)
Definition up_pending (w : world) : list frame :=
  (if Bool.eqb (h_up (w_h w)) (p_up (w_p w)) then [] else filter nnb [norm (h_out (w_h w))])
  ++ map norm (olist (h_outq (w_h w))).

(* queued downlink packets not yet in in_queue: the ack payload whose acknowledgement was lost, then
   the peer's queue *)
Definition down_pending (w : world) : list frame :=
  (if Bool.eqb (h_down (w_h w)) (p_down (w_p w)) then filter nnb (map dnorm (olist (p_last (w_p w)))) else [])
  ++ map dnorm (p_txq (w_p w)).

(* application packets: anything but port 15 / channel 3 *)
Definition ev_ok (e : event) : Prop :=
  match e with
  | Submit hdr _ => Z.land hdr 243 <> 243
  | PeerQueue hdr _ => Z.land hdr 243 <> 243
  | SubmitTimeout hdr _ => Z.land hdr 243 <> 243
  | TxUsb exc => exc = false       (* the dongle may fail silently (None); an exception is a reported link failure *)
  | _ => True
  end.

(* start state of the Crazyflie end: nothing received yet, only application packets queued *)
Definition peer_ok0 (p0 : peer) : Prop :=
  p_rx p0 = [] /\ Forall (fun q => nnb q = true) (p_txq p0).

(* the negotiation at link start-up was confirmed (the host switched to safelink mode) *)
Definition confirmed (N : Z) (p0 : peer) (negs : list negout) : Prop :=
  h_safe (w_h (boot negs (world0 N p0))) = true.

Definition tx_outcomes (evs : list event) : list outcome :=
  flat_map (fun e => match e with Tx o _ => [o] | _ => [] end) evs.

(* no iteration in which radio.send_packet raised *)
Definition no_exc (e : event) : Prop := match e with TxUsb true => False | _ => True end.

Definition not_tx (e : event) : Prop := match e with Tx _ _ => False | TxUsb true => False | _ => True end.

Definition is_tx_ok (e : event) : bool := match e with Tx Ok _ => true | _ => false end.

Definition is_ok (o : outcome) : bool := match o with Ok => true | _ => false end.

(* number of unacknowledged transmissions since the last acknowledged one *)
Fixpoint count_lost_prefix (l : list outcome) : Z :=
  match l with
  | [] => 0
  | o :: t => if is_ok o then 0 else 1 + count_lost_prefix t
  end.
Definition trailing_unacked (os : list outcome) : Z := count_lost_prefix (rev os).

(* ------------------------------------------------------------------ observation (used by the tie) *)

Definition flatf (l : list frame) : list Z := concat (map (fun f => Z.of_nat (length f) :: f) l).
Definition b2 (b : bool) : Z := if b then 1 else 0.

Definition resp_obs (r : resp) : list Z :=
  match r with
  | RNone => [-1]
  | RAck a d => b2 a :: Z.of_nat (length d) :: d
  end.

(* per transmission: frame on the wire, answer seen by the host (-1: None, -7: raised); other events:
   acceptance / returned packet; after every event the three error-callback counts and the in_queue length *)
Fixpoint run_obs (N : Z) (w : world) (evs : list event) : list Z * world :=
  match evs with
  | [] => ([], w)
  | e :: t =>
      let w1 := step N e w in
      let grew := b2 (negb (Nat.eqb (length (w_accepted w1)) (length (w_accepted w)))) in
      let o :=
        match e with
        | Tx o fill =>
            let f := host_frame (w_h w) in
            let r := snd (transmit o f fill (w_p w)) in
            (Z.of_nat (length f) :: f) ++ resp_obs r
        | TxUsb exc => let f := host_frame (w_h w) in (Z.of_nat (length f) :: f) ++ [if exc then -7 else -1]
        | Submit _ _ => [grew]
        | SubmitTimeout _ _ => [grew; w_serrs w1 - w_serrs w]
        | Recv => match snd (host_receive (w_h w)) with Some f => Z.of_nat (length f) :: f | None => [-1] end
        | RecvWait wt =>
            match host_receive_wait wt (w_h w) with
            | (_, Some f, _) => Z.of_nat (length f) :: f
            | (_, None, blocked) => [if blocked then -8 else -1]
            end
        | PeerQueue _ _ => []
        end in
      let '(os, w2) := run_obs N w1 t in
      (o ++ [h_errs (w_h w1); w_xerrs w1; w_serrs w1; Z.of_nat (length (h_inq (w_h w1)))] ++ os, w2)
  end.

Definition host_obs (h : host) : list Z :=
  [b2 (h_safe h); b2 (h_up h); b2 (h_down h); h_retry h; h_errs h; b2 (h_needs h)]
  ++ (Z.of_nat (length (host_frame h)) :: host_frame h)     (* the frame the next transmission would carry *)
  ++ flatf (olist (h_outq h)) ++ [-2] ++ flatf (h_inq h) ++ [-3].

Definition world_obs (w : world) : list Z :=
  let p := w_p w in
  host_obs (w_h w)
  ++ [b2 (p_on p); b2 (p_up p); b2 (p_down p)] ++ flatf (p_rx p) ++ [-4] ++ flatf (p_txq p) ++ [-5]
  ++ flatf (olist (p_last p)) ++ [-6] ++ flatf (w_got w).

(* boot as the host sees it: the answers to its attempts; `close` = RadioDriver.close() after the last event *)
Definition session_obs (N : Z) (p0 : peer) (negs : list negout) (evs : list event) (close : bool) : list Z :=
  let w0 := world0 N p0 in
  let '(_, _, rs) := boot_loop 10 negs (w_p w0) in
  let '(os, w) := run_obs N (boot negs w0) evs in
  (Z.of_nat (length rs) :: concat (map resp_obs rs)) ++ os ++ world_obs (if close then close_world w else w).

(* ---- host alone, driven by arbitrary dongle answers (no peer): widens the tie to answers the peer
        model never produces (USB errors, exceptions, empty payloads, wrong bits, unacknowledged payloads) ---- *)
Inductive hevent :=
| HSubmit (hdr : Z) (data : list Z)
| HRecv
| HTx (u : option (list Z))        (* raw USB read: None = USBError, Some (status :: payload) *)
| HTxExc                           (* radio.send_packet raises *)
| HSubmitTimeout (hdr : Z) (data : list Z)
| HRecvWait (wait : Z)
| HNop.                             (* something that does not involve the host (the firmware queues a packet) *)

Record hworld := mkHW { hw_h : host; hw_got : list frame; hw_last : resp; hw_xerrs : Z; hw_serrs : Z }.

Definition hstep (N : Z) (e : hevent) (w : hworld) : list Z * hworld :=
  let h := hw_h w in
  match e with
  | HSubmit hdr data =>
      let '(h1, ok) := host_submit (hdr :: data) h in
      ([b2 ok], mkHW h1 (hw_got w) (hw_last w) (hw_xerrs w) (hw_serrs w))
  | HSubmitTimeout hdr data =>
      let '(h1, ok, err) := host_submit_timeout (hdr :: data) h in
      ([b2 ok; b2 err], mkHW h1 (hw_got w) (hw_last w) (hw_xerrs w) (hw_serrs w + b2 err))
  | HRecv =>
      let '(h1, x) := host_receive h in
      (match x with Some f => Z.of_nat (length f) :: f | None => [-1] end,
       mkHW h1 (match x with Some f => hw_got w ++ [f] | None => hw_got w end) (hw_last w) (hw_xerrs w) (hw_serrs w))
  | HRecvWait wt =>
      let '(h1, x, blocked) := host_receive_wait wt h in
      (match x with Some f => Z.of_nat (length f) :: f | None => [if blocked then -8 else -1] end,
       mkHW h1 (match x with Some f => hw_got w ++ [f] | None => hw_got w end) (hw_last w) (hw_xerrs w) (hw_serrs w))
  | HTx u =>
      let f := host_frame h in let r := radio_ack_of_usb u in
      ((Z.of_nat (length f) :: f) ++ resp_obs r,
       mkHW (fst (host_recv N r h)) (hw_got w) r (hw_xerrs w) (hw_serrs w))
  | HNop => ([], w)
  | HTxExc =>
      let f := host_frame h in
      ((Z.of_nat (length f) :: f) ++ [-7],
       mkHW (fst (host_exc N (hw_last w) h)) (hw_got w) (hw_last w) (hw_xerrs w + 1) (hw_serrs w))
  end.

Fixpoint hrun_obs (N : Z) (w : hworld) (evs : list hevent) : list Z * hworld :=
  match evs with
  | [] => ([], w)
  | e :: t =>
      let '(o, w1) := hstep N e w in
      let '(os, w2) := hrun_obs N w1 t in
      (o ++ [h_errs (hw_h w1); hw_xerrs w1; hw_serrs w1; Z.of_nat (length (h_inq (hw_h w1)))] ++ os, w2)
  end.

Definition host_session_obs (N : Z) (us : list (option (list Z))) (evs : list hevent) (close : bool) : list Z :=
  let rs := map radio_ack_of_usb us in
  let '(h, made) := host_boot rs (host0 N) in
  let '(os, w) := hrun_obs N (mkHW h [] RNone 0 0) evs in
  (Z.of_nat made :: concat (map resp_obs (firstn made rs))) ++ os
  ++ host_obs (if close then host_close (hw_h w) else hw_h w) ++ flatf (hw_got w).

(* Crazyradio.send_packet's _radio_ack, flattened: -1 for None, else ack, powerDet, retry, len, data *)
Definition ack_obs (a : option radio_ack) : list Z :=
  match a with
  | None => [-1]
  | Some x => [b2 (a_ack x); b2 (a_pdet x); a_retry x; Z.of_nat (length (a_data x))] ++ a_data x
  end.

(* several sessions: per session the start-up answers and the event observations; final state at the end *)
Definition part_obs (N : Z) (w : world) (negs : list negout) (evs : list event) : list Z * world :=
  let '(_, _, rs) := boot_loop 10 negs (w_p w) in
  let '(os, w1) := run_obs N (boot negs w) evs in
  ((Z.of_nat (length rs) :: concat (map resp_obs rs)) ++ os, w1).

Fixpoint more_obs (N : Z) (w : world) (more : list (reopen * list negout * list event)) : list Z * world :=
  match more with
  | [] => ([], w)
  | (how, negs, evs) :: t =>
      let '(o, w1) := part_obs N (reopen_world N how w) negs evs in
      let '(os, w2) := more_obs N w1 t in
      ((b2 (h_safe (w_h w1)) :: b2 (h_needs (w_h w1)) :: o) ++ os, w2)
  end.

Definition history_obs (N : Z) (p0 : peer) (negs : list negout) (evs : list event)
           (more : list (reopen * list negout * list event)) (close : bool) : list Z :=
  let '(o, w1) := part_obs N (world0 N p0) negs evs in
  let '(os, w2) := more_obs N w1 more in
  (b2 (h_safe (w_h w1)) :: b2 (h_needs (w_h w1)) :: o) ++ os ++ world_obs (if close then close_world w2 else w2).

(* ================================================================== one layer down: the shared dongle
   radiodriver._SharedRadio.run (one thread per dongle, serving the command queue of all _SharedRadioInstance
   objects) on top of crazyradio.Crazyradio (which remembers current_channel / current_address /
   current_datarate and sends a vendor request only when the value changes).
     SEND_PACKET   (channel, address, datarate, data): set_channel; set_address; set_data_rate; send_packet
     SCAN_CHANNELS (datarate, address, start, stop, packet): set_data_rate; set_address; Crazyradio.scan_channels
                   = for i in start..stop: set_channel(i); send_packet(packet)        (PC-driven scan)
     SCAN_SELECTED (datarate, address, selected, data): set_data_rate; set_address; Crazyradio.scan_selected
                   = for s in selected: set_channel(s.channel); set_data_rate(s.datarate); send_packet(data)
     SET_ARC, STOP: no tuning.  Re-opening after the last STOP makes a new Crazyradio (CReset). *)
Record setting := mkSet { s_ch : Z; s_dr : Z; s_addr : list Z }.

Record dongle := mkDongle {
  d_hw : setting;                 (* what the radio hardware is tuned to *)
  d_cch : option Z;               (* Crazyradio.current_channel *)
  d_cdr : option Z;               (* Crazyradio.current_datarate *)
  d_caddr : option (list Z)       (* Crazyradio.current_address *)
}.

Definition oz_eqb (o : option Z) (z : Z) : bool := match o with Some x => x =? z | None => false end.
Definition ol_eqb (o : option (list Z)) (l : list Z) : bool :=
  match o with Some x => zlist_eqb x l | None => false end.

Definition cr_set_channel (c : Z) (d : dongle) : dongle :=
  if oz_eqb (d_cch d) c then d
  else mkDongle (mkSet c (s_dr (d_hw d)) (s_addr (d_hw d))) (Some c) (d_cdr d) (d_caddr d).
Definition cr_set_data_rate (r : Z) (d : dongle) : dongle :=
  if oz_eqb (d_cdr d) r then d
  else mkDongle (mkSet (s_ch (d_hw d)) r (s_addr (d_hw d))) (d_cch d) (Some r) (d_caddr d).
Definition cr_set_address (a : list Z) (d : dongle) : dongle :=
  if ol_eqb (d_caddr d) a then d
  else mkDongle (mkSet (s_ch (d_hw d)) (s_dr (d_hw d)) a) (d_cch d) (d_cdr d) (Some a).

(* Crazyradio.__init__: set_data_rate(DR_2MPS = 2); set_channel(2); ... set_address((0xE7,)*5) *)
Definition dongle0 : dongle := mkDongle (mkSet 2 2 [231; 231; 231; 231; 231]) (Some 2) (Some 2) (Some [231; 231; 231; 231; 231]).

Inductive rcmd :=
| CSend (inst : Z) (s : setting) (pk : frame)
| CScanChannels (inst : Z) (dr : Z) (addr : list Z) (start : Z) (count : nat) (pk : frame)
| CScanSelected (inst : Z) (dr : Z) (addr : list Z) (sel : list (Z * Z)) (pk : frame)   (* (channel, datarate) *)
| CSetArc (inst : Z) (arc : Z)
| CStop (inst : Z)
| CReset.

(* one packet on the air: what the hardware was tuned to, the bytes, and for a SEND_PACKET who asked for what *)
Record airtx := mkAir { x_hw : setting; x_pk : frame; x_req : option (Z * setting) }.

Fixpoint scan_channels_loop (start : Z) (n : nat) (pk : frame) (d : dongle) : list airtx * dongle :=
  match n with
  | O => ([], d)
  | S k => let d1 := cr_set_channel start d in
           let '(l, d2) := scan_channels_loop (start + 1) k pk d1 in
           (mkAir (d_hw d1) pk None :: l, d2)
  end.

Fixpoint scan_selected_loop (sel : list (Z * Z)) (pk : frame) (d : dongle) : list airtx * dongle :=
  match sel with
  | [] => ([], d)
  | (c, r) :: t => let d1 := cr_set_data_rate r (cr_set_channel c d) in
                   let '(l, d2) := scan_selected_loop t pk d1 in
                   (mkAir (d_hw d1) pk None :: l, d2)
  end.

Definition rstep (c : rcmd) (d : dongle) : list airtx * dongle :=
  match c with
  | CSend i s pk =>
      let d1 := cr_set_data_rate (s_dr s) (cr_set_address (s_addr s) (cr_set_channel (s_ch s) d)) in
      ([mkAir (d_hw d1) pk (Some (i, s))], d1)
  | CScanChannels _ dr addr start n pk => scan_channels_loop start n pk (cr_set_address addr (cr_set_data_rate dr d))
  | CScanSelected _ dr addr sel pk => scan_selected_loop sel pk (cr_set_address addr (cr_set_data_rate dr d))
  | CSetArc _ _ => ([], d)
  | CStop _ => ([], d)
  | CReset => ([], dongle0)
  end.

Fixpoint rexec (cs : list rcmd) (d : dongle) : list airtx * dongle :=
  match cs with
  | [] => ([], d)
  | c :: t => let '(l, d1) := rstep c d in let '(l2, d2) := rexec t d1 in (l ++ l2, d2)
  end.

(* Crazyradio's memory agrees with the hardware *)
Definition coherent (d : dongle) : Prop :=
  (forall c, d_cch d = Some c -> s_ch (d_hw d) = c) /\ (forall r, d_cdr d = Some r -> s_dr (d_hw d) = r)
  /\ (forall a, d_caddr d = Some a -> s_addr (d_hw d) = a).

(* every SEND_PACKET went out with the dongle tuned to what that instance asked for *)
Definition sends_tuned (l : list airtx) : Prop :=
  Forall (fun x => match x_req x with Some (_, s) => x_hw x = s | None => True end) l.

(* ---- the variant that remembers "(instance, setting) last set up" above Crazyradio and skips the three
        set_* calls when the next SEND_PACKET carries the same tuple; the scan branches do not touch that memory
        (what seeded/C01-f does): NOT correct, see C01_cached_tuning_refuted ---- *)
Definition setting_eqb (a b : setting) : bool :=
  (s_ch a =? s_ch b) && (s_dr a =? s_dr b) && zlist_eqb (s_addr a) (s_addr b).

Definition rstep_cached (c : rcmd) (st : dongle * option (Z * setting)) : list airtx * (dongle * option (Z * setting)) :=
  let '(d, act) := st in
  match c with
  | CSend i s pk =>
      let same := match act with Some (j, t) => (i =? j) && setting_eqb s t | None => false end in
      if same then ([mkAir (d_hw d) pk (Some (i, s))], (d, act))
      else let '(l, d1) := rstep c d in (l, (d1, Some (i, s)))
  | CReset => ([], (dongle0, None))
  | _ => let '(l, d1) := rstep c d in (l, (d1, act))
  end.

Fixpoint rexec_cached (cs : list rcmd) (st : dongle * option (Z * setting)) : list airtx :=
  match cs with
  | [] => []
  | c :: t => let '(l, st1) := rstep_cached c st in l ++ rexec_cached t st1
  end.

(* observation for the tie: per packet on the air channel, datarate, address, bytes *)
Definition air_obs (l : list airtx) : list Z :=
  concat (map (fun x => [s_ch (x_hw x); s_dr (x_hw x)] ++ (Z.of_nat (length (s_addr (x_hw x))) :: s_addr (x_hw x))
                        ++ (Z.of_nat (length (x_pk x)) :: x_pk x)) l).

(* ---- answers of the shared dongle are VALUES ----
   _SharedRadio.run: ack = self._radio.send_packet(data); self._rsp_queues[instance].put(ack), then on to the next
   queued command (another instance's, possibly).  _SharedRadioInstance.send_packet: ack = self._rsp_queue.get(), and
   the link's radio thread looks at ack.ack / ack.data some time later.  XDone i a: the shared thread finished a
   transfer of instance i with answer a and queued the result; XRead i: instance i's thread takes its next result
   and LOOKS at it (a get on an empty queue blocks: no effect).
   xrun_value: the queued result is a fresh value per transfer (Crazyradio.send_packet makes a new _radio_ack).
   xrun_cell:  one status cell per dongle, refilled for every transfer; the queues carry references to it. *)
Inductive xev := XDone (inst : Z) (a : resp) | XRead (inst : Z).

Definition qupd {A} (q : Z -> A) (i : Z) (v : A) : Z -> A := fun j => if j =? i then v else q j.

Definition xstep_value (st : (Z -> list resp) * list (Z * resp)) (e : xev) : (Z -> list resp) * list (Z * resp) :=
  let '(q, log) := st in
  match e with
  | XDone i a => (qupd q i (q i ++ [a]), log)
  | XRead i => match q i with
               | [] => (q, log)
               | a :: t => (qupd q i t, log ++ [(i, a)])
               end
  end.
Definition xrun_value (evs : list xev) : (Z -> list resp) * list (Z * resp) :=
  fold_left xstep_value evs (fun _ => [], []).

Definition xstep_cell (st : resp * (Z -> nat) * list (Z * resp)) (e : xev) : resp * (Z -> nat) * list (Z * resp) :=
  let '(cell, q, log) := st in
  match e with
  | XDone i a => (a, qupd q i (S (q i)), log)
  | XRead i => match q i with
               | O => (cell, q, log)
               | S n => (cell, qupd q i n, log ++ [(i, cell)])
               end
  end.
Definition xrun_cell (evs : list xev) : list (Z * resp) :=
  snd (fold_left xstep_cell evs (RNone, fun _ => O, [])).

Definition reads_of (i : Z) (log : list (Z * resp)) : list resp :=
  map snd (filter (fun x => fst x =? i) log).
Definition dones_of (i : Z) (evs : list xev) : list resp :=
  flat_map (fun e => match e with XDone j a => if j =? i then [a] else [] | XRead _ => [] end) evs.

(* ================================================================== RadioLinkStatistics._update_rate_and_congestion
   (cflib/crtp/radio_link_statistics.py) — called by the radio loop after every acknowledged transmission, OUTSIDE any
   try/except: an exception here ends the radio thread.  Counters: packets up / null packets up / packets down (acks
   that carried payload) / null packets down; `elapsed` = more than 0.1 s since the last report.
     up += 1; if not packet_out: null_up += 1
     if ack.data:                                   <- guard
         if header is 0xF3-class: null_down += 1
         down += 1
         if elapsed: report  (… 1 - null_up / up … 1 - null_down / down …); counters := 0
   The two divisions are modelled as partial: None = ZeroDivisionError. *)
Record rstats := mkStats { st_up : Z; st_nup : Z; st_down : Z; st_ndown : Z }.
Definition stats0 : rstats := mkStats 0 0 0 0.

Definition pdiv (a b : Z) : option Z := if b =? 0 then None else Some (a / b).   (* quotient only; the value is not at stake *)

(* the report step: Some (new counters) or None if a division raises *)
Definition stats_report (s : rstats) : option rstats :=
  match pdiv (st_nup s) (st_up s), pdiv (st_ndown s) (st_down s) with
  | Some _, Some _ => Some stats0
  | _, _ => None
  end.

(* one call of update: has_out = a packet was dequeued for the next transmission, data = the ack payload *)
Definition stats_update (has_out : bool) (data : list Z) (elapsed : bool) (s : rstats) : option rstats :=
  let s1 := mkStats (st_up s + 1) (if has_out then st_nup s else st_nup s + 1) (st_down s) (st_ndown s) in
  match data with
  | [] => Some s1
  | d0 :: _ =>
      let s2 := mkStats (st_up s1) (st_nup s1) (st_down s1 + 1)
                        (if Z.land d0 243 =? 243 then st_ndown s1 + 1 else st_ndown s1) in
      if elapsed then stats_report s2 else Some s2
  end.

(* the variant that reports for every elapsed period, also on an ack without payload (seeded/C01-l) *)
Definition stats_update_unguarded (has_out : bool) (data : list Z) (elapsed : bool) (s : rstats) : option rstats :=
  let s1 := mkStats (st_up s + 1) (if has_out then st_nup s else st_nup s + 1) (st_down s) (st_ndown s) in
  let s2 := match data with
            | [] => s1
            | d0 :: _ => mkStats (st_up s1) (st_nup s1) (st_down s1 + 1)
                                 (if Z.land d0 243 =? 243 then st_ndown s1 + 1 else st_ndown s1)
            end in
  if elapsed then stats_report s2 else Some s2.

Fixpoint stats_run (upd : bool -> list Z -> bool -> rstats -> option rstats)
         (calls : list (bool * list Z * bool)) (s : rstats) : option rstats :=
  match calls with
  | [] => Some s
  | (o, d, e) :: t => match upd o d e s with Some s1 => stats_run upd t s1 | None => None end
  end.

(* ---- instance ids of the shared dongle ----
   _SharedRadio.open_instance: instance_id = self._next_instance_id; self._next_instance_id += 1 (a counter that never
   goes back); the id keys the response queue (_rsp_queues[id]); STOP deletes the entry.  IOpen / IClose id over
   arbitrary histories (closing in any order, closing what is not open has no effect). *)
Inductive iev := IOpen | IClose (id : Z).

Definition istep_counter (st : Z * list Z) (e : iev) : Z * list Z :=
  match e with
  | IOpen => (fst st + 1, snd st ++ [fst st])
  | IClose i => (fst st, filter (fun j => negb (j =? i)) (snd st))
  end.
Definition irun_counter (evs : list iev) : Z * list Z := fold_left istep_counter evs (0, []).

(* the variant "next id = number of instances that are open" (seeded/C01-o) *)
Definition istep_len (st : list Z) (e : iev) : list Z :=
  match e with
  | IOpen => st ++ [Z.of_nat (length st)]
  | IClose i => filter (fun j => negb (j =? i)) st
  end.
Definition irun_len (evs : list iev) : list Z := fold_left istep_len evs [].
