(* C01/Proofs.v — the alternating-bit invariant of the safelink loop and its consequences. *)
From CF Require Import Common.Bytes C01.Model.
From Coq Require Import ZifyBool.
Open Scope Z_scope.

(* ------------------------------------------------------------------ header bits *)

Lemma stamp_hdr_eq u d h :
  stamp_hdr u d h = Z.lor (Z.land h 243) (if u then if d then 12 else 8 else if d then 4 else 0).
Proof. destruct u, d; reflexivity. Qed.

Lemma land_lor_const h c m k :
  Z.land 243 m = k -> Z.land (Z.lor (Z.land h 243) c) m = Z.lor (Z.land h k) (Z.land c m).
Proof. intros <-. rewrite Z.land_lor_distr_l, <- Z.land_assoc. reflexivity. Qed.

Lemma stamp_hdr_mask u d h : Z.land (stamp_hdr u d h) 243 = Z.land h 243.
Proof.
  rewrite stamp_hdr_eq, (land_lor_const h _ 243 243) by reflexivity.
  destruct u, d; cbv beta iota; (change (Z.land 12 243) with 0 || change (Z.land 8 243) with 0
    || change (Z.land 4 243) with 0 || change (Z.land 0 243) with 0); apply Z.lor_0_r.
Qed.

Lemma stamp_hdr_bit3 u d h : Z.testbit (stamp_hdr u d h) 3 = u.
Proof.
  rewrite stamp_hdr_eq, Z.lor_spec, Z.land_spec.
  change (Z.testbit 243 3) with false. rewrite andb_false_r.
  destruct u, d; reflexivity.
Qed.

Lemma stamp_hdr_bit2 u d h : Z.testbit (stamp_hdr u d h) 2 = d.
Proof.
  rewrite stamp_hdr_eq, Z.lor_spec, Z.land_spec.
  change (Z.testbit 243 2) with false. rewrite andb_false_r.
  destruct u, d; reflexivity.
Qed.

Lemma stamp_hdr_down_test u d d' h :
  (Z.land (stamp_hdr u d h) 4 =? Z.shiftl (Z.b2z d') 2) = Bool.eqb d d'.
Proof.
  rewrite stamp_hdr_eq, (land_lor_const h _ 4 0) by reflexivity. rewrite Z.land_0_r, Z.lor_0_l.
  destruct u, d, d'; reflexivity.
Qed.

Lemma stamp_hdr_lor12 u d h : Z.lor (stamp_hdr u d h) 12 = Z.lor (Z.land h 243) 12.
Proof.
  rewrite stamp_hdr_eq, <- Z.lor_assoc. destruct u, d; reflexivity.
Qed.

Lemma dnorm_mask h : Z.land (Z.lor (Z.land h 243) 12) 243 = Z.land h 243.
Proof.
  rewrite (land_lor_const h 12 243 243) by reflexivity. change (Z.land 12 243) with 0. apply Z.lor_0_r.
Qed.

(* ------------------------------------------------------------------ frames *)

Lemma norm_stamp u d f : norm (stamp u d f) = norm f.
Proof. destruct f as [|h t]; [reflexivity|]. cbn [stamp norm]. now rewrite stamp_hdr_mask. Qed.

Lemma is_enable_stamp u d f : is_enable (stamp u d f) = is_enable f.
Proof.
  destruct f as [|h [|b [|c [|x t]]]]; try reflexivity.
  cbn [stamp is_enable]. now rewrite stamp_hdr_mask.
Qed.

Lemma stamp_nonempty u d f : f <> [] -> stamp u d f <> [].
Proof. destruct f; [congruence|discriminate]. Qed.

Lemma nnb_norm f : nnb (norm f) = nnb f.
Proof.
  destruct f as [|h t]; [reflexivity|]. cbn [norm nnb].
  rewrite <- Z.land_assoc. reflexivity.
Qed.

Lemma nnb_dnorm f : nnb (dnorm f) = nnb f.
Proof. destruct f as [|h t]; [reflexivity|]. cbn [dnorm nnb]. now rewrite dnorm_mask. Qed.

Lemma nnb_not_enable f : nnb f = true -> is_enable f = false.
Proof.
  destruct f as [|h [|b [|c [|x t]]]]; try reflexivity. cbn [nnb is_enable]. intros H.
  apply negb_true_iff in H. now rewrite H.
Qed.

Lemma nnb_nonempty f : nnb f = true -> f <> [].
Proof. destruct f; [discriminate|discriminate]. Qed.

Lemma crtp_in_stamp u d h t : crtp_in (stamp_hdr u d h) t = dnorm (h :: t).
Proof. unfold crtp_in. cbn [dnorm]. now rewrite stamp_hdr_lor12. Qed.

Lemma filter_nnb_map_norm l : Forall (fun f => nnb f = true) l -> filter nnb (map norm l) = map norm l.
Proof.
  induction 1 as [|f l Hf _ IH]; [reflexivity|]. cbn [map filter]. now rewrite nnb_norm, Hf, IH.
Qed.

Lemma filter_nnb_map_dnorm l : Forall (fun f => nnb f = true) l -> filter nnb (map dnorm l) = map dnorm l.
Proof.
  induction 1 as [|f l Hf _ IH]; [reflexivity|]. cbn [map filter]. now rewrite nnb_dnorm, Hf, IH.
Qed.

(* ------------------------------------------------------------------ peer on stamped frames *)

Lemma peer_recv_stamped u d f fill on pu pd rx txq last :
  on = true -> is_enable f = false -> f <> [] ->
  peer_recv (stamp u d f) fill (mkPeer on pu pd rx txq last) =
  peer_next (negb (Bool.eqb d pd)) fill
            (mkPeer true u d (if Bool.eqb u pu then rx else rx ++ [norm f]) txq last).
Proof.
  intros -> He Hne. unfold peer_recv. rewrite is_enable_stamp, He.
  destruct f as [|h t]; [congruence|].
  cbn [p_on negb stamp hd p_up p_down]. rewrite stamp_hdr_bit3, stamp_hdr_bit2.
  change (stamp_hdr u d h :: t) with (stamp u d (h :: t)). rewrite norm_stamp.
  destruct (Bool.eqb u pu) eqn:Eu.
  - apply eqb_prop in Eu. subst pu. cbn [p_down p_on p_up p_rx p_txq p_last].
    destruct (Bool.eqb d pd) eqn:Ed.
    + apply eqb_prop in Ed. subst pd. reflexivity.
    + reflexivity.
  - cbn [p_down p_on p_up p_rx p_txq p_last].
    destruct (Bool.eqb d pd) eqn:Ed.
    + apply eqb_prop in Ed. subst pd. reflexivity.
    + reflexivity.
Qed.

(* ------------------------------------------------------------------ the invariant *)

Definition F := filter nnb.

Record Inv (w : world) : Prop := mkInv {
  inv_safe : h_safe (w_h w) = true;
  inv_on : p_on (w_p w) = true;
  inv_out_ne : h_out (w_h w) <> [];
  inv_out_good : is_enable (h_out (w_h w)) = false;
  inv_outq_good : forall f, h_outq (w_h w) = Some f -> nnb f = true;
  inv_txq_ne : Forall (fun q => nnb q = true) (p_txq (w_p w));
  inv_last_ne : forall l, p_last (w_p w) = Some l -> l <> [];
  inv_last : Bool.eqb (h_down (w_h w)) (p_down (w_p w)) = true -> p_last (w_p w) <> None;
  inv_acc : Forall (fun f => nnb f = true) (w_accepted w);
  inv_qd : Forall (fun f => nnb f = true) (w_queued w);
  inv_up :
    F (p_rx (w_p w))
    ++ (if Bool.eqb (h_up (w_h w)) (p_up (w_p w)) then [] else F [norm (h_out (w_h w))])
    ++ F (map norm (olist (h_outq (w_h w))))
    = F (map norm (w_accepted w));
  inv_down :
    F (w_got w) ++ F (h_inq (w_h w))
    ++ (if Bool.eqb (h_down (w_h w)) (p_down (w_p w)) then F (map dnorm (olist (p_last (w_p w)))) else [])
    ++ F (map dnorm (p_txq (w_p w)))
    = F (map dnorm (w_queued w))
}.

Lemma F_app a b : F (a ++ b) = F a ++ F b.
Proof. apply filter_app. Qed.

Lemma F_filler_up : F [norm [255]] = [].
Proof. reflexivity. Qed.

Lemma F_filler_down fill : F [dnorm (243 :: fill)] = [].
Proof. reflexivity. Qed.

Lemma F_one_nnb f : nnb f = true -> F [norm f] = [norm f].
Proof. intros H. unfold F. cbn [filter]. now rewrite nnb_norm, H. Qed.

(* ---- non-Tx events ---- *)

Lemma step_submit_inv N hdr data w :
  Z.land hdr 243 <> 243 -> Inv w -> Inv (step N (Submit hdr data) w).
Proof.
  intros Hok I. destruct I as [I1 I2 I3 I4 I5 I6 I7 I8 I9 I10 I11 I12].
  destruct w as [[safe up down out retry outq inq errs needs] p acc qd got lst xe se].
  cbn [w_h w_p w_accepted w_queued w_got h_safe h_up h_down h_out h_outq h_inq] in *.
  assert (Hn : nnb (hdr :: data) = true).
  { cbn [nnb]. apply negb_true_iff. apply Z.eqb_neq. exact Hok. }
  unfold step, host_submit. cbn [w_h h_outq].
  destruct outq as [f|].
  - constructor; assumption.
  - cbn [h_safe h_up h_down h_out h_retry h_outq h_inq h_errs h_needs w_p w_accepted w_queued w_got].
    constructor;
      cbn [w_h w_p w_accepted w_queued w_got h_safe h_up h_down h_out h_outq h_inq]; try assumption.
    + intros f Hf. injection Hf as <-. exact Hn.
    + apply Forall_app. split; [assumption|]. constructor; [exact Hn|constructor].
    + rewrite map_app, F_app. rewrite <- I11. cbn [olist map].
      change (F []) with (@nil frame). rewrite app_nil_r, <- app_assoc. reflexivity.
Qed.

Lemma step_peerqueue_inv N hdr data w :
  Z.land hdr 243 <> 243 -> Inv w -> Inv (step N (PeerQueue hdr data) w).
Proof.
  intros Hok I. destruct I as [I1 I2 I3 I4 I5 I6 I7 I8 I9 I10 I11 I12].
  destruct w as [h [on pu pd rx txq last] acc qd got lst xe se].
  cbn [w_h w_p w_accepted w_queued w_got p_on p_up p_down p_rx p_txq p_last] in *.
  assert (Hn : nnb (hdr :: data) = true).
  { cbn [nnb]. apply negb_true_iff. apply Z.eqb_neq. exact Hok. }
  unfold step. cbn [w_h w_p w_accepted w_queued w_got p_on p_up p_down p_rx p_txq p_last].
  constructor; cbn [w_h w_p w_accepted w_queued w_got p_on p_up p_down p_rx p_txq p_last]; try assumption.
  - apply Forall_app. split; [assumption|]. constructor; [exact Hn|constructor].
  - apply Forall_app. split; [assumption|]. constructor; [exact Hn|constructor].
  - rewrite !map_app, !F_app, <- I12, <- !app_assoc. reflexivity.
Qed.

Lemma step_recv_inv N w : Inv w -> Inv (step N Recv w).
Proof.
  intros I. destruct I as [I1 I2 I3 I4 I5 I6 I7 I8 I9 I10 I11 I12].
  destruct w as [[safe up down out retry outq inq errs needs] p acc qd got lst xe se].
  cbn [w_h w_p w_accepted w_queued w_got h_safe h_up h_down h_out h_outq h_inq] in *.
  unfold step, host_receive. cbn [w_h h_inq].
  destruct inq as [|x inq'].
  - constructor; assumption.
  - cbn [h_safe h_up h_down h_out h_retry h_outq h_inq h_errs h_needs w_p w_accepted w_queued w_got].
    constructor;
      cbn [w_h w_p w_accepted w_queued w_got h_safe h_up h_down h_out h_outq h_inq]; try assumption.
    rewrite F_app, <- I12. change (x :: inq') with ([x] ++ inq'). rewrite (F_app [x] inq'), <- !app_assoc.
    reflexivity.
Qed.

(* ---- one radio-loop iteration ---- *)

Lemma host_recv_lost N up down oh ot retry outq inq errs needs :
  host_recv N (RAck false []) (mkHost true up down (oh :: ot) retry outq inq errs needs) =
  (mkHost true up down (stamp up down (oh :: ot)) (retry - 1) outq inq
          (if retry - 1 =? 0 then errs + 1 else errs) needs, retry - 1 =? 0).
Proof. reflexivity. Qed.

Lemma host_recv_acked N u' up down oh ot retry outq inq errs needs dh dt :
  host_recv N (RAck true (stamp u' down (dh :: dt)))
            (mkHost true up down (oh :: ot) retry outq inq errs needs) =
  (mkHost true (negb up) (negb down) (match outq with Some f => f | None => [255] end) N None
          (inq ++ [dnorm (dh :: dt)]) errs needs, false).
Proof.
  unfold host_recv, host_flip, host_sent, host_loop.
  cbn [stamp h_safe h_down h_up h_out h_outq h_inq h_errs h_needs h_retry andb negb].
  rewrite stamp_hdr_down_test, eqb_reflx. cbn [h_safe h_down h_up h_out h_outq h_inq h_errs h_needs h_retry negb].
  rewrite crtp_in_stamp. reflexivity.
Qed.

Lemma peer_next_cases adv fill u d rx txq last :
  (adv = false -> last <> None) ->
  exists l txq',
    peer_next adv fill (mkPeer true u d rx txq last) = (mkPeer true u d rx txq' (Some l), stamp u d l)
    /\ ((adv = false /\ last = Some l /\ txq' = txq)
        \/ (adv = true /\ txq = l :: txq')
        \/ (adv = true /\ txq = [] /\ txq' = [] /\ l = 243 :: fill)).
Proof.
  intros H. destruct adv.
  - destruct txq as [|q t].
    + exists (243 :: fill), []. split; [reflexivity|]. right. right. repeat split.
    + exists q, t. split; [reflexivity|]. right. left. split; reflexivity.
  - destruct last as [l|]; [|exfalso; now apply H].
    exists l, txq. split; [reflexivity|]. left. repeat split.
Qed.

Lemma D_after (pend : bool) l txq' last txq fill :
  ((negb pend = false /\ last = Some l /\ txq' = txq)
   \/ (negb pend = true /\ txq = l :: txq')
   \/ (negb pend = true /\ txq = [] /\ txq' = [] /\ l = 243 :: fill)) ->
  F [dnorm l] ++ F (map dnorm txq') =
  (if pend then F (map dnorm (olist last)) else []) ++ F (map dnorm txq).
Proof.
  intros [(Hp & -> & ->)|[(Hp & ->)|(Hp & -> & -> & ->)]].
  - apply negb_false_iff in Hp. subst pend. reflexivity.
  - apply negb_true_iff in Hp. subst pend. cbn [map app].
    change (dnorm l :: map dnorm txq') with ([dnorm l] ++ map dnorm txq'). now rewrite F_app.
  - apply negb_true_iff in Hp. subst pend. reflexivity.
Qed.

Lemma U_after (e : bool) rx x : F (if e then rx else rx ++ [x]) = F rx ++ (if e then [] else F [x]).
Proof. destruct e; [now rewrite app_nil_r|apply F_app]. Qed.

Lemma eqb_negb_l b : Bool.eqb (negb b) b = false.
Proof. destruct b; reflexivity. Qed.

Lemma step_tx_inv N o fill w : Inv w -> Inv (step N (Tx o fill) w).
Proof.
  intros I. destruct I as [I1 I2 I3 I4 I5 I6 I7 I8 I9 I10 I11 I12].
  destruct w as [[safe up down out retry outq inq errs needs] [on pu pd rx txq last] acc qd got lst xe se].
  cbn [w_h w_p w_accepted w_queued w_got h_safe h_up h_down h_out h_outq h_inq
       p_on p_up p_down p_rx p_txq p_last] in *.
  subst safe on. destruct out as [|oh ot]; [congruence|].
  unfold step, transmit. cbn [w_h w_p w_accepted w_queued w_got].
  change (host_frame (mkHost true up down (oh :: ot) retry outq inq errs needs))
    with (stamp up down (oh :: ot)).
  assert (Hadv : negb (Bool.eqb down pd) = false -> last <> None).
  { intros H. apply negb_false_iff in H. auto. }
  destruct o.
  - (* Ok *)
    rewrite peer_recv_stamped by (try reflexivity; try assumption).
    destruct (peer_next_cases (negb (Bool.eqb down pd)) fill up down
                (if Bool.eqb up pu then rx else rx ++ [norm (oh :: ot)]) txq last Hadv)
      as (l & txq' & -> & Hc).
    assert (Hl : l <> []).
    { destruct Hc as [(_ & Hl & _)|[(_ & Hl)|(_ & _ & _ & Hl)]].
      - eapply I7; eassumption.
      - subst txq. inversion I6; subst. now apply nnb_nonempty.
      - subst l. discriminate. }
    destruct l as [|dh dt]; [congruence|].
    rewrite host_recv_acked. cbn [fst].
    constructor;
      cbn [w_h w_p w_accepted w_queued w_got h_safe h_up h_down h_out h_outq h_inq
           p_on p_up p_down p_rx p_txq p_last]; try assumption; try reflexivity.
    + destruct outq; [|discriminate]. apply nnb_nonempty, I5. reflexivity.
    + destruct outq; [|reflexivity]. apply nnb_not_enable, I5. reflexivity.
    + discriminate.
    + destruct Hc as [(_ & _ & ->)|[(_ & ->)|(_ & _ & -> & _)]]; try assumption.
      * now inversion I6.
      * constructor.
    + intros l0 Hl0. injection Hl0 as <-. discriminate.
    + rewrite eqb_negb_l. discriminate.
    + rewrite eqb_negb_l, U_after, <- I11, <- !app_assoc. f_equal. f_equal.
      cbn [olist map]. change (F []) with (@nil frame). rewrite app_nil_r.
      destruct outq as [f|]; reflexivity.
    + rewrite eqb_negb_l, F_app, <- I12. cbn [app]. rewrite <- !app_assoc. f_equal. f_equal.
      apply (D_after (Bool.eqb down pd) (dh :: dt) txq' last txq fill). exact Hc.
  - (* UpLost *)
    rewrite host_recv_lost. cbn [fst].
    constructor;
      cbn [w_h w_p w_accepted w_queued w_got h_safe h_up h_down h_out h_outq h_inq
           p_on p_up p_down p_rx p_txq p_last]; try assumption; try reflexivity.
    + discriminate.
    + now rewrite is_enable_stamp.
    + now rewrite norm_stamp.
  - (* AckLost *)
    rewrite peer_recv_stamped by (try reflexivity; try assumption).
    destruct (peer_next_cases (negb (Bool.eqb down pd)) fill up down
                (if Bool.eqb up pu then rx else rx ++ [norm (oh :: ot)]) txq last Hadv)
      as (l & txq' & -> & Hc).
    assert (Hl : l <> []).
    { destruct Hc as [(_ & Hl & _)|[(_ & Hl)|(_ & _ & _ & Hl)]].
      - eapply I7; eassumption.
      - subst txq. inversion I6; subst. now apply nnb_nonempty.
      - subst l. discriminate. }
    rewrite host_recv_lost. cbn [fst].
    constructor;
      cbn [w_h w_p w_accepted w_queued w_got h_safe h_up h_down h_out h_outq h_inq
           p_on p_up p_down p_rx p_txq p_last]; try assumption; try reflexivity.
    + discriminate.
    + now rewrite is_enable_stamp.
    + destruct Hc as [(_ & _ & ->)|[(_ & ->)|(_ & _ & -> & _)]]; try assumption.
      * now inversion I6.
      * constructor.
    + intros l0 Hl0. injection Hl0 as <-. exact Hl.
    + discriminate.
    + rewrite eqb_reflx, U_after, <- I11, <- !app_assoc. reflexivity.
    + rewrite eqb_reflx, <- I12. f_equal. f_equal. cbn [olist map].
      apply (D_after (Bool.eqb down pd) l txq' last txq fill). exact Hc.
Qed.

(* the invariant does not look at the stale answer nor at the two other error counters *)
Lemma Inv_ext w w' :
  w_h w' = w_h w -> w_p w' = w_p w -> w_accepted w' = w_accepted w -> w_queued w' = w_queued w ->
  w_got w' = w_got w -> Inv w -> Inv w'.
Proof.
  intros E1 E2 E3 E4 E5 I. destruct I as [I1 I2 I3 I4 I5 I6 I7 I8 I9 I10 I11 I12].
  constructor; rewrite ?E1, ?E2, ?E3, ?E4, ?E5; assumption.
Qed.

(* the dongle fails silently: radio.send_packet returns None; only the in-place stamping happens *)
Lemma step_txnone_inv N w : Inv w -> Inv (step N (TxUsb false) w).
Proof.
  intros I. destruct I as [I1 I2 I3 I4 I5 I6 I7 I8 I9 I10 I11 I12].
  destruct w as [[safe up down out retry outq inq errs needs] [on pu pd rx txq last] acc qd got lst xe se].
  cbn [w_h w_p w_accepted w_queued w_got h_safe h_up h_down h_out h_outq h_inq
       p_on p_up p_down p_rx p_txq p_last] in *.
  subst safe on. destruct out as [|oh ot]; [congruence|].
  unfold step, host_recv, host_flip, host_loop, host_sent. cbn [fst w_h w_p w_accepted w_queued w_got].
  change (host_frame (mkHost true up down (oh :: ot) retry outq inq errs needs))
    with (stamp up down (oh :: ot)).
  constructor;
    cbn [w_h w_p w_accepted w_queued w_got h_safe h_up h_down h_out h_outq h_inq
         p_on p_up p_down p_rx p_txq p_last]; try assumption; try reflexivity.
  - discriminate.
  - now rewrite is_enable_stamp.
  - now rewrite norm_stamp.
Qed.

Lemma step_submit_timeout_inv N hdr data w :
  Z.land hdr 243 <> 243 -> Inv w -> Inv (step N (SubmitTimeout hdr data) w).
Proof.
  intros Hok I. unfold step, host_submit_timeout.
  destruct (h_outq (w_h w)) as [f|] eqn:E.
  - apply (Inv_ext w); try reflexivity. exact I.
  - apply (Inv_ext (step N (Submit hdr data) w)); [| | | | |now apply step_submit_inv];
      unfold step, host_submit; rewrite E; reflexivity.
Qed.

Lemma step_recvwait_inv N wt w : Inv w -> Inv (step N (RecvWait wt) w).
Proof.
  intros I. unfold step, host_receive_wait.
  destruct (h_inq (w_h w)) as [|x t] eqn:E.
  - apply (Inv_ext w); try reflexivity. exact I.
  - apply (Inv_ext (step N Recv w)); [| | | | |now apply step_recv_inv];
      unfold step, host_receive; rewrite E; reflexivity.
Qed.

Lemma step_inv N e w : ev_ok e -> Inv w -> Inv (step N e w).
Proof.
  destruct e as [hdr data|hdr data| |o fill|exc|hdr data|wt]; intros Hok I.
  - now apply step_submit_inv.
  - now apply step_peerqueue_inv.
  - now apply step_recv_inv.
  - now apply step_tx_inv.
  - cbn [ev_ok] in Hok. subst exc. now apply step_txnone_inv.
  - now apply step_submit_timeout_inv.
  - now apply step_recvwait_inv.
Qed.

Lemma run_inv N evs : forall w, Forall ev_ok evs -> Inv w -> Inv (run N w evs).
Proof.
  induction evs as [|e evs IH]; intros w Hev I; [exact I|].
  inversion Hev as [|? ? He Hevs]; subst. cbn [run fold_left]. apply IH; [assumption|].
  now apply step_inv.
Qed.

Lemma run_app N w a b : run N w (a ++ b) = run N (run N w a) b.
Proof. unfold run. apply fold_left_app. Qed.

(* ------------------------------------------------------------------ link start-up *)

Lemma peer_recv_enable p :
  peer_recv enable_frame [] p = (mkPeer true true true (p_rx p) (p_txq p) None, enable_frame).
Proof. reflexivity. Qed.

Lemma confirms_spec r : confirms r = true <-> exists a, r = RAck a enable_frame.
Proof.
  destruct r as [|a d]; cbn [confirms].
  - split; [discriminate|intros [a H]; discriminate].
  - rewrite zlist_eqb_spec. split; [intros ->; now exists a|intros [a' H]; now injection H].
Qed.

Lemma neg_transmit_spec o p p1 r :
  neg_transmit o p = (p1, r) ->
  p_rx p1 = p_rx p /\ p_txq p1 = p_txq p /\
  (confirms r = true -> p1 = mkPeer true true true (p_rx p) (p_txq p) None).
Proof.
  destruct o as [| | |a g]; cbn [neg_transmit]; rewrite ?peer_recv_enable; cbn [fst];
    intros H; injection H as <- <-; cbn [p_rx p_txq]; repeat split; try reflexivity;
    cbn [confirms zlist_eqb]; try discriminate.
Qed.

Lemma boot_loop_spec n : forall negs p p1 ok rs,
  boot_loop n negs p = (p1, ok, rs) ->
  p_rx p1 = p_rx p /\ p_txq p1 = p_txq p /\
  (ok = true -> p1 = mkPeer true true true (p_rx p) (p_txq p) None) /\
  (ok = true <-> exists r, In r rs /\ confirms r = true) /\
  (length rs <= n)%nat /\
  (ok = true -> exists rs0 r, rs = rs0 ++ [r] /\ confirms r = true /\
                              forall x, In x rs0 -> confirms x = false).
Proof.
  induction n as [|n IH]; intros negs p p1 ok rs H.
  - cbn [boot_loop] in H. injection H as <- <- <-.
    split; [reflexivity|]. split; [reflexivity|]. split; [discriminate|].
    split; [split; [discriminate|intros [r [[] _]]]|]. split; [cbn [length]; lia|discriminate].
  - cbn [boot_loop] in H.
    destruct (neg_transmit match negs with [] => NUpLost | o :: _ => o end p) as [q r] eqn:E.
    apply neg_transmit_spec in E as (E1 & E2 & E3).
    destruct (confirms r) eqn:C.
    + injection H as <- <- <-.
      split; [assumption|]. split; [assumption|]. split; [intros _; now apply E3|].
      split; [split; [intros _; exists r; split; [now left|assumption]|reflexivity]|].
      split; [cbn [length]; lia|].
      intros _. exists [], r. split; [reflexivity|]. split; [assumption|intros x []].
    + destruct (boot_loop n (tl negs) q) as [[p2 ok2] rs2] eqn:E4.
      injection H as <- <- <-.
      apply IH in E4 as (F1 & F2 & F3 & F4 & F5 & F6).
      split; [congruence|]. split; [congruence|].
      split; [intros Hok; rewrite (F3 Hok); now rewrite E1, E2|].
      split; [split|].
      * intros Hok. apply F4 in Hok as (x & Hx & Cx). exists x. split; [now right|assumption].
      * intros (x & [->|Hx] & Cx); [congruence|]. apply F4. now exists x.
      * split; [cbn [length]; lia|].
        intros Hok. destruct (F6 Hok) as (rs0 & x & -> & Cx & Hrs0).
        exists (r :: rs0), x. split; [reflexivity|]. split; [assumption|].
        intros y [<-|Hy]; [assumption|now apply Hrs0].
Qed.

Lemma boot_inv N p0 negs :
  peer_ok0 p0 -> h_safe (w_h (boot negs (world0 N p0))) = true -> Inv (boot negs (world0 N p0)).
Proof.
  intros [Hrx Htx]. unfold boot, world0. cbn [w_p w_h w_accepted w_queued w_got].
  destruct (boot_loop 10 negs p0) as [[p1 ok] rs] eqn:E.
  apply boot_loop_spec in E as (E1 & E2 & E3 & _).
  cbn [w_h]. destruct ok; cbn [host_after_boot h_safe host0]; [intros _|discriminate].
  rewrite (E3 eq_refl), Hrx.
  constructor; cbn [w_h w_p w_accepted w_queued w_got h_safe h_up h_down h_out h_outq h_inq
                    p_on p_up p_down p_rx p_txq p_last host0]; try reflexivity.
  - discriminate.
  - discriminate.
  - exact Htx.
  - discriminate.
  - discriminate.
  - constructor.
  - exact Htx.
Qed.

(* ------------------------------------------------------------------ the delivery theorems *)

Lemma up_pending_length w : (length (up_pending w) <= 2)%nat.
Proof.
  unfold up_pending. rewrite app_length, map_length.
  destruct (Bool.eqb _ _); destruct (h_outq (w_h w)); cbn [filter olist length];
    try destruct (nnb _); cbn [length]; lia.
Qed.

Lemma inv_uplink w : Inv w ->
  filter nnb (p_rx (w_p w)) ++ up_pending w = map norm (w_accepted w).
Proof.
  intros I. pose proof (inv_up w I) as H. pose proof (inv_acc w I) as Ha.
  unfold F in H. rewrite (filter_nnb_map_norm _ Ha) in H. rewrite <- H. unfold up_pending.
  f_equal. f_equal.
  destruct (h_outq (w_h w)) as [f|] eqn:Eq; [|reflexivity].
  cbn [olist map filter]. now rewrite nnb_norm, (inv_outq_good w I f Eq).
Qed.

Lemma inv_downlink w : Inv w ->
  filter nnb (w_got w ++ h_inq (w_h w)) ++ down_pending w = map dnorm (w_queued w).
Proof.
  intros I. pose proof (inv_down w I) as H. pose proof (inv_qd w I) as Hq.
  unfold F in H. rewrite (filter_nnb_map_dnorm _ Hq) in H. rewrite <- H. unfold down_pending.
  rewrite filter_app, <- !app_assoc. f_equal. f_equal. f_equal.
  symmetry. apply filter_nnb_map_dnorm. exact (inv_txq_ne w I).
Qed.

Lemma session_inv N p0 negs evs :
  peer_ok0 p0 -> Forall ev_ok evs ->
  h_safe (w_h (boot negs (world0 N p0))) = true -> Inv (session N p0 negs evs).
Proof. intros Hp Hev Hs. unfold session. apply run_inv; [assumption|]. now apply boot_inv. Qed.

Lemma uplink_exactly_once N p0 negs evs :
  peer_ok0 p0 -> Forall ev_ok evs ->
  h_safe (w_h (boot negs (world0 N p0))) = true ->
  let w := session N p0 negs evs in
  filter nnb (p_rx (w_p w)) ++ up_pending w = map norm (w_accepted w)
  /\ (length (up_pending w) <= 2)%nat.
Proof.
  intros Hp Hev Hs w. split; [|apply up_pending_length].
  apply inv_uplink. now apply session_inv.
Qed.

Lemma down_pending_length w : (length (down_pending w) <= 1 + length (p_txq (w_p w)))%nat.
Proof.
  unfold down_pending. rewrite app_length, map_length.
  destruct (Bool.eqb _ _); destruct (p_last (w_p w)); cbn [filter olist map length];
    try destruct (nnb _); cbn [length]; lia.
Qed.

Lemma downlink_exactly_once N p0 negs evs :
  peer_ok0 p0 -> Forall ev_ok evs ->
  h_safe (w_h (boot negs (world0 N p0))) = true ->
  let w := session N p0 negs evs in
  filter nnb (w_got w ++ h_inq (w_h w)) ++ down_pending w = map dnorm (w_queued w)
  /\ (length (down_pending w) <= 1 + length (p_txq (w_p w)))%nat.
Proof.
  intros Hp Hev Hs w. split; [|apply down_pending_length].
  apply inv_downlink. now apply session_inv.
Qed.

(* ------------------------------------------------------------------ progress *)

(* an acknowledged transmission: the frame in dataOut is with the peer (once), the next packet is
   loaded, one more downlink payload is in in_queue, nothing is left half-acknowledged *)
Lemma tx_ok_progress N fill w : Inv w ->
  let w1 := step N (Tx Ok fill) w in
  p_rx (w_p w1) = p_rx (w_p w) ++
                  (if Bool.eqb (h_up (w_h w)) (p_up (w_p w)) then [] else [norm (h_out (w_h w))])
  /\ h_out (w_h w1) = match h_outq (w_h w) with Some f => f | None => [255] end
  /\ h_outq (w_h w1) = None
  /\ Bool.eqb (h_up (w_h w1)) (p_up (w_p w1)) = false
  /\ Bool.eqb (h_down (w_h w1)) (p_down (w_p w1)) = false
  /\ (exists l, h_inq (w_h w1) = h_inq (w_h w) ++ [dnorm l] /\
                ((Bool.eqb (h_down (w_h w)) (p_down (w_p w)) = true /\ p_last (w_p w) = Some l
                  /\ p_txq (w_p w1) = p_txq (w_p w))
                 \/ (Bool.eqb (h_down (w_h w)) (p_down (w_p w)) = false
                     /\ p_txq (w_p w) = l :: p_txq (w_p w1))
                 \/ (Bool.eqb (h_down (w_h w)) (p_down (w_p w)) = false
                     /\ p_txq (w_p w) = [] /\ p_txq (w_p w1) = [] /\ l = 243 :: fill))).
Proof.
  intros I. destruct I as [I1 I2 I3 I4 I5 I6 I7 I8 I9 I10 I11 I12].
  destruct w as [[safe up down out retry outq inq errs needs] [on pu pd rx txq last] acc qd got lst xe se].
  cbn [w_h w_p w_accepted w_queued w_got h_safe h_up h_down h_out h_outq h_inq
       p_on p_up p_down p_rx p_txq p_last] in *.
  subst safe on. destruct out as [|oh ot]; [congruence|].
  unfold step, transmit. cbn [w_h w_p w_accepted w_queued w_got].
  change (host_frame (mkHost true up down (oh :: ot) retry outq inq errs needs))
    with (stamp up down (oh :: ot)).
  assert (Hadv : negb (Bool.eqb down pd) = false -> last <> None).
  { intros H. apply negb_false_iff in H. auto. }
  rewrite peer_recv_stamped by (try reflexivity; try assumption).
  destruct (peer_next_cases (negb (Bool.eqb down pd)) fill up down
              (if Bool.eqb up pu then rx else rx ++ [norm (oh :: ot)]) txq last Hadv)
    as (l & txq' & -> & Hc).
  assert (Hl : l <> []).
  { destruct Hc as [(_ & Hl & _)|[(_ & Hl)|(_ & _ & _ & Hl)]].
    - eapply I7; eassumption.
    - subst txq. inversion I6; subst. now apply nnb_nonempty.
    - subst l. discriminate. }
  destruct l as [|dh dt]; [congruence|].
  rewrite host_recv_acked. cbn [fst].
  cbn [w_h w_p h_up h_down h_out h_outq h_inq p_up p_down p_rx p_txq p_last].
  split; [destruct (Bool.eqb up pu); [now rewrite app_nil_r|reflexivity]|].
  split; [reflexivity|]. split; [reflexivity|].
  split; [apply eqb_negb_l|]. split; [apply eqb_negb_l|].
  exists (dh :: dt). split; [reflexivity|].
  destruct Hc as [(Hp & -> & ->)|[(Hp & ->)|(Hp & -> & -> & Hf)]].
  - left. apply negb_false_iff in Hp. repeat split. exact Hp.
  - right. left. apply negb_true_iff in Hp. split; [exact Hp|reflexivity].
  - right. right. apply negb_true_iff in Hp. repeat split; assumption.
Qed.

Lemma two_ok_flush N f1 f2 w : Inv w ->
  let w2 := run N w [Tx Ok f1; Tx Ok f2] in
  up_pending w2 = [] /\ filter nnb (p_rx (w_p w2)) = map norm (w_accepted w2).
Proof.
  intros I w2.
  assert (I1 : Inv (step N (Tx Ok f1) w)) by now apply step_tx_inv.
  assert (I2 : Inv w2) by (unfold w2; cbn [run fold_left]; now apply step_tx_inv).
  destruct (tx_ok_progress N f1 w I) as (_ & _ & Hq1 & _).
  destruct (tx_ok_progress N f2 _ I1) as (_ & _ & Hq2 & Hu2 & _).
  cbv zeta in Hq1, Hq2, Hu2.
  assert (E : up_pending w2 = []).
  { unfold up_pending, w2. cbn [run fold_left]. rewrite Hq2. cbn [olist map]. rewrite app_nil_r.
    (* the frame loaded by the second iteration is the filler, since out_queue was empty *)
    destruct (tx_ok_progress N f2 _ I1) as (_ & Ho & _). cbv zeta in Ho. rewrite Ho, Hq1, Hu2.
    reflexivity. }
  split; [exact E|]. rewrite <- (inv_uplink w2 I2), E. now rewrite app_nil_r.
Qed.

(* ------------------------------------------------------------------ link error *)

Lemma host_loop_retry N a d h :
  h_retry (fst (host_loop N (RAck a d) h)) = (if a then N else h_retry h - 1)
  /\ h_errs (fst (host_loop N (RAck a d) h)) =
     h_errs h + (if negb a && (h_retry h - 1 =? 0) then 1 else 0)
  /\ snd (host_loop N (RAck a d) h) = negb a && (h_retry h - 1 =? 0).
Proof.
  unfold host_loop. destruct a; cbn [negb fst snd h_retry h_errs andb].
  - repeat split. lia.
  - destruct (h_retry h - 1 =? 0); repeat split; lia.
Qed.

Lemma host_recv_retry N a d h :
  h_retry (fst (host_recv N (RAck a d) h)) = (if a then N else h_retry h - 1)
  /\ h_errs (fst (host_recv N (RAck a d) h)) =
     h_errs h + (if negb a && (h_retry h - 1 =? 0) then 1 else 0)
  /\ snd (host_recv N (RAck a d) h) = negb a && (h_retry h - 1 =? 0).
Proof. unfold host_recv. apply (host_loop_retry N a d (host_flip (RAck a d) (host_sent h))). Qed.

Lemma transmit_ack o f fill p : exists d, snd (transmit o f fill p) = RAck (is_ok o) d.
Proof.
  destruct o; cbn [transmit is_ok].
  - destruct (peer_recv f fill p) as [p1 r]. now exists r.
  - now exists [].
  - now exists [].
Qed.

Lemma step_tx_retry N o fill w :
  let w1 := step N (Tx o fill) w in
  h_retry (w_h w1) = (if is_ok o then N else h_retry (w_h w) - 1)
  /\ h_errs (w_h w1) = h_errs (w_h w) + (if negb (is_ok o) && (h_retry (w_h w) - 1 =? 0) then 1 else 0).
Proof.
  cbv zeta. unfold step.
  destruct (transmit_ack o (host_frame (w_h w)) fill (w_p w)) as [d Hd].
  destruct (transmit o (host_frame (w_h w)) fill (w_p w)) as [p1 r]. cbn [snd] in Hd. subst r.
  cbn [w_h]. destruct (host_recv_retry N (is_ok o) d (w_h w)) as (H1 & H2 & _). now rewrite H1, H2.
Qed.

Lemma step_other_retry N e w :
  not_tx e ->
  h_retry (w_h (step N e w)) = h_retry (w_h w) /\ h_errs (w_h (step N e w)) = h_errs (w_h w).
Proof.
  intros He. destruct e as [hdr data|hdr data| |o fill|exc|hdr data|wt]; cbn [step].
  - unfold host_submit. destruct (h_outq (w_h w)); split; reflexivity.
  - split; reflexivity.
  - unfold host_receive. destruct (h_inq (w_h w)); split; reflexivity.
  - destruct He.
  - destruct exc; [destruct He|]. split; reflexivity.
  - unfold host_submit_timeout, host_submit. destruct (h_outq (w_h w)); split; reflexivity.
  - unfold host_receive_wait, host_receive. destruct (h_inq (w_h w)); split; reflexivity.
Qed.

Lemma boot_retry N p0 negs :
  h_retry (w_h (boot negs (world0 N p0))) = N /\ h_errs (w_h (boot negs (world0 N p0))) = 0.
Proof.
  unfold boot, world0. cbn [w_p w_h]. destruct (boot_loop 10 negs p0) as [[p1 ok] rs].
  cbn [w_h]. destruct ok; split; reflexivity.
Qed.

Lemma count_lost_prefix_nonneg l : 0 <= count_lost_prefix l.
Proof. induction l as [|o t IH]; cbn [count_lost_prefix]; [lia|]. destruct (is_ok o); lia. Qed.

Lemma trailing_snoc os o :
  trailing_unacked (os ++ [o]) = if is_ok o then 0 else 1 + trailing_unacked os.
Proof. unfold trailing_unacked. rewrite rev_app_distr. reflexivity. Qed.

Lemma tx_outcomes_app a b : tx_outcomes (a ++ b) = tx_outcomes a ++ tx_outcomes b.
Proof. unfold tx_outcomes. apply flat_map_app. Qed.

Lemma session_snoc N p0 negs evs e :
  session N p0 negs (evs ++ [e]) = step N e (session N p0 negs evs).
Proof. unfold session. now rewrite run_app. Qed.

Lemma tx_outcomes_snoc_other evs e : not_tx e -> tx_outcomes (evs ++ [e]) = tx_outcomes evs.
Proof.
  intros He. rewrite tx_outcomes_app.
  destruct e as [hdr data|hdr data| |o fill|exc|hdr data|wt]; cbn [tx_outcomes flat_map];
    try apply app_nil_r. destruct He.
Qed.

Lemma no_exc_not_tx e : no_exc e -> (forall o fill, e <> Tx o fill) -> not_tx e.
Proof.
  destruct e as [hdr data|hdr data| |o fill|exc|hdr data|wt]; cbn [no_exc not_tx]; intros H H1; try exact I.
  - exfalso. now apply (H1 o fill).
  - destruct exc; [destruct H|exact I].
Qed.

Lemma retry_invariant N p0 negs evs :
  Forall no_exc evs ->
  h_retry (w_h (session N p0 negs evs)) = N - trailing_unacked (tx_outcomes evs).
Proof.
  induction evs as [|e evs IH] using rev_ind; intros Hev.
  - unfold session. cbn [run fold_left]. rewrite (proj1 (boot_retry N p0 negs)).
    unfold trailing_unacked. cbn. lia.
  - apply Forall_app in Hev as [Hevs He]. inversion He as [|? ? He1 _]; subst.
    specialize (IH Hevs). rewrite session_snoc.
    destruct e as [hdr data|hdr data| |o fill|exc|hdr data|wt];
      try (rewrite (proj1 (step_other_retry N _ _ (no_exc_not_tx _ He1 ltac:(intros; discriminate)))), IH,
             tx_outcomes_snoc_other by (apply no_exc_not_tx; [exact He1|intros; discriminate]); reflexivity).
    rewrite (proj1 (step_tx_retry N o fill _)), IH, tx_outcomes_app. cbn [tx_outcomes flat_map app].
    rewrite trailing_snoc. destruct (is_ok o); lia.
Qed.

Lemma link_error_exact N p0 negs evs :
  Forall no_exc evs ->
  (forall o fill,
     h_errs (w_h (session N p0 negs (evs ++ [Tx o fill]))) =
     h_errs (w_h (session N p0 negs evs)) +
     (if negb (is_ok o) && (trailing_unacked (tx_outcomes evs ++ [o]) =? N) then 1 else 0))
  /\ (forall e, not_tx e ->
        h_errs (w_h (session N p0 negs (evs ++ [e]))) = h_errs (w_h (session N p0 negs evs)))
  /\ h_errs (w_h (session N p0 negs [])) = 0.
Proof.
  intros Hev. split; [|split].
  - intros o fill. rewrite session_snoc, (proj2 (step_tx_retry N o fill _)), retry_invariant by exact Hev.
    rewrite trailing_snoc. f_equal. destruct (is_ok o); cbn [negb andb]; [reflexivity|].
    destruct (N - trailing_unacked (tx_outcomes evs) - 1 =? 0) eqn:E1;
      destruct (1 + trailing_unacked (tx_outcomes evs) =? N) eqn:E2; try reflexivity; lia.
  - intros e He. rewrite session_snoc. now apply step_other_retry.
  - unfold session. cbn [run fold_left]. apply boot_retry.
Qed.

(* ------------------------------------------------------------------ safelink only if confirmed *)

Lemma host_loop_mode N r h :
  h_safe (fst (host_loop N r h)) = h_safe h /\ h_needs (fst (host_loop N r h)) = h_needs h.
Proof. destruct r as [|a d]; [|destruct a]; split; reflexivity. Qed.

Lemma host_flip_mode r h : h_safe (host_flip r h) = h_safe h /\ h_needs (host_flip r h) = h_needs h.
Proof. destruct r as [|a d]; split; reflexivity. Qed.

Lemma host_recv_mode N r h :
  h_safe (fst (host_recv N r h)) = h_safe h /\ h_needs (fst (host_recv N r h)) = h_needs h.
Proof.
  unfold host_recv. destruct (host_loop_mode N r (host_flip r (host_sent h))) as [-> ->].
  destruct (host_flip_mode r (host_sent h)) as [-> ->]. split; reflexivity.
Qed.

Lemma step_mode N e w :
  h_safe (w_h (step N e w)) = h_safe (w_h w) /\ h_needs (w_h (step N e w)) = h_needs (w_h w).
Proof.
  destruct e as [hdr data|hdr data| |o fill|exc|hdr data|wt]; cbn [step].
  - unfold host_submit. destruct (h_outq (w_h w)); split; reflexivity.
  - split; reflexivity.
  - unfold host_receive. destruct (h_inq (w_h w)); split; reflexivity.
  - destruct (transmit o (host_frame (w_h w)) fill (w_p w)) as [p1 r]. cbn [w_h]. apply host_recv_mode.
  - destruct exc; cbn [w_h].
    + unfold host_exc. destruct (host_loop_mode N (w_last w) (host_sent (w_h w))) as [-> ->].
      split; reflexivity.
    + apply host_recv_mode.
  - unfold host_submit_timeout, host_submit. destruct (h_outq (w_h w)); split; reflexivity.
  - unfold host_receive_wait, host_receive. destruct (h_inq (w_h w)); split; reflexivity.
Qed.

Lemma run_mode N evs : forall w,
  h_safe (w_h (run N w evs)) = h_safe (w_h w) /\ h_needs (w_h (run N w evs)) = h_needs (w_h w).
Proof.
  induction evs as [|e evs IH]; intros w; [split; reflexivity|].
  cbn [run fold_left]. destruct (IH (step N e w)) as [H1 H2]. destruct (step_mode N e w) as [H3 H4].
  unfold run in *. split; congruence.
Qed.

(* start-up from ANY world (whatever mode an earlier session of the same driver object was in) *)
Lemma boot_mode_any N w negs evs :
  let rs := snd (boot_loop 10 negs (w_p w)) in
  let h := w_h (run N (boot negs w) evs) in
  (length rs <= 10)%nat
  /\ (h_safe h = true <->
      exists rs0 a, rs = rs0 ++ [RAck a enable_frame] /\ forall x, In x rs0 -> confirms x = false)
  /\ h_needs h = negb (h_safe h)
  /\ (h_safe h = false -> host_frame h = h_out h).
Proof.
  cbv zeta.
  assert (H4 : forall h, h_safe h = false -> host_frame h = h_out h).
  { intros h H. unfold host_frame. now rewrite H. }
  split; [|split; [|split; [|apply H4]]]; clear H4;
    destruct (run_mode N evs (boot negs w)) as [Hs Hn]; rewrite ?Hs, ?Hn; clear Hs Hn;
    unfold boot; destruct (boot_loop 10 negs (w_p w)) as [[p1 ok] rs] eqn:E;
    apply boot_loop_spec in E as (_ & _ & _ & E4 & E5 & E6); cbn [snd w_h].
  - exact E5.
  - destruct ok; cbn [host_after_boot h_safe].
    + split; [intros _|reflexivity]. destruct (E6 eq_refl) as (rs0 & r & -> & C & H0).
      apply confirms_spec in C as [a ->]. now exists rs0, a.
    + split; [discriminate|]. intros (rs0 & a & -> & _).
      assert (false = true); [|discriminate]. apply E4. exists (RAck a enable_frame).
      split; [apply in_or_app; right; now left|]. apply confirms_spec. now exists a.
  - destruct ok; reflexivity.
Qed.

Lemma safelink_only_if_confirmed N p0 negs evs :
  let rs := snd (boot_loop 10 negs p0) in
  let h := w_h (session N p0 negs evs) in
  (length rs <= 10)%nat
  /\ (h_safe h = true <->
      exists rs0 a, rs = rs0 ++ [RAck a enable_frame] /\ forall x, In x rs0 -> confirms x = false)
  /\ h_needs h = negb (h_safe h)
  /\ (h_safe h = false -> host_frame h = h_out h).
Proof. exact (boot_mode_any N (world0 N p0) negs evs). Qed.

(* the mode of a later session of the same driver object depends on THAT session's start-up answers only:
   w is the world the earlier sessions left behind, arbitrary *)
Lemma safelink_per_session N w how negs evs :
  let rs := snd (boot_loop 10 negs (w_p w)) in
  let h := w_h (next_session N w (how, negs, evs)) in
  (length rs <= 10)%nat
  /\ (h_safe h = true <->
      exists rs0 a, rs = rs0 ++ [RAck a enable_frame] /\ forall x, In x rs0 -> confirms x = false)
  /\ h_needs h = negb (h_safe h)
  /\ (h_safe h = false -> host_frame h = h_out h).
Proof. exact (boot_mode_any N (reopen_world N how w) negs evs). Qed.

(* what a new start-up begins from *)
Lemma reopen_state N how w :
  let h := w_h (reopen_world N how w) in
  h_safe h = false /\ h_up h = false /\ h_down h = true /\ h_out h = [255] /\ h_retry h = N
  /\ h_needs h = h_needs (w_h w) /\ h_errs h = h_errs (w_h w)
  /\ h_outq h = match how with Restart => h_outq (w_h w) | Reconnect => None end
  /\ h_inq h = match how with Restart => h_inq (w_h w) | Reconnect => [] end
  /\ w_p (reopen_world N how w) = w_p w /\ w_last (reopen_world N how w) = RNone.
Proof. repeat split. Qed.

Lemma history_snoc N p0 negs evs more s :
  history N p0 negs evs (more ++ [s]) = next_session N (history N p0 negs evs more) s.
Proof. unfold history. now rewrite fold_left_app. Qed.

Lemma safelink_per_session_history N p0 negs evs more how negs' evs' :
  let before := history N p0 negs evs more in
  let rs := snd (boot_loop 10 negs' (w_p before)) in
  let h := w_h (history N p0 negs evs (more ++ [(how, negs', evs')])) in
  (length rs <= 10)%nat
  /\ (h_safe h = true <->
      exists rs0 a, rs = rs0 ++ [RAck a enable_frame] /\ forall x, In x rs0 -> confirms x = false)
  /\ h_needs h = negb (h_safe h)
  /\ (h_safe h = false -> host_frame h = h_out h).
Proof. cbv zeta. rewrite history_snoc. apply safelink_per_session. Qed.

(* the world-level negotiation is the host-level loop (the one tied on raw dongle answers) run on the
   answers the channel and the peer produce *)
Lemma host_boot_loop_spec n : forall negs p made,
  let '(_, ok, rs) := boot_loop n negs p in
  host_boot_loop n rs made = (ok, (made + length rs)%nat).
Proof.
  induction n as [|n IH]; intros negs p made; cbn [boot_loop].
  - cbn [host_boot_loop length]. f_equal. lia.
  - destruct (neg_transmit match negs with [] => NUpLost | o :: _ => o end p) as [q r].
    destruct (confirms r) eqn:C.
    + cbn [host_boot_loop length]. rewrite C. f_equal. lia.
    + specialize (IH (tl negs) q (S made)). destruct (boot_loop n (tl negs) q) as [[p2 ok] rs].
      cbn [host_boot_loop length]. rewrite C.
      destruct rs as [|r1 rs1].
      * (* the remaining attempts got no answer at all: only possible when n = 0 *)
        destruct n as [|n']; cbn [host_boot_loop] in *.
        -- injection IH as <-. f_equal. cbn [length]. lia.
        -- rewrite IH. f_equal. cbn [length]. lia.
      * rewrite IH. f_equal. cbn [length]. lia.
Qed.

Lemma boot_is_host_boot N p0 negs :
  let rs := snd (boot_loop 10 negs p0) in
  w_h (boot negs (world0 N p0)) = fst (host_boot rs (host0 N)).
Proof.
  cbv zeta. unfold boot, world0, host_boot. cbn [w_p w_h].
  pose proof (host_boot_loop_spec 10 negs p0 0) as H.
  destruct (boot_loop 10 negs p0) as [[p1 ok] rs]. cbn [snd]. rewrite H. reflexivity.
Qed.

(* ------------------------------------------------------------------ dataOut is never empty *)

Definition out_ne (w : world) : Prop :=
  h_out (w_h w) <> [] /\ forall f, h_outq (w_h w) = Some f -> f <> [].

Definition hout_ne (h : host) : Prop := h_out h <> [] /\ forall f, h_outq h = Some f -> f <> [].

Lemma host_sent_ne h : hout_ne h -> hout_ne (host_sent h).
Proof.
  intros [H1 H2]. split; [|exact H2]. cbn [host_sent h_out]. unfold host_frame.
  destruct (h_safe h); [now apply stamp_nonempty|assumption].
Qed.

Lemma host_flip_ne r h : hout_ne h -> hout_ne (host_flip r h).
Proof. intros H. destruct r as [|a d]; exact H. Qed.

Lemma host_loop_ne N r h : hout_ne h -> hout_ne (fst (host_loop N r h)).
Proof.
  intros [H1 H2]. destruct r as [|a d]; [split; assumption|]. unfold host_loop.
  destruct (negb a); cbn [fst]; split; cbn [h_out h_outq]; try assumption; try discriminate.
  destruct (h_outq h) as [f|] eqn:E; [now apply H2|discriminate].
Qed.

Lemma host_submit_ne hdr data h : hout_ne h -> hout_ne (fst (host_submit (hdr :: data) h)).
Proof.
  intros [H1 H2]. unfold host_submit. destruct (h_outq h) as [f0|] eqn:E; cbn [fst].
  - split; [assumption|]. rewrite E. exact H2.
  - split; [assumption|]. cbn [h_outq]. intros g Hg. injection Hg as <-. discriminate.
Qed.

Lemma step_out_ne N e w : out_ne w -> out_ne (step N e w).
Proof.
  unfold out_ne. fold (hout_ne (w_h w)). intros H.
  change (hout_ne (w_h (step N e w))).
  destruct e as [hdr data|hdr data| |o fill|exc|hdr data|wt]; cbn [step].
  - pose proof (host_submit_ne hdr data _ H) as H'. destruct (host_submit (hdr :: data) (w_h w)). exact H'.
  - exact H.
  - unfold host_receive. destruct (h_inq (w_h w)); exact H.
  - destruct (transmit o (host_frame (w_h w)) fill (w_p w)) as [p1 r]. cbn [w_h].
    unfold host_recv. now apply host_loop_ne, host_flip_ne, host_sent_ne.
  - destruct exc; cbn [w_h].
    + unfold host_exc. now apply host_loop_ne, host_sent_ne.
    + unfold host_recv. now apply host_loop_ne, host_flip_ne, host_sent_ne.
  - unfold host_submit_timeout. destruct (h_outq (w_h w)) eqn:E; cbn [w_h]; [exact H|].
    now apply host_submit_ne.
  - unfold host_receive_wait, host_receive. destruct (h_inq (w_h w)); exact H.
Qed.

Lemma run_out_ne N evs : forall w, out_ne w -> out_ne (run N w evs).
Proof.
  induction evs as [|e evs IH]; intros w Hw; [exact Hw|].
  cbn [run fold_left]. apply IH. now apply step_out_ne.
Qed.

Lemma dataout_never_empty N p0 negs evs : h_out (w_h (session N p0 negs evs)) <> [].
Proof.
  assert (H : out_ne (session N p0 negs evs)); [|exact (proj1 H)].
  unfold session. apply run_out_ne.
  unfold boot, world0. cbn [w_p]. destruct (boot_loop 10 negs p0) as [[p1 ok] rs].
  unfold out_ne. cbn [w_h]. destruct ok; cbn [host_after_boot host0 h_out h_outq]; split;
    try discriminate; intros g Hg; discriminate.
Qed.

(* ------------------------------------------------------------------ session-level progress *)

Lemma progress N p0 negs evs f1 f2 :
  peer_ok0 p0 -> Forall ev_ok evs -> confirmed N p0 negs ->
  let w := session N p0 negs evs in
  let w1 := session N p0 negs (evs ++ [Tx Ok f1]) in
  let w2 := session N p0 negs (evs ++ [Tx Ok f1; Tx Ok f2]) in
  p_rx (w_p w1) = p_rx (w_p w) ++
                  (if Bool.eqb (h_up (w_h w)) (p_up (w_p w)) then [] else [norm (h_out (w_h w))])
  /\ h_out (w_h w1) = match h_outq (w_h w) with Some f => f | None => [255] end
  /\ h_outq (w_h w1) = None
  /\ (exists l, h_inq (w_h w1) = h_inq (w_h w) ++ [dnorm l] /\
                (if Bool.eqb (h_down (w_h w)) (p_down (w_p w))
                 then p_last (w_p w) = Some l /\ p_txq (w_p w1) = p_txq (w_p w)
                 else p_txq (w_p w) = l :: p_txq (w_p w1)
                      \/ (p_txq (w_p w) = [] /\ p_txq (w_p w1) = [] /\ l = 243 :: f1)))
  /\ up_pending w2 = []
  /\ filter nnb (p_rx (w_p w2)) = map norm (w_accepted w2).
Proof.
  intros Hp Hev Hc w w1 w2.
  assert (I : Inv w) by now apply session_inv.
  unfold w1, w2. rewrite session_snoc. fold w.
  destruct (tx_ok_progress N f1 w I) as (H1 & H2 & H3 & _ & _ & l & H6 & H7).
  split; [exact H1|]. split; [exact H2|]. split; [exact H3|]. split.
  - exists l. split; [exact H6|].
    destruct H7 as [(E & A & B)|[(E & A)|(E & A & B & C)]]; rewrite E; auto.
  - unfold session. rewrite run_app. apply two_ok_flush. exact I.
Qed.

Lemma confirmed_peer_enabled N p0 negs :
  confirmed N p0 negs ->
  let w := boot negs (world0 N p0) in
  w_p w = mkPeer true true true (p_rx p0) (p_txq p0) None
  /\ h_up (w_h w) = false /\ h_down (w_h w) = false.
Proof.
  unfold confirmed, boot, world0. cbn [w_p w_h].
  destruct (boot_loop 10 negs p0) as [[p1 ok] rs] eqn:E.
  apply boot_loop_spec in E as (_ & _ & E3 & _). cbn [w_h w_p].
  destruct ok; cbn [host_after_boot h_safe host0]; [intros _|discriminate].
  rewrite (E3 eq_refl). repeat split.
Qed.

(* ------------------------------------------------------------------ USB failures *)

(* radio.send_packet returns None (usb.USBError swallowed inside Crazyradio.send_packet): nothing is counted,
   nothing is reported, whatever the number of such iterations — a dead dongle is never reported *)
Lemma usb_none_silent N w :
  let w1 := step N (TxUsb false) w in
  w_h w1 = host_sent (w_h w) /\ w_p w1 = w_p w /\ w_last w1 = RNone
  /\ w_xerrs w1 = w_xerrs w /\ w_serrs w1 = w_serrs w.
Proof. repeat split. Qed.

(* radio.send_packet raises: one 'Error communicating with crazy radio' report, nothing reaches the peer, and
   the body of the loop runs once more on the PREVIOUS answer *)
Lemma usb_exception_step N w :
  let w1 := step N (TxUsb true) w in
  let h := w_h w in let h1 := w_h w1 in
  w_xerrs w1 = w_xerrs w + 1 /\ w_p w1 = w_p w /\ w_last w1 = w_last w
  /\ h_up h1 = h_up h /\ h_down h1 = h_down h
  /\ match w_last w with
     | RNone => h1 = host_sent h
     | RAck false _ =>
         (* the previous loss is counted a second time; 'Too many packets lost' may fire on it *)
         h_retry h1 = h_retry h - 1 /\ h_errs h1 = h_errs h + (if h_retry h - 1 =? 0 then 1 else 0)
         /\ h_inq h1 = h_inq h /\ h_outq h1 = h_outq h /\ h_out h1 = host_frame h
     | RAck true d =>
         (* the previous payload is queued a second time and the frame that could not be sent is replaced by
            the next packet although the sequence bit did not advance *)
         h_retry h1 = N /\ h_errs h1 = h_errs h
         /\ h_inq h1 = h_inq h ++ match d with [] => [] | d0 :: rest => [crtp_in d0 rest] end
         /\ h_out h1 = match h_outq h with Some f => f | None => [255] end
         /\ h_outq h1 = None
     end.
Proof.
  cbv zeta. unfold step. cbn [w_h w_p w_last w_xerrs]. unfold host_exc.
  destruct (w_last w) as [|a d]; [repeat split|].
  destruct a; cbn [host_loop negb fst h_up h_down h_retry h_errs h_inq h_out h_outq host_sent].
  - repeat split. destruct d; [now rewrite app_nil_r|reflexivity].
  - repeat split. destruct (h_retry (w_h w) - 1 =? 0); lia.
Qed.

(* ------------------------------------------------------------------ RadioDriver API around the thread *)

Lemma send_timeout_spec N hdr data w :
  let w1 := step N (SubmitTimeout hdr data) w in
  match h_outq (w_h w) with
  | Some _ => w_serrs w1 = w_serrs w + 1 /\ w_h w1 = w_h w /\ w_accepted w1 = w_accepted w
  | None => w_serrs w1 = w_serrs w /\ w1 = step N (Submit hdr data) w
  end.
Proof.
  cbv zeta. unfold step, host_submit_timeout, host_submit.
  destruct (h_outq (w_h w)) eqn:E; cbn [fst]; repeat split.
Qed.

Lemma serrs_only_at_timeout N e w :
  (forall hdr data, e <> SubmitTimeout hdr data) -> w_serrs (step N e w) = w_serrs w.
Proof.
  intros He. destruct e as [hdr data|hdr data| |o fill|exc|hdr data|wt]; cbn [step].
  - destruct (host_submit (hdr :: data) (w_h w)). reflexivity.
  - reflexivity.
  - destruct (host_receive (w_h w)). reflexivity.
  - destruct (transmit o (host_frame (w_h w)) fill (w_p w)). reflexivity.
  - destruct exc; reflexivity.
  - exfalso. now apply (He hdr data).
  - destruct (host_receive_wait wt (w_h w)) as [[? ?] ?]. reflexivity.
Qed.

Lemma receive_wait_spec wait h :
  match h_inq h with
  | x :: t => host_receive_wait wait h = (fst (host_receive h), Some x, false)
              /\ h_inq (fst (host_receive h)) = t
  | [] => host_receive_wait wait h = (h, None, wait <? 0)
  end.
Proof.
  unfold host_receive_wait, host_receive. destruct (h_inq h) as [|x t] eqn:E; [reflexivity|].
  cbn [fst h_inq]. split; reflexivity.
Qed.

(* ------------------------------------------------------------------ dongle answer parsing, all status bytes *)

Fixpoint zrange (a : Z) (n : nat) : list Z :=
  match n with O => [] | S k => a :: zrange (a + 1) k end.

Lemma zrange_In a n z : In z (zrange a n) <-> a <= z < a + Z.of_nat n.
Proof.
  revert a; induction n as [|n IH]; intros a; cbn [zrange In].
  - lia.
  - rewrite IH. lia.
Qed.

Definition status_ok (s : Z) : bool :=
  Bool.eqb (negb (Z.land s 1 =? 0)) (Z.odd s) && Bool.eqb (negb (Z.land s 2 =? 0)) (Z.odd (s / 2))
  && (Z.shiftr s 4 =? s / 16) && (0 <=? s / 16) && (s / 16 <=? 15).

Lemma status_all_ok : forallb status_ok (zrange 0 (Z.to_nat 256)) = true.
Proof. vm_compute. reflexivity. Qed.

Lemma parse_ack_all_status arc s payload :
  0 <= s < 256 ->
  parse_ack arc (Some (s :: payload)) =
    Some (if s =? 0 then mkAck false false arc []
          else mkAck (Z.odd s) (Z.odd (s / 2)) (s / 16) payload)
  /\ 0 <= s / 16 <= 15
  /\ radio_ack_of_usb (Some (s :: payload)) = RAck (Z.odd s) (if s =? 0 then [] else payload).
Proof.
  intros Hs. assert (H : status_ok s = true).
  { pose proof status_all_ok as H. rewrite forallb_forall in H. apply H, zrange_In.
    rewrite Z2Nat.id; lia. }
  unfold status_ok in H.
  apply andb_true_iff in H as [H K5]. apply andb_true_iff in H as [H K4].
  apply andb_true_iff in H as [H K3]. apply andb_true_iff in H as [K1 K2].
  apply eqb_prop in K1. apply eqb_prop in K2. apply Z.eqb_eq in K3.
  unfold radio_ack_of_usb, parse_ack. destruct (s =? 0) eqn:E.
  - apply Z.eqb_eq in E. subst s. repeat split; try reflexivity; lia.
  - rewrite K1, K2, K3. cbn [resp_of_ack a_ack a_data]. repeat split; lia.
Qed.

(* ------------------------------------------------------------------ refutations: what is NOT guaranteed *)

Definition rf_p0 : peer := mkPeer false false true [] [[80; 9]] None.

(* without a confirmed negotiation (here: never answered) the same loop duplicates an uplink packet and
   loses a downlink packet on ONE lost acknowledgement *)
Lemma without_confirmation_refuted :
  exists N p0 negs evs,
    peer_ok0 p0 /\ Forall ev_ok evs /\ ~ confirmed N p0 negs /\
    let w := session N p0 negs evs in
    (* one packet accepted, delivered twice *)
    map norm (w_accepted w) = [[48; 1; 2]]
    /\ map norm (filter nnb (p_rx (w_p w))) = [[48; 1; 2]; [48; 1; 2]] /\ up_pending w = []
    (* two packets queued, the second one taken from the peer's queue but never handed to the application *)
    /\ map dnorm (w_queued w) = [[92; 9]; [92; 7]]
    /\ filter nnb (w_got w ++ h_inq (w_h w)) = [[92; 9]] /\ down_pending w = [].
Proof.
  exists 3, rf_p0, [],
    [Submit 60 [1; 2]; Tx Ok []; PeerQueue 92 [7]; Tx AckLost []; Tx Ok [1]].
  split; [split; [reflexivity|repeat constructor]|].
  split; [repeat constructor; cbn; discriminate|].
  split; [unfold confirmed; vm_compute; intros H; discriminate H|].
  vm_compute. repeat split.
Qed.

(* one exception of radio.send_packet (already reported as a link error) after which the stale answer is
   processed again: the accepted packet [60;1] never reaches the peer, the queued packet [92;7] comes out of
   receive_packet twice — even after the link has fully recovered (three acknowledged transmissions) *)
Lemma usb_exception_breaks_exactly_once :
  exists N p0 negs evs,
    peer_ok0 p0 /\ confirmed N p0 negs /\
    let w := session N p0 negs evs in
    w_xerrs w = 1 /\ h_errs (w_h w) = 0
    /\ w_accepted w = [[60; 1]] /\ filter nnb (p_rx (w_p w)) = [] /\ up_pending w = []
    /\ w_queued w = [[92; 7]] /\ filter nnb (w_got w) = [[92; 7]; [92; 7]].
Proof.
  exists 3, (mkPeer false false true [] [] None), [NOk],
    [PeerQueue 92 [7]; Submit 60 [1]; Tx Ok []; TxUsb true; Tx Ok []; Tx Ok []; Tx Ok []; Recv; Recv; Recv; Recv; Recv].
  split; [split; [reflexivity|constructor]|]. split; [reflexivity|].
  vm_compute. repeat split.
Qed.

(* ... and 'Too many packets lost' after ONE unacknowledged transmission although N = 2 *)
Lemma usb_exception_miscounts :
  exists p0 negs evs,
    confirmed 2 p0 negs /\ tx_outcomes evs = [UpLost] /\
    h_errs (w_h (session 2 p0 negs evs)) = 1 /\ w_xerrs (session 2 p0 negs evs) = 1.
Proof.
  exists (mkPeer false false true [] [] None), [NOk], [Tx UpLost []; TxUsb true].
  repeat split.
Qed.

(* RadioDriver.close() throws away what send_packet accepted but the loop had not taken yet *)
Lemma close_discards_accepted :
  exists N p0 negs evs,
    peer_ok0 p0 /\ Forall ev_ok evs /\ confirmed N p0 negs /\
    let w := close_world (session N p0 negs evs) in
    w_accepted w = [[60; 1]; [77; 2]] /\ filter nnb (p_rx (w_p w)) = [] /\ h_outq (w_h w) = None.
Proof.
  exists 3, (mkPeer false false true [] [] None), [NOk], [Submit 60 [1]; Tx UpLost []; Tx Ok []; Submit 77 [2]].
  split; [split; [reflexivity|constructor]|].
  split; [repeat constructor; cbn; discriminate|]. split; [reflexivity|].
  vm_compute. repeat split.
Qed.

Lemma close_keeps_received w :
  h_inq (w_h (close_world w)) = h_inq (w_h w) /\ w_got (close_world w) = w_got w
  /\ w_p (close_world w) = w_p w /\ h_outq (w_h (close_world w)) = None.
Proof. repeat split. Qed.

(* ------------------------------------------------------------------ when can the sending thread report? *)

Lemma step_outq_cases N e w :
  h_outq (w_h (step N e w)) = None
  \/ (h_outq (w_h (step N e w)) = h_outq (w_h w) /\ w_accepted (step N e w) = w_accepted w /\ is_tx_ok e = false)
  \/ (h_outq (w_h w) = None /\ exists p, w_accepted (step N e w) = w_accepted w ++ [p]).
Proof.
  destruct e as [hdr data|hdr data| |o fill|exc|hdr data|wt]; cbn [step is_tx_ok].
  - unfold host_submit. destruct (h_outq (w_h w)) eqn:E; cbn [w_h w_accepted].
    + right. left. repeat split. exact E.
    + right. right. split; [reflexivity|]. now exists (hdr :: data).
  - right. left. repeat split.
  - unfold host_receive. destruct (h_inq (w_h w)); right; left; repeat split.
  - destruct o; cbn [transmit].
    + destruct (peer_recv (host_frame (w_h w)) fill (w_p w)) as [p1 r]. left. reflexivity.
    + right. left. repeat split.
    + right. left. repeat split.
  - destruct exc; cbn [w_h w_accepted].
    + unfold host_exc. destruct (w_last w) as [|a d]; [right; left; repeat split|].
      destruct a; [left; reflexivity|right; left; repeat split].
    + right. left. repeat split.
  - unfold host_submit_timeout, host_submit. destruct (h_outq (w_h w)) eqn:E; cbn [w_h w_accepted fst].
    + right. left. repeat split. exact E.
    + right. right. split; [reflexivity|]. now exists (hdr :: data).
  - unfold host_receive_wait, host_receive. destruct (h_inq (w_h w)); right; left; repeat split.
Qed.

Lemma boot_outq N p0 negs : h_outq (w_h (boot negs (world0 N p0))) = None.
Proof.
  unfold boot, world0. cbn [w_p w_h]. destruct (boot_loop 10 negs p0) as [[p1 ok] rs].
  cbn [w_h]. destruct ok; reflexivity.
Qed.

(* out_queue full => the packet in it was accepted at some event after which no transmission was acknowledged *)
Lemma full_queue_no_ack N p0 negs evs :
  h_outq (w_h (session N p0 negs evs)) <> None ->
  exists evs1 e evs2 p,
    evs = evs1 ++ e :: evs2
    /\ w_accepted (session N p0 negs (evs1 ++ [e])) = w_accepted (session N p0 negs evs1) ++ [p]
    /\ Forall (fun e => is_tx_ok e = false) evs2.
Proof.
  induction evs as [|e evs IH] using rev_ind; intros Hq.
  - exfalso. apply Hq. unfold session. cbn [run fold_left]. apply boot_outq.
  - rewrite session_snoc in Hq.
    destruct (step_outq_cases N e (session N p0 negs evs)) as [A|[(B1 & B2 & B3)|(C1 & p & C2)]].
    + congruence.
    + rewrite B1 in Hq. destruct (IH Hq) as (evs1 & e1 & evs2 & p & -> & Ha & Hf).
      exists evs1, e1, (evs2 ++ [e]), p. split; [now rewrite <- app_assoc|]. split; [exact Ha|].
      apply Forall_app. split; [exact Hf|]. constructor; [exact B3|constructor].
    + exists evs, e, [], p. split; [reflexivity|]. split; [|constructor].
      rewrite session_snoc. exact C2.
Qed.

Lemma send_timeout_only_without_ack N p0 negs evs hdr data :
  w_serrs (session N p0 negs (evs ++ [SubmitTimeout hdr data])) <> w_serrs (session N p0 negs evs) ->
  exists evs1 e evs2 p,
    evs = evs1 ++ e :: evs2
    /\ w_accepted (session N p0 negs (evs1 ++ [e])) = w_accepted (session N p0 negs evs1) ++ [p]
    /\ Forall (fun e => is_tx_ok e = false) evs2.
Proof.
  intros H. apply full_queue_no_ack. intros Hq. apply H. rewrite session_snoc.
  pose proof (send_timeout_spec N hdr data (session N p0 negs evs)) as S. cbv zeta in S.
  rewrite Hq in S. apply S.
Qed.

(* ------------------------------------------------------------------ the shared dongle *)

Lemma zeqb_eq' a b : (a =? b) = true -> a = b.
Proof. apply Z.eqb_eq. Qed.

Ltac coh_solve H1 H2 H3 :=
  repeat split; cbn [d_hw d_cch d_cdr d_caddr s_ch s_dr s_addr]; try reflexivity;
  try (now apply H1); try (now apply H2); try (now apply H3);
  try (intros y Hy; first [apply H1; congruence | apply H2; congruence | apply H3; congruence
                          | injection Hy as <-; reflexivity]).

Lemma cr_set_channel_spec c d : coherent d ->
  coherent (cr_set_channel c d) /\ s_ch (d_hw (cr_set_channel c d)) = c
  /\ s_dr (d_hw (cr_set_channel c d)) = s_dr (d_hw d) /\ s_addr (d_hw (cr_set_channel c d)) = s_addr (d_hw d).
Proof.
  destruct d as [[hc hr ha] cc cr ca]. unfold coherent, cr_set_channel, oz_eqb.
  cbn [d_hw d_cch d_cdr d_caddr s_ch s_dr s_addr]. intros (H1 & H2 & H3).
  destruct cc as [x|]; [destruct (x =? c) eqn:E1|].
  - apply Z.eqb_eq in E1. subst x. coh_solve H1 H2 H3.
  - coh_solve H1 H2 H3.
  - coh_solve H1 H2 H3.
Qed.

Lemma cr_set_data_rate_spec r d : coherent d ->
  coherent (cr_set_data_rate r d) /\ s_dr (d_hw (cr_set_data_rate r d)) = r
  /\ s_ch (d_hw (cr_set_data_rate r d)) = s_ch (d_hw d) /\ s_addr (d_hw (cr_set_data_rate r d)) = s_addr (d_hw d).
Proof.
  destruct d as [[hc hr ha] cc cr ca]. unfold coherent, cr_set_data_rate, oz_eqb.
  cbn [d_hw d_cch d_cdr d_caddr s_ch s_dr s_addr]. intros (H1 & H2 & H3).
  destruct cr as [x|]; [destruct (x =? r) eqn:E1|].
  - apply Z.eqb_eq in E1. subst x. coh_solve H1 H2 H3.
  - coh_solve H1 H2 H3.
  - coh_solve H1 H2 H3.
Qed.

Lemma cr_set_address_spec a d : coherent d ->
  coherent (cr_set_address a d) /\ s_addr (d_hw (cr_set_address a d)) = a
  /\ s_ch (d_hw (cr_set_address a d)) = s_ch (d_hw d) /\ s_dr (d_hw (cr_set_address a d)) = s_dr (d_hw d).
Proof.
  destruct d as [[hc hr ha] cc cr ca]. unfold coherent, cr_set_address, ol_eqb.
  cbn [d_hw d_cch d_cdr d_caddr s_ch s_dr s_addr]. intros (H1 & H2 & H3).
  destruct ca as [x|]; [destruct (zlist_eqb x a) eqn:E1|].
  - apply zlist_eqb_spec in E1. subst x. coh_solve H1 H2 H3.
  - coh_solve H1 H2 H3.
  - coh_solve H1 H2 H3.
Qed.

Lemma scan_channels_loop_spec n : forall start pk d, coherent d ->
  coherent (snd (scan_channels_loop start n pk d)) /\ sends_tuned (fst (scan_channels_loop start n pk d)).
Proof.
  induction n as [|n IH]; intros start pk d H; cbn [scan_channels_loop].
  - split; [exact H|constructor].
  - destruct (cr_set_channel_spec start d H) as (H1 & _).
    specialize (IH (start + 1) pk _ H1).
    destruct (scan_channels_loop (start + 1) n pk (cr_set_channel start d)) as [l d2]. cbn [fst snd] in *.
    split; [apply IH|]. constructor; [exact I|apply IH].
Qed.

Lemma scan_selected_loop_spec sel : forall pk d, coherent d ->
  coherent (snd (scan_selected_loop sel pk d)) /\ sends_tuned (fst (scan_selected_loop sel pk d)).
Proof.
  induction sel as [|[c r] t IH]; intros pk d H; cbn [scan_selected_loop].
  - split; [exact H|constructor].
  - destruct (cr_set_channel_spec c d H) as (H1 & _).
    destruct (cr_set_data_rate_spec r _ H1) as (H2 & _).
    specialize (IH pk _ H2).
    destruct (scan_selected_loop t pk (cr_set_data_rate r (cr_set_channel c d))) as [l d2]. cbn [fst snd] in *.
    split; [apply IH|]. constructor; [exact I|apply IH].
Qed.

Lemma dongle0_coherent : coherent dongle0.
Proof. repeat split; intros x H; injection H as <-; reflexivity. Qed.

Lemma rstep_spec c d : coherent d -> coherent (snd (rstep c d)) /\ sends_tuned (fst (rstep c d)).
Proof.
  intros H. destruct c as [i s pk|i dr addr start n pk|i dr addr sel pk|i arc|i|]; cbn [rstep fst snd].
  - destruct (cr_set_channel_spec (s_ch s) d H) as (H1 & C1 & _).
    destruct (cr_set_address_spec (s_addr s) _ H1) as (H2 & A2 & C2 & _).
    destruct (cr_set_data_rate_spec (s_dr s) _ H2) as (H3 & R3 & C3 & A3).
    split; [exact H3|]. constructor; [|constructor]. cbn [x_req x_hw].
    destruct s as [c r a]. cbn [s_ch s_dr s_addr] in *.
    destruct (d_hw (cr_set_data_rate r (cr_set_address a (cr_set_channel c d)))) as [c' r' a'].
    cbn [s_ch s_dr s_addr] in *. congruence.
  - destruct (cr_set_data_rate_spec dr d H) as (H1 & _). destruct (cr_set_address_spec addr _ H1) as (H2 & _).
    apply scan_channels_loop_spec. exact H2.
  - destruct (cr_set_data_rate_spec dr d H) as (H1 & _). destruct (cr_set_address_spec addr _ H1) as (H2 & _).
    apply scan_selected_loop_spec. exact H2.
  - split; [exact H|constructor].
  - split; [exact H|constructor].
  - split; [exact dongle0_coherent|constructor].
Qed.

Lemma rexec_spec cs : forall d, coherent d -> coherent (snd (rexec cs d)) /\ sends_tuned (fst (rexec cs d)).
Proof.
  induction cs as [|c t IH]; intros d H; cbn [rexec].
  - split; [exact H|constructor].
  - destruct (rstep_spec c d H) as (H1 & S1). destruct (rstep c d) as [l d1]. cbn [fst snd] in *.
    specialize (IH d1 H1). destruct (rexec t d1) as [l2 d2]. cbn [fst snd] in *.
    split; [apply IH|]. apply Forall_app. split; [exact S1|apply IH].
Qed.

Lemma shared_dongle_always_tuned cs d : coherent d -> sends_tuned (fst (rexec cs d)).
Proof. intros H. now apply rexec_spec. Qed.

Lemma cached_tuning_refuted :
  exists cs, ~ sends_tuned (rexec_cached cs (dongle0, None)).
Proof.
  exists [CSend 0 (mkSet 80 2 [231; 231; 231; 231; 1]) [255];
          CScanChannels 1 0 [231; 231; 231; 231; 231] 0 3%nat [255];
          CSend 0 (mkSet 80 2 [231; 231; 231; 231; 1]) [60; 1]].
  intros H. vm_compute in H.
  inversion H as [|? ? _ H1]; subst. inversion H1 as [|? ? _ H2]; subst. inversion H2 as [|? ? _ H3]; subst.
  inversion H3 as [|? ? _ H4]; subst. inversion H4 as [|? ? H5 _]; subst. discriminate H5.
Qed.

(* ------------------------------------------------------------------ answers are values *)

Lemma reads_of_app i a b : reads_of i (a ++ b) = reads_of i a ++ reads_of i b.
Proof. unfold reads_of. now rewrite filter_app, map_app. Qed.

Lemma xrun_value_inv evs : forall q log i,
  let '(q1, log1) := fold_left xstep_value evs (q, log) in
  reads_of i log1 ++ q1 i = reads_of i log ++ q i ++ dones_of i evs.
Proof.
  induction evs as [|e evs IH]; intros q log i; cbn [fold_left dones_of flat_map].
  - now rewrite app_nil_r.
  - destruct e as [j a|j]; cbn [xstep_value].
    + specialize (IH (qupd q j (q j ++ [a])) log i).
      destruct (fold_left xstep_value evs (qupd q j (q j ++ [a]), log)) as [q1 log1].
      rewrite IH. unfold qupd. fold (dones_of i evs). destruct (i =? j) eqn:E.
      * apply Z.eqb_eq in E. subst j. rewrite Z.eqb_refl. cbn [app]. now rewrite <- !app_assoc.
      * rewrite Z.eqb_sym, E. reflexivity.
    + fold (dones_of i evs). destruct (q j) as [|a t] eqn:Eq.
      * apply IH.
      * specialize (IH (qupd q j t) (log ++ [(j, a)]) i).
        destruct (fold_left xstep_value evs (qupd q j t, log ++ [(j, a)])) as [q1 log1].
        rewrite IH, reads_of_app. unfold qupd, reads_of at 2. cbn [filter fst map snd].
        destruct (i =? j) eqn:E.
        -- apply Z.eqb_eq in E. subst j. rewrite Z.eqb_refl, Eq. cbn [map snd app].
           now rewrite <- !app_assoc.
        -- rewrite Z.eqb_sym, E. cbn [map app]. now rewrite app_nil_r.
Qed.

(* every instance sees exactly the answers of its own transfers, in order, whatever the interleaving *)
Lemma answers_are_own evs i :
  reads_of i (snd (xrun_value evs)) ++ fst (xrun_value evs) i = dones_of i evs.
Proof.
  unfold xrun_value. pose proof (xrun_value_inv evs (fun _ => []) [] i) as H.
  destruct (fold_left xstep_value evs (fun _ => [], [])) as [q1 log1]. cbn [fst snd]. exact H.
Qed.

Lemma shared_cell_refuted :
  exists evs i, ~ (exists rest, dones_of i evs = reads_of i (xrun_cell evs) ++ rest).
Proof.
  exists [XDone 0 (RAck true [1]); XDone 1 (RAck false []); XRead 0], 0.
  intros [rest H]. vm_compute in H. discriminate H.
Qed.

(* ------------------------------------------------------------------ link statistics never raise (HEAD's guards) *)

Definition stats_ok (s : rstats) : Prop := 0 <= st_up s /\ 0 <= st_down s.

Lemma stats_update_total o d e s : stats_ok s -> exists s1, stats_update o d e s = Some s1 /\ stats_ok s1.
Proof.
  intros [Hu Hd]. unfold stats_update. destruct d as [|d0 t].
  - eexists. split; [reflexivity|]. split; cbn [st_up st_down]; lia.
  - destruct e.
    + unfold stats_report, pdiv. cbn [st_up st_nup st_down st_ndown].
      destruct (st_up s + 1 =? 0) eqn:E1; [lia|]. destruct (st_down s + 1 =? 0) eqn:E2; [lia|].
      exists stats0. split; [reflexivity|]. split; cbn; lia.
    + eexists. split; [reflexivity|]. split; cbn [st_up st_down]; lia.
Qed.

Lemma stats_never_raise calls : forall s, stats_ok s -> exists s1, stats_run stats_update calls s = Some s1.
Proof.
  induction calls as [|[[o d] e] t IH]; intros s H; cbn [stats_run].
  - now exists s.
  - destruct (stats_update_total o d e s H) as (s1 & -> & H1). now apply IH.
Qed.

Lemma stats_unguarded_refuted :
  exists calls, stats_run stats_update_unguarded calls stats0 = None.
Proof. exists [(false, [], true)]. reflexivity. Qed.

Lemma stats_never_raise0 calls : exists s1, stats_run stats_update calls stats0 = Some s1.
Proof. apply stats_never_raise. split; cbn; lia. Qed.

(* ------------------------------------------------------------------ the frame is the whole packet (wave 13) *)

(* dataOut = header :: payload; stamping touches the header byte only; the peer hands on exactly those bytes *)
Lemma frame_is_whole_packet u d hdr data :
  stamp u d (hdr :: data) = stamp_hdr u d hdr :: data
  /\ length (stamp u d (hdr :: data)) = S (length data)
  /\ norm (stamp u d (hdr :: data)) = Z.land hdr 243 :: data.
Proof. repeat split. cbn [stamp norm]. now rewrite stamp_hdr_mask. Qed.

Definition full30 : list Z := map Z.of_nat (seq 1 30).

(* a full-size packet (30 payload bytes) through a lossy start: the peer gets all 31 bytes, once *)
Lemma full_size_delivered :
  let w := session 3 (mkPeer false false true [] [] None) [NOk]
             [Submit 60 full30; Tx Ok []; Tx UpLost []; Tx AckLost []; Tx Ok []; Tx Ok []] in
  filter nnb (p_rx (w_p w)) = [48 :: full30] /\ length (48 :: full30) = 31%nat /\ up_pending w = [].
Proof. vm_compute. repeat split. Qed.

(* cutting the FRAME at MAX_DATA_SIZE = 30 bytes (the payload limit applied to header + payload) loses the last
   payload byte of a full-size packet *)
Lemma truncated_frame_refuted :
  exists hdr data, length data = 30%nat /\ norm (firstn 30 (hdr :: data)) <> norm (hdr :: data)
                   /\ forall data', (length data' <= 29)%nat -> firstn 30 (hdr :: data') = hdr :: data'.
Proof.
  exists 60, full30. split; [reflexivity|]. split; [vm_compute; discriminate|].
  intros data' H. apply firstn_all2. cbn [length]. lia.
Qed.

(* ------------------------------------------------------------------ instance ids are never shared (wave 15) *)

Lemma NoDup_snoc {A} (l : list A) x : NoDup l -> ~ In x l -> NoDup (l ++ [x]).
Proof.
  induction l as [|a l IH]; intros H Hx; cbn [app].
  - constructor; [intros []|constructor].
  - inversion H as [|? ? Ha Hl]; subst. constructor.
    + intros Hin. apply in_app_or in Hin as [Hin|[<-|[]]]; [now apply Ha|apply Hx; now left].
    + apply IH; [assumption|]. intros Hin. apply Hx. now right.
Qed.

Lemma NoDup_filter' {A} (f : A -> bool) l : NoDup l -> NoDup (filter f l).
Proof.
  induction 1 as [|a l Ha _ IH]; cbn [filter]; [constructor|].
  destruct (f a); [|exact IH]. constructor; [|exact IH].
  intros Hin. apply filter_In in Hin as [Hin _]. now apply Ha.
Qed.

Definition ids_ok (st : Z * list Z) : Prop := NoDup (snd st) /\ Forall (fun i => 0 <= i < fst st) (snd st) /\ 0 <= fst st.

Lemma istep_counter_ok st e : ids_ok st -> ids_ok (istep_counter st e).
Proof.
  destruct st as [n l]. intros (H1 & H2 & H3). cbn [fst snd] in H1, H2, H3.
  destruct e as [|i]; cbn [istep_counter fst snd]; unfold ids_ok; cbn [fst snd].
  - split; [|split; [|lia]].
    + apply NoDup_snoc; [exact H1|]. intros Hin. rewrite Forall_forall in H2. specialize (H2 n Hin). lia.
    + apply Forall_app. split.
      * eapply Forall_impl; [|exact H2]. cbv beta. intros a Ha. lia.
      * constructor; [lia|constructor].
  - split; [now apply NoDup_filter'|]. split; [|exact H3].
    rewrite Forall_forall in *. intros x Hx. apply filter_In in Hx as [Hx _]. now apply H2.
Qed.

Lemma instance_ids_distinct evs : NoDup (snd (irun_counter evs)).
Proof.
  assert (H : forall st, ids_ok st -> ids_ok (fold_left istep_counter evs st)).
  { induction evs as [|e evs IH]; intros st Hst; [exact Hst|]. cbn [fold_left]. apply IH. now apply istep_counter_ok. }
  apply (H (0, [])). unfold ids_ok. cbn [fst snd]. split; [constructor|]. split; [constructor|lia].
Qed.

Lemma instance_ids_by_count_refuted : exists evs, ~ NoDup (irun_len evs).
Proof.
  exists [IOpen; IOpen; IClose 0; IOpen]. vm_compute. intros H.
  inversion H as [|? ? Hn _]; subst. apply Hn. now left.
Qed.
