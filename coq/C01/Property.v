(* C01/Property.v — property C01 (radio link: exactly once, in order, despite loss), theorems only.
   Each is closed by `exact <lemma of Proofs.v>` and followed by Print Assumptions.

   Vocabulary (C01/Model.v):  session N p0 negs evs  is the world after the link start-up against a peer in
   start state p0 with per-attempt outcomes negs (missing ones = lost), followed by the events evs in any
   interleaving:  Submit (application send_packet), PeerQueue (Crazyflie queues a packet), Recv (application
   receive_packet), Tx o fill (one radio-loop iteration whose transmission has outcome o in
   {Ok, UpLost, AckLost}).  N is _nr_of_retries.  confirmed = the host switched to safelink.
   ev_ok: application packets are not on port 15 / channel 3 (the link layer's own header 0xF3|bits).
   norm / dnorm: a packet with the two link bits of its header masked (uplink) / as CRTPPacket presents it
   (downlink); nnb: not a null packet. *)
From CF Require Import Common.Bytes C01.Model C01.Proofs C01.Examples.
Open Scope Z_scope.

(* Every packet accepted by send_packet reaches the Crazyflie exactly once and in submission order:
   what the peer handed to its firmware (null packets aside), followed by the at most two packets still
   on their way (the frame being retransmitted if the peer has not taken it yet, then out_queue), IS the
   list of accepted packets — for every loss pattern and every interleaving. *)
Theorem C01_uplink_exactly_once_in_order : forall N p0 negs evs,
  peer_ok0 p0 -> Forall ev_ok evs -> confirmed N p0 negs ->
  let w := session N p0 negs evs in
  filter nnb (p_rx (w_p w)) ++ up_pending w = map norm (w_accepted w)
  /\ (length (up_pending w) <= 2)%nat.
Proof. exact uplink_exactly_once. Qed.
Print Assumptions C01_uplink_exactly_once_in_order.

(* Every packet the Crazyflie queues comes out of receive_packet exactly once and in order: what the
   application got, then in_queue (null packets aside), then the payload whose acknowledgement was lost
   (if any), then the peer's queue, IS the list of queued packets. *)
Theorem C01_downlink_exactly_once_in_order : forall N p0 negs evs,
  peer_ok0 p0 -> Forall ev_ok evs -> confirmed N p0 negs ->
  let w := session N p0 negs evs in
  filter nnb (w_got w ++ h_inq (w_h w)) ++ down_pending w = map dnorm (w_queued w)
  /\ (length (down_pending w) <= 1 + length (p_txq (w_p w)))%nat.
Proof. exact downlink_exactly_once. Qed.
Print Assumptions C01_downlink_exactly_once_in_order.

(* Not vacuous: an acknowledged transmission hands the frame in dataOut to the peer (unless it already
   has it), loads the next packet, and puts exactly one more downlink payload into in_queue (the one whose
   ack was lost, else the head of the peer's queue, else a null packet); two acknowledged transmissions
   leave no accepted packet undelivered. *)
Theorem C01_progress : forall N p0 negs evs f1 f2,
  peer_ok0 p0 -> Forall ev_ok evs -> confirmed N p0 negs ->
  let w := session N p0 negs evs in
  let w1 := session N p0 negs (evs ++ [Tx Ok f1]) in
  let w2 := session N p0 negs (evs ++ [Tx Ok f1; Tx Ok f2]) in
  p_rx (w_p w1) = p_rx (w_p w) ++
                  (if Bool.eqb (h_up (w_h w)) (p_up (w_p w)) then [] else [norm (h_out (w_h w))])
  /\ h_out (w_h w1) = match h_outq (w_h w) with Some f => f | None => [255] end
  /\ h_outq (w_h w1) = None
  /\ (exists l, h_inq (w_h w1) = h_inq (w_h w) ++ [dnorm l] /\
                (if Bool.eqb (h_down (w_h w)) (p_down (w_p w))
                 then p_last (w_p w) = Some l /\ p_txq (w_p w1) = p_txq (w_p w)
                 else p_txq (w_p w) = l :: p_txq (w_p w1)
                      \/ (p_txq (w_p w) = [] /\ p_txq (w_p w1) = [] /\ l = 243 :: f1)))
  /\ up_pending w2 = []
  /\ filter nnb (p_rx (w_p w2)) = map norm (w_accepted w2).
Proof. exact progress. Qed.
Print Assumptions C01_progress.

(* A link error is reported exactly when N consecutive transmissions have gone unacknowledged, the count
   restarting at every acknowledgement: the error callback count goes up (by one) at a transmission iff
   that transmission is unacknowledged and is the N-th since the last acknowledged one; no other event
   reports an error; none is reported at start-up.  Holds with and without safelink, for every N, also when
   the dongle fails silently in between (TxUsb false: radio.send_packet returns None, neither counted nor
   resetting the count); no_exc: radio.send_packet never raised (see C01_usb_exception_* below). *)
Theorem C01_link_error_exact : forall N p0 negs evs,
  Forall no_exc evs ->
  (forall o fill,
     h_errs (w_h (session N p0 negs (evs ++ [Tx o fill]))) =
     h_errs (w_h (session N p0 negs evs)) +
     (if negb (is_ok o) && (trailing_unacked (tx_outcomes evs ++ [o]) =? N) then 1 else 0))
  /\ (forall e, not_tx e ->
        h_errs (w_h (session N p0 negs (evs ++ [e]))) = h_errs (w_h (session N p0 negs evs)))
  /\ h_errs (w_h (session N p0 negs [])) = 0.
Proof. exact link_error_exact. Qed.
Print Assumptions C01_link_error_exact.

(* Safelink is used only if the peer confirmed it during start-up: the host is in safelink mode (now and
   for the rest of the session) iff the last of its at most 10 attempts was answered by exactly ff 05 01 and
   none before was; needs_resending is the negation; without safelink the frames go out untouched. *)
Theorem C01_safelink_only_if_confirmed : forall N p0 negs evs,
  let rs := snd (boot_loop 10 negs p0) in
  let h := w_h (session N p0 negs evs) in
  (length rs <= 10)%nat
  /\ (h_safe h = true <->
      exists rs0 a, rs = rs0 ++ [RAck a enable_frame] /\ forall x, In x rs0 -> confirms x = false)
  /\ h_needs h = negb (h_safe h)
  /\ (h_safe h = false -> host_frame h = h_out h).
Proof. exact safelink_only_if_confirmed. Qed.
Print Assumptions C01_safelink_only_if_confirmed.

(* ... and when it is confirmed, the peer has switched too and both ends start from the agreed bits. *)
Theorem C01_confirmed_peer_enabled : forall N p0 negs,
  confirmed N p0 negs ->
  let w := boot negs (world0 N p0) in
  w_p w = mkPeer true true true (p_rx p0) (p_txq p0) None
  /\ h_up (w_h w) = false /\ h_down (w_h w) = false.
Proof. exact confirmed_peer_enabled. Qed.
Print Assumptions C01_confirmed_peer_enabled.

(* The start-up loop of the world model is the host-level loop (tied to the code on raw dongle answers)
   applied to the answers the channel and the peer produce. *)
Theorem C01_boot_is_host_boot : forall N p0 negs,
  let rs := snd (boot_loop 10 negs p0) in
  w_h (boot negs (world0 N p0)) = fst (host_boot rs (host0 N)).
Proof. exact boot_is_host_boot. Qed.
Print Assumptions C01_boot_is_host_boot.

(* packet[0] in _send_packet_safe never raises IndexError: dataOut is never empty (any mode). *)
Theorem C01_dataout_never_empty : forall N p0 negs evs, h_out (w_h (session N p0 negs evs)) <> [].
Proof. exact dataout_never_empty. Qed.
Print Assumptions C01_dataout_never_empty.

(* ===================== round 2: USB failures, the RadioDriver API around the thread, answer parsing ===== *)

(* radio.send_packet returning None (usb.USBError swallowed by Crazyradio.send_packet) is invisible: no
   count, no report, no state change besides the in-place stamping.  (The delivery theorems above allow such
   iterations anywhere: ev_ok (TxUsb false).)  Consequence: a dongle that only fails this way is never
   reported as a link failure by the loop. *)
Theorem C01_usb_none_is_silent : forall N w,
  let w1 := step N (TxUsb false) w in
  w_h w1 = host_sent (w_h w) /\ w_p w1 = w_p w /\ w_last w1 = RNone
  /\ w_xerrs w1 = w_xerrs w /\ w_serrs w1 = w_serrs w.
Proof. exact usb_none_silent. Qed.
Print Assumptions C01_usb_none_is_silent.

(* radio.send_packet raising: exactly one 'Error communicating with crazy radio' report; nothing reaches the
   peer; the sequence bits stay; and then the loop body runs AGAIN on the previous iteration's answer
   (`ackStatus` is not reset): a previous loss is counted twice, a previous acknowledged answer is queued
   twice and the unsent frame is replaced by the next packet. *)
Theorem C01_usb_exception_replays_stale_answer : forall N w,
  let w1 := step N (TxUsb true) w in
  let h := w_h w in let h1 := w_h w1 in
  w_xerrs w1 = w_xerrs w + 1 /\ w_p w1 = w_p w /\ w_last w1 = w_last w
  /\ h_up h1 = h_up h /\ h_down h1 = h_down h
  /\ match w_last w with
     | RNone => h1 = host_sent h
     | RAck false _ =>
         h_retry h1 = h_retry h - 1 /\ h_errs h1 = h_errs h + (if h_retry h - 1 =? 0 then 1 else 0)
         /\ h_inq h1 = h_inq h /\ h_outq h1 = h_outq h /\ h_out h1 = host_frame h
     | RAck true d =>
         h_retry h1 = N /\ h_errs h1 = h_errs h
         /\ h_inq h1 = h_inq h ++ match d with [] => [] | d0 :: rest => [crtp_in d0 rest] end
         /\ h_out h1 = match h_outq h with Some f => f | None => [255] end
         /\ h_outq h1 = None
     end.
Proof. exact usb_exception_step. Qed.
Print Assumptions C01_usb_exception_replays_stale_answer.

(* Hence AFTER such an exception (a link failure already reported to the application) exactly-once no longer
   holds, even if the link recovers completely: witness with one accepted packet never delivered and one
   queued packet received twice.  Not a violation of C01 (which speaks of loss patterns short of a link
   failure, over the three channel outcomes), but the reason why `no_exc`/`ev_ok` exclude TxUsb true. *)
Theorem C01_usb_exception_then_not_exactly_once_refuted :
  exists N p0 negs evs,
    peer_ok0 p0 /\ confirmed N p0 negs /\
    let w := session N p0 negs evs in
    w_xerrs w = 1 /\ h_errs (w_h w) = 0
    /\ w_accepted w = [[60; 1]] /\ filter nnb (p_rx (w_p w)) = [] /\ up_pending w = []
    /\ w_queued w = [[92; 7]] /\ filter nnb (w_got w) = [[92; 7]; [92; 7]].
Proof. exact usb_exception_breaks_exactly_once. Qed.
Print Assumptions C01_usb_exception_then_not_exactly_once_refuted.

(* ... and 'Too many packets lost' can then fire after fewer than N unacknowledged transmissions (N = 2, one). *)
Theorem C01_usb_exception_miscounts_refuted :
  exists p0 negs evs,
    confirmed 2 p0 negs /\ tx_outcomes evs = [UpLost] /\
    h_errs (w_h (session 2 p0 negs evs)) = 1 /\ w_xerrs (session 2 p0 negs evs) = 1.
Proof. exact usb_exception_miscounts. Qed.
Print Assumptions C01_usb_exception_miscounts_refuted.

(* The role of the confirmation: with the negotiation NOT confirmed (all other hypotheses of the delivery
   theorems in place) one lost acknowledgement duplicates an uplink packet and loses a downlink packet. *)
Theorem C01_without_confirmation_refuted :
  exists N p0 negs evs,
    peer_ok0 p0 /\ Forall ev_ok evs /\ ~ confirmed N p0 negs /\
    let w := session N p0 negs evs in
    map norm (w_accepted w) = [[48; 1; 2]]
    /\ map norm (filter nnb (p_rx (w_p w))) = [[48; 1; 2]; [48; 1; 2]] /\ up_pending w = []
    /\ map dnorm (w_queued w) = [[92; 9]; [92; 7]]
    /\ filter nnb (w_got w ++ h_inq (w_h w)) = [[92; 9]] /\ down_pending w = [].
Proof. exact without_confirmation_refuted. Qed.
Print Assumptions C01_without_confirmation_refuted.

(* RadioDriver.send_packet giving up after its 2 s (queue.Full): reports 'Could not send packet' from the
   sending thread iff out_queue is full, accepts otherwise; no other event makes that report. *)
Theorem C01_send_timeout_report : forall N hdr data w,
  let w1 := step N (SubmitTimeout hdr data) w in
  match h_outq (w_h w) with
  | Some _ => w_serrs w1 = w_serrs w + 1 /\ w_h w1 = w_h w /\ w_accepted w1 = w_accepted w
  | None => w_serrs w1 = w_serrs w /\ w1 = step N (Submit hdr data) w
  end.
Proof. exact send_timeout_spec. Qed.
Print Assumptions C01_send_timeout_report.

Theorem C01_send_timeout_report_only_there : forall N e w,
  (forall hdr data, e <> SubmitTimeout hdr data) -> w_serrs (step N e w) = w_serrs w.
Proof. exact serrs_only_at_timeout. Qed.
Print Assumptions C01_send_timeout_report_only_there.

(* ... and it can only happen when no transmission has been acknowledged since the packet occupying
   out_queue was accepted (time is not modelled: "2 s without an acknowledged transmission"). *)
Theorem C01_send_timeout_only_without_ack : forall N p0 negs evs hdr data,
  w_serrs (session N p0 negs (evs ++ [SubmitTimeout hdr data])) <> w_serrs (session N p0 negs evs) ->
  exists evs1 e evs2 p,
    evs = evs1 ++ e :: evs2
    /\ w_accepted (session N p0 negs (evs1 ++ [e])) = w_accepted (session N p0 negs evs1) ++ [p]
    /\ Forall (fun e => is_tx_ok e = false) evs2.
Proof. exact send_timeout_only_without_ack. Qed.
Print Assumptions C01_send_timeout_only_without_ack.

(* RadioDriver.receive_packet(wait): the three wait modes differ only on an empty queue. *)
Theorem C01_receive_packet_wait : forall wait h,
  match h_inq h with
  | x :: t => host_receive_wait wait h = (fst (host_receive h), Some x, false)
              /\ h_inq (fst (host_receive h)) = t
  | [] => host_receive_wait wait h = (h, None, wait <? 0)
  end.
Proof. exact receive_wait_spec. Qed.
Print Assumptions C01_receive_packet_wait.

(* RadioDriver.close() discards what send_packet accepted but the loop had not taken (and the frame in
   flight): "accepted => delivered" is a statement about an open link. *)
Theorem C01_close_discards_accepted_refuted :
  exists N p0 negs evs,
    peer_ok0 p0 /\ Forall ev_ok evs /\ confirmed N p0 negs /\
    let w := close_world (session N p0 negs evs) in
    w_accepted w = [[60; 1]; [77; 2]] /\ filter nnb (p_rx (w_p w)) = [] /\ h_outq (w_h w) = None.
Proof. exact close_discards_accepted. Qed.
Print Assumptions C01_close_discards_accepted_refuted.

(* Crazyradio.send_packet's parsing of the dongle's answer, for every status byte: ack = bit 0, powerDet = bit 1,
   retry = high nibble (0..15), payload passed through; status 0 = "no ack": retry := arc, no payload.  The
   loop sees an acknowledgement iff the status byte is odd. *)
Theorem C01_ack_parse_all_status_bytes : forall arc s payload,
  0 <= s < 256 ->
  parse_ack arc (Some (s :: payload)) =
    Some (if s =? 0 then mkAck false false arc []
          else mkAck (Z.odd s) (Z.odd (s / 2)) (s / 16) payload)
  /\ 0 <= s / 16 <= 15
  /\ radio_ack_of_usb (Some (s :: payload)) = RAck (Z.odd s) (if s =? 0 then [] else payload).
Proof. exact parse_ack_all_status. Qed.
Print Assumptions C01_ack_parse_all_status_bytes.

(* ===================== round 3: several sessions on one RadioDriver object ===================== *)

(* What a new start-up (restart() after pause(), or connect() after close()) begins from: a new thread with its
   __init__ values and fresh locals; the queues survive a restart, not a reconnect; needs_resending keeps its
   old value until the new start-up loop has run. *)
Theorem C01_reopen_state : forall N how w,
  let h := w_h (reopen_world N how w) in
  h_safe h = false /\ h_up h = false /\ h_down h = true /\ h_out h = [255] /\ h_retry h = N
  /\ h_needs h = h_needs (w_h w) /\ h_errs h = h_errs (w_h w)
  /\ h_outq h = match how with Restart => h_outq (w_h w) | Reconnect => None end
  /\ h_inq h = match how with Restart => h_inq (w_h w) | Reconnect => [] end
  /\ w_p (reopen_world N how w) = w_p w /\ w_last (reopen_world N how w) = RNone.
Proof. exact reopen_state. Qed.
Print Assumptions C01_reopen_state.

(* Safelink is used only if the peer confirmed it during THAT start-up: for a session started from the world w
   any earlier sessions left behind (w arbitrary: whatever mode, flags, queues), safelink mode <=> the last of
   its own at most 10 attempts was answered by exactly ff 05 01; needs_resending is the negation; without
   confirmation the frames go out untouched. *)
Theorem C01_safelink_per_session : forall N w how negs evs,
  let rs := snd (boot_loop 10 negs (w_p w)) in
  let h := w_h (next_session N w (how, negs, evs)) in
  (length rs <= 10)%nat
  /\ (h_safe h = true <->
      exists rs0 a, rs = rs0 ++ [RAck a enable_frame] /\ forall x, In x rs0 -> confirms x = false)
  /\ h_needs h = negb (h_safe h)
  /\ (h_safe h = false -> host_frame h = h_out h).
Proof. exact safelink_per_session. Qed.
Print Assumptions C01_safelink_per_session.

(* The same over session lists: the mode of the last session of a history depends on the answers to its own
   start-up only (given the peer state the earlier sessions left). *)
Theorem C01_safelink_per_session_history : forall N p0 negs evs more how negs' evs',
  let before := history N p0 negs evs more in
  let rs := snd (boot_loop 10 negs' (w_p before)) in
  let h := w_h (history N p0 negs evs (more ++ [(how, negs', evs')])) in
  (length rs <= 10)%nat
  /\ (h_safe h = true <->
      exists rs0 a, rs = rs0 ++ [RAck a enable_frame] /\ forall x, In x rs0 -> confirms x = false)
  /\ h_needs h = negb (h_safe h)
  /\ (h_safe h = false -> host_frame h = h_out h).
Proof. exact safelink_per_session_history. Qed.
Print Assumptions C01_safelink_per_session_history.

(* ===================== round 5: one layer down, the dongle shared by several links ===================== *)

(* _SharedRadio.run over Crazyradio: whatever commands came before — sends of other instances with other
   settings, channel scans, selected scans, ARC changes, instances closing, the dongle being re-opened — every
   SEND_PACKET goes on the air with the hardware tuned to exactly the (channel, datarate, address) of the
   instance that asked.  (coherent: Crazyradio's current_* memory agrees with the hardware; true initially and
   kept, since every change goes through its setters.) *)
Theorem C01_shared_dongle_always_tuned : forall cs d,
  coherent d -> sends_tuned (fst (rexec cs d)).
Proof. exact shared_dongle_always_tuned. Qed.
Print Assumptions C01_shared_dongle_always_tuned.

Theorem C01_dongle0_coherent : coherent dongle0.
Proof. exact dongle0_coherent. Qed.
Print Assumptions C01_dongle0_coherent.

(* Remembering "(instance, setting) last set up" ABOVE Crazyradio and skipping the re-tuning for an equal
   tuple is wrong as long as the scan branches do not clear that memory: send, scan, send -> the second send
   leaves on the scan's last channel / address / datarate. *)
Theorem C01_cached_tuning_refuted :
  exists cs, ~ sends_tuned (rexec_cached cs (dongle0, None)).
Proof. exact cached_tuning_refuted. Qed.
Print Assumptions C01_cached_tuning_refuted.

(* ===================== round 6: the answer of a transfer is a value ===================== *)

(* Several instances share the dongle thread; it queues the result of a transfer and goes on with the next command
   (another instance's); the link's thread looks at its result later.  With a FRESH result per transfer
   (Crazyradio.send_packet makes a new _radio_ack each time): for every interleaving of completed transfers and reads,
   what instance i has read so far, followed by what still waits in its queue, is exactly the list of answers to
   ITS OWN transfers, in order. *)
Theorem C01_answers_are_own : forall evs i,
  reads_of i (snd (xrun_value evs)) ++ fst (xrun_value evs) i = dones_of i evs.
Proof. exact answers_are_own. Qed.
Print Assumptions C01_answers_are_own.

(* One status cell per dongle, refilled for every transfer, with the queues carrying references to it: an instance
   can read another instance's answer (transfer for 0, transfer for 1, then 0 looks). *)
Theorem C01_shared_result_cell_refuted :
  exists evs i, ~ (exists rest, dones_of i evs = reads_of i (xrun_cell evs) ++ rest).
Proof. exact shared_cell_refuted. Qed.
Print Assumptions C01_shared_result_cell_refuted.

(* ===================== wave 12: the statistics update inside the radio loop never raises ===================== *)

(* RadioLinkStatistics.update runs in the radio thread after every acknowledged transmission, outside any try/except.
   With HEAD's guard structure (the report — and its two divisions — only under `if ack.data:`, after the counters
   were incremented) no sequence of calls (packet dequeued or not, any ack payload incl. the EMPTY one, reporting
   period elapsed or not) makes a division raise. *)
Theorem C01_link_statistics_never_raise : forall calls,
  exists s1, stats_run stats_update calls stats0 = Some s1.
Proof. exact stats_never_raise0. Qed.
Print Assumptions C01_link_statistics_never_raise.

(* Reporting for every elapsed period, also on an ack without payload: the first such call divides by zero
   (downlink counter still 0) — the radio thread would die. *)
Theorem C01_unguarded_statistics_report_refuted :
  exists calls, stats_run stats_update_unguarded calls stats0 = None.
Proof. exact stats_unguarded_refuted. Qed.
Print Assumptions C01_unguarded_statistics_report_refuted.

(* ===================== wave 13: the packet that reaches the Crazyflie IS the accepted packet, byte for byte ===== *)

(* The frame handed to the dongle is header :: payload (1 + |payload| bytes, up to 31); the safelink stamping
   touches the header byte only.  (C01_uplink_exactly_once_in_order compares whole frames, for every payload.) *)
Theorem C01_frame_is_whole_packet : forall u d hdr data,
  stamp u d (hdr :: data) = stamp_hdr u d hdr :: data
  /\ length (stamp u d (hdr :: data)) = S (length data)
  /\ norm (stamp u d (hdr :: data)) = Z.land hdr 243 :: data.
Proof. exact frame_is_whole_packet. Qed.
Print Assumptions C01_frame_is_whole_packet.

(* at the boundary: 30 payload bytes, lost and re-sent in between: all 31 bytes arrive, once *)
Theorem C01_full_size_packet_delivered :
  let w := session 3 (mkPeer false false true [] [] None) [NOk]
             [Submit 60 full30; Tx Ok []; Tx UpLost []; Tx AckLost []; Tx Ok []; Tx Ok []] in
  filter nnb (p_rx (w_p w)) = [48 :: full30] /\ length (48 :: full30) = 31%nat /\ up_pending w = [].
Proof. exact full_size_delivered. Qed.
Print Assumptions C01_full_size_packet_delivered.

(* Cutting the frame at 30 bytes (MAX_DATA_SIZE is the PAYLOAD limit) drops the last payload byte of a full-size
   packet and nothing else: payloads of 0..29 bytes are untouched. *)
Theorem C01_truncated_frame_refuted :
  exists hdr data, length data = 30%nat /\ norm (firstn 30 (hdr :: data)) <> norm (hdr :: data)
                   /\ forall data', (length data' <= 29)%nat -> firstn 30 (hdr :: data') = hdr :: data'.
Proof. exact truncated_frame_refuted. Qed.
Print Assumptions C01_truncated_frame_refuted.

(* ===================== wave 15: open/close histories of instances on one dongle ===================== *)

(* _SharedRadio.open_instance numbers the instances with a counter that never goes back: for EVERY history of opening
   and closing (closing in any order) the ids of the instances open at the same time are pairwise distinct — so each has
   its own response queue, and C01_answers_are_own (which is keyed by the instance id) applies to every such history. *)
Theorem C01_instance_ids_distinct : forall evs, NoDup (snd (irun_counter evs)).
Proof. exact instance_ids_distinct. Qed.
Print Assumptions C01_instance_ids_distinct.

(* "next id = number of open instances": open, open, close the first, open -> two open instances share id 1 and the
   newcomer takes over the other one's response queue. *)
Theorem C01_instance_ids_by_count_refuted : exists evs, ~ NoDup (irun_len evs).
Proof. exact instance_ids_by_count_refuted. Qed.
Print Assumptions C01_instance_ids_by_count_refuted.
