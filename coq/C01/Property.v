(* C01/Property.v — property C01 (radio link: exactly once, in order, despite loss), theorems only.
   Each is closed by `exact <lemma of Proofs.v>` and followed by Print Assumptions.

   Vocabulary (C01/Model.v):  session N p0 negs evs  is the world after the link start-up against a peer in
   start state p0 with per-attempt outcomes negs (missing ones = lost), followed by the events evs in any
   interleaving:  Submit (application send_packet), PeerQueue (Crazyflie queues a packet), Recv (application
   receive_packet), Tx o fill (one radio-loop iteration whose transmission has outcome o in
   {Ok, UpLost, AckLost}).  N is _nr_of_retries.  confirmed = the host switched to safelink.
   ev_ok: application packets are not on port 15 / channel 3 (the link layer's own header 0xF3|bits).
   norm / dnorm: a packet with the two link bits of its header masked (uplink) / as CRTPPacket presents it
   (downlink); nnb: not a null packet. *)
From CF Require Import Common.Bytes C01.Model C01.Proofs C01.Examples.
Open Scope Z_scope.

(* Every packet accepted by send_packet reaches the Crazyflie exactly once and in submission order:
   what the peer handed to its firmware (null packets aside), followed by the at most two packets still
   on their way (the frame being retransmitted if the peer has not taken it yet, then out_queue), IS the
   list of accepted packets — for every loss pattern and every interleaving. *)
Theorem C01_uplink_exactly_once_in_order : forall N p0 negs evs,
  peer_ok0 p0 -> Forall ev_ok evs -> confirmed N p0 negs ->
  let w := session N p0 negs evs in
  filter nnb (p_rx (w_p w)) ++ up_pending w = map norm (w_accepted w)
  /\ (length (up_pending w) <= 2)%nat.
Proof. exact uplink_exactly_once. Qed.
Print Assumptions C01_uplink_exactly_once_in_order.

(* Every packet the Crazyflie queues comes out of receive_packet exactly once and in order: what the
   application got, then in_queue (null packets aside), then the payload whose acknowledgement was lost
   (if any), then the peer's queue, IS the list of queued packets. *)
Theorem C01_downlink_exactly_once_in_order : forall N p0 negs evs,
  peer_ok0 p0 -> Forall ev_ok evs -> confirmed N p0 negs ->
  let w := session N p0 negs evs in
  filter nnb (w_got w ++ h_inq (w_h w)) ++ down_pending w = map dnorm (w_queued w)
  /\ (length (down_pending w) <= 1 + length (p_txq (w_p w)))%nat.
Proof. exact downlink_exactly_once. Qed.
Print Assumptions C01_downlink_exactly_once_in_order.

(* Not vacuous: an acknowledged transmission hands the frame in dataOut to the peer (unless it already
   has it), loads the next packet, and puts exactly one more downlink payload into in_queue (the one whose
   ack was lost, else the head of the peer's queue, else a null packet); two acknowledged transmissions
   leave no accepted packet undelivered. *)
Theorem C01_progress : forall N p0 negs evs f1 f2,
  peer_ok0 p0 -> Forall ev_ok evs -> confirmed N p0 negs ->
  let w := session N p0 negs evs in
  let w1 := session N p0 negs (evs ++ [Tx Ok f1]) in
  let w2 := session N p0 negs (evs ++ [Tx Ok f1; Tx Ok f2]) in
  p_rx (w_p w1) = p_rx (w_p w) ++
                  (if Bool.eqb (h_up (w_h w)) (p_up (w_p w)) then [] else [norm (h_out (w_h w))])
  /\ h_out (w_h w1) = match h_outq (w_h w) with Some f => f | None => [255] end
  /\ h_outq (w_h w1) = None
  /\ (exists l, h_inq (w_h w1) = h_inq (w_h w) ++ [dnorm l] /\
                (if Bool.eqb (h_down (w_h w)) (p_down (w_p w))
                 then p_last (w_p w) = Some l /\ p_txq (w_p w1) = p_txq (w_p w)
                 else p_txq (w_p w) = l :: p_txq (w_p w1)
                      \/ (p_txq (w_p w) = [] /\ p_txq (w_p w1) = [] /\ l = 243 :: f1)))
  /\ up_pending w2 = []
  /\ filter nnb (p_rx (w_p w2)) = map norm (w_accepted w2).
Proof. exact progress. Qed.
Print Assumptions C01_progress.

(* A link error is reported exactly when N consecutive transmissions have gone unacknowledged, the count
   restarting at every acknowledgement: the error callback count goes up (by one) at a transmission iff
   that transmission is unacknowledged and is the N-th since the last acknowledged one; no other event
   reports an error; none is reported at start-up.  Holds with and without safelink, for every N. *)
Theorem C01_link_error_exact : forall N p0 negs evs,
  (forall o fill,
     h_errs (w_h (session N p0 negs (evs ++ [Tx o fill]))) =
     h_errs (w_h (session N p0 negs evs)) +
     (if negb (is_ok o) && (trailing_unacked (tx_outcomes evs ++ [o]) =? N) then 1 else 0))
  /\ (forall e, not_tx e ->
        h_errs (w_h (session N p0 negs (evs ++ [e]))) = h_errs (w_h (session N p0 negs evs)))
  /\ h_errs (w_h (session N p0 negs [])) = 0.
Proof. exact link_error_exact. Qed.
Print Assumptions C01_link_error_exact.

(* Safelink is used only if the peer confirmed it during start-up: the host is in safelink mode (now and
   for the rest of the session) iff the last of its at most 10 attempts was answered by exactly ff 05 01 and
   none before was; needs_resending is the negation; without safelink the frames go out untouched. *)
Theorem C01_safelink_only_if_confirmed : forall N p0 negs evs,
  let rs := snd (boot_loop 10 negs p0) in
  let h := w_h (session N p0 negs evs) in
  (length rs <= 10)%nat
  /\ (h_safe h = true <->
      exists rs0 a, rs = rs0 ++ [RAck a enable_frame] /\ forall x, In x rs0 -> confirms x = false)
  /\ h_needs h = negb (h_safe h)
  /\ (h_safe h = false -> host_frame h = h_out h).
Proof. exact safelink_only_if_confirmed. Qed.
Print Assumptions C01_safelink_only_if_confirmed.

(* ... and when it is confirmed, the peer has switched too and both ends start from the agreed bits. *)
Theorem C01_confirmed_peer_enabled : forall N p0 negs,
  confirmed N p0 negs ->
  let w := boot negs (world0 N p0) in
  w_p w = mkPeer true true true (p_rx p0) (p_txq p0) None
  /\ h_up (w_h w) = false /\ h_down (w_h w) = false.
Proof. exact confirmed_peer_enabled. Qed.
Print Assumptions C01_confirmed_peer_enabled.

(* The start-up loop of the world model is the host-level loop (tied to the code on raw dongle answers)
   applied to the answers the channel and the peer produce. *)
Theorem C01_boot_is_host_boot : forall N p0 negs,
  let rs := snd (boot_loop 10 negs p0) in
  w_h (boot negs (world0 N p0)) = fst (host_boot rs (host0 N)).
Proof. exact boot_is_host_boot. Qed.
Print Assumptions C01_boot_is_host_boot.

(* packet[0] in _send_packet_safe never raises IndexError: dataOut is never empty (any mode). *)
Theorem C01_dataout_never_empty : forall N p0 negs evs, h_out (w_h (session N p0 negs evs)) <> [].
Proof. exact dataout_never_empty. Qed.
Print Assumptions C01_dataout_never_empty.
