(* C01/Examples.v — non-vacuity: concrete sessions meeting the hypotheses of the C01 theorems, with
   losses in both directions; and what happens without safelink (why the hypothesis `confirmed` matters). *)
From CF Require Import Common.Bytes C01.Model C01.Proofs.
Open Scope Z_scope.

Definition ex_p0 : peer := mkPeer false false true [] [[80; 9]] None.
Definition ex_negs : list negout := [NAckLost; NOther true [243; 1; 40]; NOk].
Definition ex_evs : list event :=
  [Submit 60 [1; 2]; Tx AckLost []; Tx UpLost []; PeerQueue 92 [7]; Tx Ok [1; 32]; Submit 77 [3];
   Submit 78 [4]; Tx AckLost []; Tx Ok []; Tx UpLost []; Tx Ok []; Recv; Recv; Recv].

Example ex_hypotheses :
  peer_ok0 ex_p0 /\ Forall ev_ok ex_evs /\ confirmed 3 ex_p0 ex_negs.
Proof.
  split; [split; [reflexivity|repeat constructor]|]. split; [|reflexivity].
  repeat constructor; cbn; discriminate.
Qed.

(* two submissions accepted (the third found out_queue full), both delivered once; both queued packets
   received once; the filler null packets are what the filter removes *)
Example ex_outcome :
  let w := session 3 ex_p0 ex_negs ex_evs in
  w_accepted w = [[60; 1; 2]; [77; 3]]
  /\ p_rx (w_p w) = [[243]; [48; 1; 2]; [65; 3]]
  /\ w_queued w = [[80; 9]; [92; 7]]
  /\ w_got w = [[92; 9]; [92; 7]; [255]]
  /\ up_pending w = [] /\ down_pending w = [].
Proof. vm_compute. repeat split. Qed.

(* a state in which both pending lists are non-empty: uplink frame not yet taken + out_queue full,
   downlink payload delivered but its ack lost + one more queued *)
Example ex_pending :
  let w := session 3 ex_p0 [NOk]
             [Submit 60 [1]; Tx Ok []; PeerQueue 92 [7]; Tx AckLost []; PeerQueue 93 [8]; Submit 77 [3];
              Tx UpLost []] in
  up_pending w = [[65; 3]] /\ down_pending w = [[92; 7]; [93; 8]] /\ h_inq (w_h w) = [[92; 9]].
Proof. vm_compute. repeat split. Qed.

(* without safelink (negotiation never answered) a lost ack duplicates the uplink packet and loses a
   downlink one: the guarantee really rests on the confirmed negotiation *)
Example ex_no_safelink_duplicates :
  let w := session 3 ex_p0 [] [Submit 60 [1; 2]; Tx Ok []; Tx AckLost []; Tx Ok []] in
  h_safe (w_h w) = false /\ h_needs (w_h w) = true
  /\ p_rx (w_p w) = [[255]; [60; 1; 2]; [60; 1; 2]]
  /\ h_inq (w_h w) = [[92; 9]; [255]].
Proof. vm_compute. repeat split. Qed.

(* link error: N = 2; U U -> error at the 2nd; U after that: none; Ok resets; U A -> second error *)
Example ex_link_error :
  map (fun evs => h_errs (w_h (session 2 ex_p0 [NOk] evs)))
      [[Tx UpLost []]; [Tx UpLost []; Tx AckLost []]; [Tx UpLost []; Tx AckLost []; Tx UpLost []];
       [Tx UpLost []; Tx AckLost []; Tx UpLost []; Tx Ok []; Tx UpLost []];
       [Tx UpLost []; Tx AckLost []; Tx UpLost []; Tx Ok []; Tx UpLost []; Tx AckLost []]]
  = [0; 1; 1; 1; 2].
Proof. vm_compute. reflexivity. Qed.
