(* C12/Proofs_session.v — info packet -> geometry, and the nRF51 bootloader+softdevice override page *)
From CF Require Import Common.Bytes.
From CF Require Import C12.Model.
From CF Require Import C12.Session.
From CF Require Import C12.Lists.
From CF Require Import C12.Proofs_upload.
From CF Require Import C12.Proofs_write.
From CF Require Import C12.Proofs_flash.
From CF Require Import C12.Proofs.
From CF Require Import C12.Proofs_plan.
From CF Require Import C12.Proofs_override.
From Coq Require Import ZifyBool.
Open Scope Z_scope.

(* ---------------------------------------------------------------- parse_info *)
Lemma le16_val x : 0 <= x < 65536 -> le_val [x mod 256; x / 256 mod 256] = x.
Proof.
  intros H. change [x mod 256; x / 256 mod 256] with (le_bytes 2 x).
  apply le_val_le_bytes_id. change (256 ^ Z.of_nat 2) with 65536. lia.
Qed.

Lemma parse_info_exact tid ps bp fp sp cpuid rest :
  0 <= ps < 65536 -> 0 <= bp < 65536 -> 0 <= fp < 65536 -> 0 <= sp < 65536 -> length cpuid = 12%nat ->
  exists i, parse_info tid (info_packet tid ps bp fp sp cpuid rest) = POk i /\
            i_ps i = ps /\ i_bp i = bp /\ i_fp i = fp /\ i_sp i = sp /\ i_cpuid i = cpuid /\
            i_pv i = (match rest with v :: _ => Some v | [] => None end).
Proof.
  intros Hps Hbp Hfp Hsp Hc. unfold info_packet, parse_info.
  cbn [le_bytes app].
  set (d := tid :: 16 :: ps mod 256 :: ps / 256 mod 256 :: bp mod 256 :: bp / 256 mod 256 ::
            fp mod 256 :: fp / 256 mod 256 :: sp mod 256 :: sp / 256 mod 256 :: cpuid ++ rest).
  assert (Hlen : zlen d = 22 + zlen rest).
  { unfold d, zlen. cbn [length]. rewrite app_length, Hc. lia. }
  pose proof (zlen_nonneg rest) as Hr.
  change (Z.lor 255 12 =? 255) with true. cbn [negb].
  replace (zlen d <? 2) with false by lia.
  change (zn d 0) with tid. change (zn d 1) with 16. rewrite Z.eqb_refl. change (16 =? 16) with true. cbn [andb negb].
  replace (zlen d <? 22) with false by lia.
  eexists. split; [reflexivity|]. cbn [i_ps i_bp i_fp i_sp i_cpuid i_pv].
  change (zslice d 2 2) with [ps mod 256; ps / 256 mod 256].
  change (zslice d 4 2) with [bp mod 256; bp / 256 mod 256].
  change (zslice d 6 2) with [fp mod 256; fp / 256 mod 256].
  change (zslice d 8 2) with [sp mod 256; sp / 256 mod 256].
  rewrite !le16_val by assumption.
  repeat split; auto.
  - change (zslice d 10 12) with (firstn 12 (cpuid ++ rest)). rewrite <- Hc. apply firstn_app_exact.
  - destruct rest as [|v rest'].
    + change (zlen (@nil Z)) with 0 in Hlen. replace (22 <? zlen d) with false by lia. reflexivity.
    + replace (22 <? zlen d) with true by (rewrite zlen_cons in Hlen; pose proof (zlen_nonneg rest'); lia).
      f_equal. change (zn d 22) with (nth 12 (cpuid ++ v :: rest') 0).
      rewrite app_nth2 by lia. rewrite Hc. reflexivity.
Qed.

(* _update_info only ever reports what a received, matching packet said *)
Lemma ui_loop_from_packet tid pv_prev evs : forall t i m fs rest,
  ui_loop tid pv_prev t evs = (UTrue i m, fs, rest) ->
  exists p, In (Some p) evs /\ parse_info tid p = POk i.
Proof.
  induction evs as [|ev evs IH]; intros t i m fs rest E; cbn [ui_loop] in E; [discriminate|].
  destruct (t <? 100); [|discriminate].
  destruct ev as [p|].
  - destruct (parse_info tid p) as [| |i0] eqn:P.
    + destruct (IH _ _ _ _ _ E) as (p' & Hin & Hp). exists p'. split; [now right|exact Hp].
    + discriminate.
    + exists p. split; [now left|].
      destruct ((match i_pv i0 with Some v => v | None => pv_prev end =? 16) && (tid =? 255)).
      * destruct (mapping_malformed tid (hd_error evs)); [discriminate|]. now injection E as <- _ _ _.
      * now injection E as <- _ _ _.
  - destruct (ui_loop tid pv_prev (t + 20) evs) as [[r fs'] rest'] eqn:E'.
    injection E as -> _ _. destruct (IH _ _ _ _ _ E') as (p' & Hin & Hp). exists p'. split; [now right|exact Hp].
Qed.

Lemma update_info_from_packet tid pv_prev evs i m fs rest :
  update_info tid pv_prev evs = (UTrue i m, fs, rest) ->
  exists p, In (Some p) evs /\ parse_info tid p = POk i.
Proof.
  unfold update_info. destruct (ui_loop tid pv_prev 0 evs) as [[r fs'] rest'] eqn:E.
  intros [= -> _ _]. eapply ui_loop_from_packet; eauto.
Qed.

(* at most six getInfo requests: the first one and one per 2 s of silence within the 10 s *)
Lemma window_step t : 0 <= t < 100 ->
  Z.to_nat ((119 - t) / 20) = S (Z.to_nat ((119 - (t + 20)) / 20)).
Proof.
  intros H. replace (119 - t) with (119 - (t + 20) + 1 * 20) by lia.
  rewrite Z.div_add by lia.
  pose proof (Z.div_pos (119 - (t + 20)) 20 ltac:(lia) ltac:(lia)). lia.
Qed.

Lemma window_mono t : 0 <= t -> (Z.to_nat ((119 - (t + 1)) / 20) <= Z.to_nat ((119 - t) / 20))%nat.
Proof.
  intros H. assert ((119 - (t + 1)) / 20 <= (119 - t) / 20) by (apply Z.div_le_mono; lia). lia.
Qed.

Lemma ui_tail_length n tid t : 0 <= t -> (length (ui_tail n tid t) <= Z.to_nat ((119 - t) / 20))%nat.
Proof.
  revert t. induction n as [|n IH]; intros t Ht; cbn [ui_tail]; [cbn; lia|].
  destruct (t <? 100) eqn:C; [|cbn; lia].
  cbn [length]. specialize (IH (t + 20) ltac:(lia)).
  rewrite window_step by lia. lia.
Qed.

Lemma filter_len_le {A} (f : A -> bool) l : (length (filter f l) <= length l)%nat.
Proof. induction l as [|x l IH]; cbn [filter length]; [lia|]. destruct (f x); cbn [length]; lia. Qed.

Lemma ui_loop_requests tid pv_prev evs : forall t r fs rest, 0 <= t ->
  ui_loop tid pv_prev t evs = (r, fs, rest) ->
  (length (filter (fun f => zlist_eqb f (get_info_frame tid)) fs) <= Z.to_nat ((119 - t) / 20))%nat.
Proof.
  induction evs as [|ev evs IH]; intros t r fs rest Ht E.
  - change (ui_loop tid pv_prev t []) with (UFalse, ui_tail 6 tid t, @nil (option pkt)) in E.
    injection E as _ <- _. etransitivity; [apply filter_len_le|]. exact (ui_tail_length 6 tid t Ht).
  - cbn [ui_loop] in E. destruct (t <? 100) eqn:C; [|injection E as _ <- _; cbn; lia].
    destruct ev as [p|].
    + destruct (parse_info tid p) as [| |i0].
      * specialize (IH (t + 1) r fs rest ltac:(lia) E).
        pose proof (window_mono t Ht). lia.
      * injection E as _ <- _. cbn. lia.
      * destruct ((match i_pv i0 with Some v => v | None => pv_prev end =? 16) && (tid =? 255)).
        -- injection E as _ <- _. cbn [filter]. unfold get_mapping_frame, get_info_frame.
           cbn [zlist_eqb]. rewrite !Z.eqb_refl. cbn. lia.
        -- injection E as _ <- _. cbn. lia.
    + destruct (ui_loop tid pv_prev (t + 20) evs) as [[r' fs'] rest'] eqn:E'.
      injection E as _ <- _. specialize (IH (t + 20) r' fs' rest' ltac:(lia) E').
      cbn [filter]. assert (Hq : zlist_eqb (get_info_frame tid) (get_info_frame tid) = true) by (now apply zlist_eqb_spec).
      rewrite Hq. cbn [length]. rewrite window_step by lia. lia.
Qed.

(* ---------------------------------------------------------------- script suffix: any property of all attempts persists *)
Section ScrForall.
  Variable P : att -> Prop.

  Lemma wf_loop_scr n addr cmd : forall pk q scr r m q' scr' tr,
    Forall P scr -> wf_loop n addr cmd pk q scr = (r, m, q', scr', tr) -> Forall P scr'.
  Proof.
    induction n as [|n IH]; intros pk q scr r m q' scr' tr H E; cbn [wf_loop] in E.
    - now injection E as _ _ _ <- _.
    - destruct (good_reply addr pk); [now injection E as _ _ _ <- _|].
      destruct (wf_loop n addr cmd _ _ (tl scr)) as [[[[r0 m0] q0] scr0] tr0] eqn:E0.
      injection E as _ _ _ <- _. eapply IH; [|exact E0]. now apply tl_Forall.
  Qed.

  Lemma write_flash_scr addr pb tp n q scr r q' scr' tr :
    Forall P scr -> write_flash addr pb tp n q scr = (r, q', scr', tr) -> Forall P scr'.
  Proof.
    intros H E. unfold write_flash in E. rewrite flush_spec in E.
    destruct (pack_write addr pb tp n); [|now injection E as _ _ <- _].
    destruct (wf_loop 6 addr (255 :: l) None [] scr) as [[[[pk m] q0] scr0] tr0] eqn:E0.
    pose proof (wf_loop_scr _ _ _ _ _ _ _ _ _ _ _ H E0) as H0.
    destruct m; [now injection E as _ _ <- _|]. destruct pk as [[h d]|]; [|now injection E as _ _ <- _].
    destruct (zlen d <? 4); now injection E as _ _ <- _.
  Qed.

  Lemma page_loop_scr addr ps bp start image k : forall i ctr q scr o c q' scr' tr,
    Forall P scr -> page_loop k addr ps bp start image i ctr q scr = (o, c, q', scr', tr) -> Forall P scr'.
  Proof.
    induction k as [|k IH]; intros i ctr q scr o c q' scr' tr H E; cbn [page_loop] in E.
    - now injection E as _ _ _ <- _.
    - destruct (upload_buffer addr ctr 0 (page_chunk image ps i)) as [fs [x|]]; [now injection E as _ _ _ <- _|].
      destruct (bp <=? ctr + 1).
      + destruct (write_flash addr 0 _ (ctr + 1) q scr) as [[[r q1] scr1] tr2] eqn:EW.
        pose proof (write_flash_scr _ _ _ _ _ _ _ _ _ _ H EW) as H1.
        destruct r; try now injection E as _ _ _ <- _.
        destruct (page_loop k addr ps bp start image (i + 1) 0 q1 scr1) as [[[[o3 c3] q3] scr3] tr3] eqn:E3.
        injection E as _ _ _ <- _. eapply IH; eauto.
      + destruct (page_loop k addr ps bp start image (i + 1) (ctr + 1) q scr) as [[[[o3 c3] q3] scr3] tr3] eqn:E3.
        injection E as _ _ _ <- _. eapply IH; eauto.
  Qed.

  Lemma internal_flash_scr addr ps bp fp sp override image q scr out q' scr' tr :
    Forall P scr -> internal_flash addr ps bp fp sp override image q scr = (out, q', scr', tr) -> Forall P scr'.
  Proof.
    intros H E. unfold internal_flash in E.
    destruct (zlen image =? 0); [now injection E as _ _ <- _|].
    destruct (_ <? zlen image); [now injection E as _ _ <- _|].
    destruct (page_loop _ addr ps bp _ image 0 0 q scr) as [[[[o c] q1] scr1] tr1] eqn:E1.
    pose proof (page_loop_scr _ _ _ _ _ _ _ _ _ _ _ _ _ _ _ H E1) as H1.
    destruct o; try now injection E as _ _ <- _.
    destruct (0 <? c); [|now injection E as _ _ <- _].
    destruct (write_flash addr 0 _ c q1 scr1) as [[[r q2] scr2] tr2] eqn:EW.
    pose proof (write_flash_scr _ _ _ _ _ _ _ _ _ _ H1 EW) as H2.
    destruct r; now injection E as _ _ <- _.
  Qed.
End ScrForall.

(* ---------------------------------------------------------------- the override page of the sd+bl image *)
Lemma sdbl_fits_or_refused fp ps len : 1 <= ps -> 0 <= len ->
  let page := sdbl_page fp ps len in
  (len mod ps = 0 -> len = (fp - page) * ps) /\
  (len mod ps <> 0 -> (fp - page) * ps < len) /\
  (0 <= page <-> len / ps <= fp).
Proof.
  intros Hps Hl page. unfold page, sdbl_page.
  pose proof (Z.div_mod len ps ltac:(lia)) as Hd.
  pose proof (Z.mod_pos_bound len ps ltac:(lia)) as Hm.
  set (k := len / ps) in *. replace (fp - (fp - k)) with k by lia.
  repeat split; intros; nia.
Qed.

(* a run of the sd+bl branch that succeeds has put the image into the last len/ps pages of the flash *)
Lemma sdbl_exact T sp sd q scr q' scr' tr :
  let ps := t_ps T in
  let page := sdbl_page (t_fp T) ps (zlen sd) in
  t_id T = NRF51 -> run_pre T sp (repeat 255 (Z.to_nat ps)) -> 1 <= zlen sd ->
  Forall (att_honest NRF51) scr ->
  flash_sdbl ps (t_bp T) (t_fp T) sp sd q scr = (Done, q', scr', tr) ->
  0 <= page /\ zlen sd mod ps = 0 /\ page * ps + zlen sd = t_fp T * ps /\
  zslice (t_flash (deliver T tr)) (page * ps) (zlen sd) = sd.
Proof.
  intros ps page Hid Hpre Hsd Hh E. unfold flash_sdbl in E. rewrite <- Hid in *.
  destruct (internal_flash (t_id T) ps (t_bp T) (t_fp T) sp None (repeat 255 (Z.to_nat ps)) q scr)
    as [[[o1 q1] s1] t1] eqn:E1.
  destruct o1; try discriminate.
  destruct (internal_flash (t_id T) ps (t_bp T) (t_fp T) sp (Some (sdbl_page (t_fp T) ps (zlen sd))) sd q1 s1)
    as [[[o2 q2] s2] t2] eqn:E2.
  injection E as -> <- <- <-.
  pose proof Hpre as (HG & Ho & Ha & Hl & Hs).
  pose proof HG as (Hps & Hbp & Hfp & Lb & Lf).
  (* the target after the erase run still satisfies the preconditions *)
  destruct (nothing_outside T sp None _ q scr Done q1 s1 t1 Hpre E1) as (O1 & G1 & LF1 & LB1 & _).
  set (T1 := deliver T t1) in *.
  injection G1 as Gi Gp Gb Gf.
  pose proof (internal_flash_scr _ _ _ _ _ _ _ _ _ _ _ _ _ _ Hh E1) as Hh1.
  fold page in E2.
  destruct (sdbl_fits_or_refused (t_fp T) ps (zlen sd) ltac:(lia) ltac:(lia)) as (F1 & F2 & F3). fold page in F1, F2, F3.
  (* not a multiple of the page size: refused *)
  destruct (Z.eq_dec (zlen sd mod ps) 0) as [Hm|Hm].
  2: { rewrite (refused (t_id T) ps (t_bp T) (t_fp T) sp (Some page) sd q1 s1 Hsd) in E2 by (cbn [eff_start]; lia).
       discriminate. }
  (* negative page: struct.error *)
  destruct (Z_lt_le_dec page 0) as [Hneg|Hpos].
  { destruct (bad_override (t_id T) ps (t_bp T) (t_fp T) sp (Some page) sd q1 s1 Done q2 s2 t2 Hsd (proj1 Hps) Hneg E2) as ([[? _]|?] & _); discriminate. }
  assert (Hpre1 : run_pre T1 page sd).
  { unfold run_pre, geom_ok. rewrite Gi, Gp, Gb, Gf, LF1, LB1. repeat split; auto; try lia. }
  assert (Hfit1 : fits T1 page sd) by (unfold fits; rewrite Gf, Gp; fold ps; lia).
  assert (E2' : internal_flash (t_id T1) (t_ps T1) (t_bp T1) (t_fp T1) sp (Some page) sd q1 s1 = (Done, q2, s2, t2))
    by (rewrite Gi, Gp, Gb, Gf; exact E2).
  assert (Hh1' : Forall (att_honest (t_id T1)) s1) by (rewrite Gi; exact Hh1).
  pose proof (image_exact T1 sp (Some page) sd q1 s1 q2 s2 t2 Hpre1 Hfit1 Hh1' E2') as HX.
  cbn [eff_start] in HX. rewrite Gp in HX. fold ps in HX.
  rewrite deliver_app. fold T1.
  repeat split; auto. specialize (F1 Hm). lia.
Qed.

Lemma update_info_requests tid pv_prev evs r fs rest :
  update_info tid pv_prev evs = (r, fs, rest) ->
  (1 <= length (filter (fun f => zlist_eqb f (get_info_frame tid)) fs) <= 6)%nat.
Proof.
  unfold update_info. destruct (ui_loop tid pv_prev 0 evs) as [[r' fs'] rest'] eqn:E.
  intros [= _ <- _]. pose proof (ui_loop_requests _ _ _ 0 _ _ _ ltac:(lia) E) as H.
  change (Z.to_nat ((119 - 0) / 20)) with 5%nat in H.
  cbn [filter]. assert (Hq : zlist_eqb (get_info_frame tid) (get_info_frame tid) = true) by (now apply zlist_eqb_spec).
  rewrite Hq. cbn [length]. lia.
Qed.
