(* C12/Property.v — property C12 (flashing writes exactly the image, nowhere else), theorems only.

   Reading guide.  `internal_flash addr ps bp fp sp override image q scr` is the model of
   Bootloader._internal_flash for the target with address `addr` whose reported geometry is page size
   ps, buffer pages bp, flash pages fp, start page sp; `q` is the downlink queue at the start (stale
   packets), `scr` the fate of every flash-write command that will be sent (delivered or not, packets
   arriving in time, packets arriving late); when the script runs out the command is delivered and
   acknowledged.  The result is (outcome, queue, rest of script, frames sent with "delivered" flags).
   `deliver T tr` is the target T after receiving the delivered frames.  `run_pre T start image`:
   T's geometry fields are in 1..65535 (flash pages 0..65535), its memories have the matching sizes, no
   out-of-range command seen so far, the address is a byte, the image is non-empty, the start page is
   non-negative.  All theorems quantify over every such target (any geometry, any memory content,
   either address), every image, start/override page, stale queue and script. *)
From CF Require Import Common.Bytes.
From CF Require Import C12.Model.
From CF Require Import C12.Lists.
From CF Require Import C12.Proofs_upload.
From CF Require Import C12.Proofs_write.
From CF Require Import C12.Proofs_flash.
From CF Require Import C12.Proofs.
From CF Require Import C12.Proofs_plan.
From CF Require Import C12.Session.
From CF Require Import C12.Proofs_override.
From CF Require Import C12.Proofs_session.
From CF Require Import C12.Plan.
From CF Require Import C12.Proofs_sequence.
From CF Require Import C12.Proofs_read.
From CF Require Import C12.Refute.
From CF Require Import C12.Callbacks.
From CF Require Import C12.Proofs_callbacks.
From CF Require Import C12.History.
From CF Require Import C12.Proofs_history.
From CF Require Import C12.Alias.
From CF Require Import C12.Proofs_alias.
From CF Require Import C12.Stream.
From CF Require Import C12.Proofs_stream.
From CF Require Import C12.ErrorCb.
From CF Require Import C12.Proofs_errorcb.
Open Scope Z_scope.

(* Success means the image is in flash, byte for byte, at start * page_size — provided positive
   acknowledgements are honest (only an attempt that reached the target produces one). *)
Theorem C12_image_exact : forall T sp override image q scr q' scr' tr,
  let start := eff_start sp override in
  run_pre T start image -> fits T start image ->
  Forall (att_honest (t_id T)) scr ->
  internal_flash (t_id T) (t_ps T) (t_bp T) (t_fp T) sp override image q scr = (Done, q', scr', tr) ->
  zslice (t_flash (deliver T tr)) (start * t_ps T) (zlen image) = image.
Proof. exact image_exact. Qed.
Print Assumptions C12_image_exact.

(* Whatever the script does and however the run ends: no flash byte outside the pages
   [start, start + ceil(len/ps)) changes, sizes and geometry are unchanged, the target never sees a
   command reaching beyond its buffer or its flash, and if anything was sent the page range lies
   inside the flash. *)
Theorem C12_nothing_outside : forall T sp override image q scr out q' scr' tr,
  let start := eff_start sp override in
  let ps := t_ps T in
  let np := npages (zlen image) ps in
  run_pre T start image ->
  internal_flash (t_id T) ps (t_bp T) (t_fp T) sp override image q scr = (out, q', scr', tr) ->
  let T' := deliver T tr in
  t_oob T' = false /\
  (t_id T', t_ps T', t_bp T', t_fp T') = (t_id T, ps, t_bp T, t_fp T) /\
  zlen (t_flash T') = zlen (t_flash T) /\ zlen (t_buf T') = zlen (t_buf T) /\
  (forall a, 0 <= a < zlen (t_flash T) -> ~ (start * ps <= a < (start + np) * ps) ->
             zn (t_flash T') a = zn (t_flash T) a) /\
  (tr <> [] -> start + np <= t_fp T).
Proof. exact nothing_outside. Qed.
Print Assumptions C12_nothing_outside.

(* The other target on the same link (any state, any geometry) is not modified. *)
Theorem C12_other_target_untouched : forall T O sp override image q scr out q' scr' tr,
  run_pre T (eff_start sp override) image -> t_id O <> t_id T ->
  internal_flash (t_id T) (t_ps T) (t_bp T) (t_fp T) sp override image q scr = (out, q', scr', tr) ->
  deliver O tr = O.
Proof. exact other_target_untouched. Qed.
Print Assumptions C12_other_target_untouched.

(* An image that does not fit is refused and nothing at all is sent (for any geometry values). *)
Theorem C12_too_big_refused_before_write : forall addr ps bp fp sp override image q scr,
  1 <= zlen image -> (fp - eff_start sp override) * ps < zlen image ->
  internal_flash addr ps bp fp sp override image q scr = (Refused, q, scr, []).
Proof. exact refused. Qed.
Print Assumptions C12_too_big_refused_before_write.

(* upload_buffer: the frames are  FF tid 14 page(le16) offset(le16) payload ; all but the last carry
   exactly 25 bytes, the last at most 24 (possibly none); offsets are consecutive from `address`; the
   payloads concatenate to the buffer: every byte exactly once, at its offset. *)
Theorem C12_upload_packets : forall tid page address buff,
  u8 tid = true -> 0 <= page < 65536 -> 0 <= address -> address + zlen buff <= 65535 ->
  exists full last,
    upload_buffer tid page address buff = (mk_frames tid page address (full ++ [last]), None) /\
    concat (full ++ [last]) = buff /\
    Forall (fun c => zlen c = 25) full /\ zlen last <= 24.
Proof. exact upload_buffer_spec. Qed.
Print Assumptions C12_upload_packets.

(* Which buffer loads a run sends (for ANY geometry values with page size and buffer count >= 1): the
   load frames of the run are, in order, the uploads of page 0, 1, 2, ... — page i to buffer page
   (i mod buffer_pages), from offset 0, each page once — all of them when the run succeeds, a prefix
   otherwise; each of them reaches the target; a refused run sends nothing.  Together with
   C12_upload_packets (the payloads of one upload partition the page chunk at consecutive offsets)
   and C12_page_chunks_partition_image this is "every byte of every page exactly once, at the right
   offset". *)
Theorem C12_pages_loaded_once_in_order : forall addr ps bp fp sp override image q scr out q' scr' tr,
  1 <= zlen image -> 1 <= ps -> 1 <= bp ->
  internal_flash addr ps bp fp sp override image q scr = (out, q', scr', tr) ->
  loads_delivered tr /\
  exists rest,
    all_loads addr ps bp image 0 (Z.to_nat (npages (zlen image) ps)) = loads tr ++ rest /\
    (out = Done -> rest = []) /\ (out = Refused -> tr = []).
Proof. exact run_loads. Qed.
Print Assumptions C12_pages_loaded_once_in_order.

Theorem C12_page_chunks_partition_image : forall image ps, 1 <= ps -> 1 <= zlen image ->
  concat (map (page_chunk image ps) (zrange 0 (Z.to_nat (npages (zlen image) ps)))) = image.
Proof. exact chunks_partition. Qed.
Print Assumptions C12_page_chunks_partition_image.

(* Every frame of a run (buffer loads and flash writes) is at most 32 bytes: header + 31, starts with
   header FF and is addressed to the target being flashed. *)
Theorem C12_frames_fit_radio : forall T sp override image q scr out q' scr' tr,
  run_pre T (eff_start sp override) image ->
  internal_flash (t_id T) (t_ps T) (t_bp T) (t_fp T) sp override image q scr = (out, q', scr', tr) ->
  Forall (fun x : frame * bool => (length (fst x) <= 32)%nat /\ nth 0 (fst x) 0 = 255 /\ nth 1 (fst x) 0 = t_id T) tr.
Proof. exact run_frames_fit. Qed.
Print Assumptions C12_frames_fit_radio.

(* write_flash sends its command at least once and at most six times, always the same frame. *)
Theorem C12_write_retry_bounded : forall addr pbuf tpage n q scr r q' scr' tr,
  u8 addr = true -> 0 <= pbuf < 65536 -> 0 <= tpage < 65536 -> 0 <= n < 65536 ->
  write_flash addr pbuf tpage n q scr = (r, q', scr', tr) ->
  Forall (fun x => fst x = write_frame addr pbuf tpage n) tr /\
  (1 <= length tr <= 6)%nat /\
  (Forall (att_honest addr) scr -> Forall (att_honest addr) scr' /\ (r = WTrue -> existsb snd tr = true)).
Proof. exact write_flash_spec. Qed.
Print Assumptions C12_write_retry_bounded.

(* unanswered: six attempts without any matching reply => reported as failed after exactly six frames *)
Theorem C12_write_unanswered_fails : forall addr pbuf tpage n q scr,
  u8 addr = true -> 0 <= pbuf < 65536 -> 0 <= tpage < 65536 -> 0 <= n < 65536 ->
  (6 <= length scr)%nat -> Forall (att_silent addr) (firstn 6 scr) ->
  exists q' tr, write_flash addr pbuf tpage n q scr = (WFalse, q', skipn 6 scr, tr) /\ length tr = 6%nat.
Proof. exact write_flash_unanswered. Qed.
Print Assumptions C12_write_unanswered_fails.

(* negative answer: reported as failed at once, no retry *)
Theorem C12_write_negative_fails : forall addr pbuf tpage n q a scr p rest,
  u8 addr = true -> 0 <= pbuf < 65536 -> 0 <= tpage < 65536 -> 0 <= n < 65536 ->
  a_intime a = p :: rest -> good_reply addr (Some p) = true -> 4 <= zlen (snd p) -> zn (snd p) 2 <> 1 ->
  write_flash addr pbuf tpage n q (a :: scr) =
  (WFalse, rest ++ a_late a, scr, [(write_frame addr pbuf tpage n, a_deliv a)]).
Proof. exact write_flash_negative. Qed.
Print Assumptions C12_write_negative_fails.

(* A run that does not end in success ends in an error (write failed, or IndexError on a truncated
   acknowledgement) and the last frame sent is the flash-write command that failed: nothing follows. *)
Theorem C12_write_retry_bounded_then_abort : forall T sp override image q scr out q' scr' tr,
  let start := eff_start sp override in
  run_pre T start image -> fits T start image ->
  internal_flash (t_id T) (t_ps T) (t_bp T) (t_fp T) sp override image q scr = (out, q', scr', tr) ->
  out = Done \/
  ((out = WriteFailed \/ out = Raised IndexError) /\
   exists tr0 r d, tr = tr0 ++ [(255 :: t_id T :: 24 :: r, d)]).
Proof. exact failed_write_aborts. Qed.
Print Assumptions C12_write_retry_bounded_then_abort.

(* ------------------------------------------------------------------ round 2: what is flashed where *)

(* A negative start / override page (any geometry values, any script): either the image is refused with
   nothing sent, or the run raises struct.error; in both cases no flash-write command was sent — only
   buffer loads — and the flash of any target is unchanged.  (Pages >= 65536 and pages that leave fewer
   than ceil(len/ps) pages before the end of the flash are refused: C12_too_big_refused_before_write.) *)
Theorem C12_bad_override_raises_before_write : forall addr ps bp fp sp override image q scr out q' scr' tr,
  1 <= zlen image -> 1 <= ps -> eff_start sp override < 0 ->
  internal_flash addr ps bp fp sp override image q scr = (out, q', scr', tr) ->
  ((out = Refused /\ tr = []) \/ out = Raised StructError) /\
  only_loads tr /\ forall T, t_flash (deliver T tr) = t_flash T.
Proof. exact bad_override. Qed.
Print Assumptions C12_bad_override_raises_before_write.

(* Cloader._update_info decodes the info packet [tid, 0x10, page_size, buffer_pages, flash_pages,
   start_page (16-bit little-endian each), 12 cpu-id bytes, optional protocol version ...] exactly. *)
Theorem C12_info_geometry_decoded_exactly : forall tid ps bp fp sp cpuid rest,
  0 <= ps < 65536 -> 0 <= bp < 65536 -> 0 <= fp < 65536 -> 0 <= sp < 65536 -> length cpuid = 12%nat ->
  exists i, parse_info tid (info_packet tid ps bp fp sp cpuid rest) = POk i /\
            i_ps i = ps /\ i_bp i = bp /\ i_fp i = fp /\ i_sp i = sp /\ i_cpuid i = cpuid /\
            i_pv i = (match rest with v :: _ => Some v | [] => None end).
Proof. exact parse_info_exact. Qed.
Print Assumptions C12_info_geometry_decoded_exactly.

(* The geometry _update_info stores is the decoding of a packet it actually received for that target
   (whatever else arrives, whatever times out), and it asks at most six times within its 10 s. *)
Theorem C12_update_info_reports_a_received_packet : forall tid pv_prev evs i m fs rest,
  update_info tid pv_prev evs = (UTrue i m, fs, rest) ->
  exists p, In (Some p) evs /\ parse_info tid p = POk i.
Proof. exact update_info_from_packet. Qed.
Print Assumptions C12_update_info_reports_a_received_packet.

Theorem C12_update_info_requests_bounded : forall tid pv_prev evs r fs rest,
  update_info tid pv_prev evs = (r, fs, rest) ->
  (1 <= length (filter (fun f => zlist_eqb f (get_info_frame tid)) fs) <= 6)%nat.
Proof. exact update_info_requests. Qed.
Print Assumptions C12_update_info_requests_bounded.

(* The nRF51 bootloader+softdevice override page  flash_pages - len // page_size : an image that is a
   whole number of pages fits exactly and ends at the end of the flash; any other length fails the size
   check (refused before anything of it is written); the page is negative iff the image has more pages
   than the flash (then C12_bad_override_raises_before_write applies). *)
Theorem C12_sdbl_override_fits_or_refused : forall fp ps len, 1 <= ps -> 0 <= len ->
  let page := sdbl_page fp ps len in
  (len mod ps = 0 -> len = (fp - page) * ps) /\
  (len mod ps <> 0 -> (fp - page) * ps < len) /\
  (0 <= page <-> len / ps <= fp).
Proof. exact sdbl_fits_or_refused. Qed.
Print Assumptions C12_sdbl_override_fits_or_refused.

(* The whole branch (erase the first firmware page, then flash the image at the override page): if it
   reports success (honest acknowledgements), the image lies byte for byte in the last len/ps pages. *)
Theorem C12_sdbl_image_at_flash_end : forall T sp sd q scr q' scr' tr,
  let ps := t_ps T in
  let page := sdbl_page (t_fp T) ps (zlen sd) in
  t_id T = NRF51 -> run_pre T sp (repeat 255 (Z.to_nat ps)) -> 1 <= zlen sd ->
  Forall (att_honest NRF51) scr ->
  flash_sdbl ps (t_bp T) (t_fp T) sp sd q scr = (Done, q', scr', tr) ->
  0 <= page /\ zlen sd mod ps = 0 /\ page * ps + zlen sd = t_fp T * ps /\
  zslice (t_flash (deliver T tr)) (page * ps) (zlen sd) = sd.
Proof. exact sdbl_exact. Qed.
Print Assumptions C12_sdbl_image_at_flash_end.

(* ------------------------------------------------------------------ growth round: several artifacts, selection, reboot, read-back *)

(* Bootloader.flash(zip, targets), for ALL manifests, target lists and info caches: either it raises before any
   _internal_flash, or it flashes the firmware artifacts of the manifest (fw_items = one call per artifact that
   passes `wanted`) with the geometry held at entry (k0), or it does the bootloader+softdevice step with k0, reboots,
   and flashes the firmware artifacts with the geometry learnt AFTER the reboot (k1) — never with the stale one. *)
Theorem C12_flash_plan_shape : forall platform k0 k1 arts sels,
  let p := flash_plan platform k0 k1 arts sels in
  (exists e, p = [PRaise e]) \/
  p = fw_items k0 platform sels arts \/
  (exists n0 a, k_nrf k0 = Some n0 /\ In a arts /\ s_type (f_sel a) = SDBL /\
                p = sd_items k0 n0 a ++ fw_items k1 platform sels arts).
Proof. exact flash_plan_shape. Qed.
Print Assumptions C12_flash_plan_shape.

(* The firmware phase takes every firmware artifact of the manifest — every artifact of the platform that is not a
   bootloader+softdevice — once each, in manifest order, whatever the target list names; the list only decides
   whether the phase runs at all (empty, or some target of this platform named). *)
Theorem C12_selected_artifacts_once_in_order : forall platform sels arts,
  fw_selected platform sels arts = filter (wanted platform sels) arts.
Proof. exact fw_selected_spec. Qed.
Print Assumptions C12_selected_artifacts_once_in_order.

(* The calls are started in plan order, each once; all of them when flash() returns normally. *)
Theorem C12_plan_calls_in_order_once : forall p scr o s tr cs rb,
  run_plan p scr = (o, s, tr, cs, rb) ->
  exists rest, calls_of p = cs ++ rest /\ (o = SDone -> rest = []).
Proof. exact run_plan_calls. Qed.
Print Assumptions C12_plan_calls_in_order_once.

(* A target (any state, any geometry) to which no call of the plan is addressed is not modified — whatever the
   script does, however the session ends. *)
Theorem C12_unaddressed_target_untouched : forall p scr o s tr cs rb O,
  run_plan p scr = (o, s, tr, cs, rb) ->
  (forall c, In c (calls_of p) -> l_tid c <> t_id O) ->
  deliver O tr = O.
Proof. exact run_plan_untouched. Qed.
Print Assumptions C12_unaddressed_target_untouched.

(* On every target, over the whole session (several artifacts, retries, aborts): no command out of range, geometry
   and sizes unchanged, and no flash byte changes outside the union of the page ranges of the calls addressed to it
   that were actually started — provided those calls use the target's real geometry, a non-empty image and a
   non-negative page (call_sane). *)
Theorem C12_session_nothing_outside_union : forall p scr T o s tr cs rb,
  geom_ok T -> t_oob T = false -> u8 (t_id T) = true ->
  Forall (call_sane T) (calls_of p) ->
  run_plan p scr = (o, s, tr, cs, rb) ->
  let T' := deliver T tr in
  geom_ok T' /\ t_oob T' = false /\
  (t_id T', t_ps T', t_bp T', t_fp T') = (t_id T, t_ps T, t_bp T, t_fp T) /\
  zlen (t_flash T') = zlen (t_flash T) /\
  forall a, 0 <= a < zlen (t_flash T) ->
            (forall c, In c cs -> l_tid c = t_id T -> ~ call_range c a) ->
            zn (t_flash T') a = zn (t_flash T) a.
Proof. exact run_plan_safe. Qed.
Print Assumptions C12_session_nothing_outside_union.

(* Cloader.read_flash: for every page size (any remainder modulo the 25-byte chunks, device replies that run past
   the end of the page or stop at the end of the flash), every page, every pattern of lost replies and foreign
   packets: a returned buffer is the device's flash [page*ps_device, +ps) byte for byte, and at most six requests
   are sent per chunk. *)
Theorem C12_read_flash_exact : forall T addr ps page fs r fs' tr,
  rf_honest addr fs -> 0 <= ps -> 0 <= page * t_ps T ->
  read_flash T addr ps page fs = (r, fs', tr) ->
  (length tr <= 6 * Z.to_nat ((ps + 24) / 25))%nat /\
  forall b, r = RBuf b -> b = zslice (t_flash T) (page * t_ps T) ps.
Proof. exact read_flash_exact. Qed.
Print Assumptions C12_read_flash_exact.

(* REFUTATION of a stale info cache across the reboot (what seeded change C12-e does): with the geometry learnt
   before the reboot kept, the nRF51 firmware of the example zip is programmed at page 88 — a byte that no call of
   the correct plan may touch, and that the correct plan leaves unchanged, is modified. *)
Theorem C12_stale_cache_refuted :
  exists platform k0 k1 arts sels T a,
    let '(_, _, tr_ok, cs_ok, _) := run_plan (flash_plan platform k0 k1 arts sels) [] in
    let '(o, _, tr_stale, _, _) := run_plan (flash_plan_stale platform k0 k1 arts sels) [] in
    o = SDone /\
    (forall c, In c cs_ok -> l_tid c = t_id T -> ~ call_range c a) /\
    zn (t_flash (deliver T tr_ok)) a = zn (t_flash T) a /\
    zn (t_flash (deliver T tr_stale)) a <> zn (t_flash T) a.
Proof. exact stale_cache_refuted. Qed.
Print Assumptions C12_stale_cache_refuted.

(* OBSERVATION, outside the property text: which targets the list names is not consulted by the firmware phase.
   For the example zip, targets = [cf2/stm32/fw] gives the same calls as the empty list, the nRF51 firmware included. *)
Theorem C12_target_list_ignored_observation :
  exists platform k0 k1 arts sels,
    sels = [mkSel 2 255 1] /\
    (exists c, In c (calls_of (flash_plan platform k0 k1 arts sels)) /\ l_tid c = 254 /\ l_override c = None /\
               l_image c = [9;9;9;9;9]) /\
    calls_of (flash_plan platform k0 k1 arts sels) = calls_of (flash_plan platform k0 k1 arts []).
Proof. exact target_list_ignored. Qed.
Print Assumptions C12_target_list_ignored_observation.

(* ------------------------------------------------------------------ UI callbacks are part of the input *)

(* For EVERY callback configuration (progress_cb installed or not; terminate_flashing_cb absent or answering any
   sequence of booleans), every fault pattern, geometry and image: _internal_flash ends with exactly the outcome,
   downlink queue, script position and frames of the run without callbacks — in particular the same abort on a failed
   flash-write — or, only if the terminate callback answered True, with "Flashing terminated" after a prefix of
   those frames. *)
Theorem C12_callbacks_do_not_change_flashing :
  forall p term addr ps bp fp sp override image q scr o' q' s' tr lg o q0 s0 tr0,
  internal_flash_cb false (mkCb p term) addr ps bp fp sp override image q scr = (o', q', s', tr, lg) ->
  internal_flash addr ps bp fp sp override image q scr = (o, q0, s0, tr0) ->
  (o' = OB o /\ q' = q0 /\ s' = s0 /\ tr = tr0) \/
  (o' = OTerminated /\ (exists rest, tr0 = tr ++ rest) /\ term_has_true term).
Proof. exact internal_flash_cb_vs_plain. Qed.
Print Assumptions C12_callbacks_do_not_change_flashing.

(* Hence every theorem above about internal_flash holds verbatim with progress_cb installed. *)
Theorem C12_progress_cb_irrelevant : forall p term addr ps bp fp sp override image q scr,
  ~ term_has_true term ->
  exists lg,
    internal_flash_cb false (mkCb p term) addr ps bp fp sp override image q scr =
    (let '(o, q', s', tr) := internal_flash addr ps bp fp sp override image q scr in (OB o, q', s', tr, lg)).
Proof. exact internal_flash_cb_same. Qed.
Print Assumptions C12_progress_cb_irrelevant.

(* Whole flash() plans: same outcome (abort or completion), script position, frames and calls with progress_cb. *)
Theorem C12_session_same_with_progress_cb : forall pr p scr, run_plan_cb pr p scr = run_plan p scr.
Proof. exact run_plan_cb_same. Qed.
Print Assumptions C12_session_same_with_progress_cb.

(* REFUTATION of "raise only in the console branch of the error report" (seeded change C12-i): 12 bytes, 4-byte pages,
   1 buffer page, second flash-write answered negatively.  Without progress_cb the variant aborts like the code; with
   progress_cb it sends two more frames, reports success, and the flash does not hold the image. *)
Theorem C12_raise_only_without_progress_cb_refuted :
  let '(o_ok, _, _, tr_ok) := internal_flash 255 4 1 8 1 None cbImage [] cbScript in
  let '(o_bug, _, _, tr_bug, _) := internal_flash_cb true (mkCb true None) 255 4 1 8 1 None cbImage [] cbScript in
  let '(o_con, _, _, tr_con, _) := internal_flash_cb true (mkCb false None) 255 4 1 8 1 None cbImage [] cbScript in
  o_ok = WriteFailed /\ o_con = OB WriteFailed /\ tr_con = tr_ok /\
  o_bug = OB Done /\ length tr_bug = (length tr_ok + 2)%nat /\
  zslice (t_flash (deliver cbT tr_bug)) 4 12 <> cbImage.
Proof. exact raise_only_without_progress_refuted. Qed.
Print Assumptions C12_raise_only_without_progress_cb_refuted.

(* ------------------------------------------------------------------ several flashes on one Bootloader object *)

(* What an earlier flash on the same object can leave behind is the link's downlink queue and the position in the
   environment's script; the buffer counter is local and starts at 0.  For every callback configuration, geometry,
   image and script: outcome, script position, frames and progress messages of _internal_flash do not depend on the
   queue it finds. *)
Theorem C12_flash_independent_of_leftover_queue : forall bug cfg addr ps bp fp sp override image q1 q2 scr,
  noq5 (internal_flash_cb bug cfg addr ps bp fp sp override image q1 scr) =
  noq5 (internal_flash_cb bug cfg addr ps bp fp sp override image q2 scr).
Proof. exact internal_flash_cb_queue. Qed.
Print Assumptions C12_flash_independent_of_leftover_queue.

(* Hence in a history of flashes (each possibly aborted: negative reply, retries exhausted, terminate callback, an
   exception raised by the link at any frame) the writes of the next flash are a function of its own request and of
   the script position — the same whatever the previous flash left in the queue, i.e. however it ended. *)
Theorem C12_flash_starts_from_fresh_state : forall r q1 q2 scr,
  let '(c1, _, s1, t1) := flash_step r q1 scr in
  let '(c2, _, s2, t2) := flash_step r q2 scr in
  c1 = c2 /\ s1 = s2 /\ t1 = t2.
Proof. exact flash_step_fresh. Qed.
Print Assumptions C12_flash_starts_from_fresh_state.

(* REFUTATION of a buffer counter that survives an abort (seeded change C12-j): with one page left over in the
   counter, a one-page image for start page 2 is reported flashed, but flash page 1 — below the start page — now holds
   the stale contents of buffer page 0 (the code, counter 0, leaves page 1 alone and puts the image at page 2). *)
Theorem C12_surviving_buffer_counter_refuted :
  let '(o, _, _, tr) := internal_flash_leftover 1 255 4 2 8 2 None [1;2;3;4] [] [] in
  let '(o0, _, _, tr0) := internal_flash 255 4 2 8 2 None [1;2;3;4] [] [] in
  o = Done /\ o0 = Done /\
  zslice (t_flash (deliver hT tr0)) 4 4 = [7;7;7;7] /\ zslice (t_flash (deliver hT tr0)) 8 4 = [1;2;3;4] /\
  zslice (t_flash (deliver hT tr)) 4 4 = [61;62;63;64] /\ t_oob (deliver hT tr) = false.
Proof. exact surviving_counter_refuted. Qed.
Print Assumptions C12_surviving_buffer_counter_refuted.

(* ------------------------------------------------------------------ Wave 11: links that keep packet references *)

(* Packets as heap cells, send = hand a cell id to the link.  If no cell is written after it was handed over
   (alias_free), a link that keeps the reference in a one-slot queue and reads the cell only when the next packet is
   offered / at the end transmits exactly what a link that serialises inside send_packet transmits — for every
   sequence of writes and sends, every heap, every queued cell. *)
Theorem C12_deferred_serialisation_equals_immediate : forall ops h s,
  (forall j, s = Some j -> writes_to j ops = false) -> alias_free ops = true ->
  run_def h s ops = take h s ++ run_imm h ops.
Proof. exact deferred_eq_immediate. Qed.
Print Assumptions C12_deferred_serialisation_equals_immediate.

(* Cloader.upload_buffer allocates a new packet per chunk: for every buffer, page and address the frames a
   reference-keeping link (the radio driver) serialises later are the frames of the model, so every theorem about
   frames and flash content holds for such links too; and the objects handed over are pairwise distinct. *)
Theorem C12_upload_packets_not_aliased : forall h tid page address buff,
  run_def h None (ub_ops true (fst (upload_buffer tid page address buff))) = fst (upload_buffer tid page address buff) /\
  cells_distinct (ub_ops true (fst (upload_buffer tid page address buff))) = true.
Proof. exact upload_deferred_same. Qed.
Print Assumptions C12_upload_packets_not_aliased.

(* REFUTATION of one packet object reused for every chunk of a page (seeded change C12-k): invisible to a link that
   serialises at once, but on a reference-keeping link a 26-byte page is transmitted as twice its second chunk. *)
Theorem C12_reused_packet_object_refuted :
  let frames := fst (upload_buffer 255 0 0 k_buff) in
  length frames = 2%nat /\
  run_def (fun _ => []) None (ub_ops true frames) = frames /\
  run_def (fun _ => []) None (ub_ops false frames) = [nth 1 frames []; nth 1 frames []] /\
  run_def (fun _ => []) None (ub_ops false frames) <> frames /\
  alias_free (ub_ops false frames) = false.
Proof. exact reused_packet_refuted. Qed.
Print Assumptions C12_reused_packet_object_refuted.

(* ------------------------------------------------------------------ Wave 13: write_flash against endless receive streams *)

(* For EVERY stream of receive results (a function nat -> what the k-th receive_packet(2.5) returns — silence,
   answers, packets of the other target, other commands, short packets, without end): write_flash sends its command
   at least once and at most six times and listens exactly once per command sent. *)
Theorem C12_write_flash_bounded_on_every_stream : forall addr rx r k s,
  write_flash_stream addr rx = (r, k, s) -> (1 <= s <= 6)%nat /\ k = s.
Proof. exact write_flash_stream_bounded. Qed.
Print Assumptions C12_write_flash_bounded_on_every_stream.

(* If the stream never contains the answer to this command — however many other packets it keeps delivering —
   write_flash reports failure after exactly six commands and six receives (and _internal_flash aborts:
   C12_write_retry_bounded_then_abort). *)
Theorem C12_write_flash_unanswered_stream_fails : forall addr rx,
  (forall j, good_reply addr (rx j) = false) ->
  write_flash_stream addr rx = (WFalse, 6%nat, 6%nat).
Proof. exact write_flash_stream_unanswered. Qed.
Print Assumptions C12_write_flash_unanswered_stream_fails.

(* REFUTATION of "packets that are not the answer do not count" (seeded change C12-m): on a link that delivers a
   stray packet (e.g. the other target's acknowledgement) on every listen, the variant has not returned after any
   number of receives. *)
Theorem C12_uncounted_strays_refuted : forall addr p, good_reply addr (Some p) = false ->
  forall fuel, wfv_loop fuel 6 addr None O (fun _ => Some p) = None.
Proof. exact variant_never_returns. Qed.
Print Assumptions C12_uncounted_strays_refuted.

(* ------------------------------------------------------------------ Wave 14: error_cb and the per-image loop of flash() *)

(* For every UI configuration (progress_cb, error_cb installed or not), every plan and script, inside or outside the
   firmware phase: the session is exactly the session without callbacks — same abort or completion, script position,
   frames and calls — and error_cb is never invoked (the code does not read it). *)
Theorem C12_session_same_with_error_cb : forall ui p fw scr,
  run_plan_e false ui fw p scr = (let '(o, s, tr, cs, rb) := run_plan p scr in (o, s, tr, cs, rb, O)).
Proof. exact run_plan_e_same. Qed.
Print Assumptions C12_session_same_with_error_cb.

(* The per-image loop is a fold that stops at the first failure: if the images of p1 are flashed successfully and
   image c fails (refused, flash-write failed or unanswered, exception), the session ends with that failure and has
   sent the frames of p1 and of c only — whatever images p2 follow, none of their commands is sent. *)
Theorem C12_flash_stops_at_first_failed_image : forall p1 scr s1 t1 cs1 rb1 c p2 o q2 s2 t2,
  run_plan p1 scr = (SDone, s1, t1, cs1, rb1) ->
  run_call c s1 = (o, q2, s2, t2) -> o <> Done ->
  exists rb, run_plan (p1 ++ PCall c :: p2) scr = (SFlash o, s2, t1 ++ t2, cs1 ++ [c], rb).
Proof. exact run_plan_stops_at_first_failure. Qed.
Print Assumptions C12_flash_stops_at_first_failed_image.

(* REFUTATION of "catch, report through error_cb, carry on" (seeded change C12-n): STM32 firmware with a negatively
   answered flash-write followed by an nRF51 firmware, error_cb installed: the code ends WriteFailed after the STM32
   frames with the nRF51 untouched; the variant invokes error_cb once, programs the nRF51 and returns normally
   (without error_cb the variant behaves like the code). *)
Theorem C12_swallowed_failure_refuted :
  let p := flash_plan 2 eK eK eArts [] in
  let '(o, _, tr, cs, _, ne) := flash_session_e false (mkUi true true) p eScript in
  let '(o', _, tr', cs', _, ne') := flash_session_e true (mkUi true true) p eScript in
  o = SFlash WriteFailed /\ length cs = 1%nat /\ ne = O /\ deliver eNrf tr = eNrf /\
  o' = SDone /\ length cs' = 2%nat /\ ne' = 1%nat /\
  zslice (t_flash (deliver eNrf tr')) (108 * 4) 5 = [9;9;9;9;9] /\
  (let '(o'', _, tr'', _, _, _) := flash_session_e true (mkUi true false) p eScript in o'' = SFlash WriteFailed /\ tr'' = tr).
Proof. exact swallow_refuted. Qed.
Print Assumptions C12_swallowed_failure_refuted.
