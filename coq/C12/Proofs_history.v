(* C12/Proofs_history.v — a flash starts from a fresh state: what the previous flash left behind does not matter *)
From CF Require Import Common.Bytes.
From CF Require Import C12.Model.
From CF Require Import C12.Session.
From CF Require Import C12.Plan.
From CF Require Import C12.Callbacks.
From CF Require Import C12.History.
From CF Require Import C12.Proofs_write.
From Coq Require Import ZifyBool.
Open Scope Z_scope.

Lemma write_flash_queue addr pb tp n q1 q2 scr :
  write_flash addr pb tp n q1 scr = write_flash addr pb tp n q2 scr.
Proof. unfold write_flash. now rewrite !flush_spec. Qed.

(* everything but the returned queue *)
Definition noq7 (r : outcome_cb * Z * list pkt * list att * list (frame * bool) * list msg * option (list bool)) :=
  let '(o, c, _, s, tr, lg, t) := r in (o, c, s, tr, lg, t).

Lemma page_loop_cb_queue bug k cfg addr ps bp start image : forall i ctr q1 q2 scr term,
  noq7 (page_loop_cb bug k cfg addr ps bp start image i ctr q1 scr term) =
  noq7 (page_loop_cb bug k cfg addr ps bp start image i ctr q2 scr term) /\
  (* and the queue handed on is either the one received (no flash-write happened) or the same in both runs *)
  (let '(_, _, qa, _, _, _, _) := page_loop_cb bug k cfg addr ps bp start image i ctr q1 scr term in
   let '(_, _, qb, _, _, _, _) := page_loop_cb bug k cfg addr ps bp start image i ctr q2 scr term in
   (qa = q1 /\ qb = q2) \/ qa = qb).
Proof.
  induction k as [|k IH]; intros i ctr q1 q2 scr term; cbn [page_loop_cb].
  - split; [reflexivity|]. left. auto.
  - destruct (ask_term term) as [stop term1]. destruct stop; [split; [reflexivity|left; auto]|].
    destruct (upload_buffer addr ctr 0 (page_chunk image ps i)) as [fs [x|]]; [split; [reflexivity|left; auto]|].
    destruct (bp <=? ctr + 1).
    + rewrite (write_flash_queue addr 0 _ (ctr + 1) q1 q2 scr).
      destruct (write_flash addr 0 (start + i - (ctr + 1 - 1)) (ctr + 1) q2 scr) as [[[r q'] scr'] tr2].
      destruct r.
      * destruct (page_loop_cb bug k cfg addr ps bp start image (i + 1) 0 q' scr' term1) as [[[[[[o c] q3] s3] tr3] l3] t3].
        split; [reflexivity|right; reflexivity].
      * destruct (bug && cb_progress cfg).
        -- destruct (page_loop_cb bug k cfg addr ps bp start image (i + 1) 0 q' scr' term1) as [[[[[[o c] q3] s3] tr3] l3] t3].
           split; [reflexivity|right; reflexivity].
        -- split; [reflexivity|right; reflexivity].
      * split; [reflexivity|right; reflexivity].
    + specialize (IH (i + 1) (ctr + 1) q1 q2 scr term1).
      destruct (page_loop_cb bug k cfg addr ps bp start image (i + 1) (ctr + 1) q1 scr term1) as [[[[[[o c] qa] s3] tr3] l3] t3].
      destruct (page_loop_cb bug k cfg addr ps bp start image (i + 1) (ctr + 1) q2 scr term1) as [[[[[[o' c'] qb] s3'] tr3'] l3'] t3'].
      destruct IH as (E & Hq). cbn [noq7] in E. injection E as -> -> -> -> -> ->.
      split; [reflexivity|exact Hq].
Qed.

(* _internal_flash, any callback configuration: outcome, script position, frames and progress messages do not
   depend on the downlink queue it finds (the only thing besides the script position an earlier flash on the same
   object can have left behind) *)
Definition noq5 (r : outcome_cb * list pkt * list att * list (frame * bool) * list msg) :=
  let '(o, _, s, tr, lg) := r in (o, s, tr, lg).

Lemma internal_flash_cb_queue bug cfg addr ps bp fp sp override image q1 q2 scr :
  noq5 (internal_flash_cb bug cfg addr ps bp fp sp override image q1 scr) =
  noq5 (internal_flash_cb bug cfg addr ps bp fp sp override image q2 scr).
Proof.
  unfold internal_flash_cb.
  destruct (zlen image =? 0); [reflexivity|].
  destruct (_ <? zlen image); [reflexivity|].
  destruct (page_loop_cb_queue bug (Z.to_nat (py_int_div (zlen image - 1) ps + 1)) cfg addr ps bp
                               (eff_start sp override) image 0 0 q1 q2 scr (cb_term cfg)) as (E & Hq).
  destruct (page_loop_cb bug _ cfg addr ps bp _ image 0 0 q1 scr (cb_term cfg)) as [[[[[[o c] qa] s3] tr3] l3] t3].
  destruct (page_loop_cb bug _ cfg addr ps bp _ image 0 0 q2 scr (cb_term cfg)) as [[[[[[o' c'] qb] s3'] tr3'] l3'] t3'].
  cbn [noq7] in E. injection E as -> -> -> -> -> ->.
  destruct o' as [[| | |x]|]; try reflexivity.
  destruct (0 <? c'); [|reflexivity].
  rewrite (write_flash_queue addr 0 _ c' qa qb s3').
  destruct (write_flash addr 0 _ c' qb s3') as [[[r q5] s5] tr5].
  destruct r; reflexivity.
Qed.

(* a flash request on one object: code, script position and frames are a function of the request and the script
   position alone — not of how the previous flash ended *)
Lemma flash_step_fresh r q1 q2 scr :
  let '(c1, _, s1, t1) := flash_step r q1 scr in
  let '(c2, _, s2, t2) := flash_step r q2 scr in
  c1 = c2 /\ s1 = s2 /\ t1 = t2.
Proof.
  unfold flash_step.
  pose proof (internal_flash_cb_queue false (r_cfg r) (r_addr r) (r_ps r) (r_bp r) (r_fp r) (r_sp r) (r_override r)
                                      (r_image r) q1 q2 scr) as E.
  destruct (internal_flash_cb false (r_cfg r) _ _ _ _ _ _ _ q1 scr) as [[[[o1 qa] s1] t1] l1].
  destruct (internal_flash_cb false (r_cfg r) _ _ _ _ _ _ _ q2 scr) as [[[[o2 qb] s2] t2] l2].
  cbn [noq5] in E. injection E as -> -> -> ->.
  destruct (r_link_exc r) as [n|]; [destruct (n <=? length t2)%nat|]; auto.
Qed.

Lemma leftover_zero addr ps bp fp sp override image q scr :
  internal_flash_leftover 0 addr ps bp fp sp override image q scr = internal_flash addr ps bp fp sp override image q scr.
Proof. reflexivity. Qed.

(* REFUTATION of a buffer counter that survives an abort (seeded change C12-j): target with 4-byte pages, 2 buffer
   pages, start page 2; a one-page image flashed with one page left over in the counter: the image goes to buffer
   page 1 and flash pages 1..2 are programmed — page 1, below the start page, with stale buffer contents — and
   success is reported. *)
Definition hT : target := mkT 255 4 2 8 [61;62;63;64;0;0;0;0] (repeat 7 32) false.
Lemma surviving_counter_refuted :
  let '(o, _, _, tr) := internal_flash_leftover 1 255 4 2 8 2 None [1;2;3;4] [] [] in
  let '(o0, _, _, tr0) := internal_flash 255 4 2 8 2 None [1;2;3;4] [] [] in
  o = Done /\ o0 = Done /\
  zslice (t_flash (deliver hT tr0)) 4 4 = [7;7;7;7] /\ zslice (t_flash (deliver hT tr0)) 8 4 = [1;2;3;4] /\
  zslice (t_flash (deliver hT tr)) 4 4 = [61;62;63;64] /\ t_oob (deliver hT tr) = false.
Proof. vm_compute. repeat split; reflexivity. Qed.
