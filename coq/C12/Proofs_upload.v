(* C12/Proofs_upload.v — Cloader.upload_buffer: shape of the frames it sends and what they do to the target *)
From CF Require Import Common.Bytes.
From CF Require Import C12.Model.
From CF Require Import C12.Lists.
From Coq Require Import ZifyBool.
Open Scope Z_scope.

(* ---- specification vocabulary ---- *)
Definition load_frame (tid page off : Z) (payload : list Z) : frame :=
  255 :: tid :: 20 :: le_bytes 2 page ++ le_bytes 2 off ++ payload.

Fixpoint mk_frames (tid page off : Z) (chunks : list (list Z)) : list frame :=
  match chunks with
  | [] => []
  | c :: cs => load_frame tid page off c :: mk_frames tid page (off + zlen c) cs
  end.

Definition write_frame (addr pbuf tpage n : Z) : frame :=
  255 :: addr :: 24 :: le_bytes 2 pbuf ++ le_bytes 2 tpage ++ le_bytes 2 n.

Lemma u8_spec z : u8 z = true <-> 0 <= z < 256.
Proof. unfold u8. lia. Qed.
Lemma u16_spec z : u16 z = true <-> 0 <= z < 65536.
Proof. unfold u16. lia. Qed.

Lemma pack_load_some tid page off :
  u8 tid = true -> 0 <= page < 65536 -> 0 <= off < 65536 ->
  pack_load tid page off = Some ([tid; 20] ++ le_bytes 2 page ++ le_bytes 2 off).
Proof.
  intros Ht Hp Ho. unfold pack_load. rewrite Ht.
  replace (u16 page) with true by (symmetry; apply u16_spec; lia).
  replace (u16 off) with true by (symmetry; apply u16_spec; lia). reflexivity.
Qed.

Lemma mk_frames_app tid page off c1 c2 :
  mk_frames tid page off (c1 ++ c2) =
  mk_frames tid page off c1 ++ mk_frames tid page (off + zlen (concat c1)) c2.
Proof.
  revert off. induction c1 as [|c c1 IH]; intros off; cbn [mk_frames app concat].
  - f_equal. cbn. lia.
  - rewrite IH. rewrite zlen_app. f_equal. f_equal. f_equal. lia.
Qed.

(* ---- the loop ---- *)
Lemma ub_loop_spec tid page address :
  u8 tid = true -> 0 <= page < 65536 -> 0 <= address ->
  forall buff i pend o,
    0 <= i -> 0 <= o -> zlen pend <= 24 -> o + zlen pend = address + i ->
    address + i + zlen buff <= 65535 ->
    exists full last,
      ub_loop tid page address buff i (zlen pend) ([tid; 20] ++ le_bytes 2 page ++ le_bytes 2 o ++ pend)
      = (mk_frames tid page o (full ++ [last]), None) /\
      concat (full ++ [last]) = pend ++ buff /\
      Forall (fun c => zlen c = 25) full /\ zlen last <= 24.
Proof.
  intros Ht Hp Ha buff. induction buff as [|b rest IH]; intros i pend o Hi Ho Hc Hoi Hlen.
  - exists [], pend. cbn [ub_loop app mk_frames concat]. rewrite !app_nil_r.
    repeat split; auto.
  - cbn [ub_loop]. rewrite zlen_cons in Hlen. pose proof (zlen_nonneg rest) as Hr.
    destruct (24 <? zlen pend + 1) eqn:C.
    + (* packet full: send it, open a new one at i + address + 1 *)
      rewrite (pack_load_some tid page (i + address + 1)) by (auto; lia).
      destruct (IH (i + 1) [] (i + address + 1)) as (full & last & E & Hcat & Hfull & Hlast);
        try (cbn; lia).
      change (zlen (@nil Z)) with 0 in E. rewrite app_nil_r in E.
      rewrite E.
      exists ((pend ++ [b]) :: full), last. cbn [app mk_frames concat].
      assert (Hpl : zlen (pend ++ [b]) = 25) by (rewrite zlen_app; cbn; lia).
      repeat split.
      * rewrite Hpl. replace (o + 25) with (i + address + 1) by lia.
        unfold load_frame. rewrite <- !app_assoc. reflexivity.
      * rewrite Hcat. cbn [app]. now rewrite <- app_assoc.
      * constructor; auto.
      * exact Hlast.
    + destruct (IH (i + 1) (pend ++ [b]) o) as (full & last & E & Hcat & Hfull & Hlast);
        try (rewrite ?zlen_app; cbn; lia).
      rewrite zlen_app in E. change (zlen [b]) with 1 in E.
      replace (([tid; 20] ++ le_bytes 2 page ++ le_bytes 2 o ++ pend) ++ [b])
        with ([tid; 20] ++ le_bytes 2 page ++ le_bytes 2 o ++ pend ++ [b])
        by (now rewrite <- !app_assoc).
      rewrite E.
      exists full, last. repeat split; auto.
      rewrite Hcat. rewrite <- app_assoc. reflexivity.
Qed.

(* upload_buffer: frames of at most 25 payload bytes, consecutive offsets, payloads concatenating to
   the buffer; all but the last carry exactly 25 bytes and the last fewer (possibly none). *)
Lemma upload_buffer_spec tid page address buff :
  u8 tid = true -> 0 <= page < 65536 -> 0 <= address -> address + zlen buff <= 65535 ->
  exists full last,
    upload_buffer tid page address buff = (mk_frames tid page address (full ++ [last]), None) /\
    concat (full ++ [last]) = buff /\
    Forall (fun c => zlen c = 25) full /\ zlen last <= 24.
Proof.
  intros Ht Hp Ha Hl. unfold upload_buffer.
  pose proof (zlen_nonneg buff).
  rewrite pack_load_some by (auto; lia).
  destruct (ub_loop_spec tid page address Ht Hp Ha buff 0 [] address) as (full & last & E & Hc & Hf & Hla);
    try (cbn; lia).
  change (zlen (@nil Z)) with 0 in E. rewrite app_nil_r in E.
  exists full, last. repeat split; auto.
Qed.

Lemma load_frame_length tid page off c :
  length (load_frame tid page off c) = (7 + length c)%nat.
Proof. unfold load_frame. cbn [length]. rewrite !app_length, !le_bytes_length. lia. Qed.

Lemma mk_frames_Forall (P : frame -> Prop) tid page off chunks :
  (forall o c, In c chunks -> P (load_frame tid page o c)) ->
  Forall P (mk_frames tid page off chunks).
Proof.
  revert off. induction chunks as [|c cs IH]; intros off H; cbn [mk_frames]; constructor.
  - apply H. now left.
  - apply IH. intros o c' Hc. apply H. now right.
Qed.

(* ---- effect on a target ---- *)
Lemma le16_decode x (rest : list Z) : 0 <= x < 65536 ->
  exists b0 b1, le_bytes 2 x ++ rest = b0 :: b1 :: rest /\ le_val [b0; b1] = x.
Proof.
  intros Hx. exists (x mod 256), (x / 256 mod 256). split; [reflexivity|].
  change [x mod 256; x / 256 mod 256] with (le_bytes 2 x).
  apply le_val_le_bytes_id. change (256 ^ Z.of_nat 2) with 65536. lia.
Qed.

Lemma tgt_recv_load T page off payload :
  0 <= page < 65536 -> 0 <= off < 65536 ->
  tgt_recv T (load_frame (t_id T) page off payload) =
  if (page <? t_bp T) && (off + zlen payload <=? t_ps T)
  then set_buf T (upd_range (t_buf T) (page * t_ps T + off) payload) else set_oob T.
Proof.
  intros Hp Ho. unfold load_frame.
  destruct (le16_decode page (le_bytes 2 off ++ payload) Hp) as (p0 & p1 & E1 & V1).
  rewrite E1.
  destruct (le16_decode off payload Ho) as (a0 & a1 & E2 & V2).
  rewrite E2.
  cbn [tgt_recv]. rewrite !Z.eqb_refl. cbn [andb].
  change (20 =? 20) with true. cbv iota.
  rewrite V1, V2. reflexivity.
Qed.

Lemma tgt_recv_other T f : match f with _ :: a :: _ => a <> t_id T | _ => True end -> tgt_recv T f = T.
Proof.
  destruct f as [|h [|a [|c r]]]; try reflexivity.
  intros Hne. cbn [tgt_recv]. replace (a =? t_id T) with false by lia.
  now rewrite andb_false_r.
Qed.

Lemma tgt_recv_write T pbuf tpage n :
  0 <= pbuf < 65536 -> 0 <= tpage < 65536 -> 0 <= n < 65536 ->
  tgt_recv T (write_frame (t_id T) pbuf tpage n) =
  if (pbuf + n <=? t_bp T) && (tpage + n <=? t_fp T)
  then set_flash T (upd_range (t_flash T) (tpage * t_ps T) (zslice (t_buf T) (pbuf * t_ps T) (n * t_ps T)))
  else set_oob T.
Proof.
  intros Hb Hf Hn. unfold write_frame.
  destruct (le16_decode pbuf (le_bytes 2 tpage ++ le_bytes 2 n) Hb) as (b0 & b1 & E1 & V1).
  rewrite E1.
  destruct (le16_decode tpage (le_bytes 2 n) Hf) as (f0 & f1 & E2 & V2).
  rewrite E2.
  destruct (le16_decode n [] Hn) as (n0 & n1 & E3 & V3).
  rewrite app_nil_r in E3. rewrite E3.
  cbn [tgt_recv]. rewrite !Z.eqb_refl. cbn [andb].
  change (24 =? 20) with false. change (24 =? 24) with true. cbv iota.
  rewrite V1, V2, V3. reflexivity.
Qed.

Lemma deliver_app T tr1 tr2 : deliver T (tr1 ++ tr2) = deliver (deliver T tr1) tr2.
Proof. unfold deliver. apply fold_left_app. Qed.

Lemma deliver_cons T x tr : deliver T (x :: tr) = deliver (deliver1 T x) tr.
Proof. reflexivity. Qed.

Lemma set_buf_same T : set_buf T (t_buf T) = T.
Proof. now destruct T. Qed.

(* delivering the frames of one upload: the payloads land contiguously in buffer page `page` *)
Lemma deliver_mk_frames T page chunks : forall off,
  0 <= page < t_bp T -> page < 65536 -> 0 <= off -> off + zlen (concat chunks) <= t_ps T -> t_ps T <= 65535 ->
  zlen (t_buf T) = t_bp T * t_ps T ->
  deliver T (sent_ok (mk_frames (t_id T) page off chunks)) =
  set_buf T (upd_range (t_buf T) (page * t_ps T + off) (concat chunks)).
Proof.
  revert T. induction chunks as [|c cs IH]; intros T off Hp Hp16 Ho Hfit Hps Hlen.
  - cbn [mk_frames sent_ok map deliver fold_left concat].
    change (zlen (concat [])) with 0 in Hfit.
    assert (page * t_ps T + t_ps T <= t_bp T * t_ps T) by nia.
    assert (0 <= page * t_ps T) by nia.
    rewrite upd_range_nil; [now rewrite set_buf_same| lia | lia].
  - cbn [mk_frames sent_ok map concat] in *. rewrite zlen_app in Hfit.
    pose proof (zlen_nonneg c) as Hc. pose proof (zlen_nonneg (concat cs)) as Hcs.
    fold (sent_ok (mk_frames (t_id T) page (off + zlen c) cs)).
    rewrite deliver_cons. unfold deliver1 at 1. cbn [fst snd].
    rewrite tgt_recv_load by lia.
    replace ((page <? t_bp T) && (off + zlen c <=? t_ps T)) with true by lia.
    set (T1 := set_buf T (upd_range (t_buf T) (page * t_ps T + off) c)).
    assert (Hin : page * t_ps T + t_ps T <= t_bp T * t_ps T) by nia.
    assert (Hl1 : zlen (t_buf T1) = t_bp T1 * t_ps T1).
    { unfold T1. cbn. rewrite zlen_upd_range; [exact Hlen| nia | nia]. }
    change (t_id T) with (t_id T1).
    rewrite (IH T1 (off + zlen c)); try (unfold T1; cbn; lia); [|exact Hl1].
    unfold T1. cbn [t_buf t_ps t_bp set_buf t_id t_fp t_flash t_oob]. unfold set_buf. cbn.
    f_equal.
    replace (page * t_ps T + (off + zlen c)) with (page * t_ps T + off + zlen c) by lia.
    apply upd_range_upd_range; nia.
Qed.
