(* C12/Proofs_override.v — a negative start/override page: the first flash-write cannot be packed
   ('H' format) and raises before any flash-write command is sent; only buffer loads went out, so
   the flash is untouched. *)
From CF Require Import Common.Bytes.
From CF Require Import C12.Model.
From CF Require Import C12.Lists.
From CF Require Import C12.Proofs_upload.
From CF Require Import C12.Proofs_write.
From CF Require Import C12.Proofs_flash.
From CF Require Import C12.Proofs_plan.
From Coq Require Import ZifyBool.
Open Scope Z_scope.

Definition only_loads (tr : list (frame * bool)) : Prop :=
  Forall (fun x : frame * bool => is_load (fst x) = true) tr.

Lemma only_loads_sent fs : Forall (fun f => is_load f = true) fs -> only_loads (sent_ok fs).
Proof. intros H. unfold only_loads, sent_ok. apply Forall_map. exact H. Qed.

Lemma pack_write_negative addr pbuf tpage n : tpage < 0 -> pack_write addr pbuf tpage n = None.
Proof.
  intros H. unfold pack_write, u16. replace (0 <=? tpage) with false by lia.
  cbn [andb]. now rewrite !andb_false_r.
Qed.

Lemma ub_loop_exn tid page address buff : forall i count cur fs x,
  ub_loop tid page address buff i count cur = (fs, Some x) -> x = StructError.
Proof.
  induction buff as [|b rest IH]; intros i count cur fs x; cbn [ub_loop]; [discriminate|].
  destruct (24 <? count + 1).
  - destruct (pack_load tid page (i + address + 1)) as [h'|]; [|now intros [= _ <-]].
    destruct (ub_loop tid page address rest (i + 1) 0 h') as [fs' e] eqn:E.
    intros [= _ ->]. eapply IH; eauto.
  - apply IH.
Qed.

Lemma upload_exn tid page address buff fs x :
  upload_buffer tid page address buff = (fs, Some x) -> x = StructError.
Proof.
  unfold upload_buffer. destruct (pack_load tid page address) as [h|]; [|now intros [= _ <-]].
  apply ub_loop_exn.
Qed.

(* the first group of pages (i = ctr): no flush can be packed when start < 0 *)
Lemma page_loop_negative addr ps bp start image k : forall ctr q scr o c q' scr' tr,
  start < 0 ->
  page_loop k addr ps bp start image ctr ctr q scr = (o, c, q', scr', tr) ->
  only_loads tr /\ (o = Raised StructError \/ (o = Done /\ c = ctr + Z.of_nat k)).
Proof.
  induction k as [|k IH]; intros ctr q scr o c q' scr' tr Hs E; cbn [page_loop] in E.
  - injection E as <- <- <- <- <-. split; [constructor|]. right. split; auto. lia.
  - pose proof (upload_all_loads addr ctr 0 (page_chunk image ps ctr)) as HL.
    destruct (upload_buffer addr ctr 0 (page_chunk image ps ctr)) as [fs e] eqn:EU. cbn [fst] in HL.
    destruct e as [x|].
    + injection E as <- <- <- <- <-. split; [now apply only_loads_sent|].
      left. f_equal. eapply upload_exn; eauto.
    + destruct (bp <=? ctr + 1).
      * rewrite write_flash_raise in E by (apply pack_write_negative; lia).
        injection E as <- <- <- <- <-. rewrite app_nil_r. split; [now apply only_loads_sent|]. now left.
      * destruct (page_loop k addr ps bp start image (ctr + 1) (ctr + 1) q scr) as [[[[o3 c3] q3] scr3] tr3] eqn:E3.
        injection E as <- <- <- <- <-.
        destruct (IH (ctr + 1) q scr o3 c3 q3 scr3 tr3 Hs E3) as (H1 & H2).
        split; [apply Forall_app; split; [now apply only_loads_sent|exact H1]|].
        destruct H2 as [->|[-> ->]]; [now left|right; split; auto; lia].
Qed.

Lemma tgt_recv_load_flash T f : is_load f = true -> t_flash (tgt_recv T f) = t_flash T.
Proof.
  destruct f as [|h [|a [|c r]]]; try discriminate. cbn [is_load]. intros Hc.
  cbn [tgt_recv]. destruct ((h =? 255) && (a =? t_id T)); [|reflexivity].
  rewrite Hc. destruct r as [|p0 [|p1 [|a0 [|a1 payload]]]]; try reflexivity.
  destruct ((le_val [p0; p1] <? t_bp T) && (le_val [a0; a1] + zlen payload <=? t_ps T)); reflexivity.
Qed.

Lemma deliver_only_loads tr : only_loads tr -> forall T, t_flash (deliver T tr) = t_flash T.
Proof.
  induction 1 as [|[f d] tr Hf _ IH]; intros T; [reflexivity|].
  rewrite deliver_cons, IH. unfold deliver1. cbn [fst snd] in *.
  destruct d; [now apply tgt_recv_load_flash|reflexivity].
Qed.

Lemma bad_override addr ps bp fp sp override image q scr out q' scr' tr :
  1 <= zlen image -> 1 <= ps -> eff_start sp override < 0 ->
  internal_flash addr ps bp fp sp override image q scr = (out, q', scr', tr) ->
  ((out = Refused /\ tr = []) \/ out = Raised StructError) /\
  only_loads tr /\ forall T, t_flash (deliver T tr) = t_flash T.
Proof.
  intros Hl Hps Hs E.
  assert (Main : ((out = Refused /\ tr = []) \/ out = Raised StructError) /\ only_loads tr).
  { unfold internal_flash in E.
    replace (zlen image =? 0) with false in E by lia.
    destruct ((fp - eff_start sp override) * ps <? zlen image).
    { injection E as <- <- <- <-. split; [now left|constructor]. }
    rewrite py_int_div_nonneg in E by lia.
    pose proof (Z.div_pos (zlen image - 1) ps ltac:(lia) ltac:(lia)) as Hd.
    destruct (page_loop (Z.to_nat ((zlen image - 1) / ps + 1)) addr ps bp (eff_start sp override) image 0 0 q scr)
      as [[[[o c] q1] scr1] tr1] eqn:E1.
    destruct (page_loop_negative _ _ _ _ _ _ 0 _ _ _ _ _ _ _ Hs E1) as (H1 & H2).
    destruct H2 as [->|[-> Hc]].
    - injection E as <- <- <- <-. split; [now right|exact H1].
    - replace (0 <? c) with true in E by lia.
      rewrite write_flash_raise in E by (apply pack_write_negative; lia).
      injection E as <- <- <- <-. rewrite app_nil_r. split; [now right|exact H1]. }
  destruct Main as (M1 & M2). repeat split; auto. now apply deliver_only_loads.
Qed.
