(* C12/Proofs_callbacks.v — the abort decision and the frames do not depend on the UI callbacks *)
From CF Require Import Common.Bytes.
From CF Require Import C12.Model.
From CF Require Import C12.Session.
From CF Require Import C12.Plan.
From CF Require Import C12.Callbacks.
From Coq Require Import ZifyBool.
Open Scope Z_scope.

Definition term_has_true (t : option (list bool)) : Prop := exists l, t = Some l /\ In true l.

Lemma ask_term_cases t :
  (fst (ask_term t) = false /\ (term_has_true (snd (ask_term t)) -> term_has_true t)) \/
  (fst (ask_term t) = true /\ term_has_true t).
Proof.
  destruct t as [[|b l]|]; cbn.
  - left. split; [reflexivity|]. intros H. exact H.
  - destruct b.
    + right. split; auto. exists (true :: l). split; auto. now left.
    + left. split; [reflexivity|]. intros (l' & E & H). injection E as <-. exists (false :: l). split; auto. now right.
  - left. split; [reflexivity|]. intros H. exact H.
Qed.

(* the loop with callbacks against the loop without: same result, or terminated on a prefix of the frames *)
Lemma page_loop_cb_vs_plain k addr ps bp start image p : forall i ctr q scr term o' c' q' s' tr lg t' o c q0 s0 tr0,
  page_loop_cb false k (mkCb p term) addr ps bp start image i ctr q scr term = (o', c', q', s', tr, lg, t') ->
  page_loop k addr ps bp start image i ctr q scr = (o, c, q0, s0, tr0) ->
  (o' = OB o /\ c' = c /\ q' = q0 /\ s' = s0 /\ tr = tr0) \/
  (o' = OTerminated /\ (exists rest, tr0 = tr ++ rest) /\ term_has_true term).
Proof.
  (* the configuration's own cb_term field is not read by the loop: generalise it *)
  assert (G : forall k cfg i ctr q scr term o' c' q' s' tr lg t' o c q0 s0 tr0,
    page_loop_cb false k cfg addr ps bp start image i ctr q scr term = (o', c', q', s', tr, lg, t') ->
    page_loop k addr ps bp start image i ctr q scr = (o, c, q0, s0, tr0) ->
    (o' = OB o /\ c' = c /\ q' = q0 /\ s' = s0 /\ tr = tr0) \/
    (o' = OTerminated /\ (exists rest, tr0 = tr ++ rest) /\ term_has_true term)).
  { clear k. induction k as [|k IH]; intros cfg i ctr q scr term o' c' q' s' tr lg t' o c q0 s0 tr0 E1 E2;
      cbn [page_loop_cb page_loop] in E1, E2.
    - injection E1 as <- <- <- <- <- _ _. injection E2 as <- <- <- <- <-. left. auto.
    - destruct (ask_term term) as [stop term1] eqn:EA.
      destruct (ask_term_cases term) as [[Hf Hk]|[Ht Hh]]; rewrite EA in *; cbn [fst snd] in *; subst stop.
      2: { injection E1 as <- _ _ _ <- _ _. right. split; auto. split; auto. exists tr0. reflexivity. }
      destruct (upload_buffer addr ctr 0 (page_chunk image ps i)) as [fs e].
      destruct e as [x|].
      { injection E1 as <- <- <- <- <- _ _. injection E2 as <- <- <- <- <-. left. auto. }
      destruct (bp <=? ctr + 1).
      + destruct (write_flash addr 0 (start + i - (ctr + 1 - 1)) (ctr + 1) q scr) as [[[r q1] scr1] tr2].
        cbn [andb] in E1.
        destruct r.
        * destruct (page_loop_cb false k cfg addr ps bp start image (i + 1) 0 q1 scr1 term1)
            as [[[[[[o3 c3] q3] s3] tr3] l3] t3] eqn:E3.
          destruct (page_loop k addr ps bp start image (i + 1) 0 q1 scr1) as [[[[o4 c4] q4] s4] tr4] eqn:E4.
          injection E1 as <- <- <- <- <- _ _. injection E2 as <- <- <- <- <-.
          destruct (IH _ _ _ _ _ _ _ _ _ _ _ _ _ _ _ _ _ _ E3 E4) as [(-> & -> & -> & -> & ->)|(-> & (rest & ->) & Hh)].
          -- left. auto.
          -- right. split; auto. split; auto. exists rest. now rewrite <- !app_assoc.
        * injection E1 as <- <- <- <- <- _ _. injection E2 as <- <- <- <- <-. left. auto.
        * injection E1 as <- <- <- <- <- _ _. injection E2 as <- <- <- <- <-. left. auto.
      + destruct (page_loop_cb false k cfg addr ps bp start image (i + 1) (ctr + 1) q scr term1)
          as [[[[[[o3 c3] q3] s3] tr3] l3] t3] eqn:E3.
        destruct (page_loop k addr ps bp start image (i + 1) (ctr + 1) q scr) as [[[[o4 c4] q4] s4] tr4] eqn:E4.
        injection E1 as <- <- <- <- <- _ _. injection E2 as <- <- <- <- <-.
        destruct (IH _ _ _ _ _ _ _ _ _ _ _ _ _ _ _ _ _ _ E3 E4) as [(-> & -> & -> & -> & ->)|(-> & (rest & ->) & Hh)].
        * left. auto.
        * right. split; auto. split; auto. exists rest. now rewrite <- !app_assoc. }
  intros. eapply G; eauto.
Qed.

(* _internal_flash: for every callback configuration, either exactly the outcome, queue, script position and frames
   of the run without callbacks, or "Flashing terminated" (only if the terminate callback answered True) after a
   prefix of those frames. *)
Lemma internal_flash_cb_vs_plain p term addr ps bp fp sp override image q scr o' q' s' tr lg o q0 s0 tr0 :
  internal_flash_cb false (mkCb p term) addr ps bp fp sp override image q scr = (o', q', s', tr, lg) ->
  internal_flash addr ps bp fp sp override image q scr = (o, q0, s0, tr0) ->
  (o' = OB o /\ q' = q0 /\ s' = s0 /\ tr = tr0) \/
  (o' = OTerminated /\ (exists rest, tr0 = tr ++ rest) /\ term_has_true term).
Proof.
  intros E1 E2. unfold internal_flash_cb, internal_flash in E1, E2. cbn [cb_term cb_progress andb] in E1.
  destruct (zlen image =? 0).
  { injection E1 as <- <- <- <- _. injection E2 as <- <- <- <-. left. auto. }
  destruct (_ <? zlen image).
  { injection E1 as <- <- <- <- _. injection E2 as <- <- <- <-. left. auto. }
  destruct (page_loop_cb false _ (mkCb p term) addr ps bp _ image 0 0 q scr term)
    as [[[[[[o3 c3] q3] s3] tr3] l3] t3] eqn:E3.
  destruct (page_loop _ addr ps bp _ image 0 0 q scr) as [[[[o4 c4] q4] s4] tr4] eqn:E4.
  destruct (page_loop_cb_vs_plain _ _ _ _ _ _ _ _ _ _ _ _ _ _ _ _ _ _ _ _ _ _ _ _ E3 E4)
    as [(-> & -> & -> & -> & ->)|(-> & (rest & ->) & Hh)].
  - destruct o4.
    + destruct (0 <? c4).
      * destruct (write_flash addr 0 _ c4 q4 s4) as [[[r q5] s5] tr5].
        destruct r; injection E1 as <- <- <- <- _; injection E2 as <- <- <- <-; left; auto.
      * injection E1 as <- <- <- <- _. injection E2 as <- <- <- <-. left. auto.
    + injection E1 as <- <- <- <- _. injection E2 as <- <- <- <-. left. auto.
    + injection E1 as <- <- <- <- _. injection E2 as <- <- <- <-. left. auto.
    + injection E1 as <- <- <- <- _. injection E2 as <- <- <- <-. left. auto.
  - injection E1 as <- <- <- <- _. right. split; auto. split; auto.
    destruct o4.
    + destruct (0 <? c4).
      * destruct (write_flash addr 0 _ c4 q4 s4) as [[[r q5] s5] tr5].
        destruct r; injection E2 as _ _ _ <-; exists (rest ++ tr5); now rewrite app_assoc.
      * injection E2 as _ _ _ <-. exists rest. reflexivity.
    + injection E2 as _ _ _ <-. exists rest. reflexivity.
    + injection E2 as _ _ _ <-. exists rest. reflexivity.
    + injection E2 as _ _ _ <-. exists rest. reflexivity.
Qed.

(* without a terminate callback (or with one that never answers True): identical, whatever progress_cb *)
Lemma internal_flash_cb_same p term addr ps bp fp sp override image q scr :
  ~ term_has_true term ->
  exists lg,
    internal_flash_cb false (mkCb p term) addr ps bp fp sp override image q scr =
    (let '(o, q', s', tr) := internal_flash addr ps bp fp sp override image q scr in (OB o, q', s', tr, lg)).
Proof.
  intros Hn.
  destruct (internal_flash_cb false (mkCb p term) addr ps bp fp sp override image q scr) as [[[[o' q'] s'] tr] lg] eqn:E1.
  destruct (internal_flash addr ps bp fp sp override image q scr) as [[[o q0] s0] tr0] eqn:E2.
  destruct (internal_flash_cb_vs_plain _ _ _ _ _ _ _ _ _ _ _ _ _ _ _ _ _ _ _ _ E1 E2) as [(-> & -> & -> & ->)|(_ & _ & H)].
  - exists lg. reflexivity.
  - contradiction.
Qed.

(* whole flash() plans: same outcome, same script position, same frames, same calls with and without progress_cb *)
Lemma run_plan_cb_same pr p : forall scr, run_plan_cb pr p scr = run_plan p scr.
Proof.
  induction p as [|it p IH]; intros scr; cbn [run_plan_cb run_plan]; [reflexivity|].
  destruct it as [c|e|]; [|reflexivity|now rewrite IH].
  unfold run_call_cb, run_call.
  destruct (internal_flash_cb_same pr None (l_tid c) (l_ps c) (l_bp c) (l_fp c) (l_sp c) (l_override c) (l_image c) [] scr)
    as (lg & E).
  { intros (l & [=] & _). }
  rewrite E.
  destruct (internal_flash (l_tid c) (l_ps c) (l_bp c) (l_fp c) (l_sp c) (l_override c) (l_image c) [] scr)
    as [[[o q1] s1] t1].
  destruct o; try reflexivity. now rewrite IH.
Qed.

(* REFUTATION of "raise only in the console branch" (seeded change C12-i): with progress_cb installed a failed
   flash-write does not abort; the run reports success and leaves a hole. *)
Definition cbT : target := mkT 255 4 1 8 [0;0;0;0] (repeat 7 32) false.
Definition cbImage : list Z := [1;2;3;4;5;6;7;8;9;10;11;12].
Definition cbScript : list att := [default_att 255; mkA false [(255, [255; 24; 0; 9])] []].   (* second write: negative reply *)

Lemma raise_only_without_progress_refuted :
  let '(o_ok, _, _, tr_ok) := internal_flash 255 4 1 8 1 None cbImage [] cbScript in
  let '(o_bug, _, _, tr_bug, _) := internal_flash_cb true (mkCb true None) 255 4 1 8 1 None cbImage [] cbScript in
  let '(o_con, _, _, tr_con, _) := internal_flash_cb true (mkCb false None) 255 4 1 8 1 None cbImage [] cbScript in
  o_ok = WriteFailed /\ o_con = OB WriteFailed /\ tr_con = tr_ok /\
  o_bug = OB Done /\ length tr_bug = (length tr_ok + 2)%nat /\
  zslice (t_flash (deliver cbT tr_bug)) 4 12 <> cbImage.
Proof. vm_compute. repeat split; try reflexivity. discriminate. Qed.
