(* C12/Proofs_stream.v — write_flash is bounded against every stream of receive results *)
From CF Require Import Common.Bytes.
From CF Require Import C12.Model.
From CF Require Import C12.Stream.
From Coq Require Import ZifyBool.
Open Scope Z_scope.

(* for EVERY stream: at most n commands, exactly one receive per command *)
Lemma wfs_loop_bound n addr rx : forall pk k r m k' s,
  wfs_loop n addr pk k rx = (r, m, k', s) -> (s + m <= n)%nat /\ k' = (k + s)%nat.
Proof.
  induction n as [|n IH]; intros pk k r m k' s E; cbn [wfs_loop] in E.
  - injection E as _ <- <- <-. lia.
  - destruct (good_reply addr pk).
    + injection E as _ <- <- <-. lia.
    + destruct (wfs_loop n addr (rx k) (S k) rx) as [[[r0 m0] k0] s0] eqn:E0.
      injection E as _ <- <- <-. destruct (IH _ _ _ _ _ _ E0). lia.
Qed.

Lemma wfs_loop_first n addr rx pk k r m k' s :
  good_reply addr pk = false -> wfs_loop (S n) addr pk k rx = (r, m, k', s) -> (1 <= s)%nat.
Proof.
  intros Hp E. cbn [wfs_loop] in E. rewrite Hp in E.
  destruct (wfs_loop n addr _ _ rx) as [[[r0 m0] k1] s1]. injection E as _ _ _ <-. lia.
Qed.

Lemma write_flash_stream_bounded addr rx r k s :
  write_flash_stream addr rx = (r, k, s) -> (1 <= s <= 6)%nat /\ k = s.
Proof.
  unfold write_flash_stream. destruct (wfs_loop 6 addr None O rx) as [[[pk m] k0] s0] eqn:E.
  intros [= _ <- <-]. destruct (wfs_loop_bound _ _ _ _ _ _ _ _ _ E) as (H1 & H2).
  split; [|lia]. split; [|lia].
  exact (wfs_loop_first 5 addr rx None O pk m k0 s0 eq_refl E).
Qed.

(* a stream that never contains the answer (silence, strays, anything): six commands, six receives, failure *)
Lemma wfs_loop_unanswered n addr rx : (forall j, good_reply addr (rx j) = false) ->
  forall pk k, good_reply addr pk = false ->
  exists r, wfs_loop n addr pk k rx = (r, O, (k + n)%nat, n) /\ good_reply addr r = false.
Proof.
  intros Hrx. induction n as [|n IH]; intros pk k Hpk; cbn [wfs_loop].
  - exists pk. split; [f_equal; f_equal; lia|exact Hpk].
  - rewrite Hpk. destruct (IH (rx k) (S k) (Hrx k)) as (r & E & Hr). rewrite E.
    exists r. split; [f_equal; f_equal; lia|exact Hr].
Qed.

Lemma write_flash_stream_unanswered addr rx : (forall j, good_reply addr (rx j) = false) ->
  write_flash_stream addr rx = (WFalse, 6%nat, 6%nat).
Proof.
  intros H. unfold write_flash_stream.
  destruct (wfs_loop_unanswered 6 addr rx H None O eq_refl) as (r & E & _). rewrite E. reflexivity.
Qed.

(* REFUTATION of "do not count packets that are not the answer" (seeded change C12-m): against a link that returns a
   stray packet on every listen the variant never returns — whatever number of further receives it is granted *)
Lemma listen_stray_forever addr p : good_reply addr (Some p) = false ->
  forall fuel k, listen fuel addr (Some p) k (fun _ => Some p) = None.
Proof.
  intros Hp. induction fuel as [|f IH]; intros k; cbn [listen]; rewrite Hp; [reflexivity|apply IH].
Qed.

Lemma variant_never_returns addr p : good_reply addr (Some p) = false ->
  forall fuel, wfv_loop fuel 6 addr None O (fun _ => Some p) = None.
Proof.
  intros Hp fuel. change 6%nat with (S 5). cbn [wfv_loop]. change (good_reply addr None) with false. cbv iota.
  now rewrite listen_stray_forever.
Qed.

(* the stray of the example: the OTHER target's positive answer *)
Lemma other_target_ack_is_stray : good_reply 255 (Some (255, [254; 24; 1; 0])) = false.
Proof. reflexivity. Qed.
