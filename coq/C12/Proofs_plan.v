(* C12/Proofs_plan.v — which buffer-load frames a run sends: page i of the image goes, once, to buffer
   page (i mod buffer_pages), pages in order; and the page chunks partition the image. *)
From CF Require Import Common.Bytes.
From CF Require Import C12.Model.
From CF Require Import C12.Lists.
From CF Require Import C12.Proofs_upload.
From CF Require Import C12.Proofs_write.
From CF Require Import C12.Proofs_flash.
From Coq Require Import ZifyBool.
Open Scope Z_scope.

Definition is_load (f : frame) : bool :=
  match f with _ :: _ :: c :: _ => c =? 20 | _ => false end.
Definition loads (tr : list (frame * bool)) : list frame := filter is_load (map fst tr).

Fixpoint zrange (a : Z) (n : nat) : list Z :=
  match n with O => [] | S k => a :: zrange (a + 1) k end.

(* the frames upload_buffer sends for image page i *)
Definition page_frames (addr ps bp : Z) (image : list Z) (i : Z) : list frame :=
  fst (upload_buffer addr (i mod bp) 0 (page_chunk image ps i)).
Definition all_loads (addr ps bp : Z) (image : list Z) (i : Z) (k : nat) : list frame :=
  concat (map (page_frames addr ps bp image) (zrange i k)).

Lemma loads_app a b : loads (a ++ b) = loads a ++ loads b.
Proof. unfold loads. now rewrite map_app, filter_app. Qed.

Lemma ub_loop_all_loads tid page address buff : forall i count r,
  Forall (fun f => is_load f = true) (fst (ub_loop tid page address buff i count (tid :: 20 :: r))).
Proof.
  induction buff as [|b rest IH]; intros i count r; cbn [ub_loop].
  - cbn. repeat constructor.
  - destruct (24 <? count + 1).
    + unfold pack_load. destruct (u8 tid && u16 page && u16 (i + address + 1)).
      * cbn [app]. specialize (IH (i + 1) 0 (le_bytes 2 page ++ le_bytes 2 (i + address + 1))).
        destruct (ub_loop tid page address rest (i + 1) 0 _) as [fs e]. cbn [fst] in *.
        constructor; auto.
      * cbn. repeat constructor.
    + apply (IH (i + 1) (count + 1) (r ++ [b])).
Qed.

Lemma upload_all_loads tid page address buff :
  Forall (fun f => is_load f = true) (fst (upload_buffer tid page address buff)).
Proof.
  unfold upload_buffer, pack_load. destruct (u8 tid && u16 page && u16 address); [|constructor].
  cbn [app]. apply ub_loop_all_loads.
Qed.

Lemma loads_sent_ok fs : Forall (fun f => is_load f = true) fs -> loads (sent_ok fs) = fs.
Proof.
  unfold loads, sent_ok. rewrite map_map. cbn [fst]. rewrite map_id.
  induction 1 as [|f fs Hf _ IH]; cbn [filter]; [reflexivity|]. now rewrite Hf, IH.
Qed.

Lemma sent_ok_delivered fs : Forall (fun x : frame * bool => snd x = true) (sent_ok fs).
Proof. unfold sent_ok. apply Forall_map. apply Forall_forall. reflexivity. Qed.

Lemma write_flash_no_loads addr pbuf tpage n q scr r q' scr' tr :
  write_flash addr pbuf tpage n q scr = (r, q', scr', tr) -> loads tr = [].
Proof.
  intros E. unfold write_flash in E. rewrite flush_spec in E.
  unfold pack_write in E.
  destruct (u8 addr && u16 pbuf && u16 tpage && u16 n).
  - cbn [app] in E.
    destruct (wf_loop 6 addr _ None [] scr) as [[[[pk m] q0] scr0] tr0] eqn:E0.
    destruct (wf_loop_shape _ _ _ _ _ _ _ _ _ _ _ E0) as (S1 & _).
    assert (tr = tr0).
    { destruct m; [now injection E|]. destruct pk as [[h d]|]; [|now injection E].
      destruct (zlen d <? 4); now injection E. }
    subst tr0. clear E E0. unfold loads.
    induction S1 as [|[f d] tr Hf _ IH]; [reflexivity|].
    cbn [map fst filter] in *. subst f. cbn [is_load]. exact IH.
  - now injection E as <- <- <- <-.
Qed.

Lemma mod_step i ctr bp qd : 0 <= ctr < bp -> i = qd * bp + ctr -> i mod bp = ctr.
Proof. intros H E. symmetry. apply (Z.mod_unique_pos i bp qd ctr); lia. Qed.

Definition loads_delivered (tr : list (frame * bool)) : Prop :=
  Forall (fun x : frame * bool => is_load (fst x) = true -> snd x = true) tr.

Lemma loads_delivered_app a b : loads_delivered a -> loads_delivered b -> loads_delivered (a ++ b).
Proof. intros. apply Forall_app; auto. Qed.

Lemma loads_delivered_sent fs : loads_delivered (sent_ok fs).
Proof. eapply Forall_impl; [|apply sent_ok_delivered]. auto. Qed.

Lemma loads_delivered_noloads tr : loads tr = [] -> loads_delivered tr.
Proof.
  unfold loads, loads_delivered. induction tr as [|[f d] tr IH]; intros H; constructor.
  - cbn [fst snd map filter] in *. destruct (is_load f); [discriminate|]. discriminate.
  - apply IH. cbn [fst map filter] in H. destruct (is_load f); [discriminate|exact H].
Qed.

Lemma page_loop_loads addr ps bp start image k : forall i ctr q scr o c q' scr' tr,
  0 <= ctr < bp -> (exists qd, i = qd * bp + ctr) ->
  page_loop k addr ps bp start image i ctr q scr = (o, c, q', scr', tr) ->
  loads_delivered tr /\
  exists rest, all_loads addr ps bp image i k = loads tr ++ rest /\ (o = Done -> rest = []).
Proof.
  induction k as [|k IH]; intros i ctr q scr o c q' scr' tr Hc (qd & Hq) E; cbn [page_loop] in E.
  - injection E as <- <- <- <- <-. split; [constructor|]. exists []. split; auto.
  - unfold all_loads. cbn [zrange map concat]. fold (all_loads addr ps bp image (i + 1) k).
    unfold page_frames at 1. rewrite (mod_step i ctr bp qd Hc Hq).
    pose proof (upload_all_loads addr ctr 0 (page_chunk image ps i)) as HL.
    destruct (upload_buffer addr ctr 0 (page_chunk image ps i)) as [fs e]. cbn [fst] in *.
    destruct e as [x|].
    + injection E as <- <- <- <- <-. split; [apply loads_delivered_sent|].
      exists (all_loads addr ps bp image (i + 1) k). rewrite loads_sent_ok by auto. split; auto. discriminate.
    + destruct (bp <=? ctr + 1) eqn:Cf.
      * destruct (write_flash addr 0 (start + i - (ctr + 1 - 1)) (ctr + 1) q scr) as [[[r q1] scr1] tr2] eqn:EW.
        pose proof (write_flash_no_loads _ _ _ _ _ _ _ _ _ _ EW) as HW.
        destruct r.
        -- destruct (page_loop k addr ps bp start image (i + 1) 0 q1 scr1) as [[[[o3 c3] q3] scr3] tr3] eqn:E3.
           injection E as <- <- <- <- <-.
           destruct (IH (i + 1) 0 q1 scr1 o3 c3 q3 scr3 tr3 ltac:(lia)) with (2 := E3) as (D3 & rest & H1 & H2).
           { exists (qd + 1). lia. }
           split. { repeat apply loads_delivered_app; auto using loads_delivered_sent, loads_delivered_noloads. }
           exists rest. rewrite !loads_app, HW, loads_sent_ok by auto. cbn [app].
           rewrite H1, app_assoc. split; auto.
        -- injection E as <- <- <- <- <-.
           split. { repeat apply loads_delivered_app; auto using loads_delivered_sent, loads_delivered_noloads. }
           exists (all_loads addr ps bp image (i + 1) k).
           rewrite !loads_app, HW, loads_sent_ok, app_nil_r by auto. split; auto. discriminate.
        -- injection E as <- <- <- <- <-.
           split. { repeat apply loads_delivered_app; auto using loads_delivered_sent, loads_delivered_noloads. }
           exists (all_loads addr ps bp image (i + 1) k).
           rewrite !loads_app, HW, loads_sent_ok, app_nil_r by auto. split; auto. discriminate.
      * destruct (page_loop k addr ps bp start image (i + 1) (ctr + 1) q scr) as [[[[o3 c3] q3] scr3] tr3] eqn:E3.
        injection E as <- <- <- <- <-.
        destruct (IH (i + 1) (ctr + 1) q scr o3 c3 q3 scr3 tr3 ltac:(lia)) with (2 := E3) as (D3 & rest & H1 & H2).
        { exists qd. lia. }
        split. { repeat apply loads_delivered_app; auto using loads_delivered_sent. }
        exists rest. rewrite !loads_app, loads_sent_ok by auto.
        rewrite H1, app_assoc. split; auto.
Qed.

Lemma page_loop_not_refused addr ps bp start image n : forall i ctr q0 s0 c0 q2 s2 t2,
  page_loop n addr ps bp start image i ctr q0 s0 <> (Refused, c0, q2, s2, t2).
Proof.
  induction n as [|n IH]; intros i ctr q0 s0 c0 q2 s2 t2; cbn [page_loop]; [discriminate|].
  destruct (upload_buffer addr ctr 0 (page_chunk image ps i)) as [fs [x|]]; [discriminate|].
  destruct (bp <=? ctr + 1).
  - destruct (write_flash addr 0 _ (ctr + 1) q0 s0) as [[[r qa] sa] ta]. destruct r; try discriminate.
    destruct (page_loop n addr ps bp start image (i + 1) 0 qa sa) as [[[[o3 c3] q3] s3] t3] eqn:E3.
    intros E. injection E as -> _ _ _ _. eapply IH; eauto.
  - destruct (page_loop n addr ps bp start image (i + 1) (ctr + 1) q0 s0) as [[[[o3 c3] q3] s3] t3] eqn:E3.
    intros E. injection E as -> _ _ _ _. eapply IH; eauto.
Qed.

(* the run: its buffer-load frames are a prefix of (all of, on success) the per-page uploads, in page
   order, each page to buffer (i mod bp); every one of them reaches the target *)
Lemma run_loads addr ps bp fp sp override image q scr out q' scr' tr :
  1 <= zlen image -> 1 <= ps -> 1 <= bp ->
  internal_flash addr ps bp fp sp override image q scr = (out, q', scr', tr) ->
  loads_delivered tr /\
  exists rest,
    all_loads addr ps bp image 0 (Z.to_nat (npages (zlen image) ps)) = loads tr ++ rest /\
    (out = Done -> rest = []) /\ (out = Refused -> tr = []).
Proof.
  intros Hl Hps Hbp E. unfold internal_flash in E.
  replace (zlen image =? 0) with false in E by lia.
  destruct ((fp - eff_start sp override) * ps <? zlen image).
  { injection E as <- <- <- <-. split; [constructor|]. eexists. cbn [loads map filter app].
    split; [reflexivity|]. split; [discriminate|reflexivity]. }
  rewrite py_int_div_nonneg in E by lia.
  change ((zlen image - 1) / ps + 1) with (npages (zlen image) ps) in E.
  destruct (page_loop (Z.to_nat (npages (zlen image) ps)) addr ps bp (eff_start sp override) image 0 0 q scr)
    as [[[[o c] q1] scr1] tr1] eqn:E1.
  destruct (page_loop_loads addr ps bp (eff_start sp override) image _ 0 0 _ _ _ _ _ _ _ ltac:(lia) (ex_intro _ 0 eq_refl) E1) as (D1 & rest & H1 & H2).
  destruct o.
  - destruct (0 <? c).
    + destruct (write_flash addr 0 _ c q1 scr1) as [[[r q2] scr2] tr2] eqn:EW.
      pose proof (write_flash_no_loads _ _ _ _ _ _ _ _ _ _ EW) as HW.
      assert (Ht : tr = tr1 ++ tr2) by (destruct r; now injection E).
      assert (Ho : out = Done \/ out = WriteFailed \/ exists x, out = Raised x)
        by (destruct r; injection E as <- _ _ _; eauto).
      subst tr. split; [apply loads_delivered_app; auto using loads_delivered_noloads|].
      exists rest. rewrite loads_app, HW, app_nil_r. split; auto. split; auto.
      intros ->. destruct Ho as [?|[?|[? ?]]]; discriminate.
    + injection E as <- <- <- <-. split; auto. exists rest. repeat split; auto. discriminate.
  - exfalso. eapply page_loop_not_refused; eauto.
  - injection E as <- <- <- <-. split; auto. exists rest. split; auto. split; discriminate.
  - injection E as <- <- <- <-. split; auto. exists rest. split; auto. split; discriminate.
Qed.

(* the page chunks are consecutive slices that partition the image *)
Lemma zskip_all (l : list Z) off : zlen l <= off -> zskip l off = [].
Proof. intros H. unfold zskip. apply skipn_all2. unfold zlen in H. lia. Qed.

Lemma skipn_add {A} (l : list A) a b : skipn a (skipn b l) = skipn (a + b) l.
Proof.
  revert l. induction b as [|b IH]; intros l.
  - now rewrite Nat.add_0_r.
  - rewrite Nat.add_succ_r. destruct l as [|x l]; cbn [skipn]; [now destruct a|apply IH].
Qed.

Lemma chunks_from image ps k : forall i, 1 <= ps -> 0 <= i -> 1 <= zlen image ->
  i + Z.of_nat k = npages (zlen image) ps ->
  concat (map (page_chunk image ps) (zrange i k)) = zskip image (i * ps).
Proof.
  induction k as [|k IH]; intros i Hps Hi Hl Hk.
  - cbn. symmetry. apply zskip_all.
    destruct (npages_bounds (zlen image) ps Hl Hps) as (_ & _ & H3). nia.
  - cbn [zrange map concat]. rewrite IH by lia.
    destruct (npages_bounds (zlen image) ps Hl Hps) as (_ & H2 & H3).
    unfold page_chunk. destruct (zlen image <? (i + 1) * ps) eqn:C.
    + rewrite (zskip_all image ((i + 1) * ps)) by lia. apply app_nil_r.
    + unfold zslice, zskip.
      replace (Z.to_nat ((i + 1) * ps)) with (Z.to_nat ps + Z.to_nat (i * ps))%nat by nia.
      rewrite <- skipn_add. apply firstn_skipn.
Qed.

Lemma chunks_partition image ps : 1 <= ps -> 1 <= zlen image ->
  concat (map (page_chunk image ps) (zrange 0 (Z.to_nat (npages (zlen image) ps)))) = image.
Proof.
  intros Hps Hl. destruct (npages_bounds (zlen image) ps Hl Hps) as (H1 & _).
  rewrite chunks_from by lia. reflexivity.
Qed.
