(* C12/Callbacks.v — Bootloader._internal_flash with the UI callbacks as part of the input:
     progress_cb            (installed or not: every report goes to the callback or to stdout)
     terminate_flashing_cb  (not installed, or returning a given sequence of booleans, one per page)
   (error_cb is never read by cflib/bootloader.)  The callbacks are consulted exactly where the code consults
   them; the log records the progress_cb messages.  `bug = true` is the variant in which the failed flash-write
   raises only in the console branch of the error report (seeded change C12-i); the code is `bug = false`. *)
From CF Require Export Common.Bytes.
From CF Require Export C12.Model.
From CF Require Export C12.Session.
From CF Require Export C12.Plan.
Open Scope Z_scope.

Record cbcfg := mkCb { cb_progress : bool; cb_term : option (list bool) }.
Inductive msg := MStart | MNoSpace | MUpload | MWrite | MError.
Inductive outcome_cb := OB (o : outcome) | OTerminated.

Definition say (cfg : cbcfg) (m : msg) : list msg := if cb_progress cfg then [m] else [].

(* `if self.terminate_flashing_cb and self.terminate_flashing_cb()` : (raise?, remaining answers) *)
Definition ask_term (t : option (list bool)) : bool * option (list bool) :=
  match t with
  | None => (false, None)
  | Some l => (match l with b :: _ => b | [] => false end, Some (tl l))
  end.

Fixpoint page_loop_cb (bug : bool) (k : nat) (cfg : cbcfg) (addr ps bp start : Z) (image : list Z) (i ctr : Z)
         (q : list pkt) (scr : list att) (term : option (list bool))
  : outcome_cb * Z * list pkt * list att * list (frame * bool) * list msg * option (list bool) :=
  match k with
  | O => (OB Done, ctr, q, scr, [], [], term)
  | S k' =>
    let '(stop, term1) := ask_term term in
    if stop then (OTerminated, ctr, q, scr, [], [], term1) else
    let '(fs, e) := upload_buffer addr ctr 0 (page_chunk image ps i) in
    let tr1 := sent_ok fs in
    match e with
    | Some x => (OB (Raised x), ctr, q, scr, tr1, [], term1)
    | None =>
      let ctr1 := ctr + 1 in
      let l1 := say cfg MUpload in
      if bp <=? ctr1 then
        let '(r, q', scr', tr2) := write_flash addr 0 (start + i - (ctr1 - 1)) ctr1 q scr in
        let continue_ (lg : list msg) :=
            let '(o, c, q'', scr'', tr3, l3, t3) :=
                page_loop_cb bug k' cfg addr ps bp start image (i + 1) 0 q' scr' term1 in
            (o, c, q'', scr'', tr1 ++ tr2 ++ tr3, l1 ++ say cfg MWrite ++ lg ++ l3, t3) in
        match r with
        | WTrue => continue_ []
        | WFalse =>
          if bug && cb_progress cfg then continue_ [MError]
          else (OB WriteFailed, ctr1, q', scr', tr1 ++ tr2, l1 ++ say cfg MWrite ++ say cfg MError, term1)
        | WRaise x => (OB (Raised x), ctr1, q', scr', tr1 ++ tr2, l1 ++ say cfg MWrite, term1)
        end
      else
        let '(o, c, q'', scr'', tr3, l3, t3) :=
            page_loop_cb bug k' cfg addr ps bp start image (i + 1) ctr1 q scr term1 in
        (o, c, q'', scr'', tr1 ++ tr3, l1 ++ l3, t3)
    end
  end.

Definition internal_flash_cb (bug : bool) (cfg : cbcfg) (addr ps bp fp sp : Z) (override : option Z) (image : list Z)
           (q : list pkt) (scr : list att)
  : outcome_cb * list pkt * list att * list (frame * bool) * list msg :=
  let start := eff_start sp override in
  let len := zlen image in
  if len =? 0 then (OB (Raised ZeroDivisionError), q, scr, [], [])
  else if (fp - start) * ps <? len then (OB Refused, q, scr, [], say cfg MStart ++ say cfg MNoSpace)
  else
    let last := py_int_div (len - 1) ps in
    let '(o, ctr, q1, scr1, tr1, l1, _) :=
        page_loop_cb bug (Z.to_nat (last + 1)) cfg addr ps bp start image 0 0 q scr (cb_term cfg) in
    match o with
    | OB Done =>
      if 0 <? ctr then
        let '(r, q2, scr2, tr2) := write_flash addr 0 (start + last - (ctr - 1)) ctr q1 scr1 in
        match r with
        | WTrue => (OB Done, q2, scr2, tr1 ++ tr2, say cfg MStart ++ l1 ++ say cfg MWrite)
        | WFalse =>
          if bug && cb_progress cfg
          then (OB Done, q2, scr2, tr1 ++ tr2, say cfg MStart ++ l1 ++ say cfg MWrite ++ [MError])
          else (OB WriteFailed, q2, scr2, tr1 ++ tr2, say cfg MStart ++ l1 ++ say cfg MWrite ++ say cfg MError)
        | WRaise x => (OB (Raised x), q2, scr2, tr1 ++ tr2, say cfg MStart ++ l1 ++ say cfg MWrite)
        end
      else (OB Done, q1, scr1, tr1, say cfg MStart ++ l1)
    | _ => (o, q1, scr1, tr1, say cfg MStart ++ l1)
    end.

(* a whole flash() plan with progress_cb installed or not (terminate_flashing_cb not installed) *)
Definition run_call_cb (p : bool) (c : call) (scr : list att) :=
  internal_flash_cb false (mkCb p None) (l_tid c) (l_ps c) (l_bp c) (l_fp c) (l_sp c) (l_override c) (l_image c) [] scr.

Fixpoint run_plan_cb (pr : bool) (p : list pitem) (scr : list att)
  : souts * list att * list (frame * bool) * list call * bool :=
  match p with
  | [] => (SDone, scr, [], [], false)
  | PRaise e :: _ => (SExc e, scr, [], [], false)
  | PReboot :: p' =>
    let '(o, s, tr, cs, _) := run_plan_cb pr p' scr in (o, s, tr, cs, true)
  | PCall c :: p' =>
    let '(o, _, s1, t1, _) := run_call_cb pr c scr in
    match o with
    | OB Done => let '(o2, s2, t2, cs, rb) := run_plan_cb pr p' s1 in (o2, s2, t1 ++ t2, c :: cs, rb)
    | OB x => (SFlash x, s1, t1, [c], false)
    | OTerminated => (SFlash Done, s1, t1, [c], false)       (* unreachable: no terminate callback here *)
    end
  end.

Definition ocb_code (o : outcome_cb) : Z := match o with OB x => outcome_code x | OTerminated => 6 end.
Definition msg_code (m : msg) : Z :=
  match m with MStart => 1 | MNoSpace => 2 | MUpload => 3 | MWrite => 4 | MError => 5 end.
