(* C12/Proofs.v — the statements of Property.v, assembled from the loop invariants *)
From CF Require Import Common.Bytes.
From CF Require Import C12.Model.
From CF Require Import C12.Lists.
From CF Require Import C12.Proofs_upload.
From CF Require Import C12.Proofs_write.
From CF Require Import C12.Proofs_flash.
From Coq Require Import ZifyBool.
Open Scope Z_scope.

(* what every theorem about a run on the addressed target assumes *)
Definition run_pre (T : target) (start : Z) (image : list Z) : Prop :=
  geom_ok T /\ t_oob T = false /\ u8 (t_id T) = true /\ 1 <= zlen image /\ 0 <= start.

Definition fits (T : target) (start : Z) (image : list Z) : Prop :=
  zlen image <= (t_fp T - start) * t_ps T.

Lemma refused addr ps bp fp sp override image q scr :
  1 <= zlen image -> (fp - eff_start sp override) * ps < zlen image ->
  internal_flash addr ps bp fp sp override image q scr = (Refused, q, scr, []).
Proof.
  intros Hl Hb. unfold internal_flash.
  replace (zlen image =? 0) with false by lia.
  replace ((fp - eff_start sp override) * ps <? zlen image) with true by lia. reflexivity.
Qed.

(* everything the loop invariant gives for a run that is not refused *)
Lemma run_inv addr ps bp fp sp override image F0 q scr out q' scr' tr T :
  let start := eff_start sp override in
  u8 addr = true -> 1 <= ps <= 65535 -> 1 <= bp <= 65535 -> 0 <= fp <= 65535 ->
  1 <= zlen image -> 0 <= start -> zlen image <= (fp - start) * ps ->
  Safe addr ps bp fp start image F0 T ->
  internal_flash addr ps bp fp sp override image q scr = (out, q', scr', tr) ->
  Safe addr ps bp fp start image F0 (deliver T tr) /\
  Forall (frame_ok addr) tr /\
  (out = Done \/ out = WriteFailed \/ out = Raised IndexError) /\
  (out <> Done -> ends_with_write addr tr) /\
  (Forall (att_honest addr) scr -> out = Done ->
   Exact ps start image (npages (zlen image) ps) 0 (deliver T tr)).
Proof.
  intros start Ha Hps Hbp Hfp Hl Hs Hfit HS E.
  unfold internal_flash in E. fold start in E.
  replace (zlen image =? 0) with false in E by lia.
  replace ((fp - start) * ps <? zlen image) with false in E by lia.
  rewrite py_int_div_nonneg in E by lia.
  destruct (np_facts addr ps fp start image Ha Hps Hfp Hl Hs Hfit) as (N1 & N2 & N3 & N4).
  change ((zlen image - 1) / ps + 1) with (npages (zlen image) ps) in E.
  set (np := npages (zlen image) ps) in *.
  destruct (page_loop (Z.to_nat np) addr ps bp start image 0 0 q scr) as [[[[o c] q1] scr1] tr1] eqn:E1.
  destruct (page_loop_inv addr ps bp fp start image F0 Ha Hps Hbp Hfp Hl Hs Hfit
                          (Z.to_nat np) 0 0 q scr T o c q1 scr1 tr1 ltac:(lia) ltac:(lia) ltac:(fold np; lia) HS E1)
    as (I1 & I2 & I3 & I4 & I5 & I6).
  fold np in I4, I6.
  assert (HE0 : Exact ps start image 0 0 T) by (split; intros; lia).
  destruct o.
  - (* loop completed *)
    destruct (I4 eq_refl) as (Hc & Hcn).
    destruct (0 <? c) eqn:Cc.
    + replace (start + (zlen image - 1) / ps - (c - 1)) with (start + np - c) in E by (unfold np, npages; lia).
      destruct (write_flash addr 0 (start + np - c) c q1 scr1) as [[[r q2] scr2] tr2] eqn:EW.
      destruct (write_flash_spec addr 0 (start + np - c) c q1 scr1 r q2 scr2 tr2
                                 Ha ltac:(lia) ltac:(lia) ltac:(lia) EW) as (W1 & W2 & W3).
      destruct (write_step addr ps bp fp start image F0 Ha Hps Hbp Hfp Hl Hs Hfit
                           (deliver T tr1) np c tr2 I1 ltac:(lia) ltac:(fold np; lia) W1) as (HS2 & HE2).
      fold np in HE2.
      pose proof (write_frames_ok addr _ _ _ _ W1) as Hok2.
      assert (Hne2 : tr2 <> []) by (destruct tr2; [cbn in W2; lia|discriminate]).
      pose proof (same_cmd_ends_with_write addr _ _ _ _ W1 Hne2) as Hew2.
      assert (Hr : match r with WRaise e => e = IndexError | _ => True end).
      { destruct r; auto.
        unfold write_flash in EW. rewrite flush_spec in EW.
        rewrite pack_write_some in EW by (auto; lia).
        destruct (wf_loop 6 addr _ None [] scr1) as [[[[pk m] q0] scr0] tr0].
        destruct m; [discriminate|]. destruct pk as [[h d]|]; [|congruence].
        destruct (zlen d <? 4); [congruence|]. destruct (zn d 2 =? 1); discriminate. }
      destruct r; injection E as <- <- <- <-; rewrite deliver_app;
        (split; [exact HS2|]); (split; [apply Forall_app; split; auto|]).
      * split; [auto|]. split; [congruence|]. intros Hh _.
        destruct (I6 Hh HE0 eq_refl) as (HEx & Hh1).
        destruct (W3 Hh1) as (_ & Hdel). apply HE2; auto.
      * split; [auto|]. split; [intros _; apply ends_with_write_app; auto|]. discriminate.
      * subst e. split; [auto|]. split; [intros _; apply ends_with_write_app; auto|]. discriminate.
    + injection E as <- <- <- <-.
      split; [exact I1|]. split; [exact I2|]. split; [auto|]. split; [congruence|].
      intros Hh _. destruct (I6 Hh HE0 eq_refl) as (HEx & _).
      replace c with 0 in HEx by lia. exact HEx.
  - injection E as <- <- <- <-. destruct I3 as [?|[?|?]]; discriminate.
  - injection E as <- <- <- <-.
    split; [exact I1|]. split; [exact I2|]. split; [auto|]. split; [intros _; apply I5; discriminate|]. discriminate.
  - injection E as <- <- <- <-.
    split; [exact I1|]. split; [exact I2|]. split; [exact I3|]. split; [intros _; apply I5; discriminate|]. discriminate.
Qed.

Lemma Safe_init T start image :
  geom_ok T -> t_oob T = false ->
  Safe (t_id T) (t_ps T) (t_bp T) (t_fp T) start image (t_flash T) T.
Proof.
  intros (H1 & H2 & H3 & H4 & H5) Ho. unfold Safe, same_geom. repeat split; auto.
Qed.

(* ---- C12_image_exact ---- *)
Lemma image_exact T sp override image q scr q' scr' tr :
  let start := eff_start sp override in
  run_pre T start image -> fits T start image ->
  Forall (att_honest (t_id T)) scr ->
  internal_flash (t_id T) (t_ps T) (t_bp T) (t_fp T) sp override image q scr = (Done, q', scr', tr) ->
  zslice (t_flash (deliver T tr)) (start * t_ps T) (zlen image) = image.
Proof.
  intros start (HG & Ho & Ha & Hl & Hs) Hfit Hh E.
  pose proof HG as (Hps & Hbp & Hfp & Lb & Lf).
  destruct (run_inv _ _ _ _ _ _ _ (t_flash T) _ _ _ _ _ _ T Ha Hps Hbp Hfp Hl Hs Hfit (Safe_init T start image HG Ho) E)
    as (I1 & _ & _ & _ & I5).
  fold start in I1, I5.
  destruct (I5 Hh eq_refl) as (EF & _).
  destruct I1 as (_ & _ & Lf' & _).
  destruct (np_facts (t_id T) (t_ps T) (t_fp T) start image Ha Hps Hfp Hl Hs Hfit) as (N1 & N2 & N3 & N4).
  set (np := npages (zlen image) (t_ps T)) in *.
  assert (R0 : 0 <= start * t_ps T) by nia.
  assert (R1 : start * t_ps T + zlen image <= t_fp T * t_ps T) by (unfold fits in Hfit; nia).
  apply zlist_ext.
  - apply zlen_zslice; lia.
  - intros a Ha'. rewrite zlen_zslice in Ha' by lia.
    rewrite zn_zslice by lia. apply EF; lia.
Qed.

(* ---- C12_nothing_outside ---- *)
Lemma nothing_outside T sp override image q scr out q' scr' tr :
  let start := eff_start sp override in
  let ps := t_ps T in
  let np := npages (zlen image) ps in
  run_pre T start image ->
  internal_flash (t_id T) ps (t_bp T) (t_fp T) sp override image q scr = (out, q', scr', tr) ->
  let T' := deliver T tr in
  t_oob T' = false /\
  (t_id T', t_ps T', t_bp T', t_fp T') = (t_id T, ps, t_bp T, t_fp T) /\
  zlen (t_flash T') = zlen (t_flash T) /\ zlen (t_buf T') = zlen (t_buf T) /\
  (forall a, 0 <= a < zlen (t_flash T) -> ~ (start * ps <= a < (start + np) * ps) ->
             zn (t_flash T') a = zn (t_flash T) a) /\
  (tr <> [] -> start + np <= t_fp T).
Proof.
  intros start ps np (HG & Ho & Ha & Hl & Hs) E T'.
  pose proof HG as (Hps & Hbp & Hfp & Lb & Lf).
  destruct (Z_lt_le_dec ((t_fp T - start) * ps) (zlen image)) as [Hbig|Hfit].
  - rewrite refused in E by auto. injection E as <- <- <- <-. unfold T'. cbn [deliver fold_left].
    repeat split; auto. congruence.
  - destruct (run_inv _ _ _ _ _ _ _ (t_flash T) _ _ _ _ _ _ T Ha Hps Hbp Hfp Hl Hs Hfit (Safe_init T start image HG Ho) E)
      as (I1 & _).
    destruct (np_facts (t_id T) (t_ps T) (t_fp T) start image Ha Hps Hfp Hl Hs Hfit) as (N1 & N2 & N3 & N4).
    destruct I1 as ((G1 & G2 & G3 & G4) & Lb' & Lf' & Ho' & Hout).
    fold T' in G1, G2, G3, G4, Lb', Lf', Ho', Hout. fold ps. fold np in Hout.
    repeat split; auto; try congruence; try lia.
    + rewrite G1, G2, G3, G4. reflexivity.
    + intros a Ha' Hn. apply Hout; auto. fold ps in Lf. lia.
Qed.

(* ---- C12_other_target_untouched ---- *)
Lemma frames_to_other addr tr : Forall (frame_ok addr) tr ->
  forall T, t_id T <> addr -> deliver T tr = T.
Proof.
  induction 1 as [|[f d] tr (Hl & c & r & Hf) _ IH]; intros T Hne; [reflexivity|].
  rewrite deliver_cons. unfold deliver1. cbn [fst snd] in *. subst f.
  destruct d; [|apply IH; auto].
  rewrite tgt_recv_other by (cbn; congruence). apply IH; auto.
Qed.

Lemma other_target_untouched T O sp override image q scr out q' scr' tr :
  let start := eff_start sp override in
  run_pre T start image -> t_id O <> t_id T ->
  internal_flash (t_id T) (t_ps T) (t_bp T) (t_fp T) sp override image q scr = (out, q', scr', tr) ->
  deliver O tr = O.
Proof.
  intros start (HG & Ho & Ha & Hl & Hs) Hne E.
  pose proof HG as (Hps & Hbp & Hfp & Lb & Lf).
  destruct (Z_lt_le_dec ((t_fp T - start) * t_ps T) (zlen image)) as [Hbig|Hfit].
  - rewrite refused in E by auto. injection E as <- <- <- <-. reflexivity.
  - destruct (run_inv _ _ _ _ _ _ _ (t_flash T) _ _ _ _ _ _ T Ha Hps Hbp Hfp Hl Hs Hfit (Safe_init T start image HG Ho) E)
      as (_ & I2 & _).
    apply (frames_to_other (t_id T)); auto.
Qed.

(* ---- frames of a run fit the radio frame ---- *)
Lemma run_frames_fit T sp override image q scr out q' scr' tr :
  let start := eff_start sp override in
  run_pre T start image ->
  internal_flash (t_id T) (t_ps T) (t_bp T) (t_fp T) sp override image q scr = (out, q', scr', tr) ->
  Forall (fun x : frame * bool => (length (fst x) <= 32)%nat /\ nth 0 (fst x) 0 = 255 /\ nth 1 (fst x) 0 = t_id T) tr.
Proof.
  intros start (HG & Ho & Ha & Hl & Hs) E.
  pose proof HG as (Hps & Hbp & Hfp & Lb & Lf).
  destruct (Z_lt_le_dec ((t_fp T - start) * t_ps T) (zlen image)) as [Hbig|Hfit].
  - rewrite refused in E by auto. injection E as <- <- <- <-. constructor.
  - destruct (run_inv _ _ _ _ _ _ _ (t_flash T) _ _ _ _ _ _ T Ha Hps Hbp Hfp Hl Hs Hfit (Safe_init T start image HG Ho) E)
      as (_ & I2 & _).
    eapply Forall_impl; [|exact I2]. intros [f d] (H1 & c & r & H2). cbn [fst] in *. subst f. auto.
Qed.

(* ---- abort ---- *)
Lemma failed_write_aborts T sp override image q scr out q' scr' tr :
  let start := eff_start sp override in
  run_pre T start image -> fits T start image ->
  internal_flash (t_id T) (t_ps T) (t_bp T) (t_fp T) sp override image q scr = (out, q', scr', tr) ->
  out = Done \/
  ((out = WriteFailed \/ out = Raised IndexError) /\
   exists tr0 r d, tr = tr0 ++ [(255 :: t_id T :: 24 :: r, d)]).
Proof.
  intros start (HG & Ho & Ha & Hl & Hs) Hfit E.
  pose proof HG as (Hps & Hbp & Hfp & Lb & Lf).
  destruct (run_inv _ _ _ _ _ _ _ (t_flash T) _ _ _ _ _ _ T Ha Hps Hbp Hfp Hl Hs Hfit (Safe_init T start image HG Ho) E)
    as (_ & _ & I3 & I4 & _).
  destruct I3 as [->|Hf]; [now left|right].
  assert (Hn : out <> Done) by (destruct Hf as [->| ->]; discriminate).
  split; auto.
  destruct (I4 Hn) as (tr0 & f & d & -> & (r & ->)). eauto.
Qed.

(* ---- write_flash: unanswered for six attempts, negative answer ---- *)
Definition att_silent (addr : Z) (a : att) : Prop :=
  Forall (fun p => good_reply addr (Some p) = false) (a_intime a ++ a_late a).

Lemma wf_loop_silent n addr cmd : forall pk q scr,
  good_reply addr pk = false -> Forall (fun p => good_reply addr (Some p) = false) q ->
  (n <= length scr)%nat -> Forall (att_silent addr) (firstn n scr) ->
  exists r q' tr, wf_loop n addr cmd pk q scr = (r, O, q', skipn n scr, tr) /\ length tr = n.
Proof.
  induction n as [|n IH]; intros pk q scr Hpk Hq Hn Hs.
  - cbn. eauto.
  - destruct scr as [|a scr]; [cbn in Hn; lia|].
    cbn [wf_loop hd_att tl firstn skipn] in *. rewrite Hpk.
    inversion Hs as [|x l Ha Hrest]; subst.
    apply Forall_app in Ha as [Hi Hl].
    assert (Hq1 : Forall (fun p => good_reply addr (Some p) = false) (q ++ a_intime a)) by (apply Forall_app; auto).
    destruct (IH (hd_error (q ++ a_intime a)) (tl (q ++ a_intime a) ++ a_late a) scr) as (r & q' & tr & E & L).
    + destruct (q ++ a_intime a) as [|p l0]; [reflexivity|]. cbn. now inversion Hq1.
    + apply Forall_app; split; auto. apply tl_Forall; auto.
    + cbn in Hn. lia.
    + exact Hrest.
    + rewrite E. exists r, q', ((cmd, a_deliv a) :: tr). split; auto. cbn. lia.
Qed.

Lemma write_flash_unanswered addr pbuf tpage n q scr :
  u8 addr = true -> 0 <= pbuf < 65536 -> 0 <= tpage < 65536 -> 0 <= n < 65536 ->
  (6 <= length scr)%nat -> Forall (att_silent addr) (firstn 6 scr) ->
  exists q' tr, write_flash addr pbuf tpage n q scr = (WFalse, q', skipn 6 scr, tr) /\ length tr = 6%nat.
Proof.
  intros Ha Hb Ht Hn Hl Hs. unfold write_flash. rewrite flush_spec, pack_write_some by auto.
  destruct (wf_loop_silent 6 addr (255 :: [addr; 24] ++ le_bytes 2 pbuf ++ le_bytes 2 tpage ++ le_bytes 2 n)
                           None [] scr eq_refl ltac:(constructor) Hl Hs) as (r & q' & tr & E & L).
  rewrite E. eauto.
Qed.

Lemma wf_loop_S n addr cmd pk q scr :
  wf_loop (S n) addr cmd pk q scr =
  if good_reply addr pk then (pk, S n, q, scr, [])
  else let a := hd_att addr scr in
       let q1 := q ++ a_intime a in
       let '(r, m, q3, scr', tr) := wf_loop n addr cmd (hd_error q1) (tl q1 ++ a_late a) (tl scr) in
       (r, m, q3, scr', (cmd, a_deliv a) :: tr).
Proof. reflexivity. Qed.

Lemma write_flash_negative addr pbuf tpage n q a scr p rest :
  u8 addr = true -> 0 <= pbuf < 65536 -> 0 <= tpage < 65536 -> 0 <= n < 65536 ->
  a_intime a = p :: rest -> good_reply addr (Some p) = true -> 4 <= zlen (snd p) -> zn (snd p) 2 <> 1 ->
  write_flash addr pbuf tpage n q (a :: scr) =
  (WFalse, rest ++ a_late a, scr, [(write_frame addr pbuf tpage n, a_deliv a)]).
Proof.
  intros Ha Hb Ht Hn Hi Hg Hl Hz. unfold write_flash. rewrite flush_spec, pack_write_some by auto.
  change 6%nat with (S 5). rewrite wf_loop_S.
  change (good_reply addr None) with false. cbv iota zeta. cbn [hd_att tl].
  rewrite Hi. cbn [app hd_error tl].
  change 5%nat with (S 4). rewrite wf_loop_S.
  rewrite Hg. destruct p as [h d]. cbn [snd] in *.
  replace (zlen d <? 4) with false by lia. replace (zn d 2 =? 1) with false by lia. reflexivity.
Qed.
