(* C12/Proofs_write.v — Cloader.write_flash: bounded retry, honest acknowledgements, effect on the target *)
From CF Require Import Common.Bytes.
From CF Require Import C12.Model.
From CF Require Import C12.Lists.
From CF Require Import C12.Proofs_upload.
From Coq Require Import ZifyBool.
Open Scope Z_scope.

(* a positive acknowledgement of a flash-write for target addr *)
Definition pos_ack (addr : Z) (p : pkt) : bool := good_reply addr (Some p) && (zn (snd p) 2 =? 1).

(* honest fate: a positive acknowledgement is produced only by an attempt that reached the target *)
Definition att_honest (addr : Z) (a : att) : Prop :=
  a_deliv a = true \/ Forall (fun p => pos_ack addr p = false) (a_intime a ++ a_late a).

Definition pos_opt (addr : Z) (pk : option pkt) : bool :=
  match pk with Some p => pos_ack addr p | None => false end.

Lemma default_att_honest addr : att_honest addr (default_att addr).
Proof. now left. Qed.

Lemma hd_att_honest addr scr : Forall (att_honest addr) scr -> att_honest addr (hd_att addr scr).
Proof. destruct scr; cbn; intros H; [apply default_att_honest | now inversion H]. Qed.

Lemma tl_Forall {A} (P : A -> Prop) l : Forall P l -> Forall P (tl l).
Proof. destruct l; cbn; intros H; [constructor | now inversion H]. Qed.

Lemma flush_spec q : flush q = (None, []).
Proof. induction q; cbn; auto. Qed.

(* ---- shape of the frames sent by the retry loop ---- *)
Lemma wf_loop_shape n addr cmd : forall pk q scr r m q' scr' tr,
  wf_loop n addr cmd pk q scr = (r, m, q', scr', tr) ->
  Forall (fun x => fst x = cmd) tr /\ (length tr + m <= n)%nat /\
  (m <> O -> good_reply addr r = true) /\
  (good_reply addr pk = false -> n <> O -> tr <> []).
Proof.
  induction n as [|n IH]; intros pk q scr r m q' scr' tr E; cbn [wf_loop] in E.
  - injection E as <- <- <- <- <-. repeat split; auto; try lia; try congruence.
  - destruct (good_reply addr pk) eqn:G.
    + injection E as <- <- <- <- <-. repeat split; auto; cbn; try lia; try congruence.
    + destruct (wf_loop n addr cmd (hd_error (q ++ a_intime (hd_att addr scr)))
                        (tl (q ++ a_intime (hd_att addr scr)) ++ a_late (hd_att addr scr)) (tl scr))
        as [[[[r0 m0] q0] scr0] tr0] eqn:E0.
      injection E as <- <- <- <- <-.
      destruct (IH _ _ _ _ _ _ _ _ E0) as (H1 & H2 & H3 & _).
      split; [|split; [|split]].
      * constructor; auto.
      * cbn [length]. lia.
      * exact H3.
      * intros _ _. discriminate.
Qed.

(* ---- honesty: a positive acknowledgement ends the loop only if some attempt was delivered ---- *)
Lemma wf_loop_honest n addr cmd : forall pk q scr seen r m q' scr' tr,
  Forall (att_honest addr) scr ->
  (seen = true \/ (Forall (fun p => pos_ack addr p = false) q /\ pos_opt addr pk = false)) ->
  wf_loop n addr cmd pk q scr = (r, m, q', scr', tr) ->
  Forall (att_honest addr) scr' /\
  (pos_opt addr r = true -> seen || existsb snd tr = true).
Proof.
  induction n as [|n IH]; intros pk q scr seen r m q' scr' tr Hs Hinv E; cbn [wf_loop] in E.
  - injection E as <- <- <- <- <-. split; auto. intros Hp. destruct Hinv as [->|[_ Hn]]; [reflexivity|congruence].
  - destruct (good_reply addr pk) eqn:G.
    + injection E as <- <- <- <- <-. split; auto. intros Hp.
      destruct Hinv as [->|[_ Hn]]; [reflexivity|congruence].
    + set (a := hd_att addr scr) in *.
      destruct (wf_loop n addr cmd (hd_error (q ++ a_intime a)) (tl (q ++ a_intime a) ++ a_late a) (tl scr))
        as [[[[r0 m0] q0] scr0] tr0] eqn:E0.
      injection E as <- <- <- <- <-.
      assert (Ha : att_honest addr a) by (apply hd_att_honest; exact Hs).
      assert (Hinv' : seen || a_deliv a = true \/
                      (Forall (fun p => pos_ack addr p = false) (tl (q ++ a_intime a) ++ a_late a) /\
                       pos_opt addr (hd_error (q ++ a_intime a)) = false)).
      { destruct seen; [now left|]. destruct (a_deliv a) eqn:D; [now left|]. right.
        destruct Hinv as [Hx|[Hq _]]; [discriminate|].
        destruct Ha as [Hd|Hp]; [congruence|].
        apply Forall_app in Hp as [Hi Hl].
        assert (Hq1 : Forall (fun p => pos_ack addr p = false) (q ++ a_intime a)) by (apply Forall_app; auto).
        split.
        - apply Forall_app; split; auto. apply tl_Forall; exact Hq1.
        - destruct (q ++ a_intime a) as [|p l]; cbn; auto. now inversion Hq1. }
      destruct (IH _ _ _ _ _ _ _ _ _ (tl_Forall _ _ Hs) Hinv' E0) as (H1 & H2).
      split; auto. intros Hp. specialize (H2 Hp). cbn [existsb snd].
      destruct seen, (a_deliv a); cbn in *; auto.
Qed.

(* ---- write_flash as a whole ---- *)
Lemma pack_write_some addr pbuf tpage n :
  u8 addr = true -> 0 <= pbuf < 65536 -> 0 <= tpage < 65536 -> 0 <= n < 65536 ->
  pack_write addr pbuf tpage n = Some ([addr; 24] ++ le_bytes 2 pbuf ++ le_bytes 2 tpage ++ le_bytes 2 n).
Proof.
  intros Ha Hb Ht Hn. unfold pack_write. rewrite Ha.
  replace (u16 pbuf) with true by (symmetry; apply u16_spec; lia).
  replace (u16 tpage) with true by (symmetry; apply u16_spec; lia).
  replace (u16 n) with true by (symmetry; apply u16_spec; lia). reflexivity.
Qed.

Lemma write_flash_spec addr pbuf tpage n q scr r q' scr' tr :
  u8 addr = true -> 0 <= pbuf < 65536 -> 0 <= tpage < 65536 -> 0 <= n < 65536 ->
  write_flash addr pbuf tpage n q scr = (r, q', scr', tr) ->
  Forall (fun x => fst x = write_frame addr pbuf tpage n) tr /\
  (1 <= length tr <= 6)%nat /\
  (Forall (att_honest addr) scr -> Forall (att_honest addr) scr' /\ (r = WTrue -> existsb snd tr = true)).
Proof.
  intros Ha Hb Ht Hn E. unfold write_flash in E. rewrite flush_spec in E.
  rewrite pack_write_some in E by auto.
  destruct (wf_loop 6 addr (255 :: [addr; 24] ++ le_bytes 2 pbuf ++ le_bytes 2 tpage ++ le_bytes 2 n) None [] scr)
    as [[[[pk m] q0] scr0] tr0] eqn:E0.
  destruct (wf_loop_shape _ _ _ _ _ _ _ _ _ _ _ E0) as (S1 & S2 & S3 & S4).
  assert (Hne : tr0 <> []) by (apply S4; [reflexivity|discriminate]).
  assert (Hlen : (1 <= length tr0 <= 6)%nat).
  { destruct tr0; [congruence|]. cbn [length] in *. lia. }
  assert (Hh : Forall (att_honest addr) scr -> Forall (att_honest addr) scr0 /\
                                               (pos_opt addr pk = true -> existsb snd tr0 = true)).
  { intros Hs.
    assert (Hi : false = true \/ (Forall (fun p => pos_ack addr p = false) (@nil pkt) /\ pos_opt addr None = false))
      by (right; split; [constructor|reflexivity]).
    destruct (wf_loop_honest _ _ _ _ _ _ _ _ _ _ _ _ Hs Hi E0) as (H1 & H2).
    split; auto. }
  assert (Res : tr = tr0 /\ scr' = scr0 /\ (r = WTrue -> pos_opt addr pk = true)).
  { destruct m as [|m].
    - injection E as <- <- <- <-. repeat split; auto. discriminate.
    - assert (G : good_reply addr pk = true) by (apply S3; discriminate).
      destruct pk as [[h d]|].
      + destruct (zlen d <? 4) eqn:C4.
        * injection E as <- <- <- <-. repeat split; auto. discriminate.
        * injection E as <- <- <- <-. repeat split; auto.
          destruct (zn d 2 =? 1) eqn:C2; [|discriminate]. intros _.
          cbn [pos_opt]. unfold pos_ack. cbn [snd]. now rewrite G, C2.
      + discriminate. }
  destruct Res as (-> & -> & Hr).
  repeat split; auto; try lia.
  - apply Hh; auto.
  - intros HT. apply Hh; auto.
Qed.

(* without range assumptions: either a struct.error before anything is sent, or the above *)
Lemma write_flash_raise addr pbuf tpage n q scr :
  pack_write addr pbuf tpage n = None ->
  write_flash addr pbuf tpage n q scr = (WRaise StructError, [], scr, []).
Proof. intros H. unfold write_flash. now rewrite flush_spec, H. Qed.

(* ---- effect of the (repeated) command on the target ---- *)
Lemma upd_range_idem m off d : 0 <= off -> off + zlen d <= zlen m ->
  upd_range (upd_range m off d) off d = upd_range m off d.
Proof.
  intros Ho H. pose proof (zlen_nonneg d).
  assert (L : zlen (upd_range m off d) = zlen m) by (apply zlen_upd_range; lia).
  apply zlist_ext.
  - rewrite zlen_upd_range; lia.
  - intros a Ha. rewrite zlen_upd_range in Ha by lia.
    rewrite zn_upd_range by lia.
    destruct ((off <=? a) && (a <? off + zlen d)) eqn:C; [|reflexivity].
    rewrite zn_upd_range by lia. now rewrite C.
Qed.

Lemma deliver_same_cmd cmd tr : forall T,
  Forall (fun x : frame * bool => fst x = cmd) tr ->
  tgt_recv (tgt_recv T cmd) cmd = tgt_recv T cmd ->
  deliver T tr = if existsb snd tr then tgt_recv T cmd else T.
Proof.
  induction tr as [|[f d] tr IH]; intros T Hf Hidem; [reflexivity|].
  inversion Hf as [|x l Hx Hl]; subst x l. cbn [fst] in Hx. subst f.
  rewrite deliver_cons. unfold deliver1. cbn [fst snd existsb].
  destruct d; cbn [orb].
  - rewrite IH; auto; [|now rewrite !Hidem].
    rewrite Hidem. now destruct (existsb snd tr).
  - apply IH; auto.
Qed.

Definition geom_ok (T : target) : Prop :=
  1 <= t_ps T <= 65535 /\ 1 <= t_bp T <= 65535 /\ 0 <= t_fp T <= 65535 /\
  zlen (t_buf T) = t_bp T * t_ps T /\ zlen (t_flash T) = t_fp T * t_ps T.

Lemma tgt_write_idem T pbuf tpage n :
  geom_ok T -> 0 <= pbuf -> 0 <= tpage -> 0 <= n < 65536 -> pbuf + n <= t_bp T -> tpage + n <= t_fp T ->
  let cmd := write_frame (t_id T) pbuf tpage n in
  tgt_recv (tgt_recv T cmd) cmd = tgt_recv T cmd.
Proof.
  intros (Hps & Hbp & Hfp & Lb & Lf) Hb Ht Hn Hbn Htn cmd. unfold cmd.
  rewrite (tgt_recv_write T) by lia.
  replace ((pbuf + n <=? t_bp T) && (tpage + n <=? t_fp T)) with true by lia.
  set (D := zslice (t_buf T) (pbuf * t_ps T) (n * t_ps T)).
  set (T1 := set_flash T (upd_range (t_flash T) (tpage * t_ps T) D)).
  change (t_id T) with (t_id T1).
  rewrite (tgt_recv_write T1) by lia.
  unfold T1. cbn [set_flash t_bp t_fp t_ps t_buf t_flash t_id t_oob].
  replace ((pbuf + n <=? t_bp T) && (tpage + n <=? t_fp T)) with true by lia.
  fold D. unfold set_flash. cbn. f_equal.
  assert (HD : zlen D = n * t_ps T).
  { unfold D. apply zlen_zslice; nia. }
  apply upd_range_idem; nia.
Qed.
