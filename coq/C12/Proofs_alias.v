(* C12/Proofs_alias.v — with a fresh packet per send, deferred serialisation = immediate serialisation *)
From CF Require Import Common.Bytes.
From CF Require Import C12.Model.
From CF Require Import C12.Alias.
From Coq Require Import ZifyBool.
Open Scope Z_scope.

Lemma take_upd h s i d : (forall j, s = Some j -> j <> i) -> take (upd h i d) s = take h s.
Proof.
  intros H. destruct s as [j|]; [|reflexivity]. cbn [take]. unfold upd.
  specialize (H j eq_refl). replace (j =? i) with false by lia. reflexivity.
Qed.

(* aliasing-freedom: nothing is written into a cell after it was handed over => the reference-keeping link sends
   exactly what an immediately serialising link sends *)
Lemma deferred_eq_immediate ops : forall h s,
  (forall j, s = Some j -> writes_to j ops = false) -> alias_free ops = true ->
  run_def h s ops = take h s ++ run_imm h ops.
Proof.
  induction ops as [|o r IH]; intros h s Hs Ha; cbn [run_def run_imm].
  - now rewrite app_nil_r.
  - destruct o as [i d|i].
    + cbn [alias_free] in Ha. rewrite IH; auto.
      * rewrite take_upd; auto. intros j Hj. specialize (Hs j Hj). cbn [writes_to] in Hs. lia.
      * intros j Hj. specialize (Hs j Hj). cbn [writes_to] in Hs. lia.
    + cbn [alias_free] in Ha. apply andb_true_iff in Ha as [H1 H2].
      rewrite IH; auto.
      intros j [= <-]. destruct (writes_to i r); [discriminate|reflexivity].
Qed.

Lemma writes_to_fresh j frames : forall k, j < k -> writes_to j (ub_ops_from true k frames) = false.
Proof.
  induction frames as [|f fs IH]; intros k Hk; cbn [ub_ops_from writes_to]; [reflexivity|].
  replace (k =? j) with false by lia. cbn [orb]. apply IH. lia.
Qed.

Lemma ub_ops_alias_free frames : forall k, alias_free (ub_ops_from true k frames) = true.
Proof.
  induction frames as [|f fs IH]; intros k; cbn [ub_ops_from alias_free]; [reflexivity|].
  rewrite writes_to_fresh by lia. cbn [negb andb]. apply IH.
Qed.

Lemma ub_ops_imm fresh frames : forall k h, run_imm h (ub_ops_from fresh k frames) = frames.
Proof.
  induction frames as [|f fs IH]; intros k h; cbn [ub_ops_from run_imm]; [reflexivity|].
  f_equal; [|apply IH]. unfold upd. now rewrite Z.eqb_refl.
Qed.

Lemma sent_ids_fresh frames : forall k, Forall (fun i => k <= i) (sent_ids (ub_ops_from true k frames)).
Proof.
  induction frames as [|f fs IH]; intros k; cbn [ub_ops_from sent_ids]; constructor; [lia|].
  eapply Forall_impl; [|apply (IH (k + 1))]. cbn. intros; lia.
Qed.

Lemma ub_ops_cells_distinct frames : forall k, distinctb (sent_ids (ub_ops_from true k frames)) = true.
Proof.
  induction frames as [|f fs IH]; intros k; cbn [ub_ops_from sent_ids distinctb]; [reflexivity|].
  rewrite IH, andb_true_r. apply negb_true_iff.
  pose proof (sent_ids_fresh fs (k + 1)) as H.
  induction H as [|x l Hx _ IHl]; cbn [existsb]; [reflexivity|].
  replace (k =? x) with false by lia. exact IHl.
Qed.

(* upload_buffer as it is: every chunk a new packet object => the frames a reference-keeping link serialises later
   are the frames of the model (which reads them at send time); and all objects handed over are distinct *)
Lemma upload_deferred_same h tid page address buff :
  run_def h None (ub_ops true (fst (upload_buffer tid page address buff))) = fst (upload_buffer tid page address buff) /\
  cells_distinct (ub_ops true (fst (upload_buffer tid page address buff))) = true.
Proof.
  split.
  - unfold ub_ops. rewrite deferred_eq_immediate.
    + cbn [take app]. apply ub_ops_imm.
    + intros j [=].
    + apply ub_ops_alias_free.
  - apply ub_ops_cells_distinct.
Qed.

(* both variants look the same to a link that serialises inside send_packet *)
Lemma reuse_invisible_when_immediate h frames : run_imm h (ub_ops false frames) = run_imm h (ub_ops true frames).
Proof. unfold ub_ops. now rewrite !ub_ops_imm. Qed.

(* REFUTATION of one reused packet object (seeded change C12-k): a 26-byte page on a reference-keeping link — the
   first chunk is never transmitted, the last one twice *)
Definition k_buff : list Z := [1;2;3;4;5;6;7;8;9;10;11;12;13;14;15;16;17;18;19;20;21;22;23;24;25;26].
Lemma reused_packet_refuted :
  let frames := fst (upload_buffer 255 0 0 k_buff) in
  length frames = 2%nat /\
  run_def (fun _ => []) None (ub_ops true frames) = frames /\
  run_def (fun _ => []) None (ub_ops false frames) = [nth 1 frames []; nth 1 frames []] /\
  run_def (fun _ => []) None (ub_ops false frames) <> frames /\
  alias_free (ub_ops false frames) = false.
Proof. vm_compute. repeat split; try reflexivity. discriminate. Qed.
