(* C12/Refute.v — a stale info cache across the reboot into the new nRF51 bootloader violates the property:
   concrete witness (the behaviour seeded change C12-e introduces). *)
From CF Require Import Common.Bytes.
From CF Require Import C12.Model.
From CF Require Import C12.Session.
From CF Require Import C12.Plan.
From CF Require Import C12.Proofs_sequence.
Open Scope Z_scope.

(* A zip with the nRF51 bootloader+softdevice (2 pages), an nRF51 firmware, an STM32 firmware and a deck firmware;
   the device runs s110 (start page 88) and, after the reboot into the new bootloader, reports start page 108. *)
Definition exK0 : cache := mkCache (Some (mkC 4 2 6 1 None)) (Some (mkC 4 1 112 88 None)).
Definition exK1 : cache := mkCache (Some (mkC 4 2 6 1 None)) (Some (mkC 4 1 112 108 None)).
Definition exArts : list artifact :=
  [mkArt (mkSel 2 254 2) [1;2;3;4;5;6;7;8] [] [130] (2024, 2, 1);
   mkArt (mkSel 2 254 1) [9;9;9;9;9] [130] [] (2024, 2, 1);
   mkArt (mkSel 2 255 1) [7;7;7] [] [] (2024, 2, 1);
   mkArt (mkSel 3 1000 1) [5;5] [] [] (2024, 2, 1)].
Definition exNrf : target := mkT 254 4 1 112 (repeat 0 4) (repeat 238 448) false.


(* REFUTATION of a stale info cache across the reboot: were the geometry learnt before the reboot kept, the nRF51
   firmware would be programmed at page 88 — a page outside every range of the correct plan, inside the area the new
   soft device occupies — and nothing would be at page 108. *)
Lemma stale_cache_refuted :
  exists platform k0 k1 arts sels T a,
    let '(_, _, tr_ok, cs_ok, _) := run_plan (flash_plan platform k0 k1 arts sels) [] in
    let '(o, _, tr_stale, _, _) := run_plan (flash_plan_stale platform k0 k1 arts sels) [] in
    o = SDone /\
    (forall c, In c cs_ok -> l_tid c = t_id T -> ~ call_range c a) /\
    zn (t_flash (deliver T tr_ok)) a = zn (t_flash T) a /\
    zn (t_flash (deliver T tr_stale)) a <> zn (t_flash T) a.
Proof.
  exists 2, exK0, exK1, exArts, (@nil sel), exNrf, (88 * 4 + 4).
  vm_compute. split; [reflexivity|]. split.
  - intros c [<-|[<-|[<-|[<-|[]]]]] _ [H1 H2]; vm_compute in H1, H2; congruence.
  - split; [reflexivity|discriminate].
Qed.


(* OBSERVATION (outside the property text): the firmware phase does not consult WHICH targets the list names.
   With the example zip and targets = [cf2/stm32/fw], the plan still contains the nRF51 firmware call. *)
Lemma target_list_ignored :
  exists platform k0 k1 arts sels,
    sels = [mkSel 2 255 1] /\
    (exists c, In c (calls_of (flash_plan platform k0 k1 arts sels)) /\ l_tid c = 254 /\ l_override c = None /\
               l_image c = [9;9;9;9;9]) /\
    calls_of (flash_plan platform k0 k1 arts sels) = calls_of (flash_plan platform k0 k1 arts []).
Proof.
  exists 2, exK0, exK1, exArts, [mkSel 2 255 1]. split; [reflexivity|]. split.
  - eexists. split; [vm_compute; right; right; left; reflexivity|]. repeat split.
  - vm_compute. reflexivity.
Qed.
