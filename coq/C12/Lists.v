(* C12/Lists.v — pointwise facts about the list vocabulary of C12/Model.v (zn, zslice, zskip, upd_range). *)
From CF Require Import Common.Bytes.
From CF Require Import C12.Model.
From Coq Require Import ZifyBool.
Open Scope Z_scope.

Lemma zlen_nonneg l : 0 <= zlen l.
Proof. unfold zlen. lia. Qed.

Lemma zlen_app a b : zlen (a ++ b) = zlen a + zlen b.
Proof. unfold zlen. rewrite app_length. lia. Qed.

Lemma zlen_cons x l : zlen (x :: l) = 1 + zlen l.
Proof. unfold zlen. cbn [length]. lia. Qed.

Lemma zlen_nil : zlen [] = 0.
Proof. reflexivity. Qed.

Lemma zn_app l1 l2 a : 0 <= a ->
  zn (l1 ++ l2) a = if a <? zlen l1 then zn l1 a else zn l2 (a - zlen l1).
Proof.
  intros Ha. unfold zn, zlen.
  destruct (a <? Z.of_nat (length l1)) eqn:C.
  - apply app_nth1. lia.
  - rewrite app_nth2 by lia. f_equal. lia.
Qed.

Lemma zn_firstn l n a : 0 <= a -> a < Z.of_nat n -> zn (firstn n l) a = zn l a.
Proof.
  intros Ha Hn. unfold zn.
  rewrite <- (firstn_skipn n l) at 2.
  destruct (Nat.lt_ge_cases (Z.to_nat a) (length (firstn n l))) as [H|H].
  - now rewrite app_nth1.
  - rewrite nth_overflow by lia.
    rewrite firstn_length in H.
    assert (Hl : (length l <= Z.to_nat a)%nat) by lia.
    rewrite firstn_skipn. now rewrite nth_overflow by lia.
Qed.

Lemma zn_skipn l n a : 0 <= a -> zn (skipn n l) a = zn l (Z.of_nat n + a).
Proof.
  intros Ha. unfold zn.
  replace (Z.to_nat (Z.of_nat n + a)) with (n + Z.to_nat a)%nat by lia.
  revert l. induction n as [|n IH]; intros l; [reflexivity|].
  destruct l as [|x l]; cbn [skipn plus].
  - now destruct (Z.to_nat a).
  - cbn [nth]. apply IH.
Qed.

Lemma zn_overflow l a : zlen l <= a -> zn l a = 0.
Proof. intros H. unfold zn. apply nth_overflow. unfold zlen in H. lia. Qed.

Lemma zlist_ext l1 l2 :
  zlen l1 = zlen l2 -> (forall a, 0 <= a < zlen l1 -> zn l1 a = zn l2 a) -> l1 = l2.
Proof.
  intros Hl H. apply (nth_ext l1 l2 0 0).
  - unfold zlen in Hl. lia.
  - intros n Hn. specialize (H (Z.of_nat n)). unfold zn, zlen in H.
    rewrite Nat2Z.id in H. apply H. lia.
Qed.

(* ---- zslice / zskip ---- *)
Lemma zlen_zslice l off n : 0 <= off -> 0 <= n -> off + n <= zlen l -> zlen (zslice l off n) = n.
Proof.
  intros Ho Hn H. unfold zslice, zlen in *. rewrite firstn_length, skipn_length. lia.
Qed.

Lemma zlen_zslice_le l off n : 0 <= n -> zlen (zslice l off n) <= n.
Proof. intros Hn. unfold zslice, zlen. rewrite firstn_length. lia. Qed.

Lemma zn_zslice l off n a : 0 <= off -> 0 <= a < n -> zn (zslice l off n) a = zn l (off + a).
Proof.
  intros Ho Ha. unfold zslice. rewrite zn_firstn by lia. rewrite zn_skipn by lia. f_equal. lia.
Qed.

Lemma zlen_zskip l off : 0 <= off -> off <= zlen l -> zlen (zskip l off) = zlen l - off.
Proof. intros Ho H. unfold zskip, zlen in *. rewrite skipn_length. lia. Qed.

Lemma zn_zskip l off a : 0 <= off -> 0 <= a -> zn (zskip l off) a = zn l (off + a).
Proof. intros Ho Ha. unfold zskip. rewrite zn_skipn by lia. f_equal. lia. Qed.

(* ---- upd_range ---- *)
Lemma zlen_upd_range m off d : 0 <= off -> off + zlen d <= zlen m -> zlen (upd_range m off d) = zlen m.
Proof.
  intros Ho H. unfold upd_range, zlen in *.
  rewrite !app_length, firstn_length, skipn_length. lia.
Qed.

Lemma zn_upd_range m off d a : 0 <= off -> off + zlen d <= zlen m -> 0 <= a ->
  zn (upd_range m off d) a = if (off <=? a) && (a <? off + zlen d) then zn d (a - off) else zn m a.
Proof.
  intros Ho H Ha. unfold upd_range.
  assert (Hf : zlen (firstn (Z.to_nat off) m) = off).
  { unfold zlen in *. rewrite firstn_length. lia. }
  rewrite zn_app by lia. rewrite Hf.
  destruct (a <? off) eqn:C1.
  - replace ((off <=? a) && (a <? off + zlen d)) with false by lia.
    apply zn_firstn; lia.
  - rewrite zn_app by lia.
    destruct (a - off <? zlen d) eqn:C2.
    + replace ((off <=? a) && (a <? off + zlen d)) with true by lia. reflexivity.
    + replace ((off <=? a) && (a <? off + zlen d)) with false by lia.
      rewrite zn_skipn by lia. f_equal. unfold zlen. lia.
Qed.

Lemma upd_range_nil m off : 0 <= off -> off <= zlen m -> upd_range m off [] = m.
Proof.
  intros Ho H. apply zlist_ext.
  - apply zlen_upd_range; cbn; lia.
  - intros a Ha. rewrite zn_upd_range by (cbn; lia).
    replace ((off <=? a) && (a <? off + zlen [])) with false by (cbn; lia). reflexivity.
Qed.

Lemma upd_range_upd_range m off d1 d2 : 0 <= off -> off + zlen d1 + zlen d2 <= zlen m ->
  upd_range (upd_range m off d1) (off + zlen d1) d2 = upd_range m off (d1 ++ d2).
Proof.
  intros Ho H.
  pose proof (zlen_nonneg d1) as H1. pose proof (zlen_nonneg d2) as H2.
  assert (L1 : zlen (upd_range m off d1) = zlen m) by (apply zlen_upd_range; lia).
  apply zlist_ext.
  - rewrite !zlen_upd_range; rewrite ?zlen_app; lia.
  - intros a Ha. rewrite zlen_upd_range in Ha by lia.
    rewrite zn_upd_range by lia.
    rewrite (zn_upd_range m off (d1 ++ d2)) by (rewrite ?zlen_app; lia).
    rewrite zlen_app.
    destruct ((off + zlen d1 <=? a) && (a <? off + zlen d1 + zlen d2)) eqn:C.
    + replace ((off <=? a) && (a <? off + (zlen d1 + zlen d2))) with true by lia.
      rewrite zn_app by lia. replace (a - off <? zlen d1) with false by lia. f_equal. lia.
    + rewrite zn_upd_range by lia.
      destruct ((off <=? a) && (a <? off + zlen d1)) eqn:C1.
      * replace ((off <=? a) && (a <? off + (zlen d1 + zlen d2))) with true by lia.
        rewrite zn_app by lia. replace (a - off <? zlen d1) with true by lia. reflexivity.
      * replace ((off <=? a) && (a <? off + (zlen d1 + zlen d2))) with false by lia. reflexivity.
Qed.
