(* C12/Model.v — executable model of flashing through the bootloader protocol.

   Code side (hand-written from /repo, tied by differential evaluation in harness/props/c12.py):
     cflib/bootloader/cloader.py   Cloader.upload_buffer, Cloader.write_flash
     cflib/bootloader/__init__.py  Bootloader._internal_flash
   Environment side: a bootloader target (buffer pages + flash pages) that executes the load-buffer
   (0x14) and write-flash (0x18) commands, a FIFO downlink queue, and a script that decides the fate
   of every flash-write command that is sent.

   The code model does not look at the target: what it sends depends only on its arguments and on
   the packets it receives.  It therefore returns the list of frames it sent, each with a flag
   "reached the target"; the target's evolution is `deliver`, a fold over that list. *)
From CF Require Export Common.Bytes.
Open Scope Z_scope.

(* ------------------------------------------------------------------ small list vocabulary *)
Definition zlen (l : list Z) : Z := Z.of_nat (length l).
Definition zn (l : list Z) (a : Z) : Z := nth (Z.to_nat a) l 0.
(* Python l[off:off+n] and l[off:] for 0 <= off, 0 <= n *)
Definition zslice (l : list Z) (off n : Z) : list Z := firstn (Z.to_nat n) (skipn (Z.to_nat off) l).
Definition zskip (l : list Z) (off : Z) : list Z := skipn (Z.to_nat off) l.
(* m[off:off+len d] = d  for a bytearray m, when the range lies inside m *)
Definition upd_range (m : list Z) (off : Z) (d : list Z) : list Z :=
  firstn (Z.to_nat off) m ++ d ++ skipn (Z.to_nat off + length d) m.

Definition u8 (z : Z) : bool := (0 <=? z) && (z <? 256).
Definition u16 (z : Z) : bool := (0 <=? z) && (z <? 65536).

(* int(a / b) of Python (true division, then truncation) for the integers that occur here *)
Definition py_int_div (a b : Z) : Z := Z.quot a b.

Inductive exn := StructError | IndexError | ZeroDivisionError.

(* a frame on the radio: CRTP header byte followed by the data bytes *)
Definition frame := list Z.
(* a received packet: the header byte it arrives with, and its data *)
Definition pkt := (Z * list Z)%type.

(* ------------------------------------------------------------------ the target (environment) *)
Record target := mkT {
  t_id : Z; t_ps : Z; t_bp : Z; t_fp : Z;
  t_buf : list Z; t_flash : list Z; t_oob : bool }.

Definition set_buf (t : target) (b : list Z) : target :=
  mkT (t_id t) (t_ps t) (t_bp t) (t_fp t) b (t_flash t) (t_oob t).
Definition set_flash (t : target) (f : list Z) : target :=
  mkT (t_id t) (t_ps t) (t_bp t) (t_fp t) (t_buf t) f (t_oob t).
Definition set_oob (t : target) : target :=
  mkT (t_id t) (t_ps t) (t_bp t) (t_fp t) (t_buf t) (t_flash t) true.

(* A command outside the buffer or the flash is not executed; the target remembers that it saw one
   (t_oob) so that theorems can say it never happens. *)
Definition tgt_recv (t : target) (f : frame) : target :=
  match f with
  | h :: a :: c :: r =>
    if (h =? 255) && (a =? t_id t) then
      if c =? 20 then
        match r with
        | p0 :: p1 :: a0 :: a1 :: payload =>
          let page := le_val [p0; p1] in
          let off := le_val [a0; a1] in
          if (page <? t_bp t) && (off + zlen payload <=? t_ps t)
          then set_buf t (upd_range (t_buf t) (page * t_ps t + off) payload)
          else set_oob t
        | _ => t
        end
      else if c =? 24 then
        match r with
        | [b0; b1; f0; f1; n0; n1] =>
          let bpage := le_val [b0; b1] in
          let fpage := le_val [f0; f1] in
          let n := le_val [n0; n1] in
          if (bpage + n <=? t_bp t) && (fpage + n <=? t_fp t)
          then set_flash t (upd_range (t_flash t) (fpage * t_ps t)
                                      (zslice (t_buf t) (bpage * t_ps t) (n * t_ps t)))
          else set_oob t
        | _ => t
        end
      else t
    else t
  | _ => t
  end.

Definition deliver1 (t : target) (x : frame * bool) : target :=
  if snd x then tgt_recv t (fst x) else t.
Definition deliver (t : target) (tr : list (frame * bool)) : target := fold_left deliver1 tr t.

(* the fate of one flash-write command *)
Record att := mkA {
  a_deliv : bool;          (* the target receives and executes it *)
  a_intime : list pkt;     (* packets entering the downlink queue before receive_packet(2.5) returns *)
  a_late : list pkt }.     (* packets arriving after that call returned *)

Definition ack_ok (addr : Z) : pkt := (255, [addr; 24; 1; 0]).
Definition default_att (addr : Z) : att := mkA true [ack_ok addr] [].
Definition hd_att (addr : Z) (scr : list att) : att :=
  match scr with a :: _ => a | [] => default_att addr end.

(* ------------------------------------------------------------------ Cloader.upload_buffer *)
Definition pack_load (tid page address : Z) : option (list Z) :=      (* struct.pack('=BBHH', tid, 0x14, page, address) *)
  if u8 tid && u16 page && u16 address
  then Some ([tid; 20] ++ le_bytes 2 page ++ le_bytes 2 address) else None.

(* for i in range(len(buff)): pk.data.append(buff[i]); count += 1; if count > 24: send; new packet
   cur = data of the packet under construction *)
Fixpoint ub_loop (tid page address : Z) (buff : list Z) (i count : Z) (cur : list Z)
  : list frame * option exn :=
  match buff with
  | [] => ([255 :: cur], None)
  | b :: rest =>
    let cur' := cur ++ [b] in
    let count' := count + 1 in
    if 24 <? count' then
      match pack_load tid page (i + address + 1) with
      | Some h => let '(fs, e) := ub_loop tid page address rest (i + 1) 0 h in
                  ((255 :: cur') :: fs, e)
      | None => ([255 :: cur'], Some StructError)
      end
    else ub_loop tid page address rest (i + 1) count' cur'
  end.

Definition upload_buffer (tid page address : Z) (buff : list Z) : list frame * option exn :=
  match pack_load tid page address with
  | None => ([], Some StructError)
  | Some h => ub_loop tid page address buff 0 0 h
  end.

(* ------------------------------------------------------------------ Cloader.write_flash *)
Definition pack_write (addr pbuf tpage count : Z) : option (list Z) := (* '<BBHHH' *)
  if u8 addr && u16 pbuf && u16 tpage && u16 count
  then Some ([addr; 24] ++ le_bytes 2 pbuf ++ le_bytes 2 tpage ++ le_bytes 2 count) else None.

(* the loop condition: not (not pk or pk.header != 0xFF or len(pk.data) < 2 or data[0:2] != (addr, 0x18))
   CRTPPacket(header, data) stores header | 0x0C *)
Definition good_reply (addr : Z) (pk : option pkt) : bool :=
  match pk with
  | None => false
  | Some (h, d) => (Z.lor h 12 =? 255) && (2 <=? zlen d) && (zn d 0 =? addr) && (zn d 1 =? 24)
  end.

Inductive wres := WTrue | WFalse | WRaise (e : exn).

(* n = retry_counter + 1.  Returns: last packet received, n at exit, queue, script, frames sent *)
Fixpoint wf_loop (n : nat) (addr : Z) (cmd : frame) (pk : option pkt) (q : list pkt) (scr : list att)
  : option pkt * nat * list pkt * list att * list (frame * bool) :=
  match n with
  | O => (pk, O, q, scr, [])
  | S n' =>
    if good_reply addr pk then (pk, n, q, scr, [])
    else
      let a := hd_att addr scr in
      let q1 := q ++ a_intime a in
      let pk' := hd_error q1 in
      let q2 := tl q1 ++ a_late a in
      let '(r, m, q3, scr', tr) := wf_loop n' addr cmd pk' q2 (tl scr) in
      (r, m, q3, scr', (cmd, a_deliv a) :: tr)
  end.

(* "Flushing downlink": receive_packet(0) until None; leaves pk = None and the queue empty *)
Fixpoint flush (q : list pkt) : option pkt * list pkt :=
  match q with [] => (None, []) | _ :: q' => flush q' end.

Definition write_flash (addr pbuf tpage count : Z) (q : list pkt) (scr : list att)
  : wres * list pkt * list att * list (frame * bool) :=
  let '(pk0, q0) := flush q in
  match pack_write addr pbuf tpage count with
  | None => (WRaise StructError, q0, scr, [])
  | Some c =>
    let '(pk, m, q', scr', tr) := wf_loop 6 addr (255 :: c) pk0 q0 scr in
    match m with
    | O => (WFalse, q', scr', tr)                        (* retry_counter < 0 *)
    | _ =>
      match pk with
      | Some (_, d) =>
        if zlen d <? 4 then (WRaise IndexError, q', scr', tr)     (* pk.data[3] *)
        else ((if zn d 2 =? 1 then WTrue else WFalse), q', scr', tr)
      | None => (WRaise IndexError, q', scr', tr)        (* unreachable: loop left with m > 0 only on a good packet *)
      end
    end
  end.

(* ------------------------------------------------------------------ Bootloader._internal_flash *)
Inductive outcome := Done | Refused | WriteFailed | Raised (e : exn).

Definition page_chunk (image : list Z) (ps i : Z) : list Z :=
  if zlen image <? (i + 1) * ps then zskip image (i * ps) else zslice image (i * ps) ps.

Definition sent_ok (fs : list frame) : list (frame * bool) := map (fun f => (f, true)) fs.

(* the "for each page" loop; k pages remain, i is the page index, ctr the buffer counter.
   Returns outcome (Done = loop ran to its end), ctr at the end, queue, script, frames. *)
Fixpoint page_loop (k : nat) (addr ps bp start : Z) (image : list Z) (i ctr : Z)
         (q : list pkt) (scr : list att)
  : outcome * Z * list pkt * list att * list (frame * bool) :=
  match k with
  | O => (Done, ctr, q, scr, [])
  | S k' =>
    let '(fs, e) := upload_buffer addr ctr 0 (page_chunk image ps i) in
    let tr1 := sent_ok fs in
    match e with
    | Some x => (Raised x, ctr, q, scr, tr1)
    | None =>
      let ctr1 := ctr + 1 in
      if bp <=? ctr1 then
        let '(r, q', scr', tr2) := write_flash addr 0 (start + i - (ctr1 - 1)) ctr1 q scr in
        match r with
        | WTrue =>
          let '(o, c, q'', scr'', tr3) := page_loop k' addr ps bp start image (i + 1) 0 q' scr' in
          (o, c, q'', scr'', tr1 ++ tr2 ++ tr3)
        | WFalse => (WriteFailed, ctr1, q', scr', tr1 ++ tr2)
        | WRaise x => (Raised x, ctr1, q', scr', tr1 ++ tr2)
        end
      else
        let '(o, c, q'', scr'', tr3) := page_loop k' addr ps bp start image (i + 1) ctr1 q scr in
        (o, c, q'', scr'', tr1 ++ tr3)
    end
  end.

Definition eff_start (sp : Z) (override : option Z) : Z :=
  match override with Some p => p | None => sp end.

(* geometry (ps, bp, fp, sp) is what Cloader.targets[addr] holds *)
Definition internal_flash (addr ps bp fp sp : Z) (override : option Z) (image : list Z)
           (q : list pkt) (scr : list att)
  : outcome * list pkt * list att * list (frame * bool) :=
  let start := eff_start sp override in
  let len := zlen image in
  if len =? 0 then (Raised ZeroDivisionError, q, scr, [])          (* factor = 100.0 * ps / len(image) *)
  else if (fp - start) * ps <? len then (Refused, q, scr, [])
  else
    let last := py_int_div (len - 1) ps in                           (* int((len(image) - 1) / page_size) *)
    let '(o, ctr, q1, scr1, tr1) :=
        page_loop (Z.to_nat (last + 1)) addr ps bp start image 0 0 q scr in
    match o with
    | Done =>
      if 0 <? ctr then
        let '(r, q2, scr2, tr2) := write_flash addr 0 (start + last - (ctr - 1)) ctr q1 scr1 in
        match r with
        | WTrue => (Done, q2, scr2, tr1 ++ tr2)
        | WFalse => (WriteFailed, q2, scr2, tr1 ++ tr2)
        | WRaise x => (Raised x, q2, scr2, tr1 ++ tr2)
        end
      else (Done, q1, scr1, tr1)
    | _ => (o, q1, scr1, tr1)
    end.

(* ------------------------------------------------------------------ observation helpers (tie) *)
Definition outcome_code (o : outcome) : Z :=
  match o with
  | Done => 0 | Refused => 1 | WriteFailed => 2
  | Raised StructError => 3 | Raised IndexError => 4 | Raised ZeroDivisionError => 5
  end.

Definition trace_obs (tr : list (frame * bool)) : list Z :=
  concat (map (fun x : frame * bool => (if snd x then 1 else 0) :: zlen (fst x) :: fst x) tr).

Definition pkts_obs (q : list pkt) : list Z :=
  concat (map (fun p : pkt => fst p :: zlen (snd p) :: snd p) q).
