(* C12/Proofs_read.v — Cloader.read_flash returns the device's page, byte for byte *)
From CF Require Import Common.Bytes.
From CF Require Import C12.Model.
From CF Require Import C12.Session.
From CF Require Import C12.Plan.
From CF Require Import C12.Lists.
From CF Require Import C12.Proofs_plan.
From Coq Require Import ZifyBool.
Open Scope Z_scope.

Lemma firstn_add {A} (m : list A) a b : firstn (a + b) m = firstn a m ++ firstn b (skipn a m).
Proof.
  revert m. induction a as [|a IH]; intros m; [reflexivity|].
  destruct m as [|x m]; cbn [plus firstn skipn app].
  - now destruct b.
  - now rewrite IH.
Qed.

Lemma zslice_next (l : list Z) o a b : 0 <= o -> 0 <= a -> 0 <= b ->
  zslice l o a ++ zslice l (o + a) b = zslice l o (a + b).
Proof.
  intros Ho Ha Hb. unfold zslice.
  replace (Z.to_nat (a + b)) with (Z.to_nat a + Z.to_nat b)%nat by lia.
  rewrite firstn_add. f_equal. f_equal.
  replace (Z.to_nat (o + a)) with (Z.to_nat a + Z.to_nat o)%nat by lia.
  now rewrite skipn_add.
Qed.

Lemma firstn_zslice (l : list Z) o n ps : 0 <= ps <= n ->
  firstn (Z.to_nat ps) (zslice l o n) = zslice l o ps.
Proof.
  intros H. unfold zslice. rewrite firstn_firstn. f_equal. lia.
Qed.

(* a packet that looks like a read reply for addr *)
Definition read_hdr (addr : Z) (p : pkt) : bool :=
  let '(h, d) := p in (Z.lor h 12 =? 255) && (6 <=? zlen d) && (zn d 0 =? addr) && (zn d 1 =? 28).

(* honest environment: whatever else arrives (RWrong) is not a read reply for this target; the read replies
   that arrive are the device's (RGood) *)
Definition rf_honest (addr : Z) (fs : list rfate) : Prop :=
  Forall (fun f => match f with RWrong p => read_hdr addr p = false | _ => True end) fs.

Lemma read_accept_hdr addr page off p : read_accept addr page off (Some p) = 1 -> read_hdr addr p = true.
Proof.
  destruct p as [h d]. cbn [read_accept read_hdr].
  destruct (Z.lor h 12 =? 255); cbn [negb andb]; [|discriminate].
  destruct (zlen d <? 6) eqn:C; [discriminate|].
  replace (6 <=? zlen d) with true by lia. cbn [andb].
  destruct (zn d 0 =? addr); cbn [andb]; [|discriminate].
  destruct (zn d 1 =? 28); cbn [andb]; [reflexivity|discriminate].
Qed.

Lemma rf_loop_spec n T addr page off : forall pk fs a r m fs' tr,
  rf_honest addr fs ->
  (pk = None \/ pk = Some (device_read T page off) \/ exists p, pk = Some p /\ read_hdr addr p = false) ->
  rf_loop n T addr page off pk fs = (a, r, m, fs', tr) ->
  rf_honest addr fs' /\ (length tr <= n)%nat /\
  (a = 1 -> r = Some (device_read T page off)).
Proof.
  induction n as [|n IH]; intros pk fs a r m fs' tr Hh Hpk E; cbn [rf_loop] in E.
  - injection E as <- <- _ <- <-. split; [exact Hh|]. split; [cbn; lia|].
    intros Ha. destruct Hpk as [->|[->|(p & -> & Hp)]]; [discriminate|reflexivity|].
    apply read_accept_hdr in Ha. congruence.
  - destruct (read_accept addr page off pk) as [|x|x] eqn:A.
    + destruct (rf_loop n T addr page off (fate_pkt T page off (hd_fate fs)) (tl fs)) as [[[[a0 r0] m0] fs0] tr0] eqn:E0.
      injection E as <- <- _ <- <-.
      assert (Hh' : rf_honest addr (tl fs)) by (destruct fs; [constructor|now inversion Hh]).
      assert (Hpk' : fate_pkt T page off (hd_fate fs) = None \/
                     fate_pkt T page off (hd_fate fs) = Some (device_read T page off) \/
                     exists p, fate_pkt T page off (hd_fate fs) = Some p /\ read_hdr addr p = false).
      { destruct fs as [|f fs]; [right; left; reflexivity|]. cbn [hd_fate fate_pkt].
        destruct f as [|p|]; [now left| |right; left; reflexivity].
        right. right. exists p. split; [reflexivity|]. now inversion Hh. }
      destruct (IH _ _ _ _ _ _ _ Hh' Hpk' E0) as (I1 & I2 & I3).
      split; [exact I1|]. split; [cbn [length]; lia|exact I3].
    + injection E as <- <- _ <- <-. split; [exact Hh|]. split; [cbn; lia|].
      intros Ha. destruct Hpk as [->|[->|(p & -> & Hp)]]; [discriminate|reflexivity|].
      rewrite Ha in A. apply read_accept_hdr in A. congruence.
    + injection E as <- <- _ <- <-. split; [exact Hh|]. split; [cbn; lia|].
      intros Ha. destruct Hpk as [->|[->|(p & -> & Hp)]]; [discriminate|reflexivity|].
      rewrite Ha in A. apply read_accept_hdr in A. congruence.
Qed.

(* the loop is left with attempts to spare only on an accepted packet or a struct.error *)
Lemma rf_loop_left n T addr page off : forall pk fs a r m fs' tr,
  rf_loop n T addr page off pk fs = (a, r, S m, fs', tr) -> a = 1 \/ a = 2.
Proof.
  induction n as [|n IHn]; intros pk fs a r m fs' tr; cbn [rf_loop]; [intros [= _ _ ? _ _]; discriminate|].
  destruct (read_accept addr page off pk) as [|x|x] eqn:A.
  - destruct (rf_loop n T addr page off _ (tl fs)) as [[[[a0 r0] m0] fs3] tr3] eqn:E3.
    intros E. injection E as Ea Er Em Ef Et. subst. eapply IHn; eauto.
  - intros [= <- _ _ _ _].
    destruct pk as [[h0 d0]|]; [|discriminate]. cbn [read_accept] in A.
    destruct (negb (Z.lor h0 12 =? 255)); [discriminate|].
    destruct (zlen d0 <? 6); [right; congruence|].
    destruct (_ && _ && _ && _); [left; congruence|discriminate].
  - destruct pk as [[h0 d0]|]; [|discriminate]. cbn [read_accept] in A.
    destruct (negb (Z.lor h0 12 =? 255)); [discriminate|].
    destruct (zlen d0 <? 6); [discriminate|].
    destruct (_ && _ && _ && _); discriminate.
Qed.

Lemma device_read_payload T page off :
  skipn 6 (snd (device_read T page off)) = zslice (t_flash T) (page * t_ps T + off) 25.
Proof. unfold device_read. cbn [snd le_bytes app skipn]. reflexivity. Qed.

Lemma rf_chunks_spec k T addr page : forall i buff fs r fs' tr,
  rf_honest addr fs -> 0 <= i -> 0 <= page * t_ps T ->
  buff = zslice (t_flash T) (page * t_ps T) (25 * i) ->
  rf_chunks k T addr page i buff fs = (r, fs', tr) ->
  rf_honest addr fs' /\ (length tr <= 6 * k)%nat /\
  (forall b, r = RBuf b -> b = zslice (t_flash T) (page * t_ps T) (25 * (i + Z.of_nat k))).
Proof.
  induction k as [|k IH]; intros i buff fs r fs' tr Hh Hi Hp Hb E; cbn [rf_chunks] in E.
  - injection E as <- <- <-. split; [exact Hh|]. split; [cbn; lia|].
    intros b [= <-]. rewrite Hb. f_equal. lia.
  - destruct (negb (u8 addr && u16 page && u16 (i * 25))).
    { injection E as <- <- <-. split; [exact Hh|]. split; [cbn; lia|]. discriminate. }
    destruct (rf_loop 6 T addr page (i * 25) None fs) as [[[[a pk] m] fs0] tr0] eqn:E0.
    destruct (rf_loop_spec _ _ _ _ _ _ _ _ _ _ _ _ Hh (or_introl eq_refl) E0) as (L1 & L2 & L3).
    destruct (a =? 2) eqn:A2.
    { injection E as <- <- <-. split; [exact L1|]. split; [lia|]. discriminate. }
    destruct m as [|m].
    { injection E as <- <- <-. split; [exact L1|]. split; [lia|]. discriminate. }
    destruct pk as [[h d]|].
    2: { injection E as <- <- <-. split; [exact L1|]. split; [lia|]. discriminate. }
    destruct (rf_chunks k T addr page (i + 1) (buff ++ skipn 6 d) fs0) as [[r1 fs1] tr1] eqn:E1.
    injection E as <- <- <-.
    (* m > 0: the loop was left because the packet was accepted *)
    assert (Ha : a = 1).
    { destruct (rf_loop_left _ _ _ _ _ _ _ _ _ _ _ _ E0) as [H|H]; [exact H|lia]. }
    specialize (L3 Ha). injection L3 as -> ->.
    assert (Hb1 : buff ++ skipn 6 ([t_id T; 28] ++ le_bytes 2 page ++ le_bytes 2 (i * 25) ++
                                   zslice (t_flash T) (page * t_ps T + i * 25) 25)
                  = zslice (t_flash T) (page * t_ps T) (25 * (i + 1))).
    { change (skipn 6 _) with (skipn 6 (snd (device_read T page (i * 25)))). rewrite device_read_payload.
      rewrite Hb. replace (page * t_ps T + i * 25) with (page * t_ps T + 25 * i) by lia.
      rewrite zslice_next by lia. f_equal. lia. }
    destruct (IH (i + 1) _ fs0 r1 fs1 tr1 L1 ltac:(lia) Hp Hb1 E1) as (I1 & I2 & I3).
    split; [exact I1|]. split; [rewrite app_length; lia|].
    intros b Hr. rewrite (I3 b Hr). f_equal. lia.
Qed.

(* read_flash(addr, page): whatever is lost, whatever foreign packets arrive, whatever the page size (any
   remainder modulo the 25-byte chunks, device replies running past the end of the page): if it returns a
   buffer, it is the device's flash [page*ps_dev, page*ps_dev + ps) exactly; and it never sends more than six
   requests per chunk. *)
Lemma read_flash_exact T addr ps page fs r fs' tr :
  rf_honest addr fs -> 0 <= ps -> 0 <= page * t_ps T ->
  read_flash T addr ps page fs = (r, fs', tr) ->
  (length tr <= 6 * Z.to_nat ((ps + 24) / 25))%nat /\
  forall b, r = RBuf b -> b = zslice (t_flash T) (page * t_ps T) ps.
Proof.
  intros Hh Hps Hp E. unfold read_flash in E.
  destruct (rf_chunks (Z.to_nat ((ps + 24) / 25)) T addr page 0 [] fs) as [[r0 fs0] tr0] eqn:E0.
  destruct (rf_chunks_spec _ _ _ _ 0 [] fs r0 fs0 tr0 Hh ltac:(lia) Hp ltac:(reflexivity) E0) as (C1 & C2 & C3).
  injection E as <- <- <-. split; [exact C2|].
  intros b Hb. destruct r0 as [| |b0]; try discriminate. injection Hb as <-.
  rewrite (C3 b0 eq_refl). apply firstn_zslice.
  pose proof (Z.div_pos (ps + 24) 25 ltac:(lia) ltac:(lia)) as Hd.
  rewrite Z2Nat.id by exact Hd.
  pose proof (Z.mul_succ_div_gt (ps + 24) 25 ltac:(lia)) as H2. lia.
Qed.
