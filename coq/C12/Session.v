(* C12/Session.v — executable model of the code around _internal_flash that decides WHERE things go:
     cflib/bootloader/cloader.py   Cloader._update_info   (info packet -> page_size, buffer_pages, flash_pages, start_page)
     cflib/bootloader/__init__.py  Bootloader.flash, nRF51 bootloader+softdevice branch
                                   (erase first firmware page, override page = flash_pages - len // page_size)
   Hand-written; tied by harness/props/c12.py (update_info cases through a fake link with a virtual clock,
   and whole Bootloader.flash sessions on a zip file). *)
From CF Require Export Common.Bytes.
From CF Require Export C12.Model.
Open Scope Z_scope.

(* ------------------------------------------------------------------ the info packet *)
Record info := mkInfo {
  i_ps : Z; i_bp : Z; i_fp : Z; i_sp : Z;
  i_cpuid : list Z;                      (* 12 bytes *)
  i_pv : option Z;                       (* protocol version, present if len(data) > 22 *)
  i_ver : option (Z * Z * Z * bool) }.   (* major, minor, patch, '+' flag, present if len(data) > 26 *)

Inductive parse_res := PIgnore | PRaise | POk (i : info).

(* the body of the `if (answer and answer.header == 0xFF and unpack('<BB', data[0:2]) == (target_id, 0x10))`
   of _update_info, for one received packet.  PRaise = struct.error (data shorter than the format). *)
Definition parse_info (tid : Z) (p : pkt) : parse_res :=
  let '(h, d) := p in
  if negb (Z.lor h 12 =? 255) then PIgnore
  else if zlen d <? 2 then PRaise                                  (* struct.unpack('<BB', data[0:2]) *)
  else if negb ((zn d 0 =? tid) && (zn d 1 =? 16)) then PIgnore
  else if zlen d <? 22 then PRaise                                 (* 'BBHHHH' on data[0:10], 'B'*12 on data[10:22] *)
  else POk (mkInfo (le_val (zslice d 2 2)) (le_val (zslice d 4 2)) (le_val (zslice d 6 2)) (le_val (zslice d 8 2))
                   (zslice d 10 12)
                   (if 22 <? zlen d then Some (zn d 22) else None)
                   (if 26 <? zlen d
                    then Some (zn d 23 + 256 * Z.land (zn d 24) 127, zn d 25, zn d 26, negb (Z.land (zn d 24) 128 =? 0))
                    else None)).

(* the info packet a target with this geometry sends *)
Definition info_packet (tid ps bp fp sp : Z) (cpuid rest : list Z) : pkt :=
  (255, [tid; 16] ++ le_bytes 2 ps ++ le_bytes 2 bp ++ le_bytes 2 fp ++ le_bytes 2 sp ++ cpuid ++ rest).

(* ------------------------------------------------------------------ _update_info with a virtual clock
   Time in tenths of a second.  receive_packet(2) takes 2 s when nothing arrives and 0.1 s when a packet
   is returned.  `evs`: what each successive receive_packet returns; after the list: nothing arrives. *)
Inductive ui_res := UFalse | URaise | UMalformed | UTrue (i : info) (mapping_requested : bool).

(* _update_mapping raises Exception('Malformed flash mapping packet') on a matching reply with an odd number of mapping bytes *)
Definition mapping_malformed (tid : Z) (ev : option (option pkt)) : bool :=
  match ev with
  | Some (Some (h, d)) => (Z.lor h 12 =? 255) && (2 <=? zlen d) && (zn d 0 =? tid) && (zn d 1 =? 18) && Z.odd (zlen d - 2)
  | _ => false
  end.

Definition get_info_frame (tid : Z) : frame := [255; tid; 16].
Definition get_mapping_frame (tid : Z) : frame := [255; tid; 18].

(* nothing arrives any more: resend every 2 s until the 10 s are over (n bounds the iterations; 6 suffice) *)
Fixpoint ui_tail (n : nat) (tid t : Z) : list frame :=
  match n with
  | O => []
  | S n' => if t <? 100 then get_info_frame tid :: ui_tail n' tid (t + 20) else []
  end.

(* pv_prev: Cloader.protocol_version before the call (0xFF initially) *)
Fixpoint ui_loop (tid pv_prev t : Z) (evs : list (option pkt)) : ui_res * list frame * list (option pkt) :=
  match evs with
  | [] => (UFalse, ui_tail 6 tid t, [])
  | ev :: evs' =>
    if t <? 100 then
      match ev with
      | None => let '(r, fs, rest) := ui_loop tid pv_prev (t + 20) evs' in (r, get_info_frame tid :: fs, rest)
      | Some p =>
        match parse_info tid p with
        | PIgnore => ui_loop tid pv_prev (t + 1) evs'
        | PRaise => (URaise, [], evs')
        | POk i =>
          let pv := match i_pv i with Some v => v | None => pv_prev end in
          if (pv =? 16) && (tid =? 255)
          then ((if mapping_malformed tid (hd_error evs') then UMalformed else UTrue i true),
                [get_mapping_frame tid], tl evs')                     (* _update_mapping: one request, one receive *)
          else (UTrue i false, [], evs')
        end
      end
    else (UFalse, [], evs)
  end.

Definition update_info (tid pv_prev : Z) (evs : list (option pkt)) : ui_res * list frame * list (option pkt) :=
  let '(r, fs, rest) := ui_loop tid pv_prev 0 evs in (r, get_info_frame tid :: fs, rest).

(* ------------------------------------------------------------------ Bootloader.flash, nRF51 bootloader+softdevice *)
Definition NRF51 : Z := 254.

(* page = nrf_info.flash_pages - (len(nrf51_sdbl.content) // nrf_info.page_size) *)
Definition sdbl_page (fp ps len : Z) : Z := fp - len / ps.

(* self._internal_flash(FlashArtifact([0xFF] * page_size, target, None))
   self._internal_flash(artifact=nrf51_sdbl, page_override=page) *)
Definition flash_sdbl (ps bp fp sp : Z) (sd : list Z) (q : list pkt) (scr : list att)
  : outcome * list pkt * list att * list (frame * bool) :=
  let '(o1, q1, s1, t1) := internal_flash NRF51 ps bp fp sp None (repeat 255 (Z.to_nat ps)) q scr in
  match o1 with
  | Done =>
    let '(o2, q2, s2, t2) := internal_flash NRF51 ps bp fp sp (Some (sdbl_page fp ps (zlen sd))) sd q1 s1 in
    (o2, q2, s2, t1 ++ t2)
  | _ => (o1, q1, s1, t1)
  end.

(* observation helpers for the tie *)
Definition info_obs (i : info) : list Z :=
  [i_ps i; i_bp i; i_fp i; i_sp i] ++ i_cpuid i ++
  (match i_pv i with Some v => [1; v] | None => [0] end) ++
  (match i_ver i with Some (a, b, c, p) => [1; a; b; c; if p then 1 else 0] | None => [0] end).

Definition ui_obs (r : ui_res * list frame * list (option pkt)) : list Z :=
  let '(res, fs, rest) := r in
  (match res with UFalse => [0] | URaise => [1] | UMalformed => [3] | UTrue i m => [2; if m then 1 else 0] ++ info_obs i end) ++
  [zlen (map (fun _ => 0) rest)] ++ concat (map (fun f : frame => zlen f :: f) fs).
