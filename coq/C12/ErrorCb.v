(* C12/ErrorCb.v — the per-image loop of Bootloader.flash (_flash_flash) with error_cb as part of the UI configuration.
   The code never reads error_cb: an exception of _internal_flash propagates out of flash() whatever is installed.
   `swallow = true` is the variant in which _flash_flash catches the exception and, when error_cb is set, reports
   through it and carries on with the next image (seeded change C12-n); the code is `swallow = false`. *)
From CF Require Export Common.Bytes.
From CF Require Export C12.Model.
From CF Require Export C12.Session.
From CF Require Export C12.Plan.
From CF Require Export C12.Callbacks.
Open Scope Z_scope.

Record uicfg := mkUi { ui_progress : bool; ui_error : bool }.    (* progress_cb installed?  error_cb installed? *)

Definition is_reboot (i : pitem) : bool := match i with PReboot => true | _ => false end.

(* fw: are we inside _flash_flash (after the bootloader+softdevice step, if there is one)?
   returns: outcome, script, frames, calls started, rebooted?, number of error_cb invocations *)
Fixpoint run_plan_e (swallow : bool) (ui : uicfg) (fw : bool) (p : list pitem) (scr : list att)
  : souts * list att * list (frame * bool) * list call * bool * nat :=
  match p with
  | [] => (SDone, scr, [], [], false, O)
  | PRaise e :: _ => (SExc e, scr, [], [], false, O)
  | PReboot :: p' =>
    let '(o, s, tr, cs, _, ne) := run_plan_e swallow ui true p' scr in (o, s, tr, cs, true, ne)
  | PCall c :: p' =>
    let '(o, _, s1, t1, _) := run_call_cb (ui_progress ui) c scr in
    match o with
    | OB Done =>
      let '(o2, s2, t2, cs, rb, ne) := run_plan_e swallow ui fw p' s1 in (o2, s2, t1 ++ t2, c :: cs, rb, ne)
    | OB x =>
      if swallow && fw && ui_error ui
      then let '(o2, s2, t2, cs, rb, ne) := run_plan_e swallow ui fw p' s1 in (o2, s2, t1 ++ t2, c :: cs, rb, S ne)
      else (SFlash x, s1, t1, [c], false, O)
    | OTerminated => (SFlash Done, s1, t1, [c], false, O)
    end
  end.

Definition flash_session_e (swallow : bool) (ui : uicfg) (p : list pitem) (scr : list att) :=
  run_plan_e swallow ui (negb (existsb is_reboot p)) p scr.
