(* C12/Proofs_sequence.v — Bootloader.flash as a sequence of _internal_flash calls: which, in which order,
   with which geometry; what the whole sequence can touch. *)
From CF Require Import Common.Bytes.
From CF Require Import C12.Model.
From CF Require Import C12.Session.
From CF Require Import C12.Plan.
From CF Require Import C12.Lists.
From CF Require Import C12.Proofs_upload.
From CF Require Import C12.Proofs_write.
From CF Require Import C12.Proofs_flash.
From CF Require Import C12.Proofs.
From CF Require Import C12.Proofs_plan.
From CF Require Import C12.Proofs_override.
From Coq Require Import ZifyBool.
Open Scope Z_scope.

(* ---------------------------------------------------------------- every frame of a run carries the address *)
Definition to_addr (addr : Z) (x : frame * bool) : Prop := nth 1 (fst x) 0 = addr.

Lemma ub_loop_addr tid page address buff : forall i count r,
  Forall (fun f => nth 1 f 0 = tid) (fst (ub_loop tid page address buff i count (tid :: r))).
Proof.
  induction buff as [|b rest IH]; intros i count r; cbn [ub_loop].
  - cbn. repeat constructor.
  - destruct (24 <? count + 1).
    + unfold pack_load. destruct (u8 tid && u16 page && u16 (i + address + 1)).
      * cbn [app]. specialize (IH (i + 1) 0 (20 :: le_bytes 2 page ++ le_bytes 2 (i + address + 1))).
        destruct (ub_loop tid page address rest (i + 1) 0 _) as [fs e]. cbn [fst] in *.
        constructor; auto.
      * cbn. repeat constructor.
    + apply (IH (i + 1) (count + 1) (r ++ [b])).
Qed.

Lemma upload_addr tid page address buff :
  Forall (fun f => nth 1 f 0 = tid) (fst (upload_buffer tid page address buff)).
Proof.
  unfold upload_buffer, pack_load. destruct (u8 tid && u16 page && u16 address); [|constructor].
  cbn [app]. apply ub_loop_addr.
Qed.

Lemma write_flash_addr addr pbuf tpage n q scr r q' scr' tr :
  write_flash addr pbuf tpage n q scr = (r, q', scr', tr) -> Forall (to_addr addr) tr.
Proof.
  intros E. unfold write_flash in E. rewrite flush_spec in E. unfold pack_write in E.
  destruct (u8 addr && u16 pbuf && u16 tpage && u16 n).
  - cbn [app] in E.
    destruct (wf_loop 6 addr _ None [] scr) as [[[[pk m] q0] scr0] tr0] eqn:E0.
    destruct (wf_loop_shape _ _ _ _ _ _ _ _ _ _ _ E0) as (S1 & _).
    assert (tr = tr0).
    { destruct m; [now injection E|]. destruct pk as [[h d]|]; [|now injection E].
      destruct (zlen d <? 4); now injection E. }
    subst tr0. eapply Forall_impl; [|exact S1]. intros [f d] Hf. cbn [fst] in Hf. subst f. reflexivity.
  - injection E as _ _ _ <-. constructor.
Qed.

Lemma sent_ok_addr addr fs : Forall (fun f => nth 1 f 0 = addr) fs -> Forall (to_addr addr) (sent_ok fs).
Proof. intros H. unfold sent_ok. apply Forall_map. exact H. Qed.

Lemma page_loop_addr addr ps bp start image k : forall i ctr q scr o c q' scr' tr,
  page_loop k addr ps bp start image i ctr q scr = (o, c, q', scr', tr) -> Forall (to_addr addr) tr.
Proof.
  induction k as [|k IH]; intros i ctr q scr o c q' scr' tr E; cbn [page_loop] in E.
  - injection E as _ _ _ _ <-. constructor.
  - pose proof (upload_addr addr ctr 0 (page_chunk image ps i)) as HU.
    destruct (upload_buffer addr ctr 0 (page_chunk image ps i)) as [fs e]. cbn [fst] in HU.
    apply sent_ok_addr in HU.
    destruct e as [x|]; [now injection E as _ _ _ _ <-|].
    destruct (bp <=? ctr + 1).
    + destruct (write_flash addr 0 _ (ctr + 1) q scr) as [[[r q1] scr1] tr2] eqn:EW.
      pose proof (write_flash_addr _ _ _ _ _ _ _ _ _ _ EW) as HW.
      destruct r.
      * destruct (page_loop k addr ps bp start image (i + 1) 0 q1 scr1) as [[[[o3 c3] q3] scr3] tr3] eqn:E3.
        injection E as _ _ _ _ <-. repeat (apply Forall_app; split); eauto.
      * injection E as _ _ _ _ <-. apply Forall_app; split; auto.
      * injection E as _ _ _ _ <-. apply Forall_app; split; auto.
    + destruct (page_loop k addr ps bp start image (i + 1) (ctr + 1) q scr) as [[[[o3 c3] q3] scr3] tr3] eqn:E3.
      injection E as _ _ _ _ <-. apply Forall_app; split; eauto.
Qed.

Lemma internal_flash_addr addr ps bp fp sp override image q scr out q' scr' tr :
  internal_flash addr ps bp fp sp override image q scr = (out, q', scr', tr) -> Forall (to_addr addr) tr.
Proof.
  intros E. unfold internal_flash in E.
  destruct (zlen image =? 0); [injection E as _ _ _ <-; constructor|].
  destruct (_ <? zlen image); [injection E as _ _ _ <-; constructor|].
  destruct (page_loop _ addr ps bp _ image 0 0 q scr) as [[[[o c] q1] scr1] tr1] eqn:E1.
  pose proof (page_loop_addr _ _ _ _ _ _ _ _ _ _ _ _ _ _ _ E1) as H1.
  destruct o; try (injection E as _ _ _ <-; exact H1).
  destruct (0 <? c); [|injection E as _ _ _ <-; exact H1].
  destruct (write_flash addr 0 _ c q1 scr1) as [[[r q2] scr2] tr2] eqn:EW.
  pose proof (write_flash_addr _ _ _ _ _ _ _ _ _ _ EW) as HW.
  destruct r; injection E as _ _ _ <-; apply Forall_app; split; auto.
Qed.

Lemma deliver_not_addressed addr tr : Forall (to_addr addr) tr -> forall O, t_id O <> addr -> deliver O tr = O.
Proof.
  induction 1 as [|[f d] tr Hf _ IH]; intros O Hne; [reflexivity|].
  rewrite deliver_cons. unfold deliver1. cbn [fst snd]. unfold to_addr in Hf. cbn [fst] in Hf.
  destruct d; [|apply IH; auto].
  rewrite tgt_recv_other; [apply IH; auto|].
  destruct f as [|h [|a r]]; auto. cbn in Hf. congruence.
Qed.

(* ---------------------------------------------------------------- which artifacts the firmware phase flashes *)
(* declarative: every artifact of the platform that is not a bootloader+softdevice — provided the phase runs at all
   (empty target list, or some target of this platform named) *)
Definition wanted (platform : Z) (sels : list sel) (a : artifact) : bool :=
  (s_plat (f_sel a) =? platform) && negb (s_type (f_sel a) =? SDBL) &&
  match sels with
  | [] => true
  | _ => existsb (fun t => s_plat t =? platform) sels
  end.

Lemma filter_ext_in' {A} (f g : A -> bool) l : (forall x, f x = g x) -> filter f l = filter g l.
Proof. intros H. induction l as [|x l IH]; cbn [filter]; [reflexivity|]. now rewrite H, IH. Qed.

Lemma filter_false {A} (l : list A) : filter (fun _ => false) l = [].
Proof. induction l; auto. Qed.

Lemma existsb_nonempty_filter {A} (f : A -> bool) l : existsb f l = match filter f l with [] => false | _ => true end.
Proof. induction l as [|x l IH]; cbn [existsb filter]; [reflexivity|]. destruct (f x); cbn; auto. Qed.

(* in manifest order, each firmware artifact of the manifest once, nothing else *)
Lemma fw_selected_spec platform sels arts :
  fw_selected platform sels arts = filter (wanted platform sels) arts.
Proof.
  unfold fw_selected, wanted. destruct sels as [|t0 sels'].
  - apply filter_ext_in'. intros a. now rewrite andb_true_r.
  - set (sels := t0 :: sels'). rewrite (existsb_nonempty_filter (fun t => s_plat t =? platform) sels).
    destruct (filter (fun t => s_plat t =? platform) sels) as [|f0 fl].
    + rewrite <- (filter_false arts). apply filter_ext_in'. intros a. now rewrite andb_false_r.
    + apply filter_ext_in'. intros a. now rewrite andb_true_r.
Qed.

(* ---------------------------------------------------------------- shape of the plan: reboot => fresh cache *)
Definition fw_items (k : cache) (platform : Z) (sels : list sel) (arts : list artifact) : list pitem :=
  map (fun a => call_item k (s_target (f_sel a)) (fun _ => None) (fun _ => f_image a)) (filter (wanted platform sels) arts).

Definition sd_items (k0 : cache) (n0 : cinfo) (a : artifact) : list pitem :=
  [call_item k0 (s_target (f_sel a)) (fun _ => None) (fun _ => repeat 255 (Z.to_nat (c_ps n0)));
   call_item k0 (s_target (f_sel a)) (fun _ => Some (sdbl_page (c_fp n0) (c_ps n0) (zlen (f_image a)))) (fun _ => f_image a);
   PReboot].

(* Either flash() raises before any _internal_flash, or it flashes the selected firmware artifacts on the geometry
   held at entry (no reboot), or it first does the bootloader+softdevice step on the geometry held at entry, reboots,
   and flashes the selected firmware artifacts on the geometry learnt AFTER the reboot. *)
Lemma flash_plan_tail_shape platform k0 k1 arts sels n0 required provided cur_bl :
  let p := flash_plan_tail platform k0 k1 arts sels n0 required provided cur_bl in
  (exists e, p = [PRaise e]) \/
  p = fw_items k0 platform sels arts \/
  (exists a, In a arts /\ s_type (f_sel a) = SDBL /\ p = sd_items k0 n0 a ++ fw_items k1 platform sels arts).
Proof.
  intros p. unfold p, flash_plan_tail. rewrite fw_selected_spec.
  fold (fw_items k0 platform sels arts). fold (fw_items k1 platform sels arts).
  set (flash_arts := filter (fun a => s_plat (f_sel a) =? platform) arts).
  assert (Sd : forall x, match filter (fun a => s_type (f_sel a) =? SDBL) flash_arts with
                         | [a] => sd_items k0 n0 a ++ fw_items k1 platform sels arts
                         | _ => [PRaise OneSdblOnly] end = x ->
               (exists e, x = [PRaise e]) \/ x = fw_items k0 platform sels arts \/
               (exists a, In a arts /\ s_type (f_sel a) = SDBL /\ x = sd_items k0 n0 a ++ fw_items k1 platform sels arts)).
  { intros x <-.
    destruct (filter (fun a => s_type (f_sel a) =? SDBL) flash_arts) as [|a [|a' l'']] eqn:EF; try (left; eauto; fail).
    right. right. exists a.
    assert (Hin : In a (filter (fun a => s_type (f_sel a) =? SDBL) flash_arts)) by (rewrite EF; now left).
    apply filter_In in Hin as [Hin Ht]. apply filter_In in Hin as [Hin _].
    repeat split; auto. lia. }
  destruct (filter (fun a => s_type (f_sel a) =? SDBL) (nrf_arts flash_arts)) as [|a1 [|a2 l']]; try (left; eauto; fail).
  - destruct (match required with Some r => _ | None => false end); [left; eauto|].
    cbv zeta. destruct (if _ && ver_eqb cur_bl None then false else _).
    + apply Sd. reflexivity.
    + right. left. reflexivity.
  - destruct (match required with Some r => _ | None => false end); [left; eauto|].
    cbv zeta. destruct (if _ && ver_eqb cur_bl (Some (f_release a1)) then false else _).
    + apply Sd. reflexivity.
    + right. left. reflexivity.
Qed.

(* Either flash() raises before any _internal_flash, or it flashes the selected firmware artifacts on the geometry
   held at entry (no reboot), or it first does the bootloader+softdevice step on the geometry held at entry, reboots,
   and flashes the selected firmware artifacts on the geometry learnt AFTER the reboot. *)
Lemma flash_plan_shape platform k0 k1 arts sels :
  let p := flash_plan platform k0 k1 arts sels in
  (exists e, p = [PRaise e]) \/
  p = fw_items k0 platform sels arts \/
  (exists n0 a, k_nrf k0 = Some n0 /\ In a arts /\ s_type (f_sel a) = SDBL /\
                p = sd_items k0 n0 a ++ fw_items k1 platform sels arts).
Proof.
  intros p. unfold p, flash_plan.
  destruct (k_nrf k0) as [n0|]; [|left; eauto].
  destruct (negb ((c_sp n0 =? 88) || (c_sp n0 =? 108))); [left; eauto|].
  destruct (first_and_conflict None (concat (map f_requires (nrf_arts (filter _ arts))))) as [required cr].
  destruct cr; [left; eauto|].
  destruct (first_and_conflict None (concat (map f_provides (nrf_arts (filter _ arts))))) as [provided cp].
  destruct cp; [left; eauto|].
  destruct (c_ver n0) as [[[[va vb] vc] [|]]|].
  - left; eauto.
  - destruct (flash_plan_tail_shape platform k0 k1 arts sels n0 required provided (Some (va, vb, vc)))
      as [H|[H|(a & H1 & H2 & H3)]]; [left|right; left|right; right]; auto. exists n0, a. auto.
  - destruct (flash_plan_tail_shape platform k0 k1 arts sels n0 required provided None)
      as [H|[H|(a & H1 & H2 & H3)]]; [left|right; left|right; right]; auto. exists n0, a. auto.
Qed.

(* ---------------------------------------------------------------- executing the plan *)
Fixpoint calls_of (p : list pitem) : list call :=
  match p with
  | [] => []
  | PCall c :: p' => c :: calls_of p'
  | _ :: p' => calls_of p'
  end.

(* calls are started in plan order, each once, and all of them when flash() returns normally *)
Lemma run_plan_calls p : forall scr o s tr cs rb,
  run_plan p scr = (o, s, tr, cs, rb) ->
  exists rest, calls_of p = cs ++ rest /\ (o = SDone -> rest = []).
Proof.
  induction p as [|it p IH]; intros scr o s tr cs rb E; cbn [run_plan] in E.
  - injection E as <- _ _ <- _. exists []. auto.
  - destruct it as [c|e|].
    + cbn [calls_of]. unfold run_call in E.
      destruct (internal_flash (l_tid c) (l_ps c) (l_bp c) (l_fp c) (l_sp c) (l_override c) (l_image c) [] scr)
        as [[[o1 q1] s1] t1] eqn:E1.
      destruct o1.
      * destruct (run_plan p s1) as [[[[o2 s2] t2] cs2] rb2] eqn:E2.
        injection E as <- _ _ <- _. destruct (IH _ _ _ _ _ _ E2) as (rest & H1 & H2).
        exists rest. cbn [app]. rewrite H1. auto.
      * injection E as <- _ _ <- _. exists (calls_of p). split; [reflexivity|discriminate].
      * injection E as <- _ _ <- _. exists (calls_of p). split; [reflexivity|discriminate].
      * injection E as <- _ _ <- _. exists (calls_of p). split; [reflexivity|discriminate].
    + injection E as <- _ _ <- _. exists (calls_of (PRaise e :: p)). split; [reflexivity|discriminate].
    + destruct (run_plan p scr) as [[[[o2 s2] t2] cs2] rb2] eqn:E2.
      injection E as <- _ _ <- _. cbn [calls_of]. eapply IH; eauto.
Qed.

(* a target no call of the plan is addressed to is not modified, whatever happens *)
Lemma run_plan_untouched p : forall scr o s tr cs rb O,
  run_plan p scr = (o, s, tr, cs, rb) ->
  (forall c, In c (calls_of p) -> l_tid c <> t_id O) ->
  deliver O tr = O.
Proof.
  induction p as [|it p IH]; intros scr o s tr cs rb O E Hn; cbn [run_plan] in E.
  - now injection E as _ _ <- _ _.
  - destruct it as [c|e|].
    + cbn [calls_of] in Hn. unfold run_call in E.
      destruct (internal_flash (l_tid c) (l_ps c) (l_bp c) (l_fp c) (l_sp c) (l_override c) (l_image c) [] scr)
        as [[[o1 q1] s1] t1] eqn:E1.
      assert (H1 : deliver O t1 = O).
      { eapply deliver_not_addressed; [eapply internal_flash_addr; eauto|].
        intros Hc. apply (Hn c); [now left|auto]. }
      destruct o1; try (injection E as _ _ <- _ _; exact H1).
      destruct (run_plan p s1) as [[[[o2 s2] t2] cs2] rb2] eqn:E2.
      injection E as _ _ <- _ _. rewrite deliver_app, H1.
      eapply IH; eauto. intros c' Hc'. apply Hn. now right.
    + now injection E as _ _ <- _ _.
    + destruct (run_plan p scr) as [[[[o2 s2] t2] cs2] rb2] eqn:E2.
      injection E as _ _ <- _ _. eapply IH; eauto.
Qed.

(* the bytes of a target's flash a call may change *)
Definition call_range (c : call) (a : Z) : Prop :=
  let start := eff_start (l_sp c) (l_override c) in
  start * l_ps c <= a < (start + npages (zlen (l_image c)) (l_ps c)) * l_ps c.

(* a call addressed to T uses T's real geometry (what T reported), a non-empty image and a non-negative page *)
Definition call_sane (T : target) (c : call) : Prop :=
  l_tid c = t_id T ->
  l_ps c = t_ps T /\ l_bp c = t_bp T /\ l_fp c = t_fp T /\ 1 <= zlen (l_image c) /\ 0 <= eff_start (l_sp c) (l_override c).

Lemma run_plan_safe p : forall scr T o s tr cs rb,
  geom_ok T -> t_oob T = false -> u8 (t_id T) = true ->
  Forall (call_sane T) (calls_of p) ->
  run_plan p scr = (o, s, tr, cs, rb) ->
  let T' := deliver T tr in
  geom_ok T' /\ t_oob T' = false /\
  (t_id T', t_ps T', t_bp T', t_fp T') = (t_id T, t_ps T, t_bp T, t_fp T) /\
  zlen (t_flash T') = zlen (t_flash T) /\
  forall a, 0 <= a < zlen (t_flash T) ->
            (forall c, In c cs -> l_tid c = t_id T -> ~ call_range c a) ->
            zn (t_flash T') a = zn (t_flash T) a.
Proof.
  induction p as [|it p IH]; intros scr T o s tr cs rb HG Ho Ha Hs E; cbn [run_plan] in E.
  - injection E as _ _ <- _ _. cbn [deliver fold_left]. repeat split; auto; apply HG.
  - destruct it as [c|e|].
    + cbn [calls_of] in Hs. inversion Hs as [|x l Hc Hs']; subst x l. unfold run_call in E.
      destruct (internal_flash (l_tid c) (l_ps c) (l_bp c) (l_fp c) (l_sp c) (l_override c) (l_image c) [] scr)
        as [[[o1 q1] s1] t1] eqn:E1.
      (* the state after this call *)
      assert (Step : let T1 := deliver T t1 in
                     geom_ok T1 /\ t_oob T1 = false /\
                     (t_id T1, t_ps T1, t_bp T1, t_fp T1) = (t_id T, t_ps T, t_bp T, t_fp T) /\
                     zlen (t_flash T1) = zlen (t_flash T) /\
                     forall a, 0 <= a < zlen (t_flash T) -> (l_tid c = t_id T -> ~ call_range c a) ->
                               zn (t_flash T1) a = zn (t_flash T) a).
      { destruct (Z.eq_dec (l_tid c) (t_id T)) as [Heq|Hne].
        - destruct (Hc Heq) as (Hp & Hb & Hf & Hl & Hst).
          rewrite Heq, Hp, Hb, Hf in E1.
          assert (Hpre : run_pre T (eff_start (l_sp c) (l_override c)) (l_image c)) by (unfold run_pre; auto).
          destruct (nothing_outside T (l_sp c) (l_override c) (l_image c) [] scr o1 q1 s1 t1 Hpre E1)
            as (N1 & N2 & N3 & N4 & N5 & _).
          cbv zeta. injection N2 as Gi Gp Gb Gf.
          split; [|split; [exact N1|split; [now rewrite Gi, Gp, Gb, Gf|split; [exact N3|]]]].
          + destruct HG as (G1 & G2 & G3 & G4 & G5). unfold geom_ok. rewrite Gp, Gb, Gf, N3, N4. auto.
          + intros a Ha' Hr. apply N5; auto. intros Hin. apply (Hr Heq). unfold call_range. rewrite Hp. exact Hin.
        - assert (H1 : deliver T t1 = T).
          { eapply deliver_not_addressed; [eapply internal_flash_addr; eauto|congruence]. }
          cbv zeta. rewrite H1. repeat split; auto; apply HG. }
      cbv zeta in Step. destruct Step as (S1 & S2 & S3 & S4 & S5).
      destruct o1;
        try (injection E as _ _ <- <- _; cbv zeta;
             split; [exact S1|]; split; [exact S2|]; split; [exact S3|]; split; [exact S4|];
             intros a Ha' Hr; apply S5; auto; intros Heq; apply Hr; [now left|exact Heq]).
      destruct (run_plan p s1) as [[[[o2 s2] t2] cs2] rb2] eqn:E2.
      injection E as _ _ <- <- _.
      injection S3 as Gi Gp Gb Gf.
      assert (Hs1 : Forall (call_sane (deliver T t1)) (calls_of p)).
      { eapply Forall_impl; [|exact Hs']. intros c' Hc'. unfold call_sane in *. rewrite Gi, Gp, Gb, Gf. exact Hc'. }
      destruct (IH s1 (deliver T t1) o2 s2 t2 cs2 rb2 S1 S2 ltac:(rewrite Gi; exact Ha) Hs1 E2)
        as (I1 & I2 & I3 & I4 & I5).
      cbv zeta. rewrite deliver_app.
      split; [exact I1|]. split; [exact I2|]. split; [rewrite I3; now rewrite Gi, Gp, Gb, Gf|].
      split; [lia|].
      intros a Ha' Hr. rewrite I5.
      * apply S5; auto. intros Heq. apply Hr; [now left|exact Heq].
      * lia.
      * intros c' Hin Heq. apply Hr; [now right|]. now rewrite <- Gi.
    + injection E as _ _ <- _ _. cbn [deliver fold_left]. repeat split; auto; apply HG.
    + destruct (run_plan p scr) as [[[[o2 s2] t2] cs2] rb2] eqn:E2.
      injection E as _ _ <- <- _. cbn [calls_of] in Hs. eapply IH; eauto.
Qed.
