(* C12/Proofs_errorcb.v — flash() stops at the first failed image whatever callbacks are installed *)
From CF Require Import Common.Bytes.
From CF Require Import C12.Model.
From CF Require Import C12.Session.
From CF Require Import C12.Plan.
From CF Require Import C12.Callbacks.
From CF Require Import C12.ErrorCb.
From CF Require Import C12.Proofs_callbacks.
From Coq Require Import ZifyBool.
Open Scope Z_scope.

(* the code (swallow = false): for every UI configuration the session is the session without callbacks, and error_cb
   is never invoked *)
Lemma run_plan_e_same ui p : forall fw scr,
  run_plan_e false ui fw p scr = (let '(o, s, tr, cs, rb) := run_plan p scr in (o, s, tr, cs, rb, O)).
Proof.
  induction p as [|it p IH]; intros fw scr; cbn [run_plan_e run_plan]; [reflexivity|].
  destruct it as [c|e|].
  - unfold run_call_cb, run_call.
    destruct (internal_flash_cb_same (ui_progress ui) None (l_tid c) (l_ps c) (l_bp c) (l_fp c) (l_sp c) (l_override c)
                                     (l_image c) [] scr) as (lg & E).
    { intros (l & [=] & _). }
    rewrite E.
    destruct (internal_flash (l_tid c) (l_ps c) (l_bp c) (l_fp c) (l_sp c) (l_override c) (l_image c) [] scr)
      as [[[o q1] s1] t1].
    destruct o; cbn [andb]; try reflexivity.
    rewrite IH. destruct (run_plan p s1) as [[[[o2 s2] t2] cs2] rb2]. reflexivity.
  - reflexivity.
  - rewrite IH. destruct (run_plan p scr) as [[[[o2 s2] t2] cs2] rb2]. reflexivity.
Qed.

(* the fold stops at the first failure: when the images of p1 succeed and image c fails, the session ends with that
   failure and its frames are those of p1 followed by those of c — nothing of p2 is sent, whatever p2 is *)
Lemma run_plan_stops_at_first_failure p1 : forall scr s1 t1 cs1 rb1 c p2 o q2 s2 t2,
  run_plan p1 scr = (SDone, s1, t1, cs1, rb1) ->
  run_call c s1 = (o, q2, s2, t2) -> o <> Done ->
  exists rb, run_plan (p1 ++ PCall c :: p2) scr = (SFlash o, s2, t1 ++ t2, cs1 ++ [c], rb).
Proof.
  induction p1 as [|it p1 IH]; intros scr s1 t1 cs1 rb1 c p2 o q2 s2 t2 E1 Ec Ho.
  - cbn [run_plan] in E1. injection E1 as <- <- <- _. cbn [app run_plan]. rewrite Ec.
    exists false. destruct o; try reflexivity. congruence.
  - cbn [app run_plan] in *. destruct it as [c0|e|].
    + destruct (run_call c0 scr) as [[[o0 q0] s0] t0]. destruct o0; try discriminate.
      destruct (run_plan p1 s0) as [[[[o3 s3] t3] cs3] rb3] eqn:E3.
      injection E1 as -> <- <- <- _.
      destruct (IH s0 s3 t3 cs3 rb3 c p2 o q2 s2 t2 E3 Ec Ho) as (rb & E). rewrite E.
      exists rb. now rewrite <- app_assoc.
    + discriminate.
    + destruct (run_plan p1 scr) as [[[[o3 s3] t3] cs3] rb3] eqn:E3.
      injection E1 as -> <- <- <- _.
      destruct (IH scr s3 t3 cs3 rb3 c p2 o q2 s2 t2 E3 Ec Ho) as (rb & E). rewrite E. eauto.
Qed.

(* REFUTATION of "report through error_cb and carry on" (seeded change C12-n): STM32 firmware whose flash-write is
   answered negatively, then an nRF51 firmware; error_cb installed.  The code raises after the STM32 frames; the
   variant calls error_cb once, goes on to program the nRF51 and returns normally. *)
Definition eK : cache := mkCache (Some (mkC 4 2 8 1 None)) (Some (mkC 4 1 112 108 None)).
Definition eArts : list artifact :=
  [mkArt (mkSel 2 255 1) [7;7;7] [] [] (2024, 2, 1); mkArt (mkSel 2 254 1) [9;9;9;9;9] [130] [] (2024, 2, 1)].
Definition eScript : list att := [mkA false [(255, [255; 24; 0; 9])] []].
Definition eNrf : target := mkT 254 4 1 112 (repeat 0 4) (repeat 238 448) false.

Lemma swallow_refuted :
  let p := flash_plan 2 eK eK eArts [] in
  let '(o, _, tr, cs, _, ne) := flash_session_e false (mkUi true true) p eScript in
  let '(o', _, tr', cs', _, ne') := flash_session_e true (mkUi true true) p eScript in
  o = SFlash WriteFailed /\ length cs = 1%nat /\ ne = O /\ deliver eNrf tr = eNrf /\
  o' = SDone /\ length cs' = 2%nat /\ ne' = 1%nat /\
  zslice (t_flash (deliver eNrf tr')) (108 * 4) 5 = [9;9;9;9;9] /\
  (let '(o'', _, tr'', _, _, _) := flash_session_e true (mkUi true false) p eScript in o'' = SFlash WriteFailed /\ tr'' = tr).
Proof. vm_compute. repeat split; reflexivity. Qed.
