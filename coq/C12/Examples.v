(* C12/Examples.v — non-vacuity: concrete runs meeting the hypotheses of the theorems of Property.v *)
From CF Require Import Common.Bytes.
From CF Require Import C12.Model.
From CF Require Import C12.Lists.
From CF Require Import C12.Proofs_upload.
From CF Require Import C12.Proofs_write.
From CF Require Import C12.Proofs_flash.
From CF Require Import C12.Proofs.
Open Scope Z_scope.

(* target 0xFF: 4-byte pages, 2 buffer pages, 6 flash pages, start page 1; a 10-byte image (3 pages:
   one full buffer + a partial page); the first flash-write is lost once on the way up and its reply is
   lost once, the second is acknowledged late *)
Definition exT : target := mkT 255 4 2 6 [1;2;3;4;5;6;7;8] (repeat 9 24) false.
Definition exImage : list Z := [10;11;12;13;14;15;16;17;18;19].
Definition exScript : list att :=
  [mkA false [] []; mkA true [] []; mkA true [ack_ok 255] []; mkA true [] [ack_ok 255]; mkA false [(255, [255; 20])] []].
Definition exRun := internal_flash 255 4 2 6 1 None exImage [ack_ok 255] exScript.

Example ex_pre : run_pre exT 1 exImage.
Proof. unfold run_pre, geom_ok, exT, exImage. cbn. repeat split; lia. Qed.

Example ex_fits : fits exT 1 exImage.
Proof. unfold fits, exT, exImage. cbn. lia. Qed.

Example ex_honest : Forall (att_honest 255) exScript.
Proof.
  unfold exScript.
  repeat (apply Forall_cons; [first [left; reflexivity | right; cbn; repeat constructor]|]).
  apply Forall_nil.
Qed.

Example ex_done : fst (fst (fst exRun)) = Done /\ length (snd exRun) = 8%nat.
Proof. vm_compute. split; reflexivity. Qed.

Example ex_flash : t_flash (deliver exT (snd exRun)) =
  [9;9;9;9; 10;11;12;13; 14;15;16;17; 18;19;12;13; 9;9;9;9; 9;9;9;9].
Proof. vm_compute. reflexivity. Qed.

(* an aborted run: the first flash-write is never answered *)
Definition exSilent : list att := repeat (mkA true [] []) 6.
Example ex_abort : fst (fst (fst (internal_flash 255 4 2 6 1 None exImage [] exSilent))) = WriteFailed /\
                   length (snd (internal_flash 255 4 2 6 1 None exImage [] exSilent)) = 8%nat.
Proof. vm_compute. split; reflexivity. Qed.

Example ex_silent : Forall (att_silent 255) (firstn 6 exSilent).
Proof. cbn. repeat constructor. Qed.

(* a refused image: 21 bytes into 5 pages of 4 *)
Example ex_refused : fst (fst (fst (internal_flash 255 4 2 6 1 None (repeat 0 21) [] []))) = Refused.
Proof. vm_compute. reflexivity. Qed.
