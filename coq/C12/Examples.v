(* C12/Examples.v — non-vacuity: concrete runs meeting the hypotheses of the theorems of Property.v *)
From CF Require Import Common.Bytes.
From CF Require Import C12.Model.
From CF Require Import C12.Lists.
From CF Require Import C12.Proofs_upload.
From CF Require Import C12.Proofs_write.
From CF Require Import C12.Proofs_flash.
From CF Require Import C12.Proofs.
From CF Require Import C12.Session.
From CF Require Import C12.Proofs_session.
Open Scope Z_scope.

(* target 0xFF: 4-byte pages, 2 buffer pages, 6 flash pages, start page 1; a 10-byte image (3 pages:
   one full buffer + a partial page); the first flash-write is lost once on the way up and its reply is
   lost once, the second is acknowledged late *)
Definition exT : target := mkT 255 4 2 6 [1;2;3;4;5;6;7;8] (repeat 9 24) false.
Definition exImage : list Z := [10;11;12;13;14;15;16;17;18;19].
Definition exScript : list att :=
  [mkA false [] []; mkA true [] []; mkA true [ack_ok 255] []; mkA true [] [ack_ok 255]; mkA false [(255, [255; 20])] []].
Definition exRun := internal_flash 255 4 2 6 1 None exImage [ack_ok 255] exScript.

Example ex_pre : run_pre exT 1 exImage.
Proof. unfold run_pre, geom_ok, exT, exImage. cbn. repeat split; lia. Qed.

Example ex_fits : fits exT 1 exImage.
Proof. unfold fits, exT, exImage. cbn. lia. Qed.

Example ex_honest : Forall (att_honest 255) exScript.
Proof.
  unfold exScript.
  repeat (apply Forall_cons; [first [left; reflexivity | right; cbn; repeat constructor]|]).
  apply Forall_nil.
Qed.

Example ex_done : fst (fst (fst exRun)) = Done /\ length (snd exRun) = 8%nat.
Proof. vm_compute. split; reflexivity. Qed.

Example ex_flash : t_flash (deliver exT (snd exRun)) =
  [9;9;9;9; 10;11;12;13; 14;15;16;17; 18;19;12;13; 9;9;9;9; 9;9;9;9].
Proof. vm_compute. reflexivity. Qed.

(* an aborted run: the first flash-write is never answered *)
Definition exSilent : list att := repeat (mkA true [] []) 6.
Example ex_abort : fst (fst (fst (internal_flash 255 4 2 6 1 None exImage [] exSilent))) = WriteFailed /\
                   length (snd (internal_flash 255 4 2 6 1 None exImage [] exSilent)) = 8%nat.
Proof. vm_compute. split; reflexivity. Qed.

Example ex_silent : Forall (att_silent 255) (firstn 6 exSilent).
Proof. cbn. repeat constructor. Qed.

(* a refused image: 21 bytes into 5 pages of 4 *)
Example ex_refused : fst (fst (fst (internal_flash 255 4 2 6 1 None (repeat 0 21) [] []))) = Refused.
Proof. vm_compute. reflexivity. Qed.

(* ---- round 2 ---- *)
(* nRF51 target: 4-byte pages, 1 buffer page, 8 flash pages, start page 2; an 8-byte (2-page) sd+bl image:
   first firmware page erased, image in pages 6..7; one flash-write reply lost on the way *)
Definition exN : target := mkT 254 4 1 8 [0;0;0;0] (repeat 7 32) false.
Definition exSd : list Z := [1;2;3;4;5;6;7;8].
Definition exSdRun := flash_sdbl 4 1 8 2 exSd [] [mkA true [] []].

Example ex_sd_pre : run_pre exN 2 (repeat 255 (Z.to_nat 4)).
Proof. unfold run_pre, geom_ok. repeat split; try reflexivity; vm_compute; discriminate. Qed.

Example ex_sd_done : fst (fst (fst exSdRun)) = Done /\ sdbl_page 8 4 (zlen exSd) = 6.
Proof. vm_compute. split; reflexivity. Qed.

Example ex_sd_flash : t_flash (deliver exN (snd exSdRun)) =
  [7;7;7;7; 7;7;7;7; 255;255;255;255; 7;7;7;7; 7;7;7;7; 7;7;7;7; 1;2;3;4; 5;6;7;8].
Proof. vm_compute. reflexivity. Qed.

(* an image that is not a whole number of pages is refused after the erase *)
Example ex_sd_refused : fst (fst (fst (flash_sdbl 4 1 8 2 [1;2;3;4;5] [] []))) = Refused.
Proof. vm_compute. reflexivity. Qed.

(* negative override: struct.error, only loads were sent *)
Example ex_bad_override :
  fst (fst (fst (internal_flash 255 4 2 6 1 (Some (-1)) exImage [] []))) = Raised StructError /\
  length (snd (internal_flash 255 4 2 6 1 (Some (-1)) exImage [] [])) = 2%nat.
Proof. vm_compute. split; reflexivity. Qed.

(* the STM32 info packet of a Crazyflie 2: 1024-byte pages, 10 buffer pages, 1024 flash pages, start page 16 *)
Example ex_info :
  match parse_info 255 (info_packet 255 1024 10 1024 16 (repeat 0 12) [16]) with
  | POk i => (i_ps i, i_bp i, i_fp i, i_sp i, i_pv i) = (1024, 10, 1024, 16, Some 16)
  | _ => False
  end.
Proof. vm_compute. reflexivity. Qed.

Example ex_update_info :
  fst (fst (update_info 254 255 [None; Some (255, [255; 16]); Some (info_packet 254 1024 1 232 88 (repeat 0 12) [16])])) =
  UTrue (mkInfo 1024 1 232 88 (repeat 0 12) (Some 16) None) false.
Proof. vm_compute. reflexivity. Qed.
