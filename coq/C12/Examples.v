(* C12/Examples.v — non-vacuity: concrete runs meeting the hypotheses of the theorems of Property.v *)
From CF Require Import Common.Bytes.
From CF Require Import C12.Model.
From CF Require Import C12.Lists.
From CF Require Import C12.Proofs_upload.
From CF Require Import C12.Proofs_write.
From CF Require Import C12.Proofs_flash.
From CF Require Import C12.Proofs.
From CF Require Import C12.Session.
From CF Require Import C12.Proofs_session.
From CF Require Import C12.Plan.
From CF Require Import C12.Proofs_sequence.
From CF Require Import C12.Proofs_read.
From CF Require Import C12.Proofs_plan.
From CF Require Import C12.Refute.
Open Scope Z_scope.

(* target 0xFF: 4-byte pages, 2 buffer pages, 6 flash pages, start page 1; a 10-byte image (3 pages:
   one full buffer + a partial page); the first flash-write is lost once on the way up and its reply is
   lost once, the second is acknowledged late *)
Definition exT : target := mkT 255 4 2 6 [1;2;3;4;5;6;7;8] (repeat 9 24) false.
Definition exImage : list Z := [10;11;12;13;14;15;16;17;18;19].
Definition exScript : list att :=
  [mkA false [] []; mkA true [] []; mkA true [ack_ok 255] []; mkA true [] [ack_ok 255]; mkA false [(255, [255; 20])] []].
Definition exRun := internal_flash 255 4 2 6 1 None exImage [ack_ok 255] exScript.

Example ex_pre : run_pre exT 1 exImage.
Proof. unfold run_pre, geom_ok, exT, exImage. cbn. repeat split; lia. Qed.

Example ex_fits : fits exT 1 exImage.
Proof. unfold fits, exT, exImage. cbn. lia. Qed.

Example ex_honest : Forall (att_honest 255) exScript.
Proof.
  unfold exScript.
  repeat (apply Forall_cons; [first [left; reflexivity | right; cbn; repeat constructor]|]).
  apply Forall_nil.
Qed.

Example ex_done : fst (fst (fst exRun)) = Done /\ length (snd exRun) = 8%nat.
Proof. vm_compute. split; reflexivity. Qed.

Example ex_flash : t_flash (deliver exT (snd exRun)) =
  [9;9;9;9; 10;11;12;13; 14;15;16;17; 18;19;12;13; 9;9;9;9; 9;9;9;9].
Proof. vm_compute. reflexivity. Qed.

(* an aborted run: the first flash-write is never answered *)
Definition exSilent : list att := repeat (mkA true [] []) 6.
Example ex_abort : fst (fst (fst (internal_flash 255 4 2 6 1 None exImage [] exSilent))) = WriteFailed /\
                   length (snd (internal_flash 255 4 2 6 1 None exImage [] exSilent)) = 8%nat.
Proof. vm_compute. split; reflexivity. Qed.

Example ex_silent : Forall (att_silent 255) (firstn 6 exSilent).
Proof. cbn. repeat constructor. Qed.

(* a refused image: 21 bytes into 5 pages of 4 *)
Example ex_refused : fst (fst (fst (internal_flash 255 4 2 6 1 None (repeat 0 21) [] []))) = Refused.
Proof. vm_compute. reflexivity. Qed.

(* ---- round 2 ---- *)
(* nRF51 target: 4-byte pages, 1 buffer page, 8 flash pages, start page 2; an 8-byte (2-page) sd+bl image:
   first firmware page erased, image in pages 6..7; one flash-write reply lost on the way *)
Definition exN : target := mkT 254 4 1 8 [0;0;0;0] (repeat 7 32) false.
Definition exSd : list Z := [1;2;3;4;5;6;7;8].
Definition exSdRun := flash_sdbl 4 1 8 2 exSd [] [mkA true [] []].

Example ex_sd_pre : run_pre exN 2 (repeat 255 (Z.to_nat 4)).
Proof. unfold run_pre, geom_ok. repeat split; try reflexivity; vm_compute; discriminate. Qed.

Example ex_sd_done : fst (fst (fst exSdRun)) = Done /\ sdbl_page 8 4 (zlen exSd) = 6.
Proof. vm_compute. split; reflexivity. Qed.

Example ex_sd_flash : t_flash (deliver exN (snd exSdRun)) =
  [7;7;7;7; 7;7;7;7; 255;255;255;255; 7;7;7;7; 7;7;7;7; 7;7;7;7; 1;2;3;4; 5;6;7;8].
Proof. vm_compute. reflexivity. Qed.

(* an image that is not a whole number of pages is refused after the erase *)
Example ex_sd_refused : fst (fst (fst (flash_sdbl 4 1 8 2 [1;2;3;4;5] [] []))) = Refused.
Proof. vm_compute. reflexivity. Qed.

(* negative override: struct.error, only loads were sent *)
Example ex_bad_override :
  fst (fst (fst (internal_flash 255 4 2 6 1 (Some (-1)) exImage [] []))) = Raised StructError /\
  length (snd (internal_flash 255 4 2 6 1 (Some (-1)) exImage [] [])) = 2%nat.
Proof. vm_compute. split; reflexivity. Qed.

(* the STM32 info packet of a Crazyflie 2: 1024-byte pages, 10 buffer pages, 1024 flash pages, start page 16 *)
Example ex_info :
  match parse_info 255 (info_packet 255 1024 10 1024 16 (repeat 0 12) [16]) with
  | POk i => (i_ps i, i_bp i, i_fp i, i_sp i, i_pv i) = (1024, 10, 1024, 16, Some 16)
  | _ => False
  end.
Proof. vm_compute. reflexivity. Qed.

Example ex_update_info :
  fst (fst (update_info 254 255 [None; Some (255, [255; 16]); Some (info_packet 254 1024 1 232 88 (repeat 0 12) [16])])) =
  UTrue (mkInfo 1024 1 232 88 (repeat 0 12) (Some 16) None) false.
Proof. vm_compute. reflexivity. Qed.

(* ---- growth round ---- *)
(* A zip with the nRF51 bootloader+softdevice (2 pages), an nRF51 firmware and an STM32 firmware; the device runs
   s110 (start page 88) and, after the reboot into the new bootloader, reports start page 108. *)
Definition exStm : target := mkT 255 4 2 6 (repeat 0 8) (repeat 238 24) false.
(* the real plan: erase page 88, soft device at pages 110..111, reboot, nRF51 firmware at page 108, STM32 at page 1 *)
Example ex_plan_calls :
  map (fun c => (l_tid c, eff_start (l_sp c) (l_override c))) (calls_of (flash_plan 2 exK0 exK1 exArts [])) =
  [(254, 88); (254, 110); (254, 108); (255, 1)].
Proof. vm_compute. reflexivity. Qed.

Example ex_plan_done :
  let '(o, _, tr, cs, rb) := run_plan (flash_plan 2 exK0 exK1 exArts []) [] in
  o = SDone /\ length cs = 4%nat /\ rb = true /\
  zslice (t_flash (deliver exNrf tr)) (108 * 4) 5 = [9;9;9;9;9] /\
  zslice (t_flash (deliver exNrf tr)) (88 * 4) 4 = [255;255;255;255].
Proof. vm_compute. repeat split; reflexivity. Qed.

(* naming only the STM32 firmware changes nothing: same calls (see C12_target_list_ignored_observation);
   naming only a deck target skips the firmware phase (the soft-device prerequisite step still runs) *)
Example ex_plan_selected :
  map (fun c => (l_tid c, eff_start (l_sp c) (l_override c)))
      (calls_of (flash_plan 2 exK0 exK1 exArts [mkSel 2 255 1])) = [(254, 88); (254, 110); (254, 108); (255, 1)] /\
  map (fun c => (l_tid c, eff_start (l_sp c) (l_override c)))
      (calls_of (flash_plan 2 exK0 exK1 exArts [mkSel 3 1000 1])) = [(254, 88); (254, 110)].
Proof. vm_compute. split; reflexivity. Qed.

(* read_flash of the last page of a 3-page flash with 26-byte pages (two chunks, the second clipped by the end of the
   flash), first request lost, a stale reply for offset 0 arriving in place of the second chunk once *)
Definition exR : target := mkT 255 26 1 3 (repeat 0 26) (map (fun a => a mod 251) (zrange 0 78)) false.
Example ex_read :
  fst (fst (read_flash exR 255 26 2 [RLost; RGood; RWrong (device_read exR 2 0); RGood])) =
  RBuf (map (fun a => a mod 251) (zrange 52 26)).
Proof. vm_compute. reflexivity. Qed.

Example ex_read_honest : rf_honest 254 [RLost; RWrong (255, [255; 28; 0; 0; 0; 0; 1]); RWrong (0, [254; 28; 0; 0; 0; 0])].
Proof. repeat constructor. Qed.

Example ex_read_six_lost : fst (fst (read_flash exR 255 26 0 (repeat RLost 6))) = RNone.
Proof. vm_compute. reflexivity. Qed.
