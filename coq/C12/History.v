(* C12/History.v — several flashes on ONE Bootloader/Cloader object.
   What one _internal_flash hands on to the next is, in the code, only the link (its downlink queue) and the
   position in the environment's script: the buffer counter `ctr` is a local variable that starts at 0.
   Also modelled: an exception raised by the link inside send_packet (USB/radio error) at the n-th frame of a
   flash: nothing catches it, so exactly the first n-1 frames went out.
   `internal_flash_leftover k` is the variant whose buffer counter starts at k (a counter that survived an
   earlier abort — seeded change C12-j); the code is k = 0. *)
From CF Require Export Common.Bytes.
From CF Require Export C12.Model.
From CF Require Export C12.Session.
From CF Require Export C12.Plan.
From CF Require Export C12.Callbacks.
Open Scope Z_scope.

Record flash_req := mkReq {
  r_cfg : cbcfg; r_addr : Z; r_ps : Z; r_bp : Z; r_fp : Z; r_sp : Z; r_override : option Z; r_image : list Z;
  r_link_exc : option nat }.                  (* Some n: the link raises at the n-th send_packet of this flash *)

Definition is_write_fr (x : frame * bool) : bool :=
  match fst x with _ :: _ :: c :: _ => c =? 24 | _ => false end.

(* outcome code (7 = exception from the link), queue, script, frames *)
Definition flash_step (r : flash_req) (q : list pkt) (scr : list att)
  : Z * list pkt * list att * list (frame * bool) :=
  let '(o, q', s', tr, _) :=
      internal_flash_cb false (r_cfg r) (r_addr r) (r_ps r) (r_bp r) (r_fp r) (r_sp r) (r_override r) (r_image r) q scr in
  match r_link_exc r with
  | Some n =>
    if (n <=? length tr)%nat
    then let sent := firstn (n - 1) tr in
         (7, [], skipn (length (filter is_write_fr sent)) scr, sent)   (* one script entry per flash-write sent *)
    else (ocb_code o, q', s', tr)
  | None => (ocb_code o, q', s', tr)
  end.

Fixpoint run_history (h : list flash_req) (q : list pkt) (scr : list att)
  : list (Z * list (frame * bool)) :=
  match h with
  | [] => []
  | r :: h' =>
    let '(code, q', s', tr) := flash_step r q scr in
    (code, tr) :: run_history h' q' s'
  end.

(* the variant with a buffer counter that starts at k *)
Definition internal_flash_leftover (k : Z) (addr ps bp fp sp : Z) (override : option Z) (image : list Z)
           (q : list pkt) (scr : list att)
  : outcome * list pkt * list att * list (frame * bool) :=
  let start := eff_start sp override in
  let len := zlen image in
  if len =? 0 then (Raised ZeroDivisionError, q, scr, [])
  else if (fp - start) * ps <? len then (Refused, q, scr, [])
  else
    let last := py_int_div (len - 1) ps in
    let '(o, ctr, q1, scr1, tr1) :=
        page_loop (Z.to_nat (last + 1)) addr ps bp start image 0 k q scr in
    match o with
    | Done =>
      if 0 <? ctr then
        let '(r, q2, scr2, tr2) := write_flash addr 0 (start + last - (ctr - 1)) ctr q1 scr1 in
        match r with
        | WTrue => (Done, q2, scr2, tr1 ++ tr2)
        | WFalse => (WriteFailed, q2, scr2, tr1 ++ tr2)
        | WRaise x => (Raised x, q2, scr2, tr1 ++ tr2)
        end
      else (Done, q1, scr1, tr1)
    | _ => (o, q1, scr1, tr1)
    end.
