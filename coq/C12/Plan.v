(* C12/Plan.v — executable model of Bootloader.flash as a whole: which artifacts of a zip are flashed,
   to which target, in which order, with which geometry (the per-target info cache of Cloader.targets
   and its replacement after the reboot into a freshly flashed nRF51 bootloader); and of
   Cloader.read_flash.

     cflib/bootloader/__init__.py  Bootloader.flash, _flash_flash (as it is: the target list is not consulted),
                                   _get_current/required/provided_nrf51_sd_version, _get_provided_nrf51_bl_version
     cflib/bootloader/cloader.py   Cloader.read_flash
   Hand-written; tied by harness/props/c12.py (whole flash() sessions on generated zips and target lists;
   read_flash against the simulated target with scripted reply fates). *)
From CF Require Export Common.Bytes.
From CF Require Export C12.Model.
From CF Require Export C12.Session.
Open Scope Z_scope.

(* ------------------------------------------------------------------ artifacts and selections
   Strings are coded as integers by the harness (injectively): platform 1 = 'cf1', 2 = 'cf2', 3 = 'deck',
   others >= 10; target 255 = 'stm32', 254 = 'nrf51', others >= 1000; type 1 = 'fw',
   2 = 'bootloader+softdevice', others >= 10; soft-device names 110 = 'sd-s110', 130 = 'sd-s130', others. *)
Record sel := mkSel { s_plat : Z; s_target : Z; s_type : Z }.
Record artifact := mkArt {
  f_sel : sel; f_image : list Z; f_requires : list Z; f_provides : list Z;
  f_release : Z * Z * Z }.                     (* manifest 'release' a.b.c as packaging.Version compares it *)

Definition CF2 : Z := 2.
Definition DECK : Z := 3.
Definition FW : Z := 1.
Definition SDBL : Z := 2.
Definition sel_eqb (a b : sel) : bool :=
  (s_plat a =? s_plat b) && (s_target a =? s_target b) && (s_type a =? s_type b).

(* TargetTypes.from_string *)
Definition from_string (t : Z) : Z := if t =? 255 then 255 else if t =? 254 then 254 else 0.

(* what Cloader.targets holds for one target *)
Record cinfo := mkC { c_ps : Z; c_bp : Z; c_fp : Z; c_sp : Z; c_ver : option (Z * Z * Z * bool) }.
(* Cloader.targets: entries for 0xFF and 0xFE (absent = KeyError) *)
Record cache := mkCache { k_stm : option cinfo; k_nrf : option cinfo }.
Definition lookup (k : cache) (tid : Z) : option cinfo :=
  if tid =? 255 then k_stm k else if tid =? 254 then k_nrf k else None.

(* exceptions of flash() outside _internal_flash *)
Inductive fexn :=
  KeyError | UnknownSoftDevice | ConflictingRequirements | CannotFlashNrf | OneSdblOnly | InvalidVersion.

(* one _internal_flash call: target id, geometry used, override page, image *)
Record call := mkCall { l_tid : Z; l_ps : Z; l_bp : Z; l_fp : Z; l_sp : Z; l_override : option Z; l_image : list Z }.
Inductive pitem := PCall (c : call) | PRaise (e : fexn) | PReboot.

(* first element of the list of values, and whether another value differs from it
   (for r in requires: if x is None: x = r; if x != r: raise) *)
Fixpoint first_and_conflict (cur : option Z) (vals : list Z) : option Z * bool :=
  match vals with
  | [] => (cur, false)
  | v :: vs =>
    let cur' := match cur with None => v | Some c => c end in
    if cur' =? v then first_and_conflict (Some cur') vs else (Some cur', true)
  end.

Definition nrf_arts (arts : list artifact) : list artifact :=
  filter (fun a => s_target (f_sel a) =? 254) arts.

Definition ver_eqb (a b : option (Z * Z * Z)) : bool :=
  match a, b with
  | None, None => true
  | Some (x, y, z), Some (x', y', z') => (x =? x') && (y =? y') && (z =? z')
  | _, _ => false
  end.
Definition opt_eqb (a b : option Z) : bool :=
  match a, b with None, None => true | Some x, Some y => x =? y | _, _ => false end.

Definition mk_call (tid : Z) (c : cinfo) (ov : option Z) (img : list Z) : call :=
  mkCall tid (c_ps c) (c_bp c) (c_fp c) (c_sp c) ov img.

Definition call_item (k : cache) (t : Z) (ov : cinfo -> option Z) (img : cinfo -> list Z) : pitem :=
  let tid := from_string t in
  match lookup k tid with
  | None => PRaise KeyError
  | Some c => PCall (mk_call tid c (ov c) (img c))
  end.

(* The firmware phase as the code has it: `if len(targets) == 0 or len(flash_targets) > 0: _flash_flash(flash_artifacts, ...)`
   and _flash_flash flashes EVERY artifact it is given — the artifacts of the platform that are not
   bootloader+softdevice, in manifest order.  The target list only decides whether the phase runs at all
   (empty list, or at least one target of this platform named); WHICH targets it names is not consulted. *)
Definition fw_selected (platform : Z) (sels : list sel) (arts : list artifact) : list artifact :=
  let flash_targets := filter (fun t => s_plat t =? platform) sels in
  let flash_arts := filter (fun a => (s_plat (f_sel a) =? platform) && negb (s_type (f_sel a) =? SDBL)) arts in
  match sels, flash_targets with
  | [], _ => flash_arts
  | _, [] => []                                   (* only targets of other platforms (decks) named: phase skipped *)
  | _, _ => flash_arts
  end.

(* the part of flash() after the soft-device names and the current bootloader version are known *)
Definition flash_plan_tail (platform : Z) (k0 k1 : cache) (arts : list artifact) (sels : list sel)
           (n0 : cinfo) (required provided : option Z) (cur_bl : option (Z * Z * Z)) : list pitem :=
  let flash_arts := filter (fun a => s_plat (f_sel a) =? platform) arts in
  let current := if c_sp n0 =? 88 then 110 else 130 in
  let contains_sd := existsb (fun a => s_type (f_sel a) =? SDBL) flash_arts in
  let nrf_sdbl := filter (fun a => s_type (f_sel a) =? SDBL) (nrf_arts flash_arts) in
  match nrf_sdbl with
  | _ :: _ :: _ => [PRaise OneSdblOnly]
  | _ =>
    let prov_bl := match nrf_sdbl with a :: _ => Some (f_release a) | [] => None end in
    if (match required with Some r => negb (current =? r) && negb (opt_eqb provided (Some r)) | None => false end)
    then [PRaise CannotFlashNrf] else
    let should :=
        if opt_eqb (Some current) required && ver_eqb cur_bl prov_bl then false
        else if opt_eqb provided None && negb contains_sd then false else true in
    if should then
      match filter (fun a => s_type (f_sel a) =? SDBL) flash_arts with
      | [a] =>
        [call_item k0 (s_target (f_sel a)) (fun _ => None) (fun _ => repeat 255 (Z.to_nat (c_ps n0)));
         call_item k0 (s_target (f_sel a)) (fun _ => Some (sdbl_page (c_fp n0) (c_ps n0) (zlen (f_image a))))
                   (fun _ => f_image a);
         PReboot] ++
        map (fun a => call_item k1 (s_target (f_sel a)) (fun _ => None) (fun _ => f_image a)) (fw_selected platform sels arts)
      | _ => [PRaise OneSdblOnly]
      end
    else map (fun a => call_item k0 (s_target (f_sel a)) (fun _ => None) (fun _ => f_image a)) (fw_selected platform sels arts)
  end.

(* Bootloader.flash up to (not including) the deck part: the sequence of _internal_flash calls it will attempt,
   with the exception it raises instead where it does.  k0: Cloader.targets at entry; k1: what the fresh Cloader
   learns from the device after the reboot into the new nRF51 bootloader. *)
Definition flash_plan (platform : Z) (k0 k1 : cache) (arts : list artifact) (sels : list sel) : list pitem :=
  let flash_arts := filter (fun a => s_plat (f_sel a) =? platform) arts in
  match k_nrf k0 with
  | None => [PRaise KeyError]
  | Some n0 =>
    if negb ((c_sp n0 =? 88) || (c_sp n0 =? 108)) then [PRaise UnknownSoftDevice] else
    let '(required, cr) := first_and_conflict None (concat (map f_requires (nrf_arts flash_arts))) in
    if cr then [PRaise ConflictingRequirements] else
    let '(provided, cp) := first_and_conflict None (concat (map f_provides (nrf_arts flash_arts))) in
    if cp then [PRaise ConflictingRequirements] else
    match c_ver n0 with
    | Some (_, _, _, true) => [PRaise InvalidVersion]              (* Version('a.b.c+') *)
    | Some (a, b, c, false) => flash_plan_tail platform k0 k1 arts sels n0 required provided (Some (a, b, c))
    | None => flash_plan_tail platform k0 k1 arts sels n0 required provided None
    end
  end.

(* the variant with the defect of a stale cache: the targets learnt before the reboot are used afterwards *)
Definition flash_plan_stale (platform : Z) (k0 k1 : cache) (arts : list artifact) (sels : list sel) : list pitem :=
  flash_plan platform k0 k0 arts sels.

(* ------------------------------------------------------------------ executing a plan *)
Inductive souts := SDone | SFlash (o : outcome) | SExc (e : fexn).

Definition run_call (c : call) (scr : list att) :=
  internal_flash (l_tid c) (l_ps c) (l_bp c) (l_fp c) (l_sp c) (l_override c) (l_image c) [] scr.

(* returns: outcome, rest of script, frames, the calls that were started, whether the reboot happened *)
Fixpoint run_plan (p : list pitem) (scr : list att)
  : souts * list att * list (frame * bool) * list call * bool :=
  match p with
  | [] => (SDone, scr, [], [], false)
  | PRaise e :: _ => (SExc e, scr, [], [], false)
  | PReboot :: p' =>
    let '(o, s, tr, cs, _) := run_plan p' scr in (o, s, tr, cs, true)
  | PCall c :: p' =>
    let '(o, _, s1, t1) := run_call c scr in
    match o with
    | Done => let '(o2, s2, t2, cs, rb) := run_plan p' s1 in (o2, s2, t1 ++ t2, c :: cs, rb)
    | _ => (SFlash o, s1, t1, [c], false)
    end
  end.

(* does flash() enter the deck part, and with which artifacts (indices into the manifest) *)
Definition deck_phase (warm : bool) (sels : list sel) : bool :=
  warm && (match sels with [] => true | _ => existsb (fun t => s_plat t =? DECK) sels end).

(* ------------------------------------------------------------------ Cloader.read_flash *)
Inductive rfate := RLost | RWrong (p : pkt) | RGood.
Inductive rres := RNone | RRaiseStruct | RBuf (b : list Z).

(* the device's answer to  [addr, 0x1C, page, offset]: 25 bytes of flash from page*ps+offset (fewer at the end of the flash) *)
Definition device_read (T : target) (page off : Z) : pkt :=
  (255, [t_id T; 28] ++ le_bytes 2 page ++ le_bytes 2 off ++ zslice (t_flash T) (page * t_ps T + off) 25).

Definition read_frame (addr page off : Z) : frame := 255 :: [addr; 28] ++ le_bytes 2 page ++ le_bytes 2 off.

(* the while-condition of read_flash on the last received packet: 0 = keep asking, 1 = accepted, 2 = struct.error *)
Definition read_accept (addr page off : Z) (pk : option pkt) : Z :=
  match pk with
  | None => 0
  | Some (h, d) =>
    if negb (Z.lor h 12 =? 255) then 0
    else if zlen d <? 6 then 2
    else if (zn d 0 =? addr) && (zn d 1 =? 28) && (le_val (zslice d 2 2) =? page) && (le_val (zslice d 4 2) =? off)
         then 1 else 0
  end.

Definition fate_pkt (T : target) (page off : Z) (f : rfate) : option pkt :=
  match f with RLost => None | RWrong p => Some p | RGood => Some (device_read T page off) end.
Definition hd_fate (fs : list rfate) : rfate := match fs with f :: _ => f | [] => RGood end.

(* n = retry_counter + 1 *)
Fixpoint rf_loop (n : nat) (T : target) (addr page off : Z) (pk : option pkt) (fs : list rfate)
  : Z * option pkt * nat * list rfate * list frame :=
  match n with
  | O => (read_accept addr page off pk, pk, O, fs, [])
  | S n' =>
    match read_accept addr page off pk with
    | 0 =>
      let '(a, r, m, fs', tr) := rf_loop n' T addr page off (fate_pkt T page off (hd_fate fs)) (tl fs) in
      (a, r, m, fs', read_frame addr page off :: tr)
    | a => (a, pk, n, fs, [])
    end
  end.

(* for i in range(ceil(page_size / 25)) *)
Fixpoint rf_chunks (k : nat) (T : target) (addr page i : Z) (buff : list Z) (fs : list rfate)
  : rres * list rfate * list frame :=
  match k with
  | O => (RBuf buff, fs, [])
  | S k' =>
    if negb (u8 addr && u16 page && u16 (i * 25)) then (RRaiseStruct, fs, []) else
    let '(a, pk, m, fs', tr) := rf_loop 6 T addr page (i * 25) None fs in
    if a =? 2 then (RRaiseStruct, fs', tr)
    else match m with
         | O => (RNone, fs', tr)                      (* retry_counter < 0 *)
         | _ =>
           match pk with
           | Some (_, d) =>
             let '(r, fs'', tr') := rf_chunks k' T addr page (i + 1) (buff ++ skipn 6 d) fs' in
             (r, fs'', tr ++ tr')
           | None => (RNone, fs', tr)
           end
         end
  end.

(* read_flash(addr, page) with Cloader.targets[addr].page_size = ps, talking to device T *)
Definition read_flash (T : target) (addr ps page : Z) (fs : list rfate) : rres * list rfate * list frame :=
  let '(r, fs', tr) := rf_chunks (Z.to_nat ((ps + 24) / 25)) T addr page 0 [] fs in
  (match r with RBuf b => RBuf (firstn (Z.to_nat ps) b) | x => x end, fs', tr).
