(* C12/Proofs_flash.v — Bootloader._internal_flash: the page loop keeps the invariant
   "pages flushed so far hold the image prefix, buffer pages 0..ctr-1 hold the next ctr pages,
    nothing outside the image's page range has changed, no command was out of range". *)
From CF Require Import Common.Bytes.
From CF Require Import C12.Model.
From CF Require Import C12.Lists.
From CF Require Import C12.Proofs_upload.
From CF Require Import C12.Proofs_write.
From Coq Require Import ZifyBool.
Open Scope Z_scope.

Definition npages (len ps : Z) : Z := (len - 1) / ps + 1.

Lemma npages_bounds len ps : 1 <= len -> 1 <= ps ->
  1 <= npages len ps /\ (npages len ps - 1) * ps <= len - 1 /\ len <= npages len ps * ps.
Proof.
  intros Hl Hp. unfold npages.
  pose proof (Z.mul_div_le (len - 1) ps ltac:(lia)) as H1.
  pose proof (Z.mul_succ_div_gt (len - 1) ps ltac:(lia)) as H2.
  pose proof (Z.div_pos (len - 1) ps ltac:(lia) ltac:(lia)) as H3.
  set (d := (len - 1) / ps) in *. nia.
Qed.

Lemma py_int_div_nonneg a b : 0 <= a -> 0 < b -> py_int_div a b = a / b.
Proof. intros Ha Hb. unfold py_int_div. apply Z.quot_div_nonneg; lia. Qed.

(* ---- frames of a run ---- *)
Section Frames.
  Variable addr : Z.
Definition is_write_frame (f : frame) : Prop := exists r, f = 255 :: addr :: 24 :: r.
Definition frame_ok (x : frame * bool) : Prop :=
  (length (fst x) <= 32)%nat /\ exists c r, fst x = 255 :: addr :: c :: r.

Lemma write_frames_ok pb tp n tr :
  Forall (fun x : frame * bool => fst x = write_frame addr pb tp n) tr -> Forall frame_ok tr.
Proof.
  intros H. eapply Forall_impl; [|exact H]. intros [f d] Hf. cbn [fst] in Hf. subst f.
  unfold frame_ok. cbn [fst]. split.
  - unfold write_frame. cbn [length]. rewrite !app_length, !le_bytes_length. cbn. lia.
  - eexists. eexists. reflexivity.
Qed.

Lemma sent_ok_frames_ok fs :
  Forall (fun f => (length f <= 32)%nat /\ exists r, f = 255 :: addr :: 20 :: r) fs ->
  Forall frame_ok (sent_ok fs).
Proof.
  intros H. unfold sent_ok. apply Forall_map. eapply Forall_impl; [|exact H].
  intros f (H1 & r & H2). unfold frame_ok. cbn [fst]. split; auto. eexists. eexists. exact H2.
Qed.

Definition ends_with_write (tr : list (frame * bool)) : Prop :=
  exists tr0 f d, tr = tr0 ++ [(f, d)] /\ is_write_frame f.

Lemma ends_with_write_app tr1 tr2 : ends_with_write tr2 -> ends_with_write (tr1 ++ tr2).
Proof. intros (t0 & f & d & -> & H). exists (tr1 ++ t0), f, d. now rewrite app_assoc. Qed.

Lemma same_cmd_ends_with_write pb tp n tr :
  Forall (fun x : frame * bool => fst x = write_frame addr pb tp n) tr -> tr <> [] -> ends_with_write tr.
Proof.
  intros H Hne. destruct (exists_last Hne) as (t0 & [f d] & ->).
  exists t0, f, d. split; auto. apply Forall_app in H as [_ H]. inversion H as [|x l Hx _]; subst.
  cbn [fst] in Hx. subst f. eexists. reflexivity.
Qed.
End Frames.

Section Flash.
  Variables (addr ps bp fp start : Z) (image : list Z) (F0 : list Z).
  Let len := zlen image.
  Let np := npages len ps.
  Hypothesis Haddr : u8 addr = true.
  Hypothesis Hps : 1 <= ps <= 65535.
  Hypothesis Hbp : 1 <= bp <= 65535.
  Hypothesis Hfp : 0 <= fp <= 65535.
  Hypothesis Hlen : 1 <= len.
  Hypothesis Hstart : 0 <= start.
  Hypothesis Hfit : len <= (fp - start) * ps.

  Lemma np_facts : 1 <= np /\ (np - 1) * ps <= len - 1 /\ len <= np * ps /\ start + np <= fp.
  Proof.
    destruct (npages_bounds len ps Hlen ltac:(lia)) as (H1 & H2 & H3). fold np in H1, H2, H3.
    repeat split; auto. nia.
  Qed.

  Definition same_geom (T : target) : Prop :=
    t_id T = addr /\ t_ps T = ps /\ t_bp T = bp /\ t_fp T = fp.

  Definition Safe (T : target) : Prop :=
    same_geom T /\ zlen (t_buf T) = bp * ps /\ zlen (t_flash T) = fp * ps /\ t_oob T = false /\
    forall a, 0 <= a < fp * ps -> ~ (start * ps <= a < (start + np) * ps) -> zn (t_flash T) a = zn F0 a.

  (* i pages have been uploaded, the last ctr of them are still only in the buffer *)
  Definition Exact (i ctr : Z) (T : target) : Prop :=
    (forall x, 0 <= x < (i - ctr) * ps -> x < len -> zn (t_flash T) (start * ps + x) = zn image x) /\
    (forall y, 0 <= y < ctr * ps -> (i - ctr) * ps + y < len -> zn (t_buf T) y = zn image ((i - ctr) * ps + y)).

  Lemma Safe_geom_ok T : Safe T -> geom_ok T.
  Proof.
    intros ((Hi & Hp & Hb & Hf) & Lb & Lf & _). unfold geom_ok. rewrite Hp, Hb, Hf. repeat split; lia.
  Qed.

  (* ---- the page chunk ---- *)
  Lemma page_chunk_spec i : 0 <= i < np ->
    let c := page_chunk image ps i in
    1 <= zlen c <= ps /\ i * ps + zlen c <= len /\
    (i * ps + ps <= len -> zlen c = ps) /\ (len < i * ps + ps -> zlen c = len - i * ps) /\
    forall y, 0 <= y < zlen c -> zn c y = zn image (i * ps + y).
  Proof.
    intros Hi c. destruct np_facts as (N1 & N2 & N3 & N4).
    assert (Hlt : i * ps < len) by nia.
    assert (H0 : 0 <= i * ps) by nia.
    unfold c, page_chunk. fold len.
    destruct (len <? (i + 1) * ps) eqn:C.
    - assert (L : zlen (zskip image (i * ps)) = len - i * ps) by (apply zlen_zskip; lia).
      rewrite L. repeat split; try lia.
      intros y Hy. apply zn_zskip; lia.
    - assert (L : zlen (zslice image (i * ps) ps) = ps) by (apply zlen_zslice; fold len; lia).
      rewrite L. repeat split; try lia.
      intros y Hy. apply zn_zslice; lia.
  Qed.

  (* ---- one upload ---- *)
  Lemma upload_step T i ctr :
    Safe T -> 0 <= ctr < bp -> ctr <= i -> 0 <= i < np ->
    exists fs,
      upload_buffer addr ctr 0 (page_chunk image ps i) = (fs, None) /\
      Forall (fun f => (length f <= 32)%nat /\ exists r, f = 255 :: addr :: 20 :: r) fs /\
      Safe (deliver T (sent_ok fs)) /\
      (Exact i ctr T -> Exact (i + 1) (ctr + 1) (deliver T (sent_ok fs))).
  Proof.
    intros HS Hc Hci Hi.
    destruct (page_chunk_spec i Hi) as (C1 & C2 & C3 & C4 & C5).
    set (chunk := page_chunk image ps i) in *.
    destruct (upload_buffer_spec addr ctr 0 chunk Haddr ltac:(lia) ltac:(lia) ltac:(lia))
      as (full & last & E & Hcat & Hfull & Hlast).
    exists (mk_frames addr ctr 0 (full ++ [last])). split; [exact E|].
    destruct HS as ((Gi & Gp & Gb & Gf) & Lb & Lf & Ho & Hout).
    split.
    { apply mk_frames_Forall. intros o c Hin. split.
      - rewrite load_frame_length.
        assert (zlen c <= 25).
        { apply in_app_or in Hin as [Hin|[<-|[]]]; [|lia].
          rewrite Forall_forall in Hfull. rewrite (Hfull c Hin). lia. }
        unfold zlen in *. lia.
      - eexists. reflexivity. }
    assert (ED : deliver T (sent_ok (mk_frames addr ctr 0 (full ++ [last]))) =
                 set_buf T (upd_range (t_buf T) (ctr * ps) chunk)).
    { rewrite <- Gi. rewrite deliver_mk_frames; rewrite ?Gp, ?Gb, ?Hcat; try lia.
      f_equal. f_equal. lia. }
    rewrite ED.
    assert (R1 : 0 <= ctr * ps) by nia.
    assert (R2 : ctr * ps + ps <= bp * ps) by nia.
    split.
    { unfold Safe, same_geom. cbn [set_buf t_id t_ps t_bp t_fp t_buf t_flash t_oob].
      repeat split; auto. rewrite zlen_upd_range; lia. }
    intros (EF & EB). unfold Exact. cbn [set_buf t_flash t_buf].
    replace (i + 1 - (ctr + 1)) with (i - ctr) by lia.
    split; [exact EF|].
    intros y Hy Hyl.
    rewrite zn_upd_range by lia.
    destruct ((ctr * ps <=? y) && (y <? ctr * ps + zlen chunk)) eqn:C.
    - rewrite C5 by lia. f_equal. lia.
    - assert (y < ctr * ps) by nia. apply EB; lia.
  Qed.

  (* ---- one flash-write call (its command possibly repeated, possibly never delivered) ---- *)
  Lemma write_step T j c tr :
    Safe T -> 1 <= c <= bp -> c <= j <= np ->
    Forall (fun x : frame * bool => fst x = write_frame addr 0 (start + j - c) c) tr ->
    Safe (deliver T tr) /\
    (existsb snd tr = true -> Exact j c T -> Exact j 0 (deliver T tr)).
  Proof.
    intros HS Hc Hj Hf.
    pose proof (Safe_geom_ok T HS) as HG.
    destruct np_facts as (N1 & N2 & N3 & N4).
    destruct HS as ((Gi & Gp & Gb & Gf) & Lb & Lf & Ho & Hout).
    rewrite <- Gi in Hf.
    rewrite (deliver_same_cmd _ tr T Hf)
      by (apply tgt_write_idem; rewrite ?Gb, ?Gf; auto; lia).
    destruct (existsb snd tr).
    2: { split; [|discriminate]. unfold Safe, same_geom. repeat split; auto. }
    rewrite tgt_recv_write by lia. rewrite Gb, Gf, Gp.
    replace ((0 + c <=? bp) && (start + j - c + c <=? fp)) with true by lia.
    set (D := zslice (t_buf T) (0 * ps) (c * ps)).
    assert (HD : zlen D = c * ps) by (apply zlen_zslice; nia).
    assert (R0 : 0 <= (start + j - c) * ps) by nia.
    assert (R1 : (start + j - c) * ps + c * ps <= fp * ps) by nia.
    assert (R2 : start * ps <= (start + j - c) * ps) by nia.
    assert (R3 : (start + j - c) * ps + c * ps <= (start + np) * ps) by nia.
    assert (R4 : (start + j - c) * ps = start * ps + (j - c) * ps) by nia.
    split.
    - unfold Safe, same_geom. cbn [set_flash t_id t_ps t_bp t_fp t_buf t_flash t_oob].
      repeat split; auto.
      + rewrite zlen_upd_range; lia.
      + intros a Ha Hn. rewrite zn_upd_range by lia.
        replace (((start + j - c) * ps <=? a) && (a <? (start + j - c) * ps + zlen D)) with false by lia.
        apply Hout; auto.
    - intros _ (EF & EB). unfold Exact. cbn [set_flash t_flash t_buf].
      split.
      + intros x Hx Hxl. replace (j - 0) with j in Hx by lia.
        assert (0 <= start * ps) by nia.
        rewrite zn_upd_range by lia. rewrite HD.
        destruct (((start + j - c) * ps <=? start * ps + x) && (start * ps + x <? (start + j - c) * ps + c * ps)) eqn:C.
        * unfold D. rewrite zn_zslice by lia.
          replace (0 * ps + (start * ps + x - (start + j - c) * ps)) with (x - (j - c) * ps) by lia.
          rewrite EB by lia. f_equal. lia.
        * apply EF; nia.
      + intros y Hy. lia.
  Qed.

  (* ---- the loop ---- *)
  Lemma page_loop_inv k : forall i ctr q scr T o c q' scr' tr,
    0 <= ctr < bp -> ctr <= i -> i + Z.of_nat k = np ->
    Safe T ->
    page_loop k addr ps bp start image i ctr q scr = (o, c, q', scr', tr) ->
    Safe (deliver T tr) /\ Forall (frame_ok addr) tr /\
    (o = Done \/ o = WriteFailed \/ o = Raised IndexError) /\
    (o = Done -> 0 <= c < bp /\ c <= np) /\
    (o <> Done -> ends_with_write addr tr) /\
    (Forall (att_honest addr) scr -> Exact i ctr T -> o = Done ->
     Exact np c (deliver T tr) /\ Forall (att_honest addr) scr').
  Proof.
    induction k as [|k IH]; intros i ctr q scr T o c q' scr' tr Hc Hci Hik HS E.
    - cbn [page_loop] in E. injection E as <- <- <- <- <-.
      cbn [deliver fold_left]. replace i with np in * by lia.
      split; [exact HS|]. split; [constructor|]. split; [auto|]. split; [intros _; lia|].
      split; [congruence|]. intros Hh HE _. split; auto.
    - cbn [page_loop] in E.
      assert (Hi : 0 <= i < np) by lia.
      destruct (upload_step T i ctr HS Hc Hci Hi) as (fs & EU & Hfs & HS1 & HE1).
      rewrite EU in E.
      set (T1 := deliver T (sent_ok fs)) in *.
      pose proof (sent_ok_frames_ok addr fs Hfs) as Hok1.
      destruct (bp <=? ctr + 1) eqn:Cf.
      + (* flush *)
        destruct (write_flash addr 0 (start + i - (ctr + 1 - 1)) (ctr + 1) q scr) as [[[r q1] scr1] tr2] eqn:EW.
        destruct np_facts as (N1 & N2 & N3 & N4).
        destruct (write_flash_spec addr 0 (start + i - (ctr + 1 - 1)) (ctr + 1) q scr r q1 scr1 tr2
                                   Haddr ltac:(lia) ltac:(lia) ltac:(lia) EW)
          as (W1 & W2 & W3).
        replace (start + i - (ctr + 1 - 1)) with (start + (i + 1) - (ctr + 1)) in W1 by lia.
        destruct (write_step T1 (i + 1) (ctr + 1) tr2 HS1 ltac:(lia) ltac:(lia) W1) as (HS2 & HE2).
        pose proof (write_frames_ok addr _ _ _ _ W1) as Hok2.
        assert (Hne2 : tr2 <> []) by (destruct tr2; [cbn in W2; lia|discriminate]).
        pose proof (same_cmd_ends_with_write addr _ _ _ _ W1 Hne2) as Hew2.
        destruct r.
        * destruct (page_loop k addr ps bp start image (i + 1) 0 q1 scr1) as [[[[o3 c3] q3] scr3] tr3] eqn:E3.
          injection E as <- <- <- <- <-.
          destruct (IH (i + 1) 0 q1 scr1 (deliver T1 tr2) o3 c3 q3 scr3 tr3 ltac:(lia) ltac:(lia) ltac:(lia) HS2 E3)
            as (I1 & I2 & I3 & I4 & I5 & I6).
          rewrite !deliver_app. fold T1.
          split; [exact I1|]. split; [repeat (apply Forall_app; split); auto|].
          split; [exact I3|]. split; [exact I4|].
          split. { intros Hn. rewrite app_assoc. apply ends_with_write_app. auto. }
          intros Hh HE Hd.
          destruct (W3 Hh) as (Hh1 & Hdel).
          apply I6; [exact Hh1 | apply HE2; [apply Hdel; reflexivity | apply HE1; exact HE] | exact Hd].
        * injection E as <- <- <- <- <-.
          rewrite !deliver_app. fold T1.
          split; [exact HS2|]. split; [apply Forall_app; split; auto|].
          split; [auto|]. split; [discriminate|].
          split; [intros _; apply ends_with_write_app; auto|]. discriminate.
        * injection E as <- <- <- <- <-.
          rewrite !deliver_app. fold T1.
          assert (e = IndexError).
          { unfold write_flash in EW. rewrite flush_spec in EW.
            rewrite pack_write_some in EW by (auto; lia).
            destruct (wf_loop 6 addr _ None [] scr) as [[[[pk m] q0] scr0] tr0].
            destruct m; [discriminate|]. destruct pk as [[h d]|]; [|congruence].
            destruct (zlen d <? 4); [congruence|]. destruct (zn d 2 =? 1); discriminate. }
          subst e.
          split; [exact HS2|]. split; [apply Forall_app; split; auto|].
          split; [auto|]. split; [discriminate|].
          split; [intros _; apply ends_with_write_app; auto|]. discriminate.
      + destruct (page_loop k addr ps bp start image (i + 1) (ctr + 1) q scr) as [[[[o3 c3] q3] scr3] tr3] eqn:E3.
        injection E as <- <- <- <- <-.
        destruct (IH (i + 1) (ctr + 1) q scr T1 o3 c3 q3 scr3 tr3 ltac:(lia) ltac:(lia) ltac:(lia) HS1 E3)
          as (I1 & I2 & I3 & I4 & I5 & I6).
        rewrite !deliver_app. fold T1.
        split; [exact I1|]. split; [apply Forall_app; split; auto|].
        split; [exact I3|]. split; [exact I4|].
        split. { intros Hn. apply ends_with_write_app. auto. }
        intros Hh HE Hd. apply I6; [exact Hh | apply HE1; exact HE | exact Hd].
  Qed.

End Flash.
