(* C12/Alias.v — packet objects and a link that keeps references (cflib.crtp.radiodriver: send_packet puts the
   packet OBJECT into a one-slot out-queue; the radio thread reads pk.header / pk.data later).
   Packets are heap cells; the client writes a cell's content and hands its id to the link.
   `ub_ops true frames`  : Cloader.upload_buffer as it is — a NEW CRTPPacket per 25-byte chunk;
   `ub_ops false frames` : one packet object reused for every chunk (seeded change C12-k). *)
From CF Require Export Common.Bytes.
From CF Require Export C12.Model.
Open Scope Z_scope.

Inductive op := OWrite (id : Z) (d : list Z) | OSend (id : Z).

Definition heap := Z -> list Z.
Definition upd (h : heap) (i : Z) (d : list Z) : heap := fun k => if k =? i then d else h k.

(* what a link that serialises inside send_packet puts on air *)
Fixpoint run_imm (h : heap) (ops : list op) : list (list Z) :=
  match ops with
  | [] => []
  | OWrite i d :: r => run_imm (upd h i d) r
  | OSend i :: r => h i :: run_imm h r
  end.

(* what a reference-keeping link puts on air: the queued cell is read when the next one is offered, the last one
   at the end (when the client starts to receive) *)
Definition take (h : heap) (s : option Z) : list (list Z) := match s with Some j => [h j] | None => [] end.
Fixpoint run_def (h : heap) (s : option Z) (ops : list op) : list (list Z) :=
  match ops with
  | [] => take h s
  | OWrite i d :: r => run_def (upd h i d) s r
  | OSend i :: r => take h s ++ run_def h (Some i) r
  end.

(* the chunks of one upload at object level: cell k (or cell 0 when reused) gets the load-buffer header, then the
   header plus the payload bytes appended, and is handed to the link *)
Fixpoint ub_ops_from (fresh : bool) (k : Z) (frames : list frame) : list op :=
  match frames with
  | [] => []
  | f :: fs =>
    let id := if fresh then k else 0 in
    OWrite id (firstn 7 f) :: OWrite id f :: OSend id :: ub_ops_from fresh (k + 1) fs
  end.
Definition ub_ops (fresh : bool) (frames : list frame) : list op := ub_ops_from fresh 0 frames.

Fixpoint writes_to (j : Z) (ops : list op) : bool :=
  match ops with
  | [] => false
  | OWrite i _ :: r => (i =? j) || writes_to j r
  | OSend _ :: r => writes_to j r
  end.

(* no cell is written after it was handed to the link *)
Fixpoint alias_free (ops : list op) : bool :=
  match ops with
  | [] => true
  | OWrite _ _ :: r => alias_free r
  | OSend i :: r => negb (writes_to i r) && alias_free r
  end.

(* all cells handed to the link are different objects *)
Fixpoint sent_ids (ops : list op) : list Z :=
  match ops with [] => [] | OSend i :: r => i :: sent_ids r | _ :: r => sent_ids r end.
Fixpoint distinctb (l : list Z) : bool :=
  match l with [] => true | x :: r => negb (existsb (Z.eqb x) r) && distinctb r end.
Definition cells_distinct (ops : list op) : bool := distinctb (sent_ids ops).
