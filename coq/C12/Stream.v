(* C12/Stream.v — Cloader.write_flash against an arbitrary, possibly endless, stream of receive results.
   rx k is what the k-th receive_packet(2.5) returns: None (silence for 2.5 s), a packet that is the answer to this
   command, or any other packet (answers of the other target, other commands, short packets ...).
   `wfs_loop` is the code: every receive that is not the answer costs one of the six attempts.
   `wfv_loop` is the variant that keeps listening, without sending and without counting, while packets that are not
   the answer keep coming (seeded change C12-m); it needs fuel because it need not terminate. *)
From CF Require Export Common.Bytes.
From CF Require Export C12.Model.
Open Scope Z_scope.

Definition rxs := nat -> option pkt.

(* n = retry_counter + 1, k = receives so far.  Result: last packet, n at exit, receives, sends *)
Fixpoint wfs_loop (n : nat) (addr : Z) (pk : option pkt) (k : nat) (rx : rxs) : option pkt * nat * nat * nat :=
  match n with
  | O => (pk, O, k, O)
  | S n' =>
    if good_reply addr pk then (pk, n, k, O)
    else let '(r, m, k', s) := wfs_loop n' addr (rx k) (S k) rx in (r, m, k', S s)
  end.

Definition wf_result (m : nat) (pk : option pkt) : wres :=
  match m with
  | O => WFalse
  | _ => match pk with
         | Some (_, d) => if zlen d <? 4 then WRaise IndexError else if zn d 2 =? 1 then WTrue else WFalse
         | None => WRaise IndexError
         end
  end.

(* write_flash after its flush: result, number of receive_packet(2.5) calls, number of commands sent *)
Definition write_flash_stream (addr : Z) (rx : rxs) : wres * nat * nat :=
  let '(pk, m, k, s) := wfs_loop 6 addr None O rx in (wf_result m pk, k, s).

(* ---- the variant: inner loop `while pk is not None and not is_reply(pk): pk = receive_packet(2.5)` ---- *)
Fixpoint listen (fuel : nat) (addr : Z) (pk : option pkt) (k : nat) (rx : rxs) : option (option pkt * nat) :=
  match pk with
  | None => Some (None, k)
  | Some _ =>
    if good_reply addr pk then Some (pk, k)
    else match fuel with O => None | S f => listen f addr (rx k) (S k) rx end
  end.

(* None = still listening when the fuel (number of further receives allowed) ran out *)
Fixpoint wfv_loop (fuel : nat) (n : nat) (addr : Z) (pk : option pkt) (k : nat) (rx : rxs)
  : option (option pkt * nat * nat * nat) :=
  match n with
  | O => Some (pk, O, k, O)
  | S n' =>
    if good_reply addr pk then Some (pk, n, k, O)
    else match listen fuel addr (rx k) (S k) rx with
         | None => None
         | Some (pk', k') =>
           match wfv_loop fuel n' addr pk' k' rx with
           | None => None
           | Some (r, m, k'', s) => Some (r, m, k'', S s)
           end
         end
  end.
