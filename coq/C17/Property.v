(* C17/Property.v — property C17 (flight helpers), theorems only.  Model: C17/Model.v (MotionCommander +
   _SetPointThread as commanding thread + setpoint thread in virtual time under an arbitrary schedule;
   PositionHlCommander as a sequential machine), exact rational arithmetic, land() repaired (F17a/F17b), go_to guarded (F17c).
   Logs are lists of recorded calls, NEWEST FIRST.  EStart is a ghost entry marking the thread start;
   the last field of EHover is the ghost "vertical velocity in force". *)
From CF Require Import C17.Model C17.Proofs_a C17.Proofs_b C17.Proofs_c C17.Proofs_d.
Open Scope Q_scope.

(* Leaving an entered MotionCommander context — after any program of primitives (all 26 kinds, with default or
   explicit velocities, explicit land/take_off, user sleeps, a raise), under any schedule, normally or with any exception —
   ends the call log with stop; notify at the same instant, the thread is gone, the helper is not flying, and
   whatever time passes afterwards no further call is made. *)
Theorem C17_mc_exit_ends_with_stop : forall E t0 defh ops sch x s,
  run_mc E t0 defh ops sch = Exited x s ->
  thr s = None /\ flying s = false /\
  (exists t rest, log s = ENotify t :: EStop t :: rest) /\
  (forall d, log (fst (sleep E d s)) = log s).
Proof. exact mc_exit_ends_with_stop. Qed.
Print Assumptions C17_mc_exit_ends_with_stop.

(* the same for an explicit land() while flying, whatever it raises *)
Theorem C17_mc_land_ends_with_stop : forall E defh v s s' r,
  flying s = true -> exec_op E defh (OLand v) s = (s', r) ->
  thr s' = None /\ flying s' = false /\ (exists t rest, log s' = ENotify t :: EStop t :: rest) /\
  (forall d, log (fst (sleep E d s')) = log s').
Proof. exact mc_land_ends_with_stop. Qed.
Print Assumptions C17_mc_land_ends_with_stop.

(* while flying, consecutive hover setpoints are in time order and at most one update period apart; the first one
   comes at most one period after the thread start (for every program, schedule, outcome) *)
Theorem C17_stream_period : forall E t0 defh ops sch,
  0 < e_period E ->
  let L := log (out_st (run_mc E t0 defh ops sch)) in
  (forall l1 l2 t1 vx1 vy1 y1 z1 w1 t2 vx2 vy2 y2 z2 w2,
     L = l1 ++ EHover t2 vx2 vy2 y2 z2 w2 :: EHover t1 vx1 vy1 y1 z1 w1 :: l2 ->
     t1 <= t2 /\ t2 - t1 <= e_period E) /\
  (forall l1 l2 t1 t2 vx2 vy2 y2 z2 w2,
     L = l1 ++ EHover t2 vx2 vy2 y2 z2 w2 :: EStart t1 :: l2 ->
     t1 <= t2 /\ t2 - t1 <= e_period E).
Proof. exact stream_period_spelled. Qed.
Print Assumptions C17_stream_period.

(* the streamed height integrates the commanded vertical velocity: z' = z + vz (t' - t), starting from 0 *)
Theorem C17_height_integrates : forall E t0 defh ops sch,
  0 < e_period E ->
  let L := log (out_st (run_mc E t0 defh ops sch)) in
  (forall l1 l2 t1 vx1 vy1 y1 z1 w1 t2 vx2 vy2 y2 z2 w2,
     L = l1 ++ EHover t2 vx2 vy2 y2 z2 w2 :: EHover t1 vx1 vy1 y1 z1 w1 :: l2 ->
     z2 == z1 + w1 * (t2 - t1)) /\
  (forall l1 l2 t1 t2 vx2 vy2 y2 z2 w2,
     L = l1 ++ EHover t2 vx2 vy2 y2 z2 w2 :: EStart t1 :: l2 -> z2 == 0).
Proof. exact height_integrates_spelled. Qed.
Print Assumptions C17_height_integrates.

(* left/right/forward/back/up/down/move_distance while flying: one motion command, a sleep, a stop command, with
   velocity x duration = the requested displacement vector and speed = the requested velocity *)
Theorem C17_primitive_displacement : forall E defh o dx dy dz vo,
  lin_request o = Some (dx, dy, dz, vo) ->
  let v := dflt vo (e_vel E) in
  let dist := e_sqrt E (dx * dx + dy * dy + dz * dz) in
  dist * dist == dx * dx + dy * dy + dz * dz -> ~ v == 0 -> ~ dist == 0 ->
  exists vx vy vz ft,
    plain_acts E defh true o = ([APut (QVel vx vy vz 0); ASleep ft; APut qzero], None) /\
    vx * ft == dx /\ vy * ft == dy /\ vz * ft == dz /\
    vx * vx + vy * vy + vz * vz == v * v.
Proof. exact linear_primitive_displacement. Qed.
Print Assumptions C17_primitive_displacement.

Theorem C17_turn_angle : forall E defh o a ro sg,
  turn_request o = Some (a, ro, sg) ->
  let rate := dflt ro (e_rate E) in
  ~ rate == 0 ->
  exists yaw ft,
    plain_acts E defh true o = ([APut (QVel 0 0 0 yaw); ASleep ft; APut qzero], None) /\
    yaw * ft == sg * a.
Proof. exact turn_primitive_angle. Qed.
Print Assumptions C17_turn_angle.

Theorem C17_circle_angle : forall E defh o rad vo ao sg,
  circle_request o = Some (rad, vo, ao, sg) ->
  let v := dflt vo (e_vel E) in
  let angle := dflt ao 360 in
  ~ v == 0 -> ~ 2 * rad * e_pi E == 0 ->
  exists yaw ft,
    plain_acts E defh true o = ([APut (QVel v 0 0 yaw); ASleep ft; APut qzero], None) /\
    yaw * ft == sg * angle /\ v * ft == 2 * rad * e_pi E * angle / 360.
Proof. exact circle_primitive_angle. Qed.
Print Assumptions C17_circle_angle.

(* PositionHlCommander: after a body of relative moves and default changes that completes, the reported position
   is the position at its start plus the sum of the requested displacements *)
Theorem C17_hl_position_is_sum : forall sq ops s pos s' pos' dx dy dz,
  sqrt_spec sq -> sum_disp ops = Some (dx, dy, dz) ->
  hexec_body sq ops s pos = (s', None, pos') ->
  hx s' == hx s + dx /\ hy s' == hy s + dy /\ hz s' == hz s + dz.
Proof. exact hl_position_is_sum. Qed.
Print Assumptions C17_hl_position_is_sum.

(* every go_to that returns leaves the reported position at its target; if the target differs from the current
   position exactly one go_to command is sent, to that target, with duration x velocity = distance *)
Theorem C17_hl_goto_duration : forall sq x y zo v s s',
  sqrt_spec sq -> hexec_op sq (HGoTo x y zo v) s = (s', None) ->
  let z := dflt zo (dheight s) in
  hx s' == x /\ hy s' == y /\ hz s' == z /\
  ((exists dur dist, hlog s' = HGoto (hnow s) x y z 0 dur :: hlog s /\ 0 < dist /\
                     dist * dist == (x - hx s) * (x - hx s) + (y - hy s) * (y - hy s) + (z - hz s) * (z - hz s) /\
                     dur * dflt v (dvel s) == dist /\ hx s' = x /\ hy s' = y /\ hz s' = z)
   \/ s' = s).
Proof. exact hl_goto_targets_position. Qed.
Print Assumptions C17_hl_goto_duration.

(* leaving an entered PositionHlCommander context ends with stop as the last high-level command, for EVERY body
   (motion primitives, go_to, default changes, explicit land/take_off, raise; any exception): since F17c go_to raises
   on the ground, so nothing can follow the stop of an explicit land() *)
Theorem C17_hl_exit_ends_with_stop : forall sq s0 ops x s pos,
  run_hl sq s0 ops = HExited x s pos ->
  hfly s = false /\ exists t rest, hlog s = HStop t :: rest.
Proof. exact hl_exit_ends_with_stop. Qed.
Print Assumptions C17_hl_exit_ends_with_stop.

Theorem C17_hl_land_ends_with_stop : forall v lh s s' r,
  hfly s = true -> h_land v lh s = (s', r) ->
  hfly s' = false /\ exists rest, hlog s' = HStop (hnow s') :: rest.
Proof. exact hl_land_ends_with_stop. Qed.
Print Assumptions C17_hl_land_ends_with_stop.

(* The link contract between the commanders and the air (the drivers queue the packet OBJECT and read it later): if every
   sent packet is a value — a fresh object (cell) that is never written again — then for EVERY transmit-delay schedule
   (any interleaving of sends and radio transmissions) the transmitted stream, once the radio has caught up, is exactly the
   commanded stream, in order.  So the call-level theorems above carry over to the air. *)
Theorem C17_link_values_transmitted_as_commanded : forall (A : Type) (acts : list (lact A)),
  NoDup (cells acts) -> ldrain (lrun acts l_init) = commanded acts.
Proof. exact link_values_transmitted_as_commanded. Qed.
Print Assumptions C17_link_values_transmitted_as_commanded.

(* ... and it is necessary: with one shared mutable packet object a setpoint still queued is overwritten by the next one *)
Theorem C17_link_shared_packet_refuted :
  exists acts : list (lact Z),
    cells acts = [O; O] /\ commanded acts = [Some 1%Z; Some 2%Z] /\ ldrain (lrun acts l_init) = [Some 2%Z; Some 2%Z].
Proof. exact link_shared_packet_refuted. Qed.
Print Assumptions C17_link_shared_packet_refuted.

(* The quantifier of the displacement clause, explicit: for ALL velocities v <> 0 (no bounded range: 0.01 m/s as well as
   50 m/s) and all distances, the streamed velocity times the sleep duration distance / velocity is the distance, per axis
   for the direction vector the code computes.  (C17_primitive_displacement instantiates this inside the action lists.) *)
Theorem C17_displacement_for_all_velocities : forall v d dx dist,
  ~ v == 0 -> (v * (d / v) == d) /\ (~ dist == 0 -> (v * dx / dist) * (dist / v) == dx).
Proof. intros v d dx dist H. split; [apply velocity_times_duration; exact H|intros H2; apply axis_velocity_times_duration; assumption]. Qed.
Print Assumptions C17_displacement_for_all_velocities.

(* ... and the duration belongs to the velocity that is streamed: a setpoint clamped at vmax but held for the duration of
   the unclamped velocity falls short (witness 2 m/s capped at 1 m/s over 1 m: 0.5 m), always so above the cap *)
Theorem C17_clamped_setpoint_refuted :
  (exists vmax v d, 0 < vmax /\ vmax < v /\ ~ qclamp vmax v * (d / v) == d) /\
  (forall vmax v d, 0 < vmax -> vmax < v -> 0 < d -> qclamp vmax v * (d / v) < d).
Proof. split; [exact clamped_setpoint_refuted|exact clamped_setpoint_short]. Qed.
Print Assumptions C17_clamped_setpoint_refuted.

(* Multi-session histories on one Crazyflie object: the hover packet type (legacy 5 with negated yaw rate / 10) is a function
   of the protocol version read AT SEND TIME.  For EVERY history of (version in force, commanded yaw rate) the firmware of
   the respective session understands every packet and decodes exactly the commanded yaw rate (direction included). *)
Theorem C17_packet_type_follows_session_version : forall h : list (Z * Z),
  fw_receive h (send_now h) = map (fun vy => Some (snd vy)) h.
Proof. exact send_now_understood. Qed.
Print Assumptions C17_packet_type_follows_session_version.

(* ... while a choice cached at first use is wrong as soon as the version changes: current firmware, then protocol-8 firmware:
   the second session's setpoint is dropped *)
Theorem C17_cached_packet_type_refuted :
  exists h : list (Z * Z), fw_receive h (send_cached h) <> map (fun vy => Some (snd vy)) h
                           /\ fw_receive h (send_cached h) = [Some 72%Z; None].
Proof. exact send_cached_refuted. Qed.
Print Assumptions C17_cached_packet_type_refuted.

(* Wave 11 — link state.  The programs of C17_mc_exit_ends_with_stop / C17_stream_period / C17_hl_exit_ends_with_stop contain
   OLink b / HLink b at any position (cf.is_connected() changes during the body), so those theorems hold for EVERY history of
   the connection flag: HEAD reads it only in take_off().  An __exit__ that lands only while connected does not have the
   property: link lost in the body => context left flying, thread alive, a hover setpoint as the last call. *)
Theorem C17_guarded_exit_refuted :
  exists s, run_mc_guarded E0 5 (3 # 10) [OLink false] [] = Exited None s /\ flying s = true /\ thr s <> None
            /\ (exists t vx vy yaw z vz rest, log s = EHover t vx vy yaw z vz :: rest).
Proof. exact guarded_exit_refuted. Qed.
Print Assumptions C17_guarded_exit_refuted.

(* Wave 12 — stalling sends.  _SetPointThread.stop() = put(terminate) ; join() with NO bound.  Whatever time each of the
   thread's pending sends takes (the one in flight on a stalled link, and one per setpoint event queued behind it), when
   stop() returns the thread has returned: every pending hover setpoint precedes the stop command in the commander's call
   order, and nothing follows the priority release. *)
Theorem C17_stop_joins_thread_for_every_stall : forall durs : list nat,
  land_trace None durs = map (fun c => HsHover (snd c)) (completions O O durs) ++ [HsStop; HsRelease]
  /\ thread_alive_after_stop None durs = false.
Proof. exact join_unbounded_orders. Qed.
Print Assumptions C17_stop_joins_thread_for_every_stall.

(* ... while a join bounded by two update periods lets land() overtake a thread stuck in a send: stop, release, hover, hover *)
Theorem C17_bounded_join_refuted :
  land_trace (Some 4%nat) [6; 1]%nat = [HsStop; HsRelease; HsHover 0; HsHover 1]
  /\ thread_alive_after_stop (Some 4%nat) [6; 1]%nat = true.
Proof. exact join_bounded_refuted. Qed.
Print Assumptions C17_bounded_join_refuted.

(* Wave 13 — HEAD's no-motion guard is `distance > 0`, with no threshold.  While flying, with a positive velocity: EVERY non-zero
   displacement (dx, dy, dz), however small, issues exactly one go_to, to position + displacement, with duration x velocity =
   distance, and the reported position advances by exactly the displacement; a zero displacement issues no go_to and leaves
   the state unchanged. *)
Theorem C17_hl_every_nonzero_displacement_issues_goto : forall sq dx dy dz v s,
  sqrt_spec sq -> hfly s = true ->
  (0 < dflt v (dvel s) -> ~ (dx == 0 /\ dy == 0 /\ dz == 0) ->
   exists s' dur dist,
     h_move sq dx dy dz v s = (s', None) /\
     hlog s' = HGoto (hnow s) (hx s + dx) (hy s + dy) (hz s + dz) 0 dur :: hlog s /\
     0 < dist /\ dist * dist == dx * dx + dy * dy + dz * dz /\ dur * dflt v (dvel s) == dist /\
     hx s' = hx s + dx /\ hy s' = hy s + dy /\ hz s' = hz s + dz) /\
  (dx == 0 -> dy == 0 -> dz == 0 -> h_move sq dx dy dz v s = (s, None)).
Proof.
  intros sq dx dy dz v s Hsq Hf. split.
  - intros Hv Hnz. exact (h_move_nonzero sq dx dy dz v s Hsq Hf Hv Hnz).
  - intros Hx Hy Hz. exact (h_move_zero sq dx dy dz v s Hsq Hf Hx Hy Hz).
Qed.
Print Assumptions C17_hl_every_nonzero_displacement_issues_goto.

(* ... and a minimum-distance threshold breaks it: with `distance > 1 mm` a 0.8 mm step sends nothing and is not tracked *)
Theorem C17_hl_goto_threshold_refuted :
  exists s, hfly s = true /\
    h_goto_thr (1 # 1000) qsqrt_exact (hx s) (hy s) (hz s + (8 # 10000)) None s = (s, None).
Proof. exact goto_threshold_refuted. Qed.
Print Assumptions C17_hl_goto_threshold_refuted.
