(* C17/Proofs_c.v — while flying: consecutive hover setpoints are at most one update period apart (the first one
   at most one period after the thread start) and the streamed height obeys  z' = z + vz * (t' - t)  with
   vz the vertical velocity in force (first height 0).  Invariant over all programs and schedules. *)
From CF Require Import C17.Model C17.Proofs_a C17.Proofs_b.
From Coq Require Import Lqa.
Open Scope Q_scope.

(* e1 is the older event, e2 the next one in the call log *)
Definition gap_ok (per : Q) (e1 e2 : ev) : Prop :=
  match e1, e2 with
  | EHover t1 _ _ _ z1 vz1, EHover t2 _ _ _ z2 _ => t1 <= t2 /\ t2 - t1 <= per /\ z2 == z1 + vz1 * (t2 - t1)
  | EStart t1, EHover t2 _ _ _ z2 _ => t1 <= t2 /\ t2 - t1 <= per /\ z2 == 0
  | _, _ => True
  end.

Fixpoint chain (per : Q) (l : list ev) : Prop :=
  match l with
  | e2 :: r => match r with e1 :: _ => gap_ok per e1 e2 | [] => True end /\ chain per r
  | [] => True
  end.

Lemma chain_adjacent per l : chain per l -> forall l1 e2 e1 l2, l = l1 ++ e2 :: e1 :: l2 -> gap_ok per e1 e2.
Proof.
  intros H l1. revert l H. induction l1 as [|a l1 IH]; intros l H e2 e1 l2 ->; cbn in H.
  - apply H.
  - destruct H as [_ H]. eapply IH; [exact H|reflexivity].
Qed.

(* coupling between the thread state and the newest log entry *)
Definition coupled (per : Q) (p : spst) (l : list ev) : Prop :=
  match l with
  | EHover t _ _ _ z vz :: _ => t <= sp_dl p /\ sp_dl p <= t + per /\ zvel p = vz /\ cur_z p t == z
  | EStart t :: _ => t <= sp_dl p /\ sp_dl p <= t + per /\ zvel p == 0 /\ zbase p == 0
  | _ => False
  end.

Definition head_time (l : list ev) : Q :=
  match l with EHover t _ _ _ _ _ :: _ => t | EStart t :: _ => t | _ => 0 end.

Definition Inv (per : Q) (s : st) : Prop :=
  chain per (log s) /\
  match thr s with
  | None => True
  | Some p => coupled per p (log s) /\ head_time (log s) <= now s /\ now s <= sp_dl p
  end.

(* ------------------------------------------------------------------ one wake-up of the thread *)
Lemma timeout_step per p l t :
  0 <= per -> chain per l -> coupled per p l -> head_time l <= t -> t <= sp_dl p ->
  let '(p', e) := sp_timeout per p t in
  chain per (e :: l) /\ coupled per p' (e :: l) /\ head_time (e :: l) = t /\ sp_dl p' = t + per /\ sp_q p' = sp_q p.
Proof.
  intros Hper Hc Hcp Hh Ht. unfold sp_timeout.
  destruct l as [|e0 l]; [contradiction|].
  destruct e0; try contradiction; cbn in Hcp, Hh.
  - (* previous hover *)
    destruct Hcp as (H1 & H2 & H3 & H4).
    split; [|split; [|split; [reflexivity|split; reflexivity]]].
    + cbn. split; [|exact Hc]. split; [exact Hh|]. split; [lra|].
      unfold cur_z in *. rewrite H3 in *. rewrite <- H4. ring.
    + cbn. repeat split; try lra; try reflexivity.
  - (* thread just started *)
    destruct Hcp as (H1 & H2 & H3 & H4).
    split; [|split; [|split; [reflexivity|split; reflexivity]]].
    + cbn. split; [|exact Hc]. split; [exact Hh|]. split; [lra|].
      unfold cur_z. rewrite H3, H4. ring.
    + cbn. repeat split; try lra; try reflexivity.
Qed.

Lemma item_step per p l t vx vy vz yaw :
  0 <= per -> chain per l -> coupled per p l -> head_time l <= t -> t <= sp_dl p ->
  let '(p', e) := sp_item per p t vx vy vz yaw in
  chain per (e :: l) /\ coupled per p' (e :: l) /\ head_time (e :: l) = t /\ sp_dl p' = t + per /\ sp_q p' = sp_q p.
Proof.
  intros Hper Hc Hcp Hh Ht. unfold sp_item.
  destruct l as [|e0 l]; [contradiction|].
  destruct e0; try contradiction; cbn in Hcp, Hh.
  - destruct Hcp as (H1 & H2 & H3 & H4).
    split; [|split; [|split; [reflexivity|split; reflexivity]]].
    + cbn. split; [|exact Hc]. split; [exact Hh|]. split; [lra|].
      unfold cur_z in *. rewrite H3 in *. rewrite <- H4. ring.
    + cbn. repeat split; try lra; try reflexivity.
  - destruct Hcp as (H1 & H2 & H3 & H4).
    split; [|split; [|split; [reflexivity|split; reflexivity]]].
    + cbn. split; [|exact Hc]. split; [exact Hh|]. split; [lra|].
      unfold cur_z. rewrite H3, H4. ring.
    + cbn. repeat split; try lra; try reflexivity.
Qed.

Lemma coupled_set_q per p q l : coupled per (set_q p q) l <-> coupled per p l.
Proof. unfold coupled, set_q, cur_z; cbn. reflexivity. Qed.

Lemma drain_inv per t : 0 <= per -> forall items p l,
  chain per l -> coupled per p l -> head_time l <= t -> t <= sp_dl p ->
  match drain per t items p l with
  | (Some p', l') => chain per l' /\ coupled per p' l' /\ head_time l' <= t /\ t <= sp_dl p'
  | (None, l') => chain per l'
  end.
Proof.
  intros Hper. induction items as [|i items IH]; intros p l Hc Hcp Hh Ht; cbn [drain].
  - split; [exact Hc|]. split; [apply coupled_set_q; exact Hcp|]. split; [exact Hh|exact Ht].
  - destruct i as [vx vy vz yaw|]; [|exact Hc].
    pose proof (item_step per p l t vx vy vz yaw Hper Hc Hcp Hh Ht) as Hs.
    destruct (sp_item per p t vx vy vz yaw) as [p' e].
    destruct Hs as (Hc' & Hcp' & Hh' & Hd' & _).
    apply IH; try assumption.
    + rewrite Hh'. lra.
    + rewrite Hd'. lra.
Qed.

Lemma flush_inv E s : 0 <= e_period E -> Inv (e_period E) s -> Inv (e_period E) (flush E s).
Proof.
  intros Hper [Hc Ht]. unfold flush.
  destruct (thr s) as [p|] eqn:Hthr; [|split; [exact Hc|rewrite Hthr; exact I]].
  destruct Ht as (Hcp & Hh & Hn).
  destruct (sp_q p) as [|i q] eqn:Hq.
  - destruct (Qle_bool (sp_dl p) (now s)) eqn:Hle.
    + pose proof (timeout_step (e_period E) p (log s) (now s) Hper Hc Hcp Hh Hn) as Hs.
      destruct (sp_timeout (e_period E) p (now s)) as [p' e].
      destruct Hs as (Hc' & Hcp' & Hh' & Hd' & _).
      split; [exact Hc'|]. cbn [thr set_thr log now]. split; [exact Hcp'|]. rewrite Hh', Hd'. split; lra.
    + split; [exact Hc|]. rewrite Hthr. repeat split; assumption.
  - pose proof (drain_inv (e_period E) (now s) Hper (i :: q) p (log s) Hc Hcp Hh Hn) as Hd.
    destruct (drain (e_period E) (now s) (i :: q) p (log s)) as [[p'|] l'].
    + destruct Hd as (Hc' & Hcp' & Hh' & Hn'). split; [exact Hc'|]. cbn. repeat split; assumption.
    + split; [exact Hd|]. cbn. exact I.
Qed.

Lemma choose_inv per s : Inv per s -> Inv per (snd (choose s)).
Proof. unfold choose, Inv. destruct (sched s); cbn; auto. Qed.

Lemma choice_point_inv E s : 0 <= e_period E -> Inv (e_period E) s -> Inv (e_period E) (choice_point E s).
Proof.
  intros Hper HI. unfold choice_point. destruct (thr s) as [p|]; [|exact HI].
  destruct (runnable p (now s)); [|exact HI].
  pose proof (choose_inv _ s HI) as Hc. destruct (choose s) as [b s']. cbn in Hc.
  destruct b; [apply flush_inv; assumption|exact Hc].
Qed.

Lemma put_inv E i s : 0 <= e_period E -> Inv (e_period E) s -> Inv (e_period E) (fst (put E i s)).
Proof.
  intros Hper HI. unfold put. destruct (thr s) as [p|] eqn:Hthr; [|exact HI].
  cbn [fst]. apply choice_point_inv; [exact Hper|].
  destruct HI as [Hc Ht]. rewrite Hthr in Ht. destruct Ht as (Hcp & Hh & Hn).
  split; [exact Hc|]. cbn. split; [apply coupled_set_q; exact Hcp|]. split; assumption.
Qed.

(* ------------------------------------------------------------------ the timeouts during a sleep *)
Lemma timeouts_inv per : 0 <= per -> forall n p l p1 l1,
  chain per l -> coupled per p l -> timeouts per n p l = (p1, l1) ->
  chain per l1 /\ coupled per p1 l1 /\
  sp_dl p1 == sp_dl p + inject_Z (Z.of_nat n) * per /\
  (n <> O -> head_time l1 + per == sp_dl p1).
Proof.
  intros Hper. induction n as [|n IH]; intros p l p1 l1 Hc Hcp H.
  - cbn in H. injection H as <- <-. repeat split; try assumption; [cbn; ring|congruence].
  - cbn [timeouts] in H.
    assert (Hh : head_time l <= sp_dl p).
    { destruct l as [|e0 l]; [contradiction|]. destruct e0; try contradiction; cbn in *; tauto. }
    pose proof (timeout_step per p l (sp_dl p) Hper Hc Hcp Hh (Qle_refl _)) as Hs.
    destruct (sp_timeout per p (sp_dl p)) as [p' e].
    destruct Hs as (Hc' & Hcp' & Hh' & Hd' & Hq').
    destruct n as [|n'].
    + cbn in H. injection H as <- <-.
      split; [exact Hc'|]. split; [exact Hcp'|]. split.
      * rewrite Hd'. cbn. ring.
      * intros _. rewrite Hh', Hd'. reflexivity.
    + destruct (IH p' (e :: l) p1 l1 Hc' Hcp' H) as (Hc1 & Hcp1 & Hd1 & Hh1).
      split; [exact Hc1|]. split; [exact Hcp1|]. split.
      * rewrite Hd1, Hd'. rewrite (Nat2Z.inj_succ (S n')). unfold Z.succ. rewrite inject_Z_plus. ring.
      * intros _. apply Hh1. discriminate.
Qed.

Lemma n_strict_spec dl target per :
  0 < per ->
  let n := n_strict dl target per in
  target <= dl + inject_Z (Z.of_nat n) * per /\
  (n <> O -> dl + inject_Z (Z.of_nat n) * per - per < target).
Proof.
  intros Hper n. subst n. unfold n_strict.
  destruct (Qltb dl target) eqn:Hlt.
  - apply Qltb_true in Hlt.
    set (x := (target - dl) / per).
    assert (Hx : 0 < x).
    { unfold x. apply Qlt_shift_div_l; lra. }
    assert (Hxe : x * per == target - dl) by (unfold x; field; lra).
    pose proof (Qle_ceiling x) as H1. pose proof (Qceiling_lt x) as H2.
    assert (Hc : (0 < Qceiling x)%Z).
    { rewrite Zlt_Qlt. change (0 < inject_Z (Qceiling x)). lra. }
    rewrite Z2Nat.id by lia.
    unfold Z.sub in H2. rewrite inject_Z_plus in H2. change (inject_Z (- (1))) with (-1 # 1) in H2.
    split.
    + assert (x * per <= inject_Z (Qceiling x) * per) by (apply Qmult_le_compat_r; lra). lra.
    + intros _. assert ((inject_Z (Qceiling x) + (-1 # 1)) * per < x * per) by (apply Qmult_lt_compat_r; lra). lra.
  - apply Qltb_false in Hlt. split; [change (inject_Z (Z.of_nat 0)) with 0; lra|congruence].
Qed.

Lemma set_now_inv per s t : Inv per s ->
  (match thr s with Some p => head_time (log s) <= t /\ t <= sp_dl p | None => True end) ->
  Inv per (set_now s t).
Proof.
  intros [Hc Ht] Hb. split; [exact Hc|]. cbn. destruct (thr s) as [p|]; [|exact I].
  destruct Ht as (Hcp & _ & _). destruct Hb. repeat split; assumption.
Qed.

Lemma sleep_inv E d s : 0 < e_period E -> Inv (e_period E) s -> Inv (e_period E) (fst (sleep E d s)).
Proof.
  intros Hper HI. assert (Hper0 : 0 <= e_period E) by lra.
  unfold sleep. destruct (Qltb d 0) eqn:Hd; [exact HI|]. apply Qltb_false in Hd.
  pose proof (flush_inv E s Hper0 HI) as H1.
  assert (Hnow : now (flush E s) = now s).
  { unfold flush. destruct (thr s) as [p|]; [|reflexivity]. destruct (sp_q p).
    - destruct (Qle_bool _ _); [|reflexivity]. destruct (sp_timeout _ _ _). reflexivity.
    - destruct (drain _ _ _ _ _). reflexivity. }
  set (s1 := flush E s) in *.
  destruct (thr s1) as [p|] eqn:Hthr.
  - destruct H1 as [Hc Ht]. rewrite Hthr in Ht. destruct Ht as (Hcp & Hh & Hn).
    pose proof (n_strict_spec (sp_dl p) (now s + d) (e_period E) Hper) as Hns.
    set (n := n_strict (sp_dl p) (now s + d) (e_period E)) in *.
    destruct (timeouts (e_period E) n p (log s1)) as [p1 l1] eqn:Hto.
    destruct (timeouts_inv (e_period E) Hper0 n p (log s1) p1 l1 Hc Hcp Hto) as (Hc1 & Hcp1 & Hd1 & Hh1).
    destruct Hns as [Hn1 Hn2].
    assert (HI2 : Inv (e_period E) (set_now (set_thr s1 (Some p1) l1) (now s + d))).
    { split; [exact Hc1|]. cbn. split; [exact Hcp1|]. split; [|lra].
      destruct n as [|n'] eqn:En.
      - cbn in Hto. injection Hto as <- <-. rewrite Hnow in Hh. lra.
      - assert (Hne : S n' <> O) by discriminate.
        specialize (Hh1 Hne). specialize (Hn2 Hne). lra. }
    destruct (Qeq_bool (sp_dl p1) (now s + d)); [|exact HI2].
    pose proof (choose_inv _ _ HI2) as Hch.
    destruct (choose (set_now (set_thr s1 (Some p1) l1) (now s + d))) as [b s3]. cbn in Hch.
    cbn [fst]. destruct b; [apply flush_inv; assumption|exact Hch].
  - cbn [fst]. apply set_now_inv; [exact H1|]. rewrite Hthr. exact I.
Qed.

Lemma stop_thread_inv E s : 0 <= e_period E -> Inv (e_period E) s ->
  Inv (e_period E) (stop_thread E s) /\ thr (stop_thread E s) = None.
Proof.
  intros Hper HI. split; [|apply stop_thread_none].
  unfold stop_thread. destruct (thr s) as [p|] eqn:Hthr; [|exact HI].
  match goal with |- context [flush E ?x] => assert (H1 : Inv (e_period E) x) end.
  { apply choice_point_inv; [exact Hper|].
    destruct HI as [Hc Ht]. rewrite Hthr in Ht. destruct Ht as (Hcp & Hh & Hn).
    split; [exact Hc|]. cbn. split; [apply coupled_set_q; exact Hcp|]. split; assumption. }
  apply flush_inv in H1; [|exact Hper].
  destruct H1 as [Hc _]. split; [exact Hc|exact I].
Qed.

(* ------------------------------------------------------------------ action lists *)
(* tn = "the thread is known to be absent"; param/stop/notify calls are only made then *)
Fixpoint ok_acts (tn : bool) (l : list act) : bool :=
  match l with
  | [] => true
  | a :: r => match a with
              | AParam _ | AStop | ANotify => tn && ok_acts tn r
              | APut _ | ASleep _ | ASetFlying _ => ok_acts tn r
              | AStartThread => ok_acts false r
              | AStopThread => ok_acts true r
              end
  end.

Lemma ok_acts_weaken l : forall tn, ok_acts false l = true -> ok_acts tn l = true.
Proof.
  induction l as [|a l IH]; intros tn H; [reflexivity|].
  destruct a; cbn in *; try discriminate; auto.
Qed.

Lemma simple_ok l tn : Forall simple_act l -> ok_acts tn l = true.
Proof.
  induction 1 as [|a l Ha Hl IH]; [reflexivity|]. destruct a; cbn in *; try contradiction; exact IH.
Qed.

Lemma ok_acts_app l1 : forall tn l2, Forall simple_act l2 -> ok_acts tn l1 = true -> ok_acts tn (l1 ++ l2) = true.
Proof.
  induction l1 as [|a l1 IH]; intros tn l2 H2 H1; cbn.
  - apply simple_ok. exact H2.
  - destruct a; cbn in H1; try (apply andb_true_iff in H1 as [-> H1]; cbn); apply IH; assumption.
Qed.

Lemma exec_acts_inv E : 0 < e_period E -> forall l tn s,
  ok_acts tn l = true -> Inv (e_period E) s -> (tn = true -> thr s = None) ->
  Inv (e_period E) (fst (exec_acts E l s)).
Proof.
  intros Hper. assert (Hper0 : 0 <= e_period E) by lra.
  induction l as [|a l IH]; intros tn s Hok HI Htn; [exact HI|].
  cbn [exec_acts].
  destruct a; cbn [ok_acts] in Hok; cbn [exec_act].
  - (* APut *)
    pose proof (put_inv E i s Hper0 HI) as H1.
    assert (Hn : tn = true -> thr (fst (put E i s)) = None \/ snd (put E i s) <> None).
    { intros Ht. unfold put. rewrite (Htn Ht). right. discriminate. }
    destruct (put E i s) as [s1 [e|]] eqn:Hp; [exact H1|].
    cbn [fst] in *. eapply IH; [exact Hok|exact H1|].
    intros Ht. destruct (Hn Ht) as [Hx|Hx]; [exact Hx|]. cbn in Hx. congruence.
  - (* ASleep *)
    pose proof (sleep_inv E d s Hper HI) as H1.
    assert (Hn : tn = true -> thr (fst (sleep E d s)) = None).
    { intros Ht. apply quiet_after. apply Htn. exact Ht. }
    destruct (sleep E d s) as [s1 [e|]]; [exact H1|]. cbn [fst] in *. eapply IH; eauto.
  - (* AParam *)
    apply andb_true_iff in Hok as [-> Hok]. specialize (Htn eq_refl).
    eapply IH; [exact Hok| |intros _; exact Htn].
    destruct HI as [Hc _]. split; [cbn; split; [|exact Hc]; destruct (log s) as [|e0 ?]; [exact I|destruct e0; exact I]|].
    cbn. rewrite Htn. exact I.
  - (* ASetFlying *)
    eapply IH; [exact Hok|exact HI|exact Htn].
  - (* AStartThread *)
    eapply IH; [exact Hok| |discriminate].
    destruct HI as [Hc _]. split.
    + cbn. split; [|exact Hc]. destruct (log s) as [|e0 ?]; [exact I|destruct e0; exact I].
    + cbn. unfold sp_new; cbn. repeat split; try lra; reflexivity.
  - (* AStopThread *)
    destruct (stop_thread_inv E s Hper0 HI) as [H1 H2].
    eapply IH; [exact Hok|exact H1|intros _; exact H2].
  - (* AStop *)
    apply andb_true_iff in Hok as [-> Hok]. specialize (Htn eq_refl).
    eapply IH; [exact Hok| |intros _; exact Htn].
    destruct HI as [Hc _]. split; [cbn; split; [|exact Hc]; destruct (log s) as [|e0 ?]; [exact I|destruct e0; exact I]|].
    cbn. rewrite Htn. exact I.
  - (* ANotify *)
    apply andb_true_iff in Hok as [-> Hok]. specialize (Htn eq_refl).
    eapply IH; [exact Hok| |intros _; exact Htn].
    destruct HI as [Hc _]. split; [cbn; split; [|exact Hc]; destruct (log s) as [|e0 ?]; [exact I|destruct e0; exact I]|].
    cbn. rewrite Htn. exact I.
Qed.

(* ------------------------------------------------------------------ primitives, body, session *)
Definition I2 (per : Q) (s : st) : Prop := Inv per s /\ J s.

Lemma J_thr s : J s -> flying s = false -> thr s = None.
Proof. intros HJ Hf. destruct (HJ Hf) as [H _]. exact H. Qed.

Lemma exec_op_inv E defh o s s' r :
  0 < e_period E -> I2 (e_period E) s -> exec_op E defh o s = (s', r) -> I2 (e_period E) s'.
Proof.
  intros Hper [HI HJ] H. split; [|eapply exec_op_J; eauto].
  destruct (is_land o) eqn:Hl.
  { destruct o; try discriminate. unfold exec_op in H. destruct (flying s) eqn:Hf.
    - pose proof (move_simple E true 0 0) as Hm.
      assert (Hb : Forall simple_act (fst (land_body E s v))).
      { unfold land_body. destruct (thr s); [|constructor]. destruct (Qeq_bool _ 0); [constructor|]. apply Hm. }
      destruct (land_body E s v) as [body bx]. cbn in Hb.
      pose proof (exec_acts_inv E Hper body false s (simple_ok _ _ Hb) HI ltac:(discriminate)) as H1.
      destruct (exec_acts E body s) as [s1 r1]. cbn in H1.
      pose proof (exec_acts_inv E Hper land_final false s1 eq_refl H1 ltac:(discriminate)) as H2.
      destruct (exec_acts E land_final s1) as [s2 r2]. cbn in H2. injection H as <- _. exact H2.
    - injection H as <- _. exact HI. }
  destruct (is_takeoff o) eqn:Ht.
  { destruct o; try discriminate. cbn in H. unfold takeoff_acts in H. destruct (flying s) eqn:Hf.
    - cbn in H. injection H as <- _. exact HI.
    - pose proof (move_simple E true 0 0 (dflt h defh) (dflt v (e_vel E))) as Hm.
      destruct (move_acts E true 0 0 (dflt h defh) (dflt v (e_vel E))) as [m x]. cbn in Hm.
      match type of H with context [exec_acts E ?l s] =>
        pose proof (exec_acts_inv E Hper l true s) as H1; destruct (exec_acts E l s) as [s1 r1] end.
      cbn [fst] in H1. injection H as <- _. apply H1; [|exact HI|intros _; apply J_thr; assumption].
      apply (ok_acts_app [ASetFlying true; AParam 1; ASleep (1 # 10); AParam 0; ASleep 2; AStartThread] true m Hm).
      reflexivity. }
  assert (Hshape : exec_op E defh o s =
                   let '(acts, cx) := plain_acts E defh (flying s) o in
                   let '(s1, r1) := exec_acts E acts s in (s1, seq_exn r1 cx)).
  { destruct o; try discriminate; reflexivity. }
  rewrite Hshape in H. clear Hshape.
  pose proof (plain_simple E defh (flying s) o Ht) as Hs.
  destruct (plain_acts E defh (flying s) o) as [acts cx]. cbn in Hs.
  pose proof (exec_acts_inv E Hper acts false s (simple_ok _ _ Hs) HI ltac:(discriminate)) as H1.
  destruct (exec_acts E acts s) as [s1 r1]. cbn in H1. injection H as <- _. exact H1.
Qed.

(* the link flag is no part of the invariants; a refused take_off changes nothing *)
Lemma exec_op2_inv E defh o s s' r :
  0 < e_period E -> I2 (e_period E) s -> exec_op2 E defh o s = (s', r) -> I2 (e_period E) s'.
Proof.
  intros Hper HI H. destruct o; cbn [exec_op2] in H; try (eapply exec_op_inv; eauto; fail).
  - destruct (negb (flying s) && negb (conn s)).
    + injection H as <- _. exact HI.
    + eapply exec_op_inv; eauto.
  - injection H as <- _. exact HI.
Qed.

Lemma exec_body_inv E defh ops : 0 < e_period E -> forall s s' r,
  I2 (e_period E) s -> exec_body E defh ops s = (s', r) -> I2 (e_period E) s'.
Proof.
  intros Hper. induction ops as [|o ops IH]; intros s s' r HI H; cbn in H.
  - injection H as <- _. exact HI.
  - destruct (exec_op2 E defh o s) as [s1 [e|]] eqn:Ho.
    + injection H as <- _. eapply exec_op2_inv; eauto.
    + eapply IH; [|exact H]. eapply exec_op2_inv; eauto.
Qed.

Lemma takeoff_inv E defh h v s s' r :
  0 < e_period E -> Inv (e_period E) s -> flying s = false -> thr s = None ->
  exec_op E defh (OTakeOff h v) s = (s', r) -> Inv (e_period E) s'.
Proof.
  intros Hper HI Hf Hthr H. cbn in H. unfold takeoff_acts in H. rewrite Hf in H.
  pose proof (move_simple E true 0 0 (dflt h defh) (dflt v (e_vel E))) as Hm.
  destruct (move_acts E true 0 0 (dflt h defh) (dflt v (e_vel E))) as [m x]. cbn in Hm.
  match type of H with context [exec_acts E ?l s] =>
    pose proof (exec_acts_inv E Hper l true s) as H1; destruct (exec_acts E l s) as [s1 r1] end.
  cbn [fst] in H1. injection H as <- _. apply H1; [|exact HI|intros _; exact Hthr].
  apply (ok_acts_app [ASetFlying true; AParam 1; ASleep (1 # 10); AParam 0; ASleep 2; AStartThread] true m Hm).
  reflexivity.
Qed.

(* the initial state: on the ground, no thread, empty log *)
Lemma takeoff_from_init E defh t0 sch s1 r :
  0 < e_period E -> exec_op E defh (OTakeOff None None) (init_st t0 sch) = (s1, r) -> I2 (e_period E) s1.
Proof.
  intros Hper H. split.
  - eapply takeoff_inv; [exact Hper| | | |exact H]; try reflexivity. split; cbn; exact I.
  - intros Hf. assert (Hx : flying s1 = true) by (eapply takeoff_flying; [|exact H]; reflexivity). congruence.
Qed.

Theorem mc_stream_chain E t0 defh ops sch :
  0 < e_period E -> chain (e_period E) (log (out_st (run_mc E t0 defh ops sch))).
Proof.
  intros Hper. unfold run_mc.
  destruct (exec_op E defh (OTakeOff None None) (init_st t0 sch)) as [s1 r1] eqn:Hto.
  pose proof (takeoff_from_init E defh t0 sch s1 r1 Hper Hto) as H1.
  destruct r1 as [e|]; [cbn; apply H1|].
  destruct (exec_body E defh ops s1) as [s2 rb] eqn:Hb.
  pose proof (exec_body_inv E defh ops Hper s1 s2 rb H1 Hb) as H2.
  destruct (exec_op E defh (OLand None) s2) as [s3 rl] eqn:Hl.
  pose proof (exec_op_inv E defh (OLand None) s2 s3 rl Hper H2 Hl) as H3.
  cbn. apply H3.
Qed.

Theorem mc_stream_period E t0 defh ops sch l1 l2 e1 e2 :
  0 < e_period E ->
  log (out_st (run_mc E t0 defh ops sch)) = l1 ++ e2 :: e1 :: l2 ->
  gap_ok (e_period E) e1 e2.
Proof. intros Hper H. eapply chain_adjacent; [apply mc_stream_chain; exact Hper|exact H]. Qed.

(* non-vacuity: a run whose log contains adjacent hover setpoints with non-zero vertical velocity *)
Definition ex_log : list ev := log (out_st (run_mc E0 5 (3 # 10) [OUp (1 # 2) None] [true; false; true])).

Example chain_example :
  exists (l1 l2 : list ev) (e1 e2 : ev),
    ex_log = l1 ++ e2 :: e1 :: l2 /\
    (match e1, e2 with
     | EHover _ _ _ _ z1 vz, EHover _ _ _ _ z2 _ => (~ vz == 0) /\ (~ z1 == z2)
     | _, _ => False
     end).
Proof.
  exists (firstn 3 ex_log), (skipn 5 ex_log), (nth 4 ex_log (EStop 0)), (nth 3 ex_log (EStop 0)).
  split; [vm_compute; reflexivity|]. vm_compute. split; intros H; discriminate.
Qed.

(* the two clauses of the chain, spelled out on the call log (newest entry first) *)
Lemma stream_period_spelled E t0 defh ops sch :
  0 < e_period E ->
  let L := log (out_st (run_mc E t0 defh ops sch)) in
  (forall l1 l2 t1 vx1 vy1 y1 z1 w1 t2 vx2 vy2 y2 z2 w2,
     L = l1 ++ EHover t2 vx2 vy2 y2 z2 w2 :: EHover t1 vx1 vy1 y1 z1 w1 :: l2 ->
     t1 <= t2 /\ t2 - t1 <= e_period E) /\
  (forall l1 l2 t1 t2 vx2 vy2 y2 z2 w2,
     L = l1 ++ EHover t2 vx2 vy2 y2 z2 w2 :: EStart t1 :: l2 ->
     t1 <= t2 /\ t2 - t1 <= e_period E).
Proof.
  intros Hper L. split; intros; pose proof (mc_stream_period E t0 defh ops sch _ _ _ _ Hper H) as G;
    cbn in G; tauto.
Qed.

Lemma height_integrates_spelled E t0 defh ops sch :
  0 < e_period E ->
  let L := log (out_st (run_mc E t0 defh ops sch)) in
  (forall l1 l2 t1 vx1 vy1 y1 z1 w1 t2 vx2 vy2 y2 z2 w2,
     L = l1 ++ EHover t2 vx2 vy2 y2 z2 w2 :: EHover t1 vx1 vy1 y1 z1 w1 :: l2 ->
     z2 == z1 + w1 * (t2 - t1)) /\
  (forall l1 l2 t1 t2 vx2 vy2 y2 z2 w2,
     L = l1 ++ EHover t2 vx2 vy2 y2 z2 w2 :: EStart t1 :: l2 -> z2 == 0).
Proof.
  intros Hper L. split; intros; pose proof (mc_stream_period E t0 defh ops sch _ _ _ _ Hper H) as G;
    cbn in G; tauto.
Qed.

(* the ghost field of a hover event is the vertical velocity of the setpoint item that was taken from the queue *)
Lemma item_event per p t vx vy vz yaw :
  exists z, snd (sp_item per p t vx vy vz yaw) = EHover t vx vy yaw z vz.
Proof. eexists. reflexivity. Qed.
