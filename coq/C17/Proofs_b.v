(* C17/Proofs_b.v — arithmetic clauses: velocity x duration = requested displacement (MotionCommander),
   reported position = previous + displacement and go_to duration = distance / velocity (PositionHlCommander).
   Exact rational arithmetic; math.sqrt enters only through  sqrt(x)*sqrt(x) == x  (and sqrt(x) >= 0). *)
From CF Require Import C17.Model.
From Coq Require Import Lqa.
Open Scope Q_scope.

Lemma Qeq_bool_false a b : ~ a == b -> Qeq_bool a b = false.
Proof.
  intros H. destruct (Qeq_bool a b) eqn:E; [|reflexivity]. apply Qeq_bool_iff in E. contradiction.
Qed.

Lemma Qeq_bool_false_inv a b : Qeq_bool a b = false -> ~ a == b.
Proof. intros H Hc. apply Qeq_bool_iff in Hc. congruence. Qed.

Lemma Qltb_true a b : Qltb a b = true <-> a < b.
Proof.
  unfold Qltb. rewrite negb_true_iff. split; intros H.
  - apply Qnot_le_lt. intros Hc. apply Qle_bool_iff in Hc. congruence.
  - destruct (Qle_bool b a) eqn:E; [|reflexivity]. apply Qle_bool_iff in E. lra.
Qed.

Lemma Qltb_false a b : Qltb a b = false <-> b <= a.
Proof.
  unfold Qltb. rewrite negb_false_iff. apply Qle_bool_iff.
Qed.

(* ------------------------------------------------------------------ MotionCommander: blocking primitives *)
Lemma move_displacement E dx dy dz v :
  let dist := e_sqrt E (dx * dx + dy * dy + dz * dz) in
  dist * dist == dx * dx + dy * dy + dz * dz -> ~ v == 0 -> ~ dist == 0 ->
  exists vx vy vz ft,
    move_acts E true dx dy dz v = ([APut (QVel vx vy vz 0); ASleep ft; APut qzero], None) /\
    vx * ft == dx /\ vy * ft == dy /\ vz * ft == dz /\
    vx * vx + vy * vy + vz * vz == v * v.
Proof.
  intros dist Hsq Hv Hd. unfold move_acts. fold dist.
  rewrite (Qeq_bool_false _ _ Hv), (Qeq_bool_false _ _ Hd). cbn [timed].
  do 4 eexists. split; [reflexivity|].
  repeat split; try (field; split; assumption).
  assert (H1 : v * dx / dist * (v * dx / dist) + v * dy / dist * (v * dy / dist) + v * dz / dist * (v * dz / dist)
               == v * v * (dx * dx + dy * dy + dz * dz) / (dist * dist)) by (field; assumption).
  rewrite H1, <- Hsq. field. assumption.
Qed.

Definition lin_request (o : op) : option (Q * Q * Q * option Q) :=
  match o with
  | OLeft d v => Some (0, d, 0, v) | ORight d v => Some (0, - d, 0, v)
  | OForward d v => Some (d, 0, 0, v) | OBack d v => Some (- d, 0, 0, v)
  | OUp d v => Some (0, 0, d, v) | ODown d v => Some (0, 0, - d, v)
  | OMove dx dy dz v => Some (dx, dy, dz, v)
  | _ => None
  end.

Theorem linear_primitive_displacement E defh o dx dy dz vo :
  lin_request o = Some (dx, dy, dz, vo) ->
  let v := dflt vo (e_vel E) in
  let dist := e_sqrt E (dx * dx + dy * dy + dz * dz) in
  dist * dist == dx * dx + dy * dy + dz * dz -> ~ v == 0 -> ~ dist == 0 ->
  exists vx vy vz ft,
    plain_acts E defh true o = ([APut (QVel vx vy vz 0); ASleep ft; APut qzero], None) /\
    vx * ft == dx /\ vy * ft == dy /\ vz * ft == dz /\
    vx * vx + vy * vy + vz * vz == v * v.
Proof.
  intros Hreq v dist Hsq Hv Hd.
  destruct o; cbn in Hreq; try discriminate; injection Hreq as <- <- <- <-;
    cbn [plain_acts]; apply move_displacement; assumption.
Qed.

Definition turn_request (o : op) : option (Q * option Q * Q) :=
  match o with OTurnLeft a r => Some (a, r, 1) | OTurnRight a r => Some (a, r, -1) | _ => None end.

Theorem turn_primitive_angle E defh o a ro sg :
  turn_request o = Some (a, ro, sg) ->
  let rate := dflt ro (e_rate E) in
  ~ rate == 0 ->
  exists yaw ft,
    plain_acts E defh true o = ([APut (QVel 0 0 0 yaw); ASleep ft; APut qzero], None) /\
    yaw * ft == sg * a.
Proof.
  intros Hreq rate Hr.
  destruct o; cbn in Hreq; try discriminate; injection Hreq as <- <- <-;
    cbn [plain_acts]; unfold turn_acts; fold rate; rewrite (Qeq_bool_false _ _ Hr); cbn [timed];
    do 2 eexists; (split; [reflexivity|]); field; assumption.
Qed.

Definition circle_request (o : op) : option (Q * option Q * option Q * Q) :=
  match o with
  | OCircleLeft rad v a => Some (rad, v, a, 1) | OCircleRight rad v a => Some (rad, v, a, -1)
  | _ => None
  end.

Theorem circle_primitive_angle E defh o rad vo ao sg :
  circle_request o = Some (rad, vo, ao, sg) ->
  let v := dflt vo (e_vel E) in
  let angle := dflt ao 360 in
  ~ v == 0 -> ~ 2 * rad * e_pi E == 0 ->
  exists yaw ft,
    plain_acts E defh true o = ([APut (QVel v 0 0 yaw); ASleep ft; APut qzero], None) /\
    yaw * ft == sg * angle /\ v * ft == 2 * rad * e_pi E * angle / 360.
Proof.
  intros Hreq v angle Hv Hc.
  assert (Hrad : ~ rad == 0) by (intros Hz; apply Hc; rewrite Hz; ring).
  assert (Hpi : ~ e_pi E == 0) by (intros Hz; apply Hc; rewrite Hz; ring).
  destruct o; cbn in Hreq; try discriminate; injection Hreq as <- <- <- <-;
    cbn [plain_acts]; unfold circle_acts, circle_rate; fold v; fold angle;
    rewrite (Qeq_bool_false _ _ Hv), (Qeq_bool_false _ _ Hc); cbn [timed];
    do 2 eexists; (split; [reflexivity|]); split; field; repeat split; assumption.
Qed.

(* ------------------------------------------------------------------ PositionHlCommander *)
Definition sqrt_spec (sq : Q -> Q) : Prop := forall r, 0 <= r -> sq r * sq r == r /\ 0 <= sq r.

Lemma sumsq_nonneg a b c : 0 <= a * a + b * b + c * c.
Proof. nra. Qed.

Lemma sumsq_zero a b c : a * a + b * b + c * c == 0 -> a == 0 /\ b == 0 /\ c == 0.
Proof. intros H. repeat split; nra. Qed.

Lemma hsleep_ok d s s' : hsleep d s = (s', None) -> s' = h_set_time s (hnow s + d).
Proof. unfold hsleep. destruct (Qltb d 0); [discriminate|]. intros H. injection H as <-. reflexivity. Qed.

(* a go_to that returns: the reported position is the target; if the target differs from the current position
   exactly one go_to command was sent, to that target, with duration x velocity = distance *)
Lemma h_goto_spec sq x y z v s s' :
  sqrt_spec sq -> h_goto sq x y z v s = (s', None) ->
  let dist := sq ((x - hx s) * (x - hx s) + (y - hy s) * (y - hy s) + (z - hz s) * (z - hz s)) in
  hx s' == x /\ hy s' == y /\ hz s' == z /\
  dist * dist == (x - hx s) * (x - hx s) + (y - hy s) * (y - hy s) + (z - hz s) * (z - hz s) /\
  ((0 < dist /\ exists dur, hlog s' = HGoto (hnow s) x y z 0 dur :: hlog s /\ dur * dflt v (dvel s) == dist
                            /\ hx s' = x /\ hy s' = y /\ hz s' = z /\ hnow s' = hnow s + dur)
   \/ (dist == 0 /\ s' = s)).
Proof.
  intros Hsq H dist.
  destruct (Hsq _ (sumsq_nonneg (x - hx s) (y - hy s) (z - hz s))) as [Hd Hd0]. fold dist in Hd, Hd0.
  unfold h_goto in H. destruct (hfly s) eqn:Hfl; cbn [negb] in H; [|discriminate]. fold dist in H.
  destruct (Qltb 0 dist) eqn:Hlt.
  - apply Qltb_true in Hlt.
    destruct (Qeq_bool (dflt v (dvel s)) 0) eqn:Hv; [discriminate|]. apply Qeq_bool_false_inv in Hv.
    match type of H with context [hsleep ?d ?s1] => destruct (hsleep d s1) as [s2 [e|]] eqn:Hs end; [discriminate|].
    apply hsleep_ok in Hs. subst s2. injection H as <-. cbn.
    repeat split; try reflexivity; try exact Hd.
    left. split; [exact Hlt|]. eexists. split; [reflexivity|]. split; [field; exact Hv|].
    repeat split; reflexivity.
  - apply Qltb_false in Hlt. injection H as <-.
    assert (Hz : dist == 0) by lra.
    assert (H0 : (x - hx s) * (x - hx s) + (y - hy s) * (y - hy s) + (z - hz s) * (z - hz s) == 0).
    { rewrite <- Hd, Hz. ring. }
    apply sumsq_zero in H0. destruct H0 as (Hx & Hy & Hzz).
    repeat split; try lra; try exact Hd.
    right. split; [exact Hz|reflexivity].
Qed.

(* wave 13: HEAD's guard is `distance > 0`.  EVERY non-zero displacement, however small, issues exactly one go_to to the new
   position (duration x velocity = distance) and advances the reported position; a zero displacement issues none and changes
   nothing. *)
Lemma h_move_nonzero sq dx dy dz v s :
  sqrt_spec sq -> hfly s = true -> 0 < dflt v (dvel s) -> ~ (dx == 0 /\ dy == 0 /\ dz == 0) ->
  exists s' dur dist,
    h_move sq dx dy dz v s = (s', None) /\
    hlog s' = HGoto (hnow s) (hx s + dx) (hy s + dy) (hz s + dz) 0 dur :: hlog s /\
    0 < dist /\ dist * dist == dx * dx + dy * dy + dz * dz /\ dur * dflt v (dvel s) == dist /\
    hx s' = hx s + dx /\ hy s' = hy s + dy /\ hz s' = hz s + dz.
Proof.
  intros Hsq Hf Hv Hnz. unfold h_move, h_goto. rewrite Hf. cbn [negb].
  set (r := (hx s + dx - hx s) * (hx s + dx - hx s) + (hy s + dy - hy s) * (hy s + dy - hy s)
            + (hz s + dz - hz s) * (hz s + dz - hz s)).
  assert (Hr : r == dx * dx + dy * dy + dz * dz) by (unfold r; ring).
  assert (Hr0 : 0 <= r) by (rewrite Hr; apply sumsq_nonneg).
  destruct (Hsq r Hr0) as [Hd Hd0].
  assert (Hpos : 0 < sq r).
  { destruct (Qlt_le_dec 0 (sq r)) as [H|H]; [exact H|]. exfalso. assert (Hz : sq r == 0) by lra.
    apply Hnz. apply sumsq_zero. rewrite <- Hr, <- Hd, Hz. ring. }
  assert (Hb : Qltb 0 (sq r) = true) by (apply Qltb_true; exact Hpos). rewrite Hb.
  assert (Hve : Qeq_bool (dflt v (dvel s)) 0 = false) by (apply Qeq_bool_false; lra). rewrite Hve.
  assert (Hdur : 0 <= sq r / dflt v (dvel s)) by (apply Qle_shift_div_l; lra).
  unfold hsleep. assert (Hs : Qltb (sq r / dflt v (dvel s)) 0 = false) by (apply Qltb_false; exact Hdur). rewrite Hs.
  do 3 eexists. split; [reflexivity|]. cbn.
  split; [reflexivity|]. split; [exact Hpos|]. split; [rewrite Hd; exact Hr|]. split; [field; lra|].
  repeat split; reflexivity.
Qed.

Lemma h_move_zero sq dx dy dz v s :
  sqrt_spec sq -> hfly s = true -> dx == 0 -> dy == 0 -> dz == 0 -> h_move sq dx dy dz v s = (s, None).
Proof.
  intros Hsq Hf Hx Hy Hz. unfold h_move, h_goto. rewrite Hf. cbn [negb].
  set (r := (hx s + dx - hx s) * (hx s + dx - hx s) + (hy s + dy - hy s) * (hy s + dy - hy s)
            + (hz s + dz - hz s) * (hz s + dz - hz s)).
  assert (Hr : r == 0) by (unfold r; rewrite Hx, Hy, Hz; ring).
  assert (Hr0 : 0 <= r) by lra.
  destruct (Hsq r Hr0) as [Hd Hd0].
  assert (Hz0 : sq r == 0) by nra.
  assert (Hb : Qltb 0 (sq r) = false) by (apply Qltb_false; lra). rewrite Hb. reflexivity.
Qed.

(* a threshold variant (distance > 1 mm) drops a 0.8 mm step: no go_to, position not advanced *)
Lemma goto_threshold_refuted :
  exists s, hfly s = true /\
    h_goto_thr (1 # 1000) qsqrt_exact (hx s) (hy s) (hz s + (8 # 10000)) None s = (s, None).
Proof.
  exists (mkH 5 true 0 0 (1 # 2) (1 # 2) (1 # 2) 0 5 [] true). split; [reflexivity|]. vm_compute. reflexivity.
Qed.

Definition rel_disp (o : hop) : option (Q * Q * Q) :=
  match o with
  | HLeft d _ => Some (0, d, 0) | HRight d _ => Some (0, - d, 0)
  | HForward d _ => Some (d, 0, 0) | HBack d _ => Some (- d, 0, 0)
  | HUp d _ => Some (0, 0, d) | HDown d _ => Some (0, 0, - d)
  | HMove dx dy dz _ => Some (dx, dy, dz)
  | HSetVel _ | HSetHeight _ | HSetLanding _ => Some (0, 0, 0)
  | _ => None
  end.

Lemma hl_op_position sq o s s' dx dy dz :
  sqrt_spec sq -> rel_disp o = Some (dx, dy, dz) -> hexec_op sq o s = (s', None) ->
  hx s' == hx s + dx /\ hy s' == hy s + dy /\ hz s' == hz s + dz.
Proof.
  intros Hsq Hr H.
  destruct o; cbn in Hr; try discriminate; injection Hr as <- <- <-; cbn in H;
    try (unfold h_move in H; apply h_goto_spec in H; [|exact Hsq]; destruct H as (Hx & Hy & Hz & _);
         repeat split; assumption);
    injection H as <-; cbn; repeat split; ring.
Qed.

Fixpoint sum_disp (ops : list hop) : option (Q * Q * Q) :=
  match ops with
  | [] => Some (0, 0, 0)
  | o :: r => match rel_disp o, sum_disp r with
              | Some (a, b, c), Some (a', b', c') => Some (a + a', b + b', c + c')
              | _, _ => None
              end
  end.

(* relative moves and default changes never consult the link *)
Lemma hexec_op2_rel sq o s d : rel_disp o = Some d -> hexec_op2 sq o s = hexec_op sq o s.
Proof. destruct o; cbn; intros H; try discriminate; reflexivity. Qed.

Theorem hl_position_is_sum sq ops : forall s pos s' pos' dx dy dz,
  sqrt_spec sq -> sum_disp ops = Some (dx, dy, dz) ->
  hexec_body sq ops s pos = (s', None, pos') ->
  hx s' == hx s + dx /\ hy s' == hy s + dy /\ hz s' == hz s + dz.
Proof.
  induction ops as [|o ops IH]; intros s pos s' pos' dx dy dz Hsq Hsum H; cbn [hexec_body sum_disp] in *.
  - injection Hsum as <- <- <-. injection H as <- _. repeat split; ring.
  - destruct (rel_disp o) as [[[a b] c]|] eqn:Hr; [|discriminate].
    destruct (sum_disp ops) as [[[a' b'] c']|] eqn:Hs; [|discriminate].
    injection Hsum as <- <- <-.
    rewrite (hexec_op2_rel sq o s _ Hr) in H.
    destruct (hexec_op sq o s) as [s1 [e|]] eqn:Ho; [discriminate|].
    destruct (hl_op_position sq o s s1 a b c Hsq Hr Ho) as (Hx & Hy & Hz).
    destruct (IH s1 _ s' pos' a' b' c' Hsq eq_refl H) as (Hx' & Hy' & Hz').
    repeat split; lra.
Qed.

Theorem hl_goto_targets_position sq x y zo v s s' :
  sqrt_spec sq -> hexec_op sq (HGoTo x y zo v) s = (s', None) ->
  let z := dflt zo (dheight s) in
  hx s' == x /\ hy s' == y /\ hz s' == z /\
  ((exists dur dist, hlog s' = HGoto (hnow s) x y z 0 dur :: hlog s /\ 0 < dist /\
                     dist * dist == (x - hx s) * (x - hx s) + (y - hy s) * (y - hy s) + (z - hz s) * (z - hz s) /\
                     dur * dflt v (dvel s) == dist /\ hx s' = x /\ hy s' = y /\ hz s' = z)
   \/ s' = s).
Proof.
  intros Hsq H z. cbn in H. fold z in H. apply h_goto_spec in H; [|exact Hsq].
  destruct H as (Hx & Hy & Hz & Hd & [[Hpos (dur & Hl & Hdur & Hxe & Hye & Hze & _)]|[_ Hs]]).
  - split; [exact Hx|]. split; [exact Hy|]. split; [exact Hz|]. left.
    exists dur. eexists. split; [exact Hl|]. split; [exact Hpos|]. split; [exact Hd|].
    split; [exact Hdur|]. split; [exact Hxe|]. split; [exact Hye|exact Hze].
  - split; [exact Hx|]. split; [exact Hy|]. split; [exact Hz|]. right. exact Hs.
Qed.

(* non-vacuity of sqrt_spec-free instances: the exact root of a rational square *)
Example sqrt_example : qsqrt_exact ((3 # 10) * (3 # 10) + (4 # 10) * (4 # 10) + 0 * 0) == 1 # 2.
Proof. vm_compute. reflexivity. Qed.

Example move_example :
  exists vx vy vz ft,
    plain_acts (mkEnv (1 # 5) 72 (1 # 5) (355 # 113) qsqrt_exact) (3 # 10) true (OMove (3 # 10) (4 # 10) 0 None)
    = ([APut (QVel vx vy vz 0); ASleep ft; APut qzero], None) /\ vx * ft == 3 # 10 /\ vy * ft == 4 # 10 /\ ft == 5 # 2.
Proof. do 4 eexists. split; [vm_compute; reflexivity|]. vm_compute. repeat split; reflexivity. Qed.

(* ------------------------------------------------------------------ the quantifier of the displacement clause *)
(* for ALL velocities v <> 0 — no bound — and all distances: velocity x (distance / velocity) = distance *)
Lemma velocity_times_duration v d : ~ v == 0 -> v * (d / v) == d.
Proof. intros H. field. exact H. Qed.

(* per axis, for the normalised direction the code computes: (v * dx / dist) * (dist / v) = dx *)
Lemma axis_velocity_times_duration v dx dist : ~ v == 0 -> ~ dist == 0 -> (v * dx / dist) * (dist / v) == dx.
Proof. intros H1 H2. field. split; assumption. Qed.

(* a setpoint clamped at vmax streamed for the duration of the unclamped velocity falls short *)
Lemma clamped_setpoint_refuted :
  exists vmax v d, 0 < vmax /\ vmax < v /\ ~ qclamp vmax v * (d / v) == d.
Proof. exists 1, 2, 1. repeat split; try reflexivity. intros H. vm_compute in H. discriminate. Qed.

(* and above the cap it ALWAYS falls short (positive distance) *)
Lemma clamped_setpoint_short vmax v d : 0 < vmax -> vmax < v -> 0 < d -> qclamp vmax v * (d / v) < d.
Proof.
  intros H0 H1 Hd. unfold qclamp. apply Qltb_true in H1 as Hb. rewrite Hb.
  assert (Hv : 0 < v) by lra.
  assert (He : vmax * (d / v) == d * (vmax / v)) by (field; lra).
  rewrite He.
  assert (Hr : vmax / v < 1) by (apply Qlt_shift_div_r; lra).
  setoid_replace d with (d * 1) at 2 by ring.
  apply Qmult_lt_l; assumption.
Qed.
