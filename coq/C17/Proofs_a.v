(* C17/Proofs_a.v — control-flow theorems: every way of leaving the context (and every land()) ends with
   stop; notify, the thread is gone, and time passing afterwards adds no call. *)
From CF Require Import C17.Model.
Open Scope Q_scope.

(* ------------------------------------------------------------------ basic facts about actions *)
Definition simple_act (a : act) : Prop := match a with APut _ | ASleep _ => True | _ => False end.

Lemma choose_flying s : flying (snd (choose s)) = flying s.
Proof. unfold choose. destruct (sched s); reflexivity. Qed.

Lemma flush_flying E s : flying (flush E s) = flying s.
Proof.
  unfold flush. destruct (thr s) as [p|]; [|reflexivity].
  destruct (sp_q p).
  - destruct (Qle_bool _ _); [|reflexivity]. destruct (sp_timeout _ _ _). reflexivity.
  - destruct (drain _ _ _ _ _). reflexivity.
Qed.

Lemma choice_point_flying E s : flying (choice_point E s) = flying s.
Proof.
  unfold choice_point. destruct (thr s) as [p|]; [|reflexivity].
  destruct (runnable p (now s)); [|reflexivity].
  pose proof (choose_flying s) as H. destruct (choose s) as [b s']. cbn in H.
  destruct b; [rewrite flush_flying|]; exact H.
Qed.

Lemma sleep_flying E d s : flying (fst (sleep E d s)) = flying s.
Proof.
  unfold sleep. destruct (Qltb d 0); [reflexivity|].
  pose proof (flush_flying E s) as Hf.
  destruct (thr (flush E s)) as [p|] eqn:Ht; [|cbn; exact Hf].
  destruct (timeouts _ _ _ _) as [p1 l1].
  destruct (Qeq_bool _ _); [|cbn; exact Hf].
  match goal with |- context [choose ?x] => pose proof (choose_flying x) as Hc; destruct (choose x) as [b s3] end.
  cbn in Hc. destruct b; cbn; [rewrite flush_flying|]; rewrite Hc; cbn; exact Hf.
Qed.

Lemma put_flying E i s : flying (fst (put E i s)) = flying s.
Proof.
  unfold put. destruct (thr s); [|reflexivity]. cbn [fst]. rewrite choice_point_flying. reflexivity.
Qed.

Lemma simple_act_flying E a s : simple_act a -> flying (fst (exec_act E a s)) = flying s.
Proof.
  destruct a; cbn; intros H; try contradiction.
  - apply put_flying.
  - apply sleep_flying.
Qed.

Lemma simple_acts_flying E l : Forall simple_act l -> forall s, flying (fst (exec_acts E l s)) = flying s.
Proof.
  induction 1 as [|a l Ha Hl IH]; intros s; cbn; [reflexivity|].
  pose proof (simple_act_flying E a s Ha) as H1.
  destruct (exec_act E a s) as [s' [e|]]; cbn in *; [exact H1|].
  rewrite IH. exact H1.
Qed.

Lemma exec_acts_app E l1 l2 s :
  exec_acts E (l1 ++ l2) s =
  match exec_acts E l1 s with (s', None) => exec_acts E l2 s' | r => r end.
Proof.
  revert s. induction l1 as [|a l1 IH]; intros s; cbn; [reflexivity|].
  destruct (exec_act E a s) as [s' [e|]]; [reflexivity|]. apply IH.
Qed.

(* ------------------------------------------------------------------ shapes of the action lists *)
Lemma timed_simple fl vx vy vz yaw ft : Forall simple_act (fst (timed fl vx vy vz yaw ft)).
Proof. unfold timed. destruct fl; cbn; repeat constructor. Qed.

Lemma setvel_simple fl vx vy vz yaw : Forall simple_act (fst (setvel fl vx vy vz yaw)).
Proof. unfold setvel. destruct fl; cbn; repeat constructor. Qed.

Lemma move_simple E fl dx dy dz v : Forall simple_act (fst (move_acts E fl dx dy dz v)).
Proof.
  unfold move_acts. destruct (Qeq_bool v 0); [constructor|].
  destruct (Qeq_bool _ 0); [constructor|]. apply timed_simple.
Qed.

Lemma turn_simple fl a r sg : Forall simple_act (fst (turn_acts fl a r sg)).
Proof. unfold turn_acts. destruct (Qeq_bool r 0); [constructor|]. apply timed_simple. Qed.

Lemma circle_simple E fl rad v a sg : Forall simple_act (fst (circle_acts E fl rad v a sg)).
Proof.
  unfold circle_acts. destruct (Qeq_bool v 0); [constructor|].
  destruct (Qeq_bool _ 0); [constructor|]. apply timed_simple.
Qed.

Lemma start_circle_simple E fl rad v sg : Forall simple_act (fst (start_circle_acts E fl rad v sg)).
Proof. unfold start_circle_acts. destruct (Qeq_bool _ 0); [constructor|]. apply setvel_simple. Qed.

Definition is_takeoff (o : op) : bool := match o with OTakeOff _ _ => true | _ => false end.
Definition is_land (o : op) : bool := match o with OLand _ => true | _ => false end.

Lemma plain_simple E defh fl o : is_takeoff o = false -> Forall simple_act (fst (plain_acts E defh fl o)).
Proof.
  destruct o; cbn; intros H; try discriminate;
    first [ apply move_simple | apply turn_simple | apply circle_simple | apply setvel_simple
          | apply start_circle_simple | repeat constructor ].
Qed.

(* on the ground every primitive except take_off does nothing but raise (land: nothing at all; a user sleep: sleeps) *)
Definition sleep_act (a : act) : Prop := match a with ASleep _ => True | _ => False end.

Lemma plain_ground E defh o : is_takeoff o = false -> Forall sleep_act (fst (plain_acts E defh false o)).
Proof.
  destruct o; cbn; intros H; try discriminate; try (repeat constructor);
    unfold move_acts, turn_acts, circle_acts, start_circle_acts;
    repeat match goal with |- context [if Qeq_bool ?a ?b then _ else _] => destruct (Qeq_bool a b) end;
    cbn; repeat constructor.
Qed.

(* ------------------------------------------------------------------ land *)
Definition ends_stopped (s : st) : Prop :=
  thr s = None /\ flying s = false /\ exists t rest, log s = ENotify t :: EStop t :: rest.

Lemma stop_thread_none E s : thr (stop_thread E s) = None.
Proof. unfold stop_thread. destruct (thr s) eqn:H; [reflexivity|exact H]. Qed.

Lemma land_final_spec E s :
  exists s', exec_acts E land_final s = (s', None) /\ ends_stopped s' /\
             log s' = ENotify (now (stop_thread E s)) :: EStop (now (stop_thread E s)) :: log (stop_thread E s).
Proof.
  unfold land_final. cbn.
  eexists. split; [reflexivity|]. split; [|reflexivity].
  unfold ends_stopped. cbn. split; [apply stop_thread_none|]. split; [reflexivity|].
  eexists; eexists; reflexivity.
Qed.

Lemma land_ends_stopped E defh v s s' r :
  flying s = true -> exec_op E defh (OLand v) s = (s', r) -> ends_stopped s'.
Proof.
  intros Hf H. unfold exec_op in H. rewrite Hf in H.
  destruct (land_body E s v) as [body bx].
  destruct (exec_acts E body s) as [s1 r1].
  destruct (land_final_spec E s1) as (s2 & He & Hs & _). rewrite He in H.
  injection H as <- _. exact Hs.
Qed.

Lemma land_ground E defh v s : flying s = false -> exec_op E defh (OLand v) s = (s, None).
Proof. intros Hf. cbn. rewrite Hf. reflexivity. Qed.

(* ------------------------------------------------------------------ take_off leaves the helper flying *)
Lemma takeoff_flying E defh h v s s' r :
  flying s = false -> exec_op E defh (OTakeOff h v) s = (s', r) -> flying s' = true.
Proof.
  intros Hf H. cbn in H. unfold takeoff_acts in H. rewrite Hf in H.
  pose proof (move_simple E true 0 0 (dflt h defh) (dflt v (e_vel E))) as Hm.
  destruct (move_acts E true 0 0 (dflt h defh) (dflt v (e_vel E))) as [m x]. cbn in Hm.
  set (pre := [AParam 1; ASleep (1 # 10); AParam 0; ASleep 2; AStartThread]) in *.
  change ((ASetFlying true :: pre) ++ m) with (ASetFlying true :: (pre ++ m)) in H.
  cbn [exec_acts exec_act] in H.
  (* after ASetFlying true the remaining actions never touch the flag *)
  assert (Hk : forall l s0, Forall (fun a => match a with ASetFlying _ | AStopThread => False | _ => True end) l ->
                            flying (fst (exec_acts E l s0)) = flying s0).
  { induction l as [|a l IH]; intros s0 Hl; cbn; [reflexivity|].
    inversion Hl as [|? ? Ha Hl']; subst.
    assert (H1 : flying (fst (exec_act E a s0)) = flying s0).
    { destruct a; cbn; try contradiction; try reflexivity; [apply put_flying|apply sleep_flying]. }
    destruct (exec_act E a s0) as [s1 [e|]]; cbn in *; [exact H1|]. rewrite IH by exact Hl'. exact H1. }
  assert (Hall : Forall (fun a => match a with ASetFlying _ | AStopThread => False | _ => True end) (pre ++ m)).
  { apply Forall_app. split.
    - unfold pre. repeat constructor.
    - eapply Forall_impl; [|exact Hm]. intros a Ha. destruct a; cbn in *; try contradiction; exact I. }
  specialize (Hk (pre ++ m) (set_flying s true) Hall).
  destruct (exec_acts E (pre ++ m) (set_flying s true)) as [s1 r1]. cbn in Hk.
  injection H as <- _. exact Hk.
Qed.

(* once the thread is gone, time passing adds nothing to the log *)
Lemma quiet_after E s d : thr s = None -> log (fst (sleep E d s)) = log s /\ thr (fst (sleep E d s)) = None.
Proof.
  intros Ht. unfold sleep. destruct (Qltb d 0); [cbn; split; [reflexivity|exact Ht]|].
  assert (Hfl : flush E s = s) by (unfold flush; rewrite Ht; reflexivity).
  rewrite Hfl, Ht. cbn. split; [reflexivity|exact Ht].
Qed.

Lemma sleeps_keep_stopped E l : Forall sleep_act l -> forall s, ends_stopped s -> ends_stopped (fst (exec_acts E l s)).
Proof.
  induction 1 as [|a l Ha Hl IH]; intros s Hs; cbn; [exact Hs|].
  destruct a; cbn in Ha; try contradiction. cbn [exec_act].
  assert (H1 : ends_stopped (fst (sleep E d s))).
  { destruct Hs as (Ht & Hf & Hlog). destruct (quiet_after E s d Ht) as [Hq1 Hq2].
    split; [exact Hq2|]. split; [rewrite sleep_flying; exact Hf|]. rewrite Hq1. exact Hlog. }
  destruct (sleep E d s) as [s1 [e|]]; cbn in *; [exact H1|]. apply IH. exact H1.
Qed.

(* ------------------------------------------------------------------ the invariant of the with-body *)
Definition J (s : st) : Prop := flying s = false -> ends_stopped s.

Lemma exec_op_J E defh o s s' r : J s -> exec_op E defh o s = (s', r) -> J s'.
Proof.
  intros HJ H.
  destruct (is_land o) eqn:Hl.
  { destruct o; try discriminate. destruct (flying s) eqn:Hf.
    - intros _. eapply land_ends_stopped; eauto.
    - rewrite land_ground in H by exact Hf. injection H as <- _. exact HJ. }
  destruct (is_takeoff o) eqn:Ht.
  { destruct o; try discriminate. destruct (flying s) eqn:Hf.
    - cbn in H. unfold takeoff_acts in H. rewrite Hf in H. cbn in H. injection H as <- _.
      intros Hc. congruence.
    - intros Hc. assert (Hx : flying s' = true) by (eapply takeoff_flying; [exact Hf|exact H]). congruence. }
  assert (Hshape : exec_op E defh o s =
                   let '(acts, cx) := plain_acts E defh (flying s) o in
                   let '(s1, r1) := exec_acts E acts s in (s1, seq_exn r1 cx)).
  { destruct o; try discriminate; reflexivity. }
  rewrite Hshape in H. clear Hshape.
  destruct (flying s) eqn:Hf.
  - pose proof (plain_simple E defh true o Ht) as Hs.
    destruct (plain_acts E defh true o) as [acts cx]. cbn in Hs.
    pose proof (simple_acts_flying E acts Hs s) as Hk.
    destruct (exec_acts E acts s) as [s1 r1]. cbn in Hk. injection H as <- _.
    intros Hc. congruence.
  - pose proof (plain_ground E defh o Ht) as Hg.
    destruct (plain_acts E defh false o) as [acts cx]. cbn in Hg.
    pose proof (sleeps_keep_stopped E acts Hg s (HJ Hf)) as Hk.
    destruct (exec_acts E acts s) as [s1 r1]. cbn in Hk. injection H as <- _. intros _. exact Hk.
Qed.

(* the link state is not part of J, and HEAD reads it only to refuse a take_off on the ground *)
Lemma exec_op2_J E defh o s s' r : J s -> exec_op2 E defh o s = (s', r) -> J s'.
Proof.
  intros HJ H. destruct o; cbn [exec_op2] in H; try (eapply exec_op_J; eauto; fail).
  - destruct (negb (flying s) && negb (conn s)).
    + injection H as <- _. exact HJ.
    + eapply exec_op_J; eauto.
  - injection H as <- _. exact HJ.
Qed.

Lemma exec_body_J E defh ops : forall s s' r, J s -> exec_body E defh ops s = (s', r) -> J s'.
Proof.
  induction ops as [|o ops IH]; intros s s' r HJ H; cbn in H.
  - injection H as <- _. exact HJ.
  - destruct (exec_op2 E defh o s) as [s1 [e|]] eqn:Ho.
    + injection H as <- _. eapply exec_op2_J; eauto.
    + eapply IH; [|exact H]. eapply exec_op2_J; eauto.
Qed.

Theorem mc_exit_ends_with_stop E t0 defh ops sch x s :
  run_mc E t0 defh ops sch = Exited x s ->
  thr s = None /\ flying s = false /\
  (exists t rest, log s = ENotify t :: EStop t :: rest) /\
  (forall d, log (fst (sleep E d s)) = log s).
Proof.
  unfold run_mc. intros H.
  destruct (exec_op E defh (OTakeOff None None) (init_st t0 sch)) as [s1 [e|]] eqn:Hto; [discriminate|].
  destruct (exec_body E defh ops s1) as [s2 rb] eqn:Hb.
  destruct (exec_op E defh (OLand None) s2) as [s3 rl] eqn:Hl.
  injection H as _ <-.
  assert (Hf1 : flying s1 = true) by (eapply takeoff_flying; eauto; reflexivity).
  assert (HJ2 : J s2).
  { eapply exec_body_J; [|exact Hb]. intros Hc. congruence. }
  assert (Hs : ends_stopped s3).
  { destruct (flying s2) eqn:Hf2.
    - eapply land_ends_stopped; eauto.
    - rewrite land_ground in Hl by exact Hf2. injection Hl as <- _. apply HJ2. exact Hf2. }
  destruct Hs as (Ht & Hf & Hlog).
  repeat split; auto. intros d. apply quiet_after. exact Ht.
Qed.

Theorem mc_land_ends_with_stop E defh v s s' r :
  flying s = true -> exec_op E defh (OLand v) s = (s', r) ->
  thr s' = None /\ flying s' = false /\ (exists t rest, log s' = ENotify t :: EStop t :: rest) /\
  (forall d, log (fst (sleep E d s')) = log s').
Proof.
  intros Hf H. destruct (land_ends_stopped E defh v s s' r Hf H) as (Ht & Hfl & Hlog).
  repeat split; auto. intros d. apply quiet_after. exact Ht.
Qed.

(* non-vacuity: a context that is entered, a body that raises, and the log it ends with *)
Definition E0 : env := mkEnv (1 # 5) 72 (1 # 5) (355 # 113) qsqrt_exact.

Example mc_example :
  exists s, run_mc E0 5 (3 # 10) [OUp (1 # 5) None; ODown (1 # 2) None; OForward 0 None] [false; true; false] = Exited (Some ZeroDiv) s
            /\ (length (log s) > 20)%nat.
Proof. eexists. split; [vm_compute; reflexivity|]. vm_compute. repeat constructor. Qed.

(* wave 11: the link is lost inside the body (and an exception follows): the context still ends with stop; notify *)
Example mc_link_lost_example :
  exists s t rest, run_mc E0 5 (3 # 10) [OForward (1 # 5) None; OLink false; OTakeOff None None; ORaise] [true; false] = Exited (Some AlreadyFlying) s
                   /\ conn s = false /\ thr s = None /\ log s = ENotify t :: EStop t :: rest.
Proof. do 3 eexists. vm_compute. repeat split; reflexivity. Qed.

(* an __exit__ guarded by is_connected() leaves the context flying, thread alive *)
Lemma guarded_exit_refuted :
  exists s, run_mc_guarded E0 5 (3 # 10) [OLink false] [] = Exited None s /\ flying s = true /\ thr s <> None
            /\ (exists t vx vy yaw z vz rest, log s = EHover t vx vy yaw z vz :: rest).
Proof. eexists. vm_compute. split; [reflexivity|]. split; [reflexivity|]. split; [discriminate|]. do 7 eexists. reflexivity. Qed.

(* ================================================================== PositionHlCommander *)
Definition h_is_land (o : hop) : bool := match o with HOLand _ _ => true | _ => false end.

Lemma hsleep_fly d s s' r : hsleep d s = (s', r) -> hfly s' = hfly s /\ (exists l, hlog s' = l ++ hlog s).
Proof.
  unfold hsleep. destruct (Qltb d 0); intros H; injection H as <- _; split; try reflexivity; exists []; reflexivity.
Qed.

Lemma h_goto_fly sq x y z v s s' r : h_goto sq x y z v s = (s', r) -> hfly s' = hfly s.
Proof.
  unfold h_goto. destruct (negb (hfly s)); [intros H; injection H as <- _; reflexivity|].
  destruct (Qltb 0 _); [|intros H; injection H as <- _; reflexivity].
  destruct (Qeq_bool _ 0); [intros H; injection H as <- _; reflexivity|].
  match goal with |- context [hsleep ?d ?s1] => destruct (hsleep d s1) as [s2 [e|]] eqn:Hs end;
    intros H; injection H as <- _; apply hsleep_fly in Hs; destruct Hs as [Hs _]; cbn in *; exact Hs.
Qed.

Lemma h_goto_ground sq x y z v s : hfly s = false -> h_goto sq x y z v s = (s, Some NotFlying).
Proof. intros Hf. unfold h_goto. rewrite Hf. reflexivity. Qed.

Lemma h_takeoff_flying h v s s' r : hfly s = true -> h_takeoff h v s = (s', r) -> hfly s' = true.
Proof. unfold h_takeoff. intros Hf. rewrite Hf. intros H. injection H as <- _. exact Hf. Qed.

(* from the ground take_off marks the helper flying before anything can raise *)
Lemma h_takeoff_ground h v s s' r : hfly s = false -> h_takeoff h v s = (s', r) -> hfly s' = true.
Proof.
  unfold h_takeoff. intros Hf. rewrite Hf.
  destruct (Qeq_bool _ 0); [intros H; injection H as <- _; reflexivity|].
  match goal with |- context [hsleep ?d ?s1] => destruct (hsleep d s1) as [s2 [e|]] eqn:Hs end;
    intros H; injection H as <- _; apply hsleep_fly in Hs; destruct Hs as [Hs _]; cbn in *; exact Hs.
Qed.

Lemma h_land_spec v lh s s' r :
  hfly s = true -> h_land v lh s = (s', r) ->
  hfly s' = false /\ exists rest, hlog s' = HStop (hnow s') :: rest.
Proof.
  unfold h_land. intros Hf. rewrite Hf.
  match goal with |- context [let '(s3, r) := ?X in _] => destruct X as [s3 r3] end.
  intros H. injection H as <- _. cbn. split; [reflexivity|]. eexists; reflexivity.
Qed.

Lemma hexec_op_fly sq o s s' r :
  h_is_land o = false -> hfly s = true -> hexec_op sq o s = (s', r) -> hfly s' = true.
Proof.
  intros Hl Hf H. destruct o; cbn in H; try discriminate;
    try (unfold h_move in H; apply h_goto_fly in H; congruence);
    try (apply h_goto_fly in H; congruence);
    try (injection H as <- _; exact Hf).
  eapply h_takeoff_flying; eauto.
Qed.

(* invariant of the body: on the ground the last high-level command is stop *)
Definition JH (s : hst) : Prop := hfly s = false -> exists t rest, hlog s = HStop t :: rest.

Lemma hexec_op_JH sq o s s' r : JH s -> hexec_op sq o s = (s', r) -> JH s'.
Proof.
  intros HJ H. destruct (hfly s) eqn:Hf.
  - destruct (h_is_land o) eqn:Hl.
    + destruct o; try discriminate. cbn in H. destruct (h_land_spec _ _ _ _ _ Hf H) as [_ [rest Hr]].
      intros _. eexists; eexists; exact Hr.
    + intros Hc. assert (Hx : hfly s' = true) by (eapply hexec_op_fly; [exact Hl|exact Hf|exact H]). congruence.
  - specialize (HJ Hf).
    destruct o; cbn in H;
      try (unfold h_move in H; rewrite h_goto_ground in H by exact Hf; injection H as <- _; intros _; exact HJ);
      try (rewrite h_goto_ground in H by exact Hf; injection H as <- _; intros _; exact HJ);
      try (injection H as <- _; intros _; exact HJ).
    + (* land on the ground: nothing *)
      unfold h_land in H. rewrite Hf in H. injection H as <- _. intros _. exact HJ.
    + (* take_off *)
      intros Hc. assert (Hx : hfly s' = true) by (eapply h_takeoff_ground; [exact Hf|exact H]). congruence.
Qed.

Lemma hexec_op2_JH sq o s s' r : JH s -> hexec_op2 sq o s = (s', r) -> JH s'.
Proof.
  intros HJ H. destruct o; cbn [hexec_op2] in H; try (eapply hexec_op_JH; eauto; fail).
  - destruct (negb (hfly s) && negb (hconn s)).
    + injection H as <- _. exact HJ.
    + eapply hexec_op_JH; eauto.
  - injection H as <- _. exact HJ.
Qed.

Lemma hexec_body_JH sq ops : forall s pos s' r pos',
  JH s -> hexec_body sq ops s pos = (s', r, pos') -> JH s'.
Proof.
  induction ops as [|o ops IH]; intros s pos s' r pos' HJ H; cbn in H.
  - injection H as <- _ _. exact HJ.
  - destruct (hexec_op2 sq o s) as [s1 [e|]] eqn:Hop.
    + injection H as <- _ _. eapply hexec_op2_JH; eauto.
    + eapply IH; [|exact H]. eapply hexec_op2_JH; eauto.
Qed.

Lemma h_takeoff_ok_flying h v s s' : h_takeoff h v s = (s', None) -> hfly s' = true.
Proof.
  intros H. destruct (hfly s) eqn:Hf.
  - unfold h_takeoff in H. rewrite Hf in H. discriminate.
  - eapply h_takeoff_ground; eauto.
Qed.

(* leaving an entered context ends with stop as the last high-level command, for EVERY body (go_to and the
   moves built on it raise on the ground since F17c, so nothing can follow the stop of an explicit land()) *)
Theorem hl_exit_ends_with_stop sq s0 ops x s pos :
  run_hl sq s0 ops = HExited x s pos ->
  hfly s = false /\ exists t rest, hlog s = HStop t :: rest.
Proof.
  unfold run_hl. intros H.
  destruct (h_takeoff None None s0) as [s1 [e|]] eqn:Hto; [discriminate|].
  destruct (hexec_body sq ops s1 [(hx s1, hy s1, hz s1)]) as [[s2 rb] pos2] eqn:Hb.
  destruct (h_land None None s2) as [s3 rl] eqn:Hl.
  injection H as _ <- _.
  apply h_takeoff_ok_flying in Hto.
  assert (HJ2 : JH s2) by (eapply hexec_body_JH; [|exact Hb]; intros Hc; congruence).
  destruct (hfly s2) eqn:Hf2.
  - destruct (h_land_spec _ _ _ _ _ Hf2 Hl) as [Hf3 [rest Hr]]. split; [exact Hf3|]. eexists; eexists; exact Hr.
  - unfold h_land in Hl. rewrite Hf2 in Hl. injection Hl as <- _. split; [exact Hf2|]. apply HJ2. exact Hf2.
Qed.

Theorem hl_land_ends_with_stop v lh s s' r :
  hfly s = true -> h_land v lh s = (s', r) ->
  hfly s' = false /\ exists rest, hlog s' = HStop (hnow s') :: rest.
Proof. apply h_land_spec. Qed.

(* non-vacuity / former F17c witness: a motion primitive after an explicit land() now raises and the log still
   ends with stop *)
Example hl_motion_after_land_raises :
  exists s pos t rest,
    run_hl qsqrt_exact (h_init 5 0 0 0 (1 # 2) (1 # 2) 0 None) [HOLand None None; HUp 1 None] = HExited (Some NotFlying) s pos /\
    hlog s = HStop t :: rest.
Proof. do 4 eexists. vm_compute. split; reflexivity. Qed.
