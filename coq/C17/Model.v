(* C17/Model.v — executable model of cflib/positioning/motion_commander.py (MotionCommander +
   _SetPointThread) and position_hl_commander.py (PositionHlCommander), over exact rationals (Q), in
   virtual time, with the repairs F17a/F17b (land(): try/finally around the descent) and F17c (go_to guarded by _is_flying).

   Numbers: Python floats are idealised as rationals; decimal literals of the source denote their decimal
   value.  `math.sqrt` and `math.pi` are parameters of the model (record `env`): the control-flow theorems
   hold for every choice, the arithmetic theorems assume only  sqrt(x)*sqrt(x) == x  for the radicand used.

   Threads: the commanding thread is a sequence of atomic actions (`act`); the setpoint thread is the
   record `spst` (queue, get-deadline, hover setpoint, height integration state).  Virtual time advances
   only inside `sleep`.  A schedule is a list of bits consumed at the choice points:
     - after a `put` while the setpoint thread is runnable: 1 = it runs now until it blocks, 0 = deferred;
     - when a sleep ends exactly at the get-deadline: 1 = the timeout fires before the commanding thread
       continues, 0 = the commanding thread continues first.
   Definitions only; proofs are in Proofs*.v. *)
From CF Require Export Common.Bytes.
From Coq Require Export QArith Qround.
Open Scope Q_scope.

Definition Qltb (a b : Q) : bool := negb (Qle_bool b a).

Inductive exn := ZeroDiv | ValueErr | NotFlying | AlreadyFlying | UserErr | Internal | NotConnected.

Record env := mkEnv {
  e_vel : Q;            (* MotionCommander.VELOCITY *)
  e_rate : Q;           (* MotionCommander.RATE *)
  e_period : Q;         (* _SetPointThread.UPDATE_PERIOD *)
  e_pi : Q;             (* math.pi *)
  e_sqrt : Q -> Q       (* math.sqrt *)
}.

Definition dflt (o : option Q) (d : Q) : Q := match o with Some x => x | None => d end.

(* ------------------------------------------------------------------ observable events (newest first in a log) *)
Inductive ev :=
| EParam (t : Q) (k : Z)                    (* param.set_value('kalman.resetEstimation', k) *)
| EHover (t vx vy yaw z : Q) (vz : Q)       (* commander.send_hover_setpoint(vx, vy, yaw, z); vz = ghost: _z_velocity in force *)
| EStop (t : Q)                             (* commander.send_stop_setpoint() *)
| ENotify (t : Q)                           (* commander.send_notify_setpoint_stop() *)
| EStart (t : Q).                           (* ghost (not an observable call): the setpoint thread was started *)

(* ------------------------------------------------------------------ the setpoint thread *)
Inductive qitem := QVel (vx vy vz yaw : Q) | QTerm.

Record spst := mkSp {
  sp_q : list qitem;      (* self._queue *)
  sp_dl : Q;              (* deadline of the pending queue.get(timeout=update_period) *)
  h_vx : Q; h_vy : Q; h_yaw : Q; h_z : Q;       (* self._hover_setpoint *)
  zbase : Q; zvel : Q; zbt : Q                  (* _z_base, _z_velocity, _z_base_time *)
}.

Definition sp_new (t per : Q) : spst := mkSp [] (t + per) 0 0 0 0 0 0 0.

Definition cur_z (p : spst) (t : Q) : Q := zbase p + zvel p * (t - zbt p).

(* queue.get returned a velocity item at time t: _new_setpoint; _update_z_in_setpoint; send; next get *)
Definition sp_item (per : Q) (p : spst) (t : Q) (vx vy vz yaw : Q) : spst * ev :=
  let zb := cur_z p t in
  let z := zb + vz * (t - t) in
  (mkSp (sp_q p) (t + per) vx vy yaw z zb vz t, EHover t vx vy yaw z vz).

(* queue.get raised Empty at time t: _update_z_in_setpoint; send; next get *)
Definition sp_timeout (per : Q) (p : spst) (t : Q) : spst * ev :=
  let z := cur_z p t in
  (mkSp (sp_q p) (t + per) (h_vx p) (h_vy p) (h_yaw p) z (zbase p) (zvel p) (zbt p),
   EHover t (h_vx p) (h_vy p) (h_yaw p) z (zvel p)).

Definition set_q (p : spst) (q : list qitem) : spst :=
  mkSp q (sp_dl p) (h_vx p) (h_vy p) (h_yaw p) (h_z p) (zbase p) (zvel p) (zbt p).

(* the thread takes the queued items one after the other at time t; None = it returned (terminate event) *)
Fixpoint drain (per t : Q) (items : list qitem) (p : spst) (acc : list ev) : option spst * list ev :=
  match items with
  | [] => (Some (set_q p []), acc)
  | QTerm :: _ => (None, acc)
  | QVel vx vy vz yaw :: rest =>
      let '(p', e) := sp_item per p t vx vy vz yaw in drain per t rest p' (e :: acc)
  end.

(* n successive timeouts, each at the then current deadline *)
Fixpoint timeouts (per : Q) (n : nat) (p : spst) (acc : list ev) : spst * list ev :=
  match n with
  | O => (p, acc)
  | S k => let '(p', e) := sp_timeout per p (sp_dl p) in timeouts per k p' (e :: acc)
  end.

(* number of deadlines dl, dl+per, ... strictly before target *)
Definition n_strict (dl target per : Q) : nat :=
  if Qltb dl target then Z.to_nat (Qceiling ((target - dl) / per)) else O.

(* ------------------------------------------------------------------ commanding thread + scheduler state *)
Record st := mkSt {
  now : Q;
  flying : bool;            (* MotionCommander._is_flying *)
  thr : option spst;        (* MotionCommander._thread (Some = the thread exists and is alive) *)
  log : list ev;            (* calls received by the recording commander / param, newest first *)
  sched : list bool;        (* remaining schedule *)
  used : Z;                 (* choice points passed *)
  conn : bool               (* what cf.is_connected() returns now (wave 11) *)
}.

Definition set_now (s : st) (t : Q) : st := mkSt t (flying s) (thr s) (log s) (sched s) (used s) (conn s).
Definition set_flying (s : st) (b : bool) : st := mkSt (now s) b (thr s) (log s) (sched s) (used s) (conn s).
Definition set_thr (s : st) (o : option spst) (l : list ev) : st := mkSt (now s) (flying s) o l (sched s) (used s) (conn s).
Definition set_conn (s : st) (b : bool) : st := mkSt (now s) (flying s) (thr s) (log s) (sched s) (used s) b.
Definition add_log (s : st) (e : ev) : st := mkSt (now s) (flying s) (thr s) (e :: log s) (sched s) (used s) (conn s).

Definition choose (s : st) : bool * st :=
  match sched s with
  | [] => (true, mkSt (now s) (flying s) (thr s) (log s) [] (used s + 1)%Z (conn s))
  | b :: r => (b, mkSt (now s) (flying s) (thr s) (log s) r (used s + 1)%Z (conn s))
  end.

Definition runnable (p : spst) (t : Q) : bool :=
  match sp_q p with [] => Qle_bool (sp_dl p) t | _ => true end.

(* the setpoint thread runs until it blocks again (or returns) *)
Definition flush (E : env) (s : st) : st :=
  match thr s with
  | None => s
  | Some p =>
      match sp_q p with
      | [] => if Qle_bool (sp_dl p) (now s)
              then let '(p', e) := sp_timeout (e_period E) p (now s) in set_thr s (Some p') (e :: log s)
              else s
      | items => let '(o, l) := drain (e_period E) (now s) items p (log s) in set_thr s o l
      end
  end.

Definition choice_point (E : env) (s : st) : st :=
  match thr s with
  | None => s
  | Some p => if runnable p (now s)
              then let '(b, s') := choose s in if b then flush E s' else s'
              else s
  end.

(* time.sleep(d) in the commanding thread *)
Definition sleep (E : env) (d : Q) (s : st) : st * option exn :=
  if Qltb d 0 then (s, Some ValueErr) else
  let target := now s + d in
  let s1 := flush E s in
  match thr s1 with
  | None => (set_now s1 target, None)
  | Some p =>
      let n := n_strict (sp_dl p) target (e_period E) in
      let '(p1, l1) := timeouts (e_period E) n p (log s1) in
      let s2 := set_now (set_thr s1 (Some p1) l1) target in
      if Qeq_bool (sp_dl p1) target
      then let '(b, s3) := choose s2 in ((if b then flush E s3 else s3), None)
      else (s2, None)
  end.

(* ------------------------------------------------------------------ atomic actions of the commanding thread *)
Inductive act :=
| APut (i : qitem)          (* self._thread.set_vel_setpoint(...) : queue.put + choice point *)
| ASleep (d : Q)
| AParam (k : Z)
| ASetFlying (b : bool)
| AStartThread              (* _SetPointThread(cf).start() *)
| AStopThread               (* self._thread.stop(); self._thread = None : put(terminate), join *)
| AStop                     (* commander.send_stop_setpoint() *)
| ANotify.                  (* commander.send_notify_setpoint_stop() *)

Definition put (E : env) (i : qitem) (s : st) : st * option exn :=
  match thr s with
  | None => (s, Some Internal)
  | Some p => (choice_point E (set_thr s (Some (set_q p (sp_q p ++ [i]))) (log s)), None)
  end.

Definition stop_thread (E : env) (s : st) : st :=
  match thr s with
  | None => s
  | Some p =>
      let s1 := choice_point E (set_thr s (Some (set_q p (sp_q p ++ [QTerm]))) (log s)) in
      let s2 := flush E s1 in                      (* join *)
      set_thr s2 None (log s2)
  end.

Definition exec_act (E : env) (a : act) (s : st) : st * option exn :=
  match a with
  | APut i => put E i s
  | ASleep d => sleep E d s
  | AParam k => (add_log s (EParam (now s) k), None)
  | ASetFlying b => (set_flying s b, None)
  | AStartThread => (set_thr s (Some (sp_new (now s) (e_period E))) (EStart (now s) :: log s), None)
  | AStopThread => (stop_thread E s, None)
  | AStop => (add_log s (EStop (now s)), None)
  | ANotify => (add_log s (ENotify (now s)), None)
  end.

Fixpoint exec_acts (E : env) (l : list act) (s : st) : st * option exn :=
  match l with
  | [] => (s, None)
  | a :: r => match exec_act E a s with
              | (s', None) => exec_acts E r s'
              | (s', Some e) => (s', Some e)
              end
  end.

(* ------------------------------------------------------------------ primitives of the MotionCommander *)
Inductive op :=
| OLeft (d : Q) (v : option Q) | ORight (d : Q) (v : option Q)
| OForward (d : Q) (v : option Q) | OBack (d : Q) (v : option Q)
| OUp (d : Q) (v : option Q) | ODown (d : Q) (v : option Q)
| OMove (dx dy dz : Q) (v : option Q)
| OTurnLeft (a : Q) (r : option Q) | OTurnRight (a : Q) (r : option Q)
| OCircleLeft (rad : Q) (v : option Q) (a : option Q) | OCircleRight (rad : Q) (v : option Q) (a : option Q)
| OStartLeft (v : option Q) | OStartRight (v : option Q) | OStartForward (v : option Q)
| OStartBack (v : option Q) | OStartUp (v : option Q) | OStartDown (v : option Q)
| OStopMotion
| OStartTurnLeft (r : option Q) | OStartTurnRight (r : option Q)
| OStartCircleLeft (rad : Q) (v : option Q) | OStartCircleRight (rad : Q) (v : option Q)
| OStartLinear (vx vy vz : Q) (yaw : option Q)
| OLand (v : option Q)
| OTakeOff (h : option Q) (v : option Q)
| OWait (d : Q)                 (* time.sleep(d) in the user's body *)
| OLink (b : bool)              (* the link state changes: cf.is_connected() returns b from now on *)
| ORaise.

Definition qzero : qitem := QVel 0 0 0 0.

(* _set_vel_setpoint *)
Definition setvel (fl : bool) (vx vy vz yaw : Q) : list act * option exn :=
  if fl then ([APut (QVel vx vy vz yaw)], None) else ([], Some NotFlying).

(* start; time.sleep(flight_time); stop *)
Definition timed (fl : bool) (vx vy vz yaw ft : Q) : list act * option exn :=
  if fl then ([APut (QVel vx vy vz yaw); ASleep ft; APut qzero], None) else ([], Some NotFlying).

(* move_distance *)
Definition move_acts (E : env) (fl : bool) (dx dy dz v : Q) : list act * option exn :=
  let dist := e_sqrt E (dx * dx + dy * dy + dz * dz) in
  if Qeq_bool v 0 then ([], Some ZeroDiv) else
  let ft := dist / v in
  if Qeq_bool dist 0 then ([], Some ZeroDiv) else
  timed fl (v * dx / dist) (v * dy / dist) (v * dz / dist) 0 ft.

Definition turn_acts (fl : bool) (angle rate sign : Q) : list act * option exn :=
  if Qeq_bool rate 0 then ([], Some ZeroDiv) else
  timed fl 0 0 0 (sign * rate) (angle / rate).

Definition circle_rate (E : env) (rad v : Q) : Q := 360 * v / (2 * rad * e_pi E).

Definition circle_acts (E : env) (fl : bool) (rad v angle sign : Q) : list act * option exn :=
  let distance := 2 * rad * e_pi E * angle / 360 in
  if Qeq_bool v 0 then ([], Some ZeroDiv) else
  let ft := distance / v in
  if Qeq_bool (2 * rad * e_pi E) 0 then ([], Some ZeroDiv) else
  timed fl v 0 0 (sign * circle_rate E rad v) ft.

Definition start_circle_acts (E : env) (fl : bool) (rad v sign : Q) : list act * option exn :=
  if Qeq_bool (2 * rad * e_pi E) 0 then ([], Some ZeroDiv) else
  setvel fl v 0 0 (sign * circle_rate E rad v).

Definition takeoff_acts (E : env) (defh : Q) (fl : bool) (h v : option Q) : list act * option exn :=
  if fl then ([], Some AlreadyFlying) else
  let pre := [ASetFlying true; AParam 1; ASleep (1 # 10); AParam 0; ASleep 2; AStartThread] in
  let '(m, x) := move_acts E true 0 0 (dflt h defh) (dflt v (e_vel E)) in
  (pre ++ m, x).

(* actions of every primitive except land; the exception (if any) is raised after the actions *)
Definition plain_acts (E : env) (defh : Q) (fl : bool) (o : op) : list act * option exn :=
  let V := fun v => dflt v (e_vel E) in
  let R := fun r => dflt r (e_rate E) in
  match o with
  | OLeft d v => move_acts E fl 0 d 0 (V v)
  | ORight d v => move_acts E fl 0 (- d) 0 (V v)
  | OForward d v => move_acts E fl d 0 0 (V v)
  | OBack d v => move_acts E fl (- d) 0 0 (V v)
  | OUp d v => move_acts E fl 0 0 d (V v)
  | ODown d v => move_acts E fl 0 0 (- d) (V v)
  | OMove dx dy dz v => move_acts E fl dx dy dz (V v)
  | OTurnLeft a r => turn_acts fl a (R r) 1
  | OTurnRight a r => turn_acts fl a (R r) (-1)
  | OCircleLeft rad v a => circle_acts E fl rad (V v) (dflt a 360) 1
  | OCircleRight rad v a => circle_acts E fl rad (V v) (dflt a 360) (-1)
  | OStartLeft v => setvel fl 0 (V v) 0 0
  | OStartRight v => setvel fl 0 (- V v) 0 0
  | OStartForward v => setvel fl (V v) 0 0 0
  | OStartBack v => setvel fl (- V v) 0 0 0
  | OStartUp v => setvel fl 0 0 (V v) 0
  | OStartDown v => setvel fl 0 0 (- V v) 0
  | OStopMotion => setvel fl 0 0 0 0
  | OStartTurnLeft r => setvel fl 0 0 0 (R r)
  | OStartTurnRight r => setvel fl 0 0 0 (- R r)
  | OStartCircleLeft rad v => start_circle_acts E fl rad (V v) 1
  | OStartCircleRight rad v => start_circle_acts E fl rad (V v) (-1)
  | OStartLinear vx vy vz yaw => setvel fl vx vy vz (dflt yaw 0)
  | OTakeOff h v => takeoff_acts E defh fl h v
  | OLand _ => ([], None)
  | OWait d => ([ASleep d], None)
  | OLink _ => ([], None)
  | ORaise => ([], Some UserErr)
  end.

Definition seq_exn (a b : option exn) : option exn := match a with Some e => Some e | None => b end.

(* land() with F17a applied: try: h = get_height(); if h != 0: down(h, v)  finally: stop thread, stop, notify *)
Definition land_body (E : env) (s : st) (v : option Q) : list act * option exn :=
  match thr s with
  | None => ([], Some Internal)
  | Some p => if Qeq_bool (h_z p) 0 then ([], None)
              else move_acts E true 0 0 (- h_z p) (dflt v (e_vel E))
  end.

Definition land_final : list act := [AStopThread; AStop; ANotify; ASetFlying false].

Definition exec_op (E : env) (defh : Q) (o : op) (s : st) : st * option exn :=
  match o with
  | OLand v =>
      if flying s then
        let '(body, bx) := land_body E s v in
        let '(s1, r1) := exec_acts E body s in
        let '(s2, _) := exec_acts E land_final s1 in
        (s2, seq_exn r1 bx)
      else (s, None)
  | _ =>
      let '(acts, cx) := plain_acts E defh (flying s) o in
      let '(s1, r1) := exec_acts E acts s in
      (s1, seq_exn r1 cx)
  end.

(* a primitive inside the with-body, with the link state: HEAD consults cf.is_connected() in exactly one place,
   take_off() (after the 'Already flying' check): 'Crazyflie is not connected'.  land(), __exit__ and every motion
   primitive do not look at it. *)
Definition exec_op2 (E : env) (defh : Q) (o : op) (s : st) : st * option exn :=
  match o with
  | OLink b => (set_conn s b, None)
  | OTakeOff _ _ => if negb (flying s) && negb (conn s) then (s, Some NotConnected) else exec_op E defh o s
  | _ => exec_op E defh o s
  end.

(* the with-body: stops at the first exception *)
Fixpoint exec_body (E : env) (defh : Q) (ops : list op) (s : st) : st * option exn :=
  match ops with
  | [] => (s, None)
  | o :: r => match exec_op2 E defh o s with
              | (s', None) => exec_body E defh r s'
              | (s', Some e) => (s', Some e)
              end
  end.

Inductive outcome :=
| NotEntered (e : exn) (s : st)             (* __enter__ raised: __exit__ is not called *)
| Exited (x : option exn) (s : st).         (* the with statement was left; x = exception propagating out of it *)

Definition init_st (t0 : Q) (sch : list bool) : st := mkSt t0 false None [] sch 0%Z true.

(* with MotionCommander(cf, defh) as mc: <ops> *)
Definition run_mc (E : env) (t0 defh : Q) (ops : list op) (sch : list bool) : outcome :=
  match exec_op E defh (OTakeOff None None) (init_st t0 sch) with
  | (s1, Some e) => NotEntered e s1
  | (s1, None) =>
      let '(s2, rb) := exec_body E defh ops s1 in
      let '(s3, rl) := exec_op E defh (OLand None) s2 in
      Exited (seq_exn rl rb) s3
  end.

(* NOT the code: an __exit__ that lands only while cf.is_connected() (used for a refutation only) *)
Definition run_mc_guarded (E : env) (t0 defh : Q) (ops : list op) (sch : list bool) : outcome :=
  match exec_op E defh (OTakeOff None None) (init_st t0 sch) with
  | (s1, Some e) => NotEntered e s1
  | (s1, None) =>
      let '(s2, rb) := exec_body E defh ops s1 in
      if conn s2 then let '(s3, rl) := exec_op E defh (OLand None) s2 in Exited (seq_exn rl rb) s3
      else Exited rb s2
  end.

Definition out_st (o : outcome) : st := match o with NotEntered _ s => s | Exited _ s => s end.

(* ================================================================== PositionHlCommander *)
Inductive hev :=
| HParam (t : Q) (c : Z)                    (* param.set_value('stabilizer.controller', str(c)) *)
| HTakeoff (t h dur : Q)
| HLand (t h dur : Q)
| HGoto (t x y z yaw dur : Q)
| HStop (t : Q).

Record hst := mkH {
  hnow : Q; hfly : bool;
  hx : Q; hy : Q; hz : Q;
  dvel : Q; dheight : Q; dland : Q;          (* _default_velocity, _default_height, _default_landing_height *)
  hinit : Q;                                 (* _init_time *)
  hlog : list hev;
  hconn : bool                               (* cf.is_connected() now (wave 11) *)
}.

Definition h_set_time (s : hst) (t : Q) := mkH t (hfly s) (hx s) (hy s) (hz s) (dvel s) (dheight s) (dland s) (hinit s) (hlog s) (hconn s).
Definition h_set_fly (s : hst) (b : bool) := mkH (hnow s) b (hx s) (hy s) (hz s) (dvel s) (dheight s) (dland s) (hinit s) (hlog s) (hconn s).
Definition h_set_pos (s : hst) (x y z : Q) := mkH (hnow s) (hfly s) x y z (dvel s) (dheight s) (dland s) (hinit s) (hlog s) (hconn s).
Definition h_add (s : hst) (e : hev) := mkH (hnow s) (hfly s) (hx s) (hy s) (hz s) (dvel s) (dheight s) (dland s) (hinit s) (e :: hlog s) (hconn s).
Definition h_set_defaults (s : hst) (v h l : Q) := mkH (hnow s) (hfly s) (hx s) (hy s) (hz s) v h l (hinit s) (hlog s) (hconn s).

Definition h_set_conn (s : hst) (b : bool) := mkH (hnow s) (hfly s) (hx s) (hy s) (hz s) (dvel s) (dheight s) (dland s) (hinit s) (hlog s) b.

Definition hsleep (d : Q) (s : hst) : hst * option exn :=
  if Qltb d 0 then (s, Some ValueErr) else (h_set_time s (hnow s + d), None).

Inductive hop :=
| HLeft (d : Q) (v : option Q) | HRight (d : Q) (v : option Q)
| HForward (d : Q) (v : option Q) | HBack (d : Q) (v : option Q)
| HUp (d : Q) (v : option Q) | HDown (d : Q) (v : option Q)
| HMove (dx dy dz : Q) (v : option Q)
| HGoTo (x y : Q) (z v : option Q)
| HSetVel (v : Q) | HSetHeight (h : Q) | HSetLanding (h : Q)
| HOLand (v lh : option Q)
| HOTakeOff (h v : option Q)
| HLink (b : bool)
| HRaise.

Definition qabs (q : Q) : Q := if Qltb q 0 then - q else q.

(* go_to with F17c applied: raises on the ground, like MotionCommander._set_vel_setpoint *)
Definition h_goto (sq : Q -> Q) (x y z : Q) (v : option Q) (s : hst) : hst * option exn :=
  if negb (hfly s) then (s, Some NotFlying) else
  let dx := x - hx s in let dy := y - hy s in let dz := z - hz s in
  let dist := sq (dx * dx + dy * dy + dz * dz) in
  if Qltb 0 dist then
    let vel := dflt v (dvel s) in
    if Qeq_bool vel 0 then (s, Some ZeroDiv) else
    let dur := dist / vel in
    let s1 := h_add s (HGoto (hnow s) x y z 0 dur) in
    match hsleep dur s1 with
    | (s2, None) => (h_set_pos s2 x y z, None)
    | r => r
    end
  else (s, None).

(* NOT the code: go_to with a minimum-distance threshold instead of `distance > 0` (used for a refutation only) *)
Definition h_goto_thr (thr : Q) (sq : Q -> Q) (x y z : Q) (v : option Q) (s : hst) : hst * option exn :=
  if negb (hfly s) then (s, Some NotFlying) else
  let dx := x - hx s in let dy := y - hy s in let dz := z - hz s in
  let dist := sq (dx * dx + dy * dy + dz * dz) in
  if Qltb thr dist then
    let vel := dflt v (dvel s) in
    if Qeq_bool vel 0 then (s, Some ZeroDiv) else
    let dur := dist / vel in
    let s1 := h_add s (HGoto (hnow s) x y z 0 dur) in
    match hsleep dur s1 with
    | (s2, None) => (h_set_pos s2 x y z, None)
    | r => r
    end
  else (s, None).

Definition h_move (sq : Q -> Q) (dx dy dz : Q) (v : option Q) (s : hst) : hst * option exn :=
  h_goto sq (hx s + dx) (hy s + dy) (hz s + dz) v s.

Definition h_takeoff (h v : option Q) (s : hst) : hst * option exn :=
  if hfly s then (s, Some AlreadyFlying) else
  let hold := hinit s + 1 - hnow s in
  let s0 := if Qltb 0 hold then h_set_time s (hnow s + hold) else s in
  let s1 := h_set_fly s0 true in
  let height := dflt h (dheight s1) in
  let vel := dflt v (dvel s1) in
  if Qeq_bool vel 0 then (s1, Some ZeroDiv) else
  let dur := height / vel in
  let s2 := h_add s1 (HTakeoff (hnow s1) height dur) in
  match hsleep dur s2 with
  | (s3, None) => (h_set_pos s3 (hx s3) (hy s3) height, None)
  | r => r
  end.

(* land() with F17b applied: try: duration = abs(z - lh)/v; land; sleep; z = lh  finally: stop; not flying *)
Definition h_land (v lh : option Q) (s : hst) : hst * option exn :=
  if hfly s then
    let l := dflt lh (dland s) in
    let vel := dflt v (dvel s) in
    let '(s3, r) :=
      if Qeq_bool vel 0 then (s, Some ZeroDiv) else
      let dur := qabs (hz s - l) / vel in
      let s1 := h_add s (HLand (hnow s) l dur) in
      match hsleep dur s1 with
      | (s2, None) => (h_set_pos s2 (hx s2) (hy s2) l, None)
      | r => r
      end in
    (h_set_fly (h_add s3 (HStop (hnow s3))) false, r)
  else (s, None).

Definition hexec_op (sq : Q -> Q) (o : hop) (s : hst) : hst * option exn :=
  match o with
  | HLeft d v => h_move sq 0 d 0 v s
  | HRight d v => h_move sq 0 (- d) 0 v s
  | HForward d v => h_move sq d 0 0 v s
  | HBack d v => h_move sq (- d) 0 0 v s
  | HUp d v => h_move sq 0 0 d v s
  | HDown d v => h_move sq 0 0 (- d) v s
  | HMove dx dy dz v => h_move sq dx dy dz v s
  | HGoTo x y z v => h_goto sq x y (dflt z (dheight s)) v s
  | HSetVel v => (h_set_defaults s v (dheight s) (dland s), None)
  | HSetHeight h => (h_set_defaults s (dvel s) h (dland s), None)
  | HSetLanding l => (h_set_defaults s (dvel s) (dheight s) l, None)
  | HOLand v lh => h_land v lh s
  | HOTakeOff h v => h_takeoff h v s
  | HLink _ => (s, None)
  | HRaise => (s, Some UserErr)
  end.

(* with the link state: PositionHlCommander reads cf.is_connected() only in take_off(), after 'Already flying' *)
Definition hexec_op2 (sq : Q -> Q) (o : hop) (s : hst) : hst * option exn :=
  match o with
  | HLink b => (h_set_conn s b, None)
  | HOTakeOff _ _ => if negb (hfly s) && negb (hconn s) then (s, Some NotConnected) else hexec_op sq o s
  | _ => hexec_op sq o s
  end.

(* body with the position reported after every completed primitive (newest first) *)
Fixpoint hexec_body (sq : Q -> Q) (ops : list hop) (s : hst) (pos : list (Q * Q * Q))
  : hst * option exn * list (Q * Q * Q) :=
  match ops with
  | [] => (s, None, pos)
  | o :: r => match hexec_op2 sq o s with
              | (s', None) => hexec_body sq r s' ((hx s', hy s', hz s') :: pos)
              | (s', Some e) => (s', Some e, pos)
              end
  end.

Inductive houtcome :=
| HNotEntered (e : exn) (s : hst)
| HExited (x : option exn) (s : hst) (pos : list (Q * Q * Q)).

(* pc = PositionHlCommander(cf, x, y, z, dvel, dheight, controller, dland); [wait]; with pc: <ops> *)
Definition h_init (t0 x y z v h l : Q) (ctrl : option Z) : hst :=
  mkH t0 false x y z v h l t0 (match ctrl with Some c => [HParam t0 c] | None => [] end) true.

Definition run_hl (sq : Q -> Q) (s0 : hst) (ops : list hop) : houtcome :=
  match h_takeoff None None s0 with
  | (s1, Some e) => HNotEntered e s1
  | (s1, None) =>
      let '(s2, rb, pos) := hexec_body sq ops s1 [(hx s1, hy s1, hz s1)] in
      let '(s3, rl) := h_land None None s2 in
      HExited (seq_exn rl rb) s3 pos
  end.

(* ================================================================== evaluation support (tie only) *)
(* exact square root of a rational square (the tie generator only produces such radicands) *)
Definition qsqrt_exact (q : Q) : Q :=
  let r := Qred q in Z.sqrt (Qnum r) # Pos.sqrt (Qden r).

Definition qz (q : Q) : list Z := let r := Qred q in [Qnum r; Zpos (Qden r)].

Definition exn_code (e : option exn) : Z :=
  match e with
  | None => 0 | Some ZeroDiv => 1 | Some ValueErr => 2 | Some NotFlying => 3
  | Some AlreadyFlying => 4 | Some UserErr => 5 | Some NotConnected => 6 | Some Internal => 9
  end%Z.

Definition ev_enc (gh : bool) (e : ev) : list Z :=
  match e with
  | EParam t k => [1%Z] ++ qz t ++ [k]
  | EHover t vx vy yaw z vz => [2%Z] ++ qz t ++ qz vx ++ qz vy ++ qz yaw ++ qz z ++ (if gh then qz vz else [])
  | EStop t => [3%Z] ++ qz t
  | ENotify t => [4%Z] ++ qz t
  | EStart _ => []
  end.

Definition observable (e : ev) : bool := match e with EStart _ => false | _ => true end.

Definition b2z (b : bool) : Z := if b then 1%Z else 0%Z.

(* run + epilogue (virtual time passes after the with statement) *)
Definition mc_enc (gh : bool) (E : env) (t0 defh : Q) (ops : list op) (sch : list bool) (epi : Q) : list Z :=
  let o := run_mc E t0 defh ops sch in
  let s := out_st o in
  let n_exit := Z.of_nat (length (filter observable (log s))) in
  let '(s', _) := sleep E epi s in
  [match o with NotEntered _ _ => 0 | Exited _ _ => 1 end;
   exn_code (match o with NotEntered e _ => Some e | Exited x _ => x end);
   b2z (flying s); match thr s with Some _ => 1 | None => 0 end; used s'; n_exit]%Z
  ++ qz (now s) ++ concat (map (ev_enc gh) (rev (log s'))).

Definition hev_enc (e : hev) : list Z :=
  match e with
  | HParam t c => [1%Z] ++ qz t ++ [c]
  | HTakeoff t h d => [2%Z] ++ qz t ++ qz h ++ qz d
  | HLand t h d => [3%Z] ++ qz t ++ qz h ++ qz d
  | HGoto t x y z yaw d => [4%Z] ++ qz t ++ qz x ++ qz y ++ qz z ++ qz yaw ++ qz d
  | HStop t => [5%Z] ++ qz t
  end.

Definition pos_enc (p : Q * Q * Q) : list Z := let '(x, y, z) := p in qz x ++ qz y ++ qz z.

Definition hl_enc (s0 : hst) (ops : list hop) : list Z :=
  let o := run_hl qsqrt_exact s0 ops in
  match o with
  | HNotEntered e s => [0; exn_code (Some e); b2z (hfly s)]%Z ++ qz (hnow s) ++ concat (map hev_enc (rev (hlog s)))
  | HExited x s pos =>
      [1; exn_code x; b2z (hfly s)]%Z ++ qz (hnow s) ++ pos_enc (hx s, hy s, hz s)
      ++ [Z.of_nat (length pos)] ++ concat (map pos_enc (rev pos)) ++ concat (map hev_enc (rev (hlog s)))
  end.

(* a velocity setpoint capped at vmax (what a clamping _set_vel_setpoint would stream); only used to show that the
   duration distance / velocity belongs to the UNclamped velocity *)
Definition qclamp (vmax v : Q) : Q := if Qltb vmax v then vmax else v.

(* ================================================================== the link between send_packet and the air (round 5) *)
(* The real drivers put the packet OBJECT into an out queue in send_packet and read its header and data later, in their
   own thread.  Objects are cells of a store; `LSend c v` = the sender writes payload v into cell c and hands the
   reference c to the link; `LTx` = the radio takes the oldest queued reference and transmits what the cell holds NOW.
   An action list is an arbitrary transmit-delay schedule (any number of sends may be pending at any time). *)
Section Link.
  Variable A : Type.

  Inductive lact := LSend (c : nat) (v : A) | LTx.

  Record lst := mkL { l_store : nat -> option A; l_queue : list nat; l_air : list (option A) }.  (* l_air oldest first *)

  Definition l_upd (f : nat -> option A) (c : nat) (v : A) : nat -> option A :=
    fun c' => if Nat.eqb c' c then Some v else f c'.

  Definition lstep (s : lst) (a : lact) : lst :=
    match a with
    | LSend c v => mkL (l_upd (l_store s) c v) (l_queue s ++ [c]) (l_air s)
    | LTx => match l_queue s with
             | [] => s
             | c :: q => mkL (l_store s) q (l_air s ++ [l_store s c])
             end
    end.

  Definition lrun (acts : list lact) (s : lst) : lst := fold_left lstep acts s.

  (* the radio catches up: everything still queued is transmitted *)
  Definition ldrain (s : lst) : list (option A) := l_air s ++ map (l_store s) (l_queue s).

  Definition l_init : lst := mkL (fun _ => None) [] [].

  Fixpoint commanded (acts : list lact) : list (option A) :=
    match acts with
    | [] => []
    | LSend _ v :: r => Some v :: commanded r
    | LTx :: r => commanded r
    end.

  Fixpoint cells (acts : list lact) : list nat :=
    match acts with
    | [] => []
    | LSend c _ :: r => c :: cells r
    | LTx :: r => cells r
    end.
End Link.
Arguments LSend {A}. Arguments LTx {A}. Arguments lrun {A}. Arguments ldrain {A}. Arguments l_init {A}.
Arguments commanded {A}. Arguments cells {A}. Arguments lstep {A}. Arguments mkL {A}.
Arguments l_store {A}. Arguments l_queue {A}. Arguments l_air {A}. Arguments l_upd {A}.

(* ================================================================== packet type and the session's firmware (round 7) *)
(* The hover setpoint has two encodings: legacy type 5 with the yaw rate negated (firmware up to protocol version 8) and
   type 10 (since version 9).  The commander chooses by the protocol version it reads from the platform service AT SEND TIME;
   the version can change between sessions on the same Crazyflie object. *)
Definition hover_type (ver : Z) : Z := if (ver <=? 8)%Z then 5%Z else 10%Z.
Definition hover_yaw_field (ver yaw : Z) : Z := if (ver <=? 8)%Z then (- yaw)%Z else yaw.

(* firmware side (cf. C08/FwLayout.v): type 5 is known to every version and its decoder negates the yaw field; type 10 is
   known from version 9 *)
Definition fw_knows (ver t : Z) : bool := (t =? 5)%Z || ((t =? 10)%Z && (9 <=? ver)%Z).
Definition fw_yaw (t field : Z) : Z := if (t =? 5)%Z then (- field)%Z else field.

(* a history = the version in force at each send with the commanded yaw rate; stateless sender vs a sender that caches the
   choice made at the first send *)
Definition send_now (h : list (Z * Z)) : list (Z * Z) :=
  map (fun vy => (hover_type (fst vy), hover_yaw_field (fst vy) (snd vy))) h.

Definition send_cached (h : list (Z * Z)) : list (Z * Z) :=
  match h with
  | [] => []
  | (v0, _) :: _ => map (fun vy => (hover_type v0, hover_yaw_field v0 (snd vy))) h
  end.

(* what the firmware of each session makes of the packets: None = dropped *)
Definition fw_receive (h : list (Z * Z)) (pk : list (Z * Z)) : list (option Z) :=
  map (fun x => let '((ver, _), (t, f)) := x in if fw_knows ver t then Some (fw_yaw t f) else None) (combine h pk).

(* ================================================================== the thread-stop handshake under stalling sends (wave 12) *)
(* _SetPointThread.stop() = put(terminate); join().  At that moment the thread may be stuck inside a send (a stalled link) with
   setpoint events queued behind it.  `durs` = the time each of the sends it still has to make takes before it reaches the
   commander (first = the remainder of the send in flight); after the last one the thread sees the terminate event and returns.
   Time 0 = the moment stop() is called.  join(None) returns when the thread has returned; join(Some T) also after T. *)
Inductive hs_ev := HsHover (k : nat) | HsStop | HsRelease.

Fixpoint completions (t k : nat) (durs : list nat) : list (nat * nat) :=      (* (time the k-th pending send goes through, k) *)
  match durs with
  | [] => []
  | d :: r => (t + d, k)%nat :: completions (t + d) (S k) r
  end.

Definition thread_done (durs : list nat) : nat := fold_right Nat.add O durs.

Definition join_returns (bound : option nat) (durs : list nat) : nat :=
  match bound with None => thread_done durs | Some T => Nat.min T (thread_done durs) end.

(* the call order the commander sees: sends that went through by the time join returned, then stop and the release (land()
   continues), then the sends the still-living thread completes afterwards *)
Definition land_trace (bound : option nat) (durs : list nat) : list hs_ev :=
  let cs := completions O O durs in
  let tj := join_returns bound durs in
  map (fun c => HsHover (snd c)) (filter (fun c => Nat.leb (fst c) tj) cs)
  ++ [HsStop; HsRelease]
  ++ map (fun c => HsHover (snd c)) (filter (fun c => negb (Nat.leb (fst c) tj)) cs).

Definition thread_alive_after_stop (bound : option nat) (durs : list nat) : bool :=
  Nat.ltb (join_returns bound durs) (thread_done durs).
