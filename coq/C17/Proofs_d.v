(* C17/Proofs_d.v — the link contract (round 5): when every sent packet is a value (a fresh object that nobody writes
   again), what the radio transmits is exactly what was commanded, in order, for EVERY transmit-delay schedule; with one
   shared mutable packet it is not. *)
From CF Require Import C17.Model.

Section LinkProofs.
  Variable A : Type.

  Lemma map_upd_fresh (f : nat -> option A) c v q : ~ In c q -> map (l_upd f c v) q = map f q.
  Proof.
    intros H. apply map_ext_in. intros c' Hc'. unfold l_upd.
    destruct (Nat.eqb c' c) eqn:E; [|reflexivity]. apply Nat.eqb_eq in E. subst. contradiction.
  Qed.

  Lemma link_general (acts : list (lact A)) : forall s,
    NoDup (cells acts) -> (forall c, In c (l_queue s) -> ~ In c (cells acts)) ->
    ldrain (lrun acts s) = ldrain s ++ commanded acts.
  Proof.
    induction acts as [|a acts IH]; intros s Hnd Hq; cbn [lrun fold_left commanded].
    - rewrite app_nil_r. reflexivity.
    - change (fold_left lstep acts (lstep s a)) with (lrun acts (lstep s a)).
      destruct a as [c v|]; cbn [cells] in *.
      + inversion Hnd as [|? ? Hc Hnd']; subst.
        rewrite IH; [|exact Hnd'|].
        * unfold ldrain. cbn [lstep l_air l_queue l_store]. rewrite map_app. cbn [map].
          rewrite map_upd_fresh.
          -- unfold l_upd at 1. rewrite Nat.eqb_refl. rewrite <- !app_assoc. reflexivity.
          -- intros Hin. apply (Hq c Hin). left. reflexivity.
        * cbn [lstep l_queue]. intros c' Hin. apply in_app_or in Hin as [Hin|[<-|[]]].
          -- intros Hx. apply (Hq c' Hin). right. exact Hx.
          -- exact Hc.
      + destruct s as [st q air]. destruct q as [|c q].
        * cbn [lstep l_queue]. apply IH; assumption.
        * cbn [lstep l_queue l_store l_air]. rewrite IH; [|exact Hnd|].
          -- unfold ldrain. cbn [l_air l_queue l_store map]. rewrite <- !app_assoc. reflexivity.
          -- cbn [l_queue] in *. intros c' Hin. apply Hq. right. exact Hin.
  Qed.

  Theorem link_values_transmitted_as_commanded (acts : list (lact A)) :
    NoDup (cells acts) -> ldrain (lrun acts l_init) = commanded acts.
  Proof.
    intros H. rewrite link_general; [reflexivity|exact H|]. intros c [].
  Qed.

  (* at any moment what is already on the air is a prefix of what was commanded *)
  Corollary link_air_prefix (acts : list (lact A)) :
    NoDup (cells acts) -> exists rest, l_air (lrun acts l_init) ++ rest = commanded acts.
  Proof.
    intros H. eexists. rewrite <- (link_values_transmitted_as_commanded acts H). reflexivity.
  Qed.
End LinkProofs.

(* one shared packet object, second setpoint produced while the first is still queued: the first is lost *)
Theorem link_shared_packet_refuted :
  exists acts : list (lact Z),
    cells acts = [O; O] /\ commanded acts = [Some 1%Z; Some 2%Z] /\ ldrain (lrun acts l_init) = [Some 2%Z; Some 2%Z].
Proof. exists [LSend O 1%Z; LSend O 2%Z; LTx; LTx]. repeat split. Qed.

(* non-vacuity of the value case: three fresh packets, the radio two behind *)
Example link_example :
  ldrain (lrun [LSend 0%nat 10%Z; LSend 1%nat 20%Z; LSend 2%nat 30%Z; LTx] l_init) = [Some 10%Z; Some 20%Z; Some 30%Z].
Proof. reflexivity. Qed.

(* ------------------------------------------------------------------ packet type chosen at send time (round 7) *)
Lemma send_now_understood : forall h : list (Z * Z), fw_receive h (send_now h) = map (fun vy => Some (snd vy)) h.
Proof.
  induction h as [|[ver yaw] h IH]; [reflexivity|].
  unfold fw_receive, send_now in *. cbn [map combine fst snd]. f_equal; [|exact IH].
  unfold fw_knows, fw_yaw, hover_type, hover_yaw_field.
  destruct (ver <=? 8)%Z eqn:E; cbn.
  - f_equal. lia.
  - assert (H : (9 <=? ver)%Z = true) by lia. rewrite H. reflexivity.
Qed.

Lemma send_cached_refuted :
  exists h : list (Z * Z), fw_receive h (send_cached h) <> map (fun vy => Some (snd vy)) h
                           /\ fw_receive h (send_cached h) = [Some 72%Z; None].
Proof. exists [(10, 72); (8, 72)]%Z. split; [discriminate|reflexivity]. Qed.

(* ------------------------------------------------------------------ stop handshake under stalling sends (wave 12) *)
Lemma completions_le t k durs : forall c, In c (completions t k durs) -> (fst c <= t + thread_done durs)%nat.
Proof.
  revert t k. induction durs as [|d r IH]; intros t k c Hin.
  - contradiction.
  - change (thread_done (d :: r)) with (d + thread_done r)%nat.
    change (completions t k (d :: r)) with ((t + d, k)%nat :: completions (t + d) (S k) r) in Hin.
    destruct Hin as [<-|Hin].
    + change (fst (t + d, k)%nat) with (t + d)%nat. lia.
    + apply IH in Hin. lia.
Qed.

Lemma filter_all {X} (f : X -> bool) l : (forall x, In x l -> f x = true) -> filter f l = l /\ filter (fun x => negb (f x)) l = [].
Proof.
  induction l as [|x l IH]; intros H; [split; reflexivity|].
  destruct IH as [I1 I2]; [intros y Hy; apply H; right; exact Hy|].
  cbn. rewrite (H x (or_introl eq_refl)). cbn. rewrite I1, I2. split; reflexivity.
Qed.

(* unbounded join: for EVERY stall durations, when stop() returns the thread has returned, every pending setpoint went
   through before the stop command, nothing follows the release *)
Theorem join_unbounded_orders durs :
  land_trace None durs = map (fun c => HsHover (snd c)) (completions O O durs) ++ [HsStop; HsRelease]
  /\ thread_alive_after_stop None durs = false.
Proof.
  unfold land_trace, thread_alive_after_stop, join_returns. split; [|apply Nat.ltb_irrefl].
  destruct (filter_all (fun c : nat * nat => Nat.leb (fst c) (thread_done durs)) (completions O O durs)) as [H1 H2].
  { intros c Hc. apply Nat.leb_le. apply completions_le in Hc. exact Hc. }
  rewrite H1, H2. cbn. reflexivity.
Qed.

(* a join bounded by two update periods (4 ticks of 0.1 s), the send in flight stalled for 0.6 s, one event queued behind it:
   stop, release, and then two more hover setpoints from the thread that is still alive *)
Theorem join_bounded_refuted :
  land_trace (Some 4%nat) [6; 1]%nat = [HsStop; HsRelease; HsHover 0; HsHover 1]
  /\ thread_alive_after_stop (Some 4%nat) [6; 1]%nat = true.
Proof. split; reflexivity. Qed.
