(* C02/Reentrant.v — the lifecycle model with RE-ENTRANT application callbacks.
   Model.v runs each transition function of the library atomically.  Here the application may call
   Crazyflie.close_link from INSIDE any callback the library delivers ("all times at which the user closes the
   link"): the transition function that delivered the callback goes on afterwards, on the state the nested
   close_link left behind.  A policy  pol n c  says whether the application closes the link inside the n-th
   callback it receives (n counts all callbacks delivered so far), c being that callback; a nested close_link
   delivers disconnected itself, inside which the policy is consulted again (arbitrary nesting depth).

   Each transition function is written in the order of the statements of cflib/crazyflie/__init__.py:
     close_link                  link := None ; disconnected.call ; state := DISCONNECTED
     _link_error_cb              link := None ; (state test) ; callbacks ; state := DISCONNECTED
     _check_for_initial_packet   state := CONNECTED ; link_established.call ; remove the packet callback
     _param_toc_updated_cb       connected.call ; [fx: stop if link is None] ; request all parameter values
                                 (with the table cleared by a nested close this signals fully_connected at once)
     _all_parameters_updated     fully_connected.call
     open_link                   connection_requested.call ; state := INITIALIZED ; ... ; connection_failed.call
   fx = true is the code after fix F02j, fx = false the code before it. *)
From CF Require Import C02.Model.
Open Scope Z_scope.

Definition set_link (s : state) (b : bool) := mk (st s) b (initcb s) (stg s) (opening s).
Definition set_st (s : state) (c : cst) := mk c (link s) (initcb s) (stg s) (opening s).
Definition set_initcb (s : state) (b : bool) := mk (st s) (link s) b (stg s) (opening s).
Definition set_stg (s : state) (g : stage) := mk (st s) (link s) (initcb s) g (opening s).
Definition set_opening (s : state) (b : bool) := mk (st s) (link s) (initcb s) (stg s) b.

Definition policy := nat -> cb -> bool.
Definition closed (s : state) : state := set_st (set_link s false) DISCONNECTED.

(* deliver callback c (the n-th one); the application may call close_link from inside it *)
Fixpoint call (fuel : nat) (pol : policy) (n : nat) (s : state) (c : cb) : option (state * list cb * nat) :=
  match fuel with
  | O => None
  | S f =>
      if pol n c then
        match call f pol (S n) (set_link s false) Disconnected with
        | Some (s1, o1, n1) => Some (set_st s1 DISCONNECTED, c :: o1, n1)
        | None => None
        end
      else Some (s, [c], S n)
  end.

Definition bind1 (r : option (state * list cb * nat)) (k : state -> list cb -> nat -> option (state * list cb * nat)) :=
  match r with Some (s, o, n) => k s o n | None => None end.

Section Generic.
  (* how a callback is delivered: the real one (call fuel pol) or the collapsed one used in the proofs *)
  Variable callf : nat -> state -> cb -> option (state * list cb * nat).

  Definition gclose n (s : state) : option (state * list cb * nat) :=
    bind1 (callf n (set_link s false) Disconnected) (fun s1 o n1 => Some (set_st s1 DISCONNECTED, o, n1)).

  Definition gstep (fx : bool) n (s : state) (e : event) : option (state * list cb * nat) :=
    match e with
    | EOpenBegin =>
        if link s || opening s then None
        else bind1 (callf n s Requested) (fun s1 o n1 =>
               Some (set_opening (set_st (set_link s1 false) INITIALIZED) true, o, n1))
    | EOpenEnd ok =>
        if negb (opening s) then None
        else match st s, ok with
             | INITIALIZED, true => Some (mk INITIALIZED true true SNone false, [], n)
             | INITIALIZED, false => callf n (set_opening (set_link s false) false) Failed
             | _, true => Some (mk (st s) false true SNone false, [], n)
             | _, false => None
             end
    | EPacket =>
        if link s && initcb s then
          bind1 (callf n (set_st s CONNECTED) Established) (fun s1 o n1 => Some (set_initcb s1 false, o, n1))
        else Some (s, [], n)
    | ETocs =>
        match link s, st s, stg s with
        | true, CONNECTED, SNone =>
            bind1 (callf n (set_stg s STocs) Connected) (fun s1 o n1 =>
              if link s1 then Some (s1, o, n1)
              else if fx then Some (s1, o, n1)
              else bind1 (callf n1 s1 Fully) (fun s2 o2 n2 => Some (s2, o ++ o2, n2)))
        | _, _, _ => Some (s, [], n)
        end
    | EParams =>
        match link s, st s, stg s with
        | true, CONNECTED, STocs => callf n (set_stg s SParams) Fully
        | _, _, _ => Some (s, [], n)
        end
    | ELinkErr =>
        match st s, link s || opening s with
        | INITIALIZED, false => None
        | INITIALIZED, true =>
            bind1 (callf n (set_link s false) Failed) (fun s1 o n1 => Some (set_st s1 DISCONNECTED, o, n1))
        | CONNECTED, _ =>
            bind1 (callf n (set_link s false) Disconnected) (fun s1 o1 n1 =>
            bind1 (callf n1 s1 Lost) (fun s2 o2 n2 => Some (set_st s2 DISCONNECTED, o1 ++ o2, n2)))
        | DISCONNECTED, _ =>
            bind1 (callf n (set_link s false) DiscLinkErr) (fun s1 o n1 => Some (set_st s1 DISCONNECTED, o, n1))
        end
    | EClose =>
        if opening s then None else gclose n s
    end.
End Generic.

Definition rstep (fx : bool) fuel pol := gstep (call fuel pol) fx.

(* fuel is per event: the depth of nested close_link calls inside one transition *)
Fixpoint rrun (fx : bool) fuel pol (n : nat) (s : state) (evs : list event) : option (state * list cb * nat) :=
  match evs with
  | [] => Some (s, [], n)
  | e :: evs' =>
      bind1 (rstep fx fuel pol n s e) (fun s1 o1 n1 =>
      bind1 (rrun fx fuel pol n1 s1 evs') (fun s2 o2 n2 => Some (s2, o1 ++ o2, n2)))
  end.

Definition rrun_trace (fx : bool) (pol : policy) (evs : list event) : list Z :=
  match rrun fx 8 pol 0 init evs with
  | Some (_, o, _) => map cb_num o
  | None => [-1]
  end.

(* policy used by the correspondence check: the application closed the link inside the callbacks with these
   (global) indices *)
Definition pol_at (l : list nat) : policy := fun n _ => existsb (Nat.eqb n) l.
