(* C02/Model.v — connection lifecycle of cflib.crazyflie.Crazyflie (+ SyncCrazyflie's connect/disconnect
   events) as a state machine.  One event = one entry into a transition function of the library, run
   atomically:
     EOpenBegin    Crazyflie.open_link is entered (connection_requested, state INITIALIZED)
     EOpenEnd ok   get_link_driver returns inside open_link (ok = a driver was found and connect() did not
                   raise); between the two the driver's connect() runs and may already report a link error
     EPacket       the dispatcher thread delivers a received packet to packet_received
                   (_check_for_initial_packet_cb)
     ETocs         the packet completing the parameter TOC is processed (_param_toc_updated_cb)
     EParams       the last parameter value arrives (_all_parameters_updated)
     ELinkErr      the link driver calls _link_error_cb
     EClose        Crazyflie.close_link
   The observable output is the list of application callbacks, in order.
   Hand-written from cflib/crazyflie/__init__.py and syncCrazyflie.py; tied by harness/props/c02.py. *)
From Coq Require Export ZArith List Bool.
Export ListNotations.
Open Scope Z_scope.

Inductive cb := Requested | Failed | Established | Connected | Fully | Disconnected | Lost | DiscLinkErr.

Definition cb_num (c : cb) : Z :=
  match c with Requested => 0 | Failed => 1 | Established => 2 | Connected => 3 | Fully => 4
             | Disconnected => 5 | Lost => 6 | DiscLinkErr => 7 end.

(* Crazyflie.state (SETUP_FINISHED is never assigned by the code) *)
Inductive cst := DISCONNECTED | INITIALIZED | CONNECTED.

(* progress of the setup chain of the current session *)
Inductive stage := SNone | STocs | SParams.

(* what a blocked SyncCrazyflie.open_link / close_link is waiting for *)
Inductive sync := SyIdle | SyOpening | SyOpen | SyClosing.

Record state := mk {
  st : cst;
  link : bool;          (* Crazyflie.link is not None *)
  initcb : bool;        (* _check_for_initial_packet_cb is registered on packet_received *)
  stg : stage;
  opening : bool;       (* open_link has been entered and get_link_driver has not returned yet *)
}.

Definition init : state := mk DISCONNECTED false true SNone false.

Inductive event := EOpenBegin | EOpenEnd (ok : bool) | EPacket | ETocs | EParams | ELinkErr | EClose.

(* None: outside the modelled usage (open_link while a link is open: the code leaks the old link and
   restarts the setup chain on top of the old one — not modelled) *)
Definition step (s : state) (e : event) : option (state * list cb) :=
  match e with
  | EOpenBegin =>
      if link s || opening s then None
      else Some (mk INITIALIZED false (initcb s) (stg s) true, [Requested])
  | EOpenEnd ok =>
      if negb (opening s) then None
      else match st s, ok with
           | INITIALIZED, true => Some (mk INITIALIZED true true SNone false, [])
           | INITIALIZED, false => Some (mk INITIALIZED false (initcb s) (stg s) false, [Failed])
           (* the driver reported an error during connect(): the attempt has already failed; the dead
              link object that open_link installs delivers nothing and is abstracted as "no link" *)
           | _, true => Some (mk (st s) false true SNone false, [])
           | _, false => None     (* a driver that reports a link error during connect() AND fails to connect: not modelled *)
           end
  | EPacket =>
      (* packets are only received while the link exists *)
      if link s && initcb s then Some (mk CONNECTED true false (stg s) (opening s), [Established])
      else Some (s, [])
  | ETocs =>
      match link s, st s, stg s with
      | true, CONNECTED, SNone => Some (mk CONNECTED true (initcb s) STocs (opening s), [Connected])
      | _, _, _ => Some (s, [])
      end
  | EParams =>
      match link s, st s, stg s with
      | true, CONNECTED, STocs => Some (mk CONNECTED true (initcb s) SParams (opening s), [Fully])
      | _, _, _ => Some (s, [])
      end
  | ELinkErr =>
      (* an error is reported by a driver: after an open_link that found no driver (state INITIALIZED, no
         link, not opening) there is none — outside the modelled environment *)
      match st s, link s || opening s with
      | INITIALIZED, false => None
      | INITIALIZED, true => Some (mk DISCONNECTED false (initcb s) (stg s) (opening s), [Failed])
      | CONNECTED, _ => Some (mk DISCONNECTED false (initcb s) (stg s) (opening s), [Disconnected; Lost])
      | DISCONNECTED, _ => Some (mk DISCONNECTED false (initcb s) (stg s) (opening s), [DiscLinkErr])
      end
  | EClose =>
      if opening s then None     (* close_link from another thread while open_link is inside connect(): not modelled *)
      else Some (mk DISCONNECTED false (initcb s) (stg s) false, [Disconnected])
  end.

Fixpoint run (s : state) (evs : list event) : option (state * list cb) :=
  match evs with
  | [] => Some (s, [])
  | e :: evs' =>
      match step s e with
      | None => None
      | Some (s', o) =>
          match run s' evs' with
          | None => None
          | Some (s'', o') => Some (s'', o ++ o')
          end
      end
  end.

(* for the correspondence check: callback numbers of a run from the initial state; [-1] if outside the model *)
Definition run_trace (evs : list event) : list Z :=
  match run init evs with
  | Some (_, o) => map cb_num o
  | None => [-1]
  end.

(* ---------------------------------------------------------------- specification: the callback grammar
   per attempt:  requested . ( failed | eps | established . (connected . fully?)? ) . (disconnected . lost?)*
   with disconnected_link_error allowed only while disconnected/failed *)
Inductive astate := A0 | AR | AF | AE | AC | AU | ADf (* just disconnected *) | AD.

Definition astep (a : astate) (c : cb) : option astate :=
  match c, a with
  | Requested, _ => Some AR
  | Failed, AR => Some AF
  | Established, AR => Some AE
  | Connected, AE => Some AC
  | Fully, AC => Some AU
  | Disconnected, A0 => Some A0
  | Disconnected, _ => Some ADf
  | Lost, ADf => Some AD
  | DiscLinkErr, (A0 | AF | ADf | AD) => Some (match a with ADf => AD | x => x end)
  | _, _ => None
  end.

Fixpoint arun (a : astate) (l : list cb) : option astate :=
  match l with
  | [] => Some a
  | c :: l' => match astep a c with Some a' => arun a' l' | None => None end
  end.

Definition wf_trace (l : list cb) : bool := match arun A0 l with Some _ => true | None => false end.

(* ---------------------------------------------------------------- SyncCrazyflie.open_link / close_link
   _connect_event is set by connected, connection_failed and (after fix F02a) disconnected;
   _disconnect_event by disconnected. *)
Definition sync_after (w : sync) (c : cb) : sync :=
  match w, c with
  | SyOpening, Connected => SyOpen          (* open_link returns *)
  | SyOpening, Failed => SyIdle             (* open_link raises *)
  | SyOpening, Disconnected => SyIdle       (* open_link raises (fix F02a) *)
  | SyOpen, Disconnected => SyIdle
  | SyClosing, Disconnected => SyIdle       (* close_link returns *)
  | w, _ => w
  end.

Definition sync_run (w : sync) (l : list cb) : sync := fold_left sync_after l w.
