(* C02/Proofs.v — the lifecycle model satisfies the callback grammar for every event list.
   All state spaces are finite; one-step preservation is checked by complete enumeration inside the
   kernel and lifted to arbitrary event lists by induction. *)
From CF Require Import C02.Model.
Open Scope Z_scope.

Definition all_cst := [DISCONNECTED; INITIALIZED; CONNECTED].
Definition all_stage := [SNone; STocs; SParams].
Definition all_bool := [true; false].
Definition all_states : list state :=
  flat_map (fun a => flat_map (fun b => flat_map (fun c => flat_map (fun d => map (fun o => mk a b c d o) all_bool) all_stage) all_bool) all_bool) all_cst.
Definition all_astates := [A0; AR; AF; AE; AC; AU; ADf; AD].
Definition all_events := [EOpenBegin; EOpenEnd true; EOpenEnd false; EPacket; ETocs; EParams; ELinkErr; EClose].
Definition all_sync := [SyIdle; SyOpening; SyOpen; SyClosing].

Lemma all_states_complete s : In s all_states.
Proof. destruct s as [[] [] [] [] []]; vm_compute; tauto. Qed.
Lemma all_astates_complete a : In a all_astates.
Proof. destruct a; vm_compute; tauto. Qed.
Lemma all_events_complete e : In e all_events.
Proof. destruct e as [|[]| | | | |]; vm_compute; tauto. Qed.
Lemma all_sync_complete w : In w all_sync.
Proof. destruct w; vm_compute; tauto. Qed.

(* ---- the relation between model state and grammar state ---- *)
Definition cst_eqb (a b : cst) : bool :=
  match a, b with DISCONNECTED, DISCONNECTED | INITIALIZED, INITIALIZED | CONNECTED, CONNECTED => true | _, _ => false end.
Definition stage_eqb (a b : stage) : bool :=
  match a, b with SNone, SNone | STocs, STocs | SParams, SParams => true | _, _ => false end.

Definition rel (s : state) (a : astate) : bool :=
  match a with
  | A0 => cst_eqb (st s) DISCONNECTED && negb (link s) && negb (opening s)
  | AR => cst_eqb (st s) INITIALIZED &&
          ((opening s && negb (link s)) ||
           (negb (opening s) && link s && initcb s && stage_eqb (stg s) SNone))
  | AF => negb (link s) && ((cst_eqb (st s) INITIALIZED && negb (opening s)) || cst_eqb (st s) DISCONNECTED)
  | AE => cst_eqb (st s) CONNECTED && link s && negb (initcb s) && stage_eqb (stg s) SNone && negb (opening s)
  | AC => cst_eqb (st s) CONNECTED && link s && negb (initcb s) && stage_eqb (stg s) STocs && negb (opening s)
  | AU => cst_eqb (st s) CONNECTED && link s && negb (initcb s) && stage_eqb (stg s) SParams && negb (opening s)
  | ADf | AD => cst_eqb (st s) DISCONNECTED && negb (link s) && negb (opening s)
  end.

Definition step_ok (s : state) (a : astate) (e : event) : bool :=
  negb (rel s a) ||
  match step s e with
  | None => true
  | Some (s', o) => match arun a o with Some a' => rel s' a' | None => false end
  end.

Lemma step_ok_all :
  forallb (fun s => forallb (fun a => forallb (step_ok s a) all_events) all_astates) all_states = true.
Proof. vm_compute. reflexivity. Qed.

Lemma step_rel s a e s' o :
  rel s a = true -> step s e = Some (s', o) -> exists a', arun a o = Some a' /\ rel s' a' = true.
Proof.
  intros Hr Hs. pose proof step_ok_all as H.
  rewrite forallb_forall in H. specialize (H s (all_states_complete s)).
  rewrite forallb_forall in H. specialize (H a (all_astates_complete a)).
  rewrite forallb_forall in H. specialize (H e (all_events_complete e)).
  unfold step_ok in H. rewrite Hr, Hs in H. cbn [negb orb] in H.
  destruct (arun a o) as [a'|]; [|discriminate]. exists a'. split; [reflexivity|exact H].
Qed.

Lemma arun_app a l1 l2 : arun a (l1 ++ l2) = match arun a l1 with Some a' => arun a' l2 | None => None end.
Proof.
  revert a; induction l1 as [|c l1 IH]; intros a; cbn [app arun]; [reflexivity|].
  destruct (astep a c); [apply IH|reflexivity].
Qed.

Lemma run_rel evs : forall s a s' o,
  rel s a = true -> run s evs = Some (s', o) -> exists a', arun a o = Some a' /\ rel s' a' = true.
Proof.
  induction evs as [|e evs IH]; intros s a s' o Hr Hrun; cbn [run] in Hrun.
  - injection Hrun as <- <-. exists a. split; [reflexivity|exact Hr].
  - destruct (step s e) as [[s1 o1]|] eqn:Hs; [|discriminate].
    destruct (run s1 evs) as [[s2 o2]|] eqn:Hr2; [|discriminate].
    injection Hrun as <- <-.
    destruct (step_rel _ _ _ _ _ Hr Hs) as (a1 & Ha1 & Hr1).
    destruct (IH _ _ _ _ Hr1 Hr2) as (a2 & Ha2 & Hr2').
    exists a2. split; [|exact Hr2']. rewrite arun_app, Ha1. exact Ha2.
Qed.

Theorem trace_grammar evs s o : run init evs = Some (s, o) -> wf_trace o = true.
Proof.
  intros H. destruct (run_rel evs init A0 s o eq_refl H) as (a & Ha & _).
  unfold wf_trace. now rewrite Ha.
Qed.

(* ---- fan-out exactness (one step, any state) ---- *)
Lemma link_error_fanout s s' o : step s ELinkErr = Some (s', o) ->
  st s' = DISCONNECTED /\ link s' = false /\
  o = match st s with INITIALIZED => [Failed] | CONNECTED => [Disconnected; Lost] | DISCONNECTED => [DiscLinkErr] end.
Proof.
  unfold step. destruct (st s) eqn:E, (link s), (opening s); cbn; intros H; try discriminate;
    injection H as <- <-; auto.
Qed.

Lemma close_fanout s : opening s = false ->
  exists s', step s EClose = Some (s', [Disconnected]) /\ st s' = DISCONNECTED /\ link s' = false.
Proof. intros H. unfold step. rewrite H. eexists. split; [reflexivity|]. split; reflexivity. Qed.

Lemma open_fanout s s1 o1 ok s2 o2 :
  step s EOpenBegin = Some (s1, o1) -> step s1 (EOpenEnd ok) = Some (s2, o2) ->
  o1 = [Requested] /\ o2 = (if ok then [] else [Failed]) /\ link s2 = ok.
Proof.
  destruct s as [a b c d e]. unfold step at 1. cbn. destruct b, e; cbn; intros H1; try discriminate.
  injection H1 as <- <-. destruct ok; cbn; intros [= <- <-]; auto.
Qed.

(* a setup callback is produced only by its enabling event, in a connected session *)
Lemma setup_callbacks_only_when_enabled s e s' o : step s e = Some (s', o) ->
  (In Established o -> e = EPacket /\ link s = true) /\
  (In Connected o -> e = ETocs /\ st s = CONNECTED /\ link s = true) /\
  (In Fully o -> e = EParams /\ st s = CONNECTED /\ stg s = STocs).
Proof.
  destruct s as [a b c d o']. destruct e as [|[]| | | | |]; destruct a, b, c, d, o'; cbn;
    intros H; try discriminate; injection H as <- <-; cbn; intuition (try discriminate; auto).
Qed.

(* ---- the same object can connect again after any disconnect ---- *)
Lemma reconnect_after_disconnect s : st s = DISCONNECTED -> link s = false -> opening s = false ->
  exists s', run s [EOpenBegin; EOpenEnd true; EPacket; ETocs; EParams] =
             Some (s', [Requested; Established; Connected; Fully]).
Proof. destruct s as [a b c d e]. cbn. intros -> -> ->. eexists. reflexivity. Qed.

Lemma disconnect_events_reach_disconnected s e s' o : opening s = false ->
  (e = ELinkErr \/ e = EClose) -> step s e = Some (s', o) ->
  st s' = DISCONNECTED /\ link s' = false /\ opening s' = false.
Proof.
  intros Ho [->| ->] H.
  - destruct s as [a b c d e]. cbn in Ho. subst e. destruct a, b; cbn in H; try discriminate;
      injection H as <- _; auto.
  - unfold step in H. rewrite Ho in H. injection H as <- _. auto.
Qed.

(* ---- SyncCrazyflie: a blocked open_link/close_link is blocked only while the attempt itself is pending ---- *)
Definition pending (s : state) : bool :=
  (opening s && cst_eqb (st s) INITIALIZED && negb (link s)) ||
  (negb (opening s) && link s && stage_eqb (stg s) SNone &&
   (cst_eqb (st s) INITIALIZED && initcb s || cst_eqb (st s) CONNECTED)).

Definition srel (s : state) (w : sync) : bool :=
  match w with
  | SyOpening => pending s
  | SyOpen => link s && cst_eqb (st s) CONNECTED && negb (stage_eqb (stg s) SNone) && negb (opening s)
  | SyIdle => true
  | SyClosing => true
  end.

Definition sstep_ok (s : state) (w : sync) (e : event) : bool :=
  negb (srel s w) ||
  match e, w with
  | EOpenBegin, _ => true              (* a new open while a sync call is pending is not a SyncCrazyflie usage *)
  | _, _ => match step s e with
            | None => true
            | Some (s', o) => srel s' (sync_run w o)
            end
  end.

Lemma sstep_ok_all :
  forallb (fun s => forallb (fun w => forallb (sstep_ok s w) all_events) all_sync) all_states = true.
Proof. vm_compute. reflexivity. Qed.

Definition no_open (e : event) : bool := match e with EOpenBegin => false | _ => true end.

Lemma sstep_rel s w e s' o : no_open e = true ->
  srel s w = true -> step s e = Some (s', o) -> srel s' (sync_run w o) = true.
Proof.
  intros Hn Hr Hs. pose proof sstep_ok_all as H.
  rewrite forallb_forall in H. specialize (H s (all_states_complete s)).
  rewrite forallb_forall in H. specialize (H w (all_sync_complete w)).
  rewrite forallb_forall in H. specialize (H e (all_events_complete e)).
  unfold sstep_ok in H. rewrite Hr in H. cbn [negb orb] in H.
  destruct e as [|[]| | | | |]; try discriminate; rewrite Hs in H; exact H.
Qed.

Lemma sync_run_app w l1 l2 : sync_run w (l1 ++ l2) = sync_run (sync_run w l1) l2.
Proof. unfold sync_run. apply fold_left_app. Qed.

Lemma srun_rel evs : forall s w s' o, forallb no_open evs = true ->
  srel s w = true -> run s evs = Some (s', o) -> srel s' (sync_run w o) = true.
Proof.
  induction evs as [|e evs IH]; intros s w s' o Hn Hr Hrun; cbn [run] in Hrun.
  - injection Hrun as <- <-. exact Hr.
  - cbn [forallb] in Hn. apply andb_true_iff in Hn as [Hn1 Hn2].
    destruct (step s e) as [[s1 o1]|] eqn:Hs; [|discriminate].
    destruct (run s1 evs) as [[s2 o2]|] eqn:Hr2; [|discriminate].
    injection Hrun as <- <-. rewrite sync_run_app.
    eapply IH; [exact Hn2| |exact Hr2]. eapply sstep_rel; eassumption.
Qed.

(* SyncCrazyflie.open_link on a closed Crazyflie: after the open and ANY further events (no second open),
   if the call is still blocked then the attempt is still pending: link up, not failed, not yet connected,
   not disconnected.  Hence the first link error, close or table completion ends the wait. *)
Theorem sync_open_blocked_only_while_pending s evs s' o :
  forallb no_open evs = true ->
  run s (EOpenBegin :: evs) = Some (s', o) ->
  sync_run SyOpening o = SyOpening -> pending s' = true.
Proof.
  intros Hn Hrun Hw. cbn [run] in Hrun.
  destruct (step s EOpenBegin) as [[s1 o1]|] eqn:Hs; [|discriminate].
  destruct (run s1 evs) as [[s2 o2]|] eqn:Hr2; [|discriminate]. injection Hrun as <- <-.
  rewrite sync_run_app in Hw.
  assert (R1 : srel s1 (sync_run SyOpening o1) = true).
  { unfold step in Hs. destruct (link s || opening s); [discriminate|]. injection Hs as <- <-. reflexivity. }
  pose proof (srun_rel evs s1 _ s2 o2 Hn R1 Hr2) as R2. rewrite Hw in R2. exact R2.
Qed.

(* ... and each terminal event does end it *)
Lemma pending_ends s e s' o : pending s = true -> step s e = Some (s', o) ->
  (e = ELinkErr \/ e = EClose \/ e = EOpenEnd false \/ (e = ETocs /\ st s = CONNECTED)) ->
  sync_run SyOpening o <> SyOpening.
Proof.
  destruct s as [a b c d e']. intros Hp Hs He.
  destruct He as [->|[->|[->|[-> Hc]]]]; destruct a, b, c, d, e'; cbn in *; try discriminate;
    injection Hs as <- <-; cbn; discriminate.
Qed.

Lemma sync_close_returns s : opening s = false ->
  exists s', step s EClose = Some (s', [Disconnected]) /\ sync_run SyClosing [Disconnected] = SyIdle.
Proof. intros H. unfold step. rewrite H. eexists. split; reflexivity. Qed.
