(* C02/Locks.v — lock-order discipline implies absence of deadlock (state-level formulation).

   A state is a list of threads; each thread either has finished, is about to acquire a lock (Wants l),
   or can take a step that is not an acquisition (Free: a release, a send, ...), and holds a list of locks.
   The harness extracts, from every DetSched run of the real library, all pairs (held lock, wanted lock):
   `ordered` below is the discipline "some strict order on locks is respected by every such pair".
   Theorem `ordered_not_deadlocked` is what gives the dynamic lock-order check its meaning; the two
   `…_deadlocked` examples are the states of known finding F02e. *)
From Coq Require Import Arith List Lia Bool.
Import ListNotations.

Inductive tstate := Fin | Wants (l : nat) | Free.
Record thread := { ts : tstate; held : list nat }.
Definition state := list thread.

Definition holder_of (s : state) (l : nat) : Prop := exists t, In t s /\ In l (held t).

(* a thread that wants a lock somebody holds (possibly itself: the locks are not re-entrant) cannot step *)
Definition blocked (s : state) (t : thread) : Prop := exists l, ts t = Wants l /\ holder_of s l.

Definition deadlocked (s : state) : Prop :=
  (exists t, In t s /\ ts t <> Fin) /\ (forall t, In t s -> ts t <> Fin -> blocked s t).

(* a finished thread holds no lock (every acquire in the library is followed by its release) *)
Definition well_formed (s : state) : Prop := forall t, In t s -> ts t = Fin -> held t = [].

(* the discipline: locks are numbered so that a thread only ever wants a lock greater than all it holds *)
Definition ordered (s : state) : Prop :=
  forall t l h, In t s -> ts t = Wants l -> In h (held t) -> h < l.

(* the largest lock wanted by any thread of a list *)
Fixpoint max_wanted (s : state) : option nat :=
  match s with
  | [] => None
  | t :: s' =>
      match ts t, max_wanted s' with
      | Wants l, Some m => Some (Nat.max l m)
      | Wants l, None => Some l
      | _, r => r
      end
  end.

Lemma max_wanted_ge s : forall t l, In t s -> ts t = Wants l -> exists m, max_wanted s = Some m /\ l <= m.
Proof.
  induction s as [|u s IH]; intros t l Hin Hw; [destruct Hin|].
  destruct Hin as [->|Hin].
  - cbn [max_wanted]. rewrite Hw. destruct (max_wanted s) as [m|]; eexists; split; try reflexivity; lia.
  - destruct (IH t l Hin Hw) as (m & Hm & Hle). cbn [max_wanted]. rewrite Hm.
    destruct (ts u) as [|l'|]; eexists; split; try reflexivity; lia.
Qed.

Lemma max_wanted_witness s m : max_wanted s = Some m -> exists t, In t s /\ ts t = Wants m.
Proof.
  revert m; induction s as [|u s IH]; intros m H; [discriminate|].
  cbn [max_wanted] in H. destruct (ts u) as [|l|] eqn:Eu.
  - destruct (IH m H) as (t & Hin & Hw). exists t. split; [right; exact Hin|exact Hw].
  - destruct (max_wanted s) as [m'|] eqn:Em.
    + injection H as <-. destruct (Nat.max_spec l m') as [[_ ->]|[_ ->]].
      * destruct (IH m' eq_refl) as (t & Hin & Hw). exists t. split; [right; exact Hin|exact Hw].
      * exists u. split; [left; reflexivity|exact Eu].
    + injection H as <-. exists u. split; [left; reflexivity|exact Eu].
  - destruct (IH m H) as (t & Hin & Hw). exists t. split; [right; exact Hin|exact Hw].
Qed.

Theorem ordered_not_deadlocked s : well_formed s -> ordered s -> ~ deadlocked s.
Proof.
  intros WF ORD [[t0 [Hin0 Hnf0]] Hall].
  (* some thread is blocked, so some lock is wanted: take the largest wanted lock m, wanted by t *)
  destruct (Hall t0 Hin0 Hnf0) as (l0 & Hw0 & _).
  destruct (max_wanted_ge s t0 l0 Hin0 Hw0) as (m & Hm & _).
  destruct (max_wanted_witness s m Hm) as (t & Hin & Hw).
  (* t is blocked: m is held by some thread u *)
  assert (Hnf : ts t <> Fin) by (rewrite Hw; discriminate).
  destruct (Hall t Hin Hnf) as (l & Hwl & (u & Hinu & Hheld)).
  rewrite Hw in Hwl. injection Hwl as <-.
  (* u holds m, hence is not finished, hence blocked, wanting some m' > m: contradiction with maximality *)
  assert (Hnfu : ts u <> Fin).
  { intros F. rewrite (WF u Hinu F) in Hheld. destruct Hheld. }
  destruct (Hall u Hinu Hnfu) as (m' & Hwu & _).
  pose proof (ORD u m' m Hinu Hwu Hheld) as Hlt.
  destruct (max_wanted_ge s u m' Hinu Hwu) as (m2 & Hm2 & Hle).
  rewrite Hm in Hm2. injection Hm2 as <-. lia.
Qed.

(* ---- the states of finding F02e: lock 0 = Crazyflie._send_lock, lock 1 = Memory._write_requests_lock ---- *)

(* a sending thread that got a link error holds the send lock and wants the memory lock (disconnected callback);
   a writing thread holds the memory lock and wants the send lock (next chunk) *)
Definition f02e_two_threads : state :=
  [ {| ts := Wants 1; held := [0] |}; {| ts := Wants 0; held := [1] |} ].

(* the writing thread itself gets the link error inside its own send *)
Definition f02e_one_thread : state := [ {| ts := Wants 1; held := [1; 0] |} ].

Lemma f02e_two_threads_deadlocked : well_formed f02e_two_threads /\ deadlocked f02e_two_threads.
Proof.
  split.
  - intros t [<-|[<-|[]]]; discriminate.
  - split.
    + eexists. split; [left; reflexivity|discriminate].
    + intros t [<-|[<-|[]]] _.
      * exists 1. split; [reflexivity|]. eexists. split; [right; left; reflexivity|left; reflexivity].
      * exists 0. split; [reflexivity|]. eexists. split; [left; reflexivity|left; reflexivity].
Qed.

Lemma f02e_one_thread_deadlocked : well_formed f02e_one_thread /\ deadlocked f02e_one_thread.
Proof.
  split.
  - intros t [<-|[]]; discriminate.
  - split.
    + eexists. split; [left; reflexivity|discriminate].
    + intros t [<-|[]] _. exists 1. split; [reflexivity|]. eexists. split; [left; reflexivity|left; reflexivity].
Qed.

(* the discipline fails in that state (the state is symmetric in the two locks, so it fails for either numbering) *)
Lemma f02e_not_orderable : ~ ordered f02e_two_threads.
Proof.
  intros ORD.
  pose proof (ORD _ 1 0 (or_introl eq_refl) eq_refl (or_introl eq_refl)) as H1.
  pose proof (ORD _ 0 1 (or_intror (or_introl eq_refl)) eq_refl (or_introl eq_refl)) as H2. lia.
Qed.
