(* C02/PropertyReentrant.v — property C02, closes from inside application callbacks; theorems only. *)
From CF Require Import C02.Model C02.Reentrant C02.ReentrantProofs.
Open Scope Z_scope.

(* "all times at which the user closes the link" includes the inside of every callback the library delivers.
   For every event list, every policy of calling close_link from inside callbacks (except connection_requested:
   known finding F02l, refuted below) and every nesting depth of such calls, the observed callbacks follow the
   per-attempt grammar: no link_established / connected / fully_connected after the attempt's first
   disconnected, connection_lost only after disconnected.  (Code after fix F02j.) *)
Theorem C02_reentrant_close_grammar : forall fuel pol evs s o n,
  (forall m, pol m Requested = false) ->
  rrun true fuel pol 0 init evs = Some (s, o, n) -> wf_trace o = true.
Proof. exact reentrant_trace_grammar. Qed.
Print Assumptions C02_reentrant_close_grammar.

(* the code before fix F02j: close_link inside the connected callback, fully_connected is still delivered *)
Theorem C02_reentrant_close_unfixed_refuted :
  exists pol evs s o n, (forall m, pol m Requested = false) /\
    rrun false 8 pol 0 init evs = Some (s, o, n) /\ wf_trace o = false /\
    o = [Requested; Established; Connected; Disconnected; Fully].
Proof. exact reentrant_unfixed_refuted. Qed.
Print Assumptions C02_reentrant_close_unfixed_refuted.

(* known finding F02l: close_link inside connection_requested does not stop the attempt *)
Theorem C02_close_inside_connection_requested_refuted :
  exists evs s o n, rrun true 8 (pol_at [0%nat]) 0 init evs = Some (s, o, n) /\ wf_trace o = false /\
    o = [Requested; Disconnected; Established].
Proof. exact reentrant_close_inside_requested_refuted. Qed.
Print Assumptions C02_close_inside_connection_requested_refuted.

(* every close_link, whatever the application does inside the disconnected callbacks it triggers, leaves the
   object closed (no link, state DISCONNECTED, nothing else changed) and delivers disconnected first *)
Theorem C02_reentrant_close_effect : forall fuel pol n s s' o n',
  opening s = false -> rstep true fuel pol n s EClose = Some (s', o, n') ->
  s' = closed s /\ exists k, o = repeat Disconnected (S k).
Proof. exact reentrant_close_effect. Qed.
Print Assumptions C02_reentrant_close_effect.

(* with an application that never re-enters, the re-entrant semantics is exactly the atomic model of Model.v
   (so the theorems of Property.v are statements about the same machine) *)
Theorem C02_reentrant_refines_atomic : forall fx f evs n s,
  match rrun fx (S f) nopol n s evs, run s evs with
  | Some (s1, o1, _), Some (s2, o2) => s1 = s2 /\ o1 = o2
  | None, None => True
  | _, _ => False
  end.
Proof. exact rrun_atomic. Qed.
Print Assumptions C02_reentrant_refines_atomic.
