(* C02/PropertySync.v — property C02, "a blocking SyncCrazyflie open or close call returns or raises", with
   application handlers that close the link from inside callbacks; theorems only. *)
From Coq Require Import List Bool.
From CF Require Import C02.SyncModel C02.SyncProofs.
Import ListNotations.

(* For every sequence of SyncCrazyflie calls and Crazyflie transitions and every application policy of closing the
   link from inside callbacks (handlers registered before or after SyncCrazyflie's, any nesting depth): at every
   quiescent point SyncCrazyflie._is_link_open implies that the link exists and that SyncCrazyflie's handlers are
   still registered, and no disconnect event is left armed.  (Code after fix F02k.) *)
Theorem C02_sync_open_flag_sound : forall fuel pol ops n s s' n',
  quiet s -> srun fuel true pol n s ops = Some (s', n') -> quiet s'.
Proof. exact sync_invariant. Qed.
Print Assumptions C02_sync_open_flag_sound.

Theorem C02_sync_initial_state_quiet : quiet sinit.
Proof. exact quiet_init. Qed.
Print Assumptions C02_sync_initial_state_quiet.

(* SyncCrazyflie.close_link returns: the disconnected it triggers reaches SyncCrazyflie's handler, which sets the
   event close_link waits for — unless the application nests close_link calls without end *)
Theorem C02_sync_close_returns : forall fuel pol n s,
  quiet s -> sstep fuel true pol n s SCloseCall = None ->
  isopen s = true /\
  deliver fuel true pol n KDisconnected (down (mkS (lnk s) (reg s) (isopen s) (cev s) (Some false))) = None.
Proof. exact sync_close_never_blocks. Qed.
Print Assumptions C02_sync_close_returns.

(* a blocked SyncCrazyflie.open_link is woken by connection_failed, disconnected and (while registered) connected *)
Theorem C02_sync_open_woken : forall fx c s b,
  cev s = Some b -> (c = KFailed \/ c = KDisconnected \/ (c = KConnected /\ reg s = true)) ->
  cev (handler fx c s) = Some true.
Proof. exact sync_open_woken_by. Qed.
Print Assumptions C02_sync_open_woken.

(* the code before fix F02k: SyncCrazyflie believes in an open link that is gone and its close_link blocks for ever *)
Theorem C02_sync_unfixed_refuted :
  exists s n, srun 4 false closes_in_first_connected 0 sinit [SOpenBegin; Cf OLinkUp; Cf OConnected; SOpenWake] = Some (s, n) /\
    isopen s = true /\ lnk s = false /\ reg s = false /\
    sstep 4 false closes_in_first_connected n s SCloseCall = None /\
    deliver 4 false closes_in_first_connected n KDisconnected
            (down (mkS (lnk s) (reg s) (isopen s) (cev s) (Some false))) <> None.
Proof. exact sync_unfixed_refuted. Qed.
Print Assumptions C02_sync_unfixed_refuted.
